/- REGENERATED on every run by `corr C17.tables` from the code in /repo. Do not edit. -/
namespace Generated.C17
/-- `services.State` constants: (name, numeric value) read from the running code. -/
def stateValues : List (String × Nat) := [("New", 0), ("Starting", 1), ("Running", 2), ("Stopping", 3), ("Terminated", 4), ("Failed", 5)]
end Generated.C17
