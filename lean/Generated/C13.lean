/- REGENERATED on every run by `corr C13.tables` from the code in /repo. Do not edit. -/
namespace Generated.C13
def protoFields : List String := ["Addr", "Timestamp", "State", "Tokens", "Zone", "RegisteredTimestamp", "Id", "ReadOnlyUpdatedTimestamp", "ReadOnly", "Versions"]
def comparedFields : List String := ["Addr", "Zone", "RegisteredTimestamp", "ReadOnly", "ReadOnlyUpdatedTimestamp", "Versions", "Tokens", "Timestamp", "State"]
def refreshedFields : List String := ["State", "Timestamp"]
def refreshedFieldsLookback : List String := ["State", "Timestamp"]
def fieldUse : List (String × String) := [("Addr", "D"), ("Timestamp", "S"), ("State", "S"), ("Tokens", "D"), ("Zone", "D"), ("RegisteredTimestamp", "D"), ("Id", "E"), ("ReadOnlyUpdatedTimestamp", "D"), ("ReadOnly", "D"), ("Versions", "D")]
end Generated.C13
