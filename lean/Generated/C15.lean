/- REGENERATED on every run by `corr C15.tables` from the code in /repo. Do not edit. -/
namespace Generated.C15
def allowedTable : List (Nat × Nat × Bool) := [(0, 0, false), (0, 1, false), (0, 2, false), (0, 3, false), (0, 4, false), (1, 0, false), (1, 1, false), (1, 2, true), (1, 3, true), (1, 4, false), (2, 0, false), (2, 1, false), (2, 2, false), (2, 3, true), (2, 4, false), (3, 0, false), (3, 1, false), (3, 2, true), (3, 3, false), (3, 4, false), (4, 0, false), (4, 1, false), (4, 2, false), (4, 3, false), (4, 4, false)]
def statePending : Nat := 1
def stateActive : Nat := 2
def stateInactive : Nat := 3
def stateDeleted : Nat := 4
def ownerActive : Nat := 1
end Generated.C15
