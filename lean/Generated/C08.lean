/- REGENERATED on every run by `corr C08.tables` from the code in /repo. Do not edit. -/
namespace Generated.C08
/-- (current, requested, accepted) as answered by the running `Lifecycler.changeState` -/
def changeStateTable : List (Nat × Nat × Bool) :=
  [(0, 0, false), (0, 1, true), (0, 2, false), (0, 3, false), (0, 4, false), (1, 0, false), (1, 1, false), (1, 2, false), (1, 3, false), (1, 4, false), (2, 0, true), (2, 1, false), (2, 2, false), (2, 3, true), (2, 4, false), (3, 0, true), (3, 1, false), (3, 2, true), (3, 3, false), (3, 4, false), (4, 0, false), (4, 1, false), (4, 2, false), (4, 3, false), (4, 4, false)]
end Generated.C08
