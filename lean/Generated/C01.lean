/- REGENERATED on every run by `corr C01.tables` from the code in /repo. Do not edit. -/
namespace Generated.C01
def opWrite : Nat := 1966081
def opWriteNoExtend : Nat := 1
def opRead : Nat := 1835015
def opReporting : Nat := 65535
def healthyTable : List (List Bool) := [[true, false, false, false, false], [true, false, false, false, false], [true, true, true, false, false], [true, true, true, true, true]]
def extendTable : List (List Bool) := [[false, true, true, true, true], [false, false, false, false, false], [false, false, true, true, true], [false, false, false, false, false]]
def stateValues : List Nat := [0, 1, 2, 3, 4]
def maxToken : Nat := 4294967295
end Generated.C01
