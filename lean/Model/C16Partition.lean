import Model.C16
import Model.C15
/-!
# C16 — `PartitionRingDesc.AddPartition`

`AddPartition(id, state, now)` (ring/partition_ring_model.go) overwrites the map entry `id` with a
fresh `PartitionDesc{Id, Tokens, State, StateTimestamp}`; the tokens are
`NewSpreadMinimizingTokenGeneratorForInstanceAndZoneID("", int(id), 0, false).GenerateTokens(512, nil)`,
i.e. `C16.partitionTokens id`. The descriptor is the one of `Model/C14.lean` (entries in ascending
key order); `C15.setPart` is the map assignment.

A negative id makes `generateTokensByInstanceID` panic (`make([]…, t.instanceID)` with a negative
length); a generator error is a panic as well.
-/
namespace C16
open C14

def addPartition (d : PDesc) (id : Int) (state : Nat) (now : Int) : Except Err PDesc :=
  if id < 0 then .error .panic
  else match partitionTokens id.toNat with
    | .error _ => .error .panic
    | .ok ts =>
      .ok { d with parts := C15.setPart { id := id, state := state, stateTs := now, tokens := ts } d.parts }

end C16
