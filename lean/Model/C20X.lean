import Model.C20
/-!
# C20 (extension) — the glue around the modelled core

* `user/id.go`: the second context key (`ExtractUserID` / `InjectUserID`), `user/http.go`'s user-id header
  functions, `user/logging.go` `LogWith`;
* `tenant/tenant.go`: `JoinTenantIDs`, `TenantIDsFromOrgID`, `ExtractTenantIDFromHTTPRequest`;
  `tenant/resolver.go`: `MultiResolver` (delegates to `TenantID` / `TenantIDs`);
* `middleware/grpc_auth.go`: the four user-header interceptors as higher-order functions (the
  continuation = invoker / streamer / handler runs only when injection / extraction succeeds);
  `middleware/http_auth.go` `AuthenticateUser`;
* `httpgrpc`: an HTTP request tunnelled through gRPC (`FromHTTPRequest` copies the header values,
  `ClientUserHeaderInterceptor` / `ServerUserHeaderInterceptor` move the context's identifier through the
  metadata, `Server.Handle` / `ToHTTPRequest` rebuild the request with the gRPC context and the copied header,
  the inner handler authenticates from the header again).
-/
namespace C20
open Common

/-! ## the user id (second key of `user/id.go`) -/

inductive UErr
  | noUserID | differentUser
  deriving DecidableEq, Repr

def UErr.name : UErr → String
  | .noUserID => "noUserID" | .differentUser => "differentUser"

/-- `InjectUserID`. -/
def injectUserID (c : Ctx) (u : Bytes) : Ctx := (.user, u) :: c

/-- `ExtractUserID`. -/
def extractUserID (c : Ctx) : Except UErr Bytes :=
  match c.value .user with | none => .error .noUserID | some u => .ok u

/-- `InjectUserIDIntoHTTPRequest` on the values of the `X-Scope-UserID` header. -/
def injectUserHTTP (c : Ctx) (hdr : List Bytes) : Except UErr (List Bytes) :=
  match extractUserID c with
  | .error e => .error e
  | .ok u => if headerGet hdr ≠ [] ∧ headerGet hdr ≠ u then .error .differentUser else .ok [u]

/-- `ExtractUserIDFromHTTPRequest`. -/
def extractUserHTTP (recv : Ctx) (hdr : List Bytes) : Except UErr Ctx :=
  if headerGet hdr = [] then .error .noUserID else .ok (injectUserID recv (headerGet hdr))

/-- `LogWith`: the key/values appended to the logger's, user id first, then org id; a key whose
identifier is missing from the context is not logged at all (no placeholder). -/
def logWith (c : Ctx) (kvs : List (String × Bytes)) : List (String × Bytes) :=
  let l1 := match extractUserID c with | .ok u => kvs ++ [("userID", u)] | .error _ => kvs
  match extractOrgID c with | .ok o => l1 ++ [("orgID", o)] | .error _ => l1

/-! ## tenant.go glue -/

/-- `JoinTenantIDs` = `strings.Join(ids, "|")`. -/
def joinTenantIDs : List Bytes → Bytes
  | [] => []
  | [x] => x
  | x :: y :: r => x ++ sepTenants :: joinTenantIDs (y :: r)

/-- `TenantIDsFromOrgID(orgID) = TenantIDs(InjectOrgID(context.TODO(), orgID))`. -/
def tenantIDsFromOrgID (s : Bytes) : Except Err (List Bytes) := resolveTenantIDs (injectOrgID [] s)

/-- `ExtractTenantIDFromHTTPRequest`: the plain extractor, then single-tenant resolution on the new context. -/
def extractTenantIDFromHTTP (recv : Ctx) (hdr : List Bytes) : Except Err (Bytes × Ctx) :=
  match extractHTTP recv hdr with
  | .error e => .error e
  | .ok c => match resolveTenantID c with
    | .error e => .error e
    | .ok t => .ok (t, c)

/-! ## interceptors -/

/-- `ClientUserHeaderInterceptor` / `StreamClientUserHeaderInterceptor`: `InjectIntoGRPCRequest`, on
failure return the error WITHOUT calling the invoker / streamer, else call it on the context carrying
the metadata values. -/
def clientInterceptor {α} (c : Ctx) (md : Option (List Bytes)) (invoker : Ctx → List Bytes → Except Err α) : Except Err α :=
  match injectGRPC c md with
  | .error e => .error e
  | .ok v => invoker c v

/-- `ServerUserHeaderInterceptor` / `StreamServerUserHeaderInterceptor`: `ExtractFromGRPCRequest`, on
failure return the error WITHOUT calling the handler, else call it on the derived context. -/
def serverInterceptor {α} (recv : Ctx) (vals : List Bytes) (handler : Ctx → Except Err α) : Except Err α :=
  match extractGRPC recv vals with
  | .error e => .error e
  | .ok c => handler c

/-- `AuthenticateUser.Wrap(next)`: 401 with the error text (here: the error) and `next` NOT called
when extraction fails; else `next` on the request with the derived context (headers untouched). -/
def authenticateUser {α} (recv : Ctx) (hdr : List Bytes) (next : Ctx → List Bytes → Except Err α) : Except Err α :=
  match extractHTTP recv hdr with
  | .error e => .error e
  | .ok c => next c hdr

/-- which real entry point receives an HTTP request. -/
inductive HRecv
  | extract   -- user.ExtractOrgIDFromHTTPRequest
  | tenant    -- tenant.ExtractTenantIDFromHTTPRequest (also resolves a single tenant)
  | auth      -- middleware.AuthenticateUser
  deriving DecidableEq, Repr

/-- which real entry point sends / receives on gRPC. -/
inductive GSend
  | inject | unary | stream
  deriving DecidableEq, Repr
inductive GRecv
  | extract | unary | stream
  deriving DecidableEq, Repr

def recvHTTP (r : HRecv) (recv : Ctx) (hdr : List Bytes) : Except Err Ctx :=
  match r with
  | .extract => extractHTTP recv hdr
  | .tenant => match extractTenantIDFromHTTP recv hdr with | .error e => .error e | .ok p => .ok p.2
  | .auth => authenticateUser recv hdr (fun c _ => .ok c)

def sendGRPC (s : GSend) (c : Ctx) (md : Option (List Bytes)) : Except Err (List Bytes) :=
  match s with
  | .inject => injectGRPC c md
  | .unary => clientInterceptor c md (fun _ v => .ok v)
  | .stream => clientInterceptor c md (fun _ v => .ok v)

def recvGRPC (r : GRecv) (recv : Ctx) (vals : List Bytes) : Except Err Ctx :=
  match r with
  | .extract => extractGRPC recv vals
  | .unary => serverInterceptor recv vals .ok
  | .stream => serverInterceptor recv vals .ok

/-- An HTTP request (context `c`, org-id header values `h`) tunnelled through gRPC:
`httpgrpc.FromHTTPRequest` copies the header, the client interceptor moves `c`'s identifier into the
metadata, the server interceptor derives the server context from `recv`, `Server.Handle` /
`ToHTTPRequest` rebuild the request (context = the gRPC server context, header = the copied one) and
the inner handler `inner` authenticates from the HEADER again. -/
def tunnel (c : Ctx) (h : List Bytes) (recv : Ctx) (inner : HRecv) : Except Err Ctx :=
  clientInterceptor c none (fun _ v => serverInterceptor recv v (fun c1 => recvHTTP inner c1 h))

/-- One stage of an interceptor chain. `httpgrpc ex recv inner`: an HTTP request whose header
already holds `ex`; the sender injects its identifier (`InjectOrgIDIntoHTTPRequest`) and the request
is tunnelled (`tunnel`). -/
inductive Stage
  | http (existing : List Bytes) (recv : Ctx) (r : HRecv)
  | grpc (existing : Option (List Bytes)) (recv : Ctx) (s : GSend) (r : GRecv)
  | httpgrpc (existing : List Bytes) (recv : Ctx) (inner : HRecv)

def stage (c : Ctx) : Stage → Except Err Ctx
  | .http ex recv r => match injectHTTP c ex with
    | .error e => .error e
    | .ok h => recvHTTP r recv h
  | .grpc ex recv s r => match sendGRPC s c ex with
    | .error e => .error e
    | .ok v => recvGRPC r recv v
  | .httpgrpc ex recv inner => match injectHTTP c ex with
    | .error e => .error e
    | .ok h => tunnel c h recv inner

def ichain (c : Ctx) : List Stage → Nat → Except (Err × Nat) Ctx
  | [], _ => .ok c
  | s :: ss, i => match stage c s with
    | .error e => .error (e, i)
    | .ok c' => ichain c' ss (i + 1)

def isOk {ε α} : Except ε α → Bool
  | .ok _ => true
  | .error _ => false

/-- the HTTP receiver accepts identifier `id`: the tenant variant also needs it to resolve to a single tenant. -/
def recvAccepts (id : Bytes) : HRecv → Bool
  | .tenant => isOk (tenantID id)
  | _ => true

def httpClean (id : Bytes) (ex : List Bytes) : Bool := id != [] && (headerGet ex == [] || headerGet ex == id)

/-- the stage lets identifier `id` through (cf. `hopClean`). -/
def stageClean (id : Bytes) : Stage → Bool
  | .http ex _ r => httpClean id ex && recvAccepts id r
  | .grpc ex _ _ _ => ex == none || ex == some [id]
  | .httpgrpc ex _ r => httpClean id ex && recvAccepts id r

end C20
