import Model.Ring
/-!
# C03 / C04 / C05 — ring descriptor merge (`ring/model.go`: `mergeWithTime`, `normalizeIngestersMap`,
`conflictingTokensExist`, `resolveConflicts`, `RemoveTombstones`)

A `Desc` is the list of map entries; ids are unique in well-formed descriptors (`UniqueIds`).
Wherever the Go code iterates a map the model iterates the list in the order given; the theorems
show the result does not depend on that order (`get?` view / permutation invariance).
-/
namespace C03
open Ring

/-! ## finite maps as association lists keyed by instance id -/

def get? (d : Desc) (id : String) : Option Inst :=
  match d with
  | [] => none
  | x :: xs => if x.id = id then some x else get? xs id

/-- `m[name] = e`: replace in place, or append. -/
def upsert (e : Inst) : Desc → Desc
  | [] => [e]
  | x :: xs => if x.id = e.id then e :: xs else x :: upsert e xs

def ids (d : Desc) : List String := d.map (·.id)

/-! ## normalisation -/

/-- remove adjacent duplicates of a sorted list -/
def dedupAdj : List Nat → List Nat
  | [] => []
  | [x] => [x]
  | x :: y :: r => if x = y then dedupAdj (y :: r) else x :: dedupAdj (y :: r)

def normTokens (l : List Nat) : List Nat := dedupAdj (sortNat l)

/-- `normalizeIngestersMap` on one entry: LEFT entries lose their tokens; others get sorted,
duplicate-free token lists. -/
def normInst (i : Inst) : Inst :=
  if i.state = .LEFT then { i with tokens := [] } else { i with tokens := normTokens i.tokens }

def normalize (d : Desc) : Desc := d.map normInst

/-! ## the merge loop -/

structure Acc where
  this : Desc
  updated : List String
  tokCh : Bool

/-- a missing entry reads as the zero value: timestamp 0, state ACTIVE, no tokens -/
def curTs : Option Inst → Int
  | none => 0
  | some t => t.ts
def curLeft : Option Inst → Bool
  | none => false
  | some t => t.state == .LEFT
def curToks : Option Inst → List Nat
  | none => []
  | some t => t.tokens

/-- one iteration of `for name, oing := range otherIngesterMap`. -/
def stepEntry (acc : Acc) (o : Inst) : Acc :=
  if o.ts > curTs (get? acc.this o.id) then
    { this := upsert o acc.this, updated := acc.updated ++ [o.id],
      tokCh := acc.tokCh || (curToks (get? acc.this o.id) != o.tokens) }
  else if o.ts = curTs (get? acc.this o.id) ∧ curLeft (get? acc.this o.id) = false ∧ o.state = .LEFT then
    { this := upsert o acc.this, updated := acc.updated ++ [o.id], tokCh := acc.tokCh }
  else acc

/-- the `localCAS` pass: entries missing from `other` that have not left become tombstones stamped `now`. -/
def casEntry (other : Desc) (now : Int) (acc : Acc) (t : Inst) : Acc :=
  if (get? other t.id).isNone ∧ t.state ≠ .LEFT then
    { acc with this := upsert { t with state := .LEFT, tokens := [], ts := now } acc.this,
               updated := acc.updated ++ [t.id] }
  else acc

/-! ## conflicts -/

def allTokens (d : Desc) : List Nat := d.flatMap (·.tokens)

/-- `conflictingTokensExist`: some token occurs twice in the concatenation of all token lists. -/
def hasDup : List Nat → Bool
  | [] => false
  | x :: xs => xs.contains x || hasDup xs

def conflictsExist (d : Desc) : Bool := hasDup (allTokens d)

/-- the pairwise rule of `resolveConflicts`: does the newcomer `ing` take the token from `prev`? -/
def newcomerWins (ing prev : Inst) : Bool :=
  if ing.state = .LEAVING ∧ prev.state ≠ .LEAVING then false
  else if prev.state = .LEAVING ∧ ing.state ≠ .LEAVING then true
  else if ing.id < prev.id then true
  else if prev.id < ing.id then false
  else true

/-- the candidate after the newcomer `i` met the current candidate -/
def pickW (i : Inst) : Option Inst → Inst
  | none => i
  | some p => if newcomerWins i p then i else p

/-- winner of `tok` among the non-LEFT claimants, scanning entries in the given order. -/
def winner (tok : Nat) : Desc → Option Inst → Option Inst
  | [], w => w
  | i :: rest, w =>
    if i.state ≠ .LEFT ∧ i.tokens.contains tok = true then winner tok rest (some (pickW i w))
    else winner tok rest w

/-- `resolveConflicts`: every entry keeps exactly the tokens it wins, sorted and duplicate-free. -/
def resolve (d : Desc) : Desc :=
  d.map fun i =>
    if i.state = .LEFT then { i with tokens := [] }
    else { i with tokens := normTokens (i.tokens.filter fun t => (winner t d none).map (·.id) == some i.id) }

/-! ## merge -/

structure MergeOut where
  state : Desc
  change : Option Desc

/-- the two loops of `mergeWithTime`: incoming entries, then (local CAS only) missing entries -/
def mergeAcc (cas : Bool) (now : Int) (this other : Desc) : Acc :=
  let acc := (normalize other).foldl stepEntry { this := this, updated := [], tokCh := false }
  if cas then acc.this.foldl (casEntry (normalize other) now) acc else acc

/-- the tail of `mergeWithTime`: nothing updated ⇒ nil change; otherwise conflict resolution (only
if some accepted entry changed its tokens and a collision exists) and the change sub-ring. -/
def finish (this : Desc) (acc : Acc) : MergeOut :=
  if acc.updated.isEmpty then { state := this, change := none }
  else
    let st := if acc.tokCh ∧ conflictsExist acc.this then resolve acc.this else acc.this
    { state := st, change := some (acc.updated.filterMap (get? st)) }

/-- `Desc.mergeWithTime(other, localCAS, now)` (a nil `other` is the caller's early return). -/
def merge (cas : Bool) (now : Int) (this : Desc) (other : Desc) : MergeOut :=
  finish this (mergeAcc cas now this other)

/-- the state part only -/
def mergeState (this other : Desc) : Desc := (merge false 0 this other).state

/-! ## tombstone handling -/

/-- `RemoveTombstones(limit)`: `limit = none` is the zero time (remove all LEFT entries). -/
def removeTombstones (limit : Option Int) (d : Desc) : Desc :=
  d.filter fun i => !(i.state == .LEFT && (match limit with | none => true | some l => i.ts < l))

/-! ## well-formedness (the C05 invariant) -/

def sortedStrict : List Nat → Bool
  | [] => true
  | [_] => true
  | a :: b :: r => a < b && sortedStrict (b :: r)

def uniqueIds (d : Desc) : Bool := (ids d).Nodup

/-- token lists strictly sorted, LEFT entries hold nothing, no token held by two entries. -/
def wf (d : Desc) : Bool :=
  uniqueIds d && d.all (fun i => sortedStrict i.tokens && (i.state != .LEFT || i.tokens.isEmpty)) && !conflictsExist d

/-! ## vocabulary of the property statements (C03, and C04/C06 which build on it)

These definitions are what the theorems of `Props/C03.lean` are *stated* with; they live here, next to
the model, so that a statement can be read without opening a proof file. -/

/-- rank of an entry in the last-writer-wins order: the newer timestamp is larger and, at equal
timestamps, a tombstone (LEFT) is larger: `2·ts + [state = LEFT]`. -/
def rk (e : Inst) : Int := 2 * e.ts + (if e.state = .LEFT then 1 else 0)

/-- rank of a possibly missing entry; a missing entry has rank 0 (below every entry of timestamp ≥ 1) -/
def rkO : Option Inst → Int
  | none => 0
  | some e => rk e

/-- The property's proviso "each (entry, timestamp) pair denotes one content and no two instances
claim the same token", as a *universe*: `U id ts left` is THE content of instance `id` at timestamp
`ts` (tombstone iff `left`). Contents are normalised (strictly sorted tokens, tombstones hold none).
`noclash` quantifies over ALL timestamps of both instances: no token is EVER claimed by two different
ids, not even at disjoint times (`PC03.merge_diverges_on_token_handover` shows this is needed). -/
structure Univ (U : String → Int → Bool → Inst) : Prop where
  id_eq : ∀ id ts l, (U id ts l).id = id
  ts_eq : ∀ id ts l, (U id ts l).ts = ts
  left_iff : ∀ id ts l, (U id ts l).state = .LEFT ↔ l = true
  sorted : ∀ id ts l, sortedStrict (U id ts l).tokens = true
  left_tokens : ∀ id ts, (U id ts true).tokens = []
  noclash : ∀ id ts l id' ts' l', id ≠ id' → ∀ t ∈ (U id ts l).tokens, t ∉ (U id' ts' l').tokens

/-- a descriptor drawn from the universe: unique ids, timestamps ≥ 1, every entry is the universe's
content for its (id, timestamp, tombstone-ness) -/
structure Drawn (U : String → Int → Bool → Inst) (d : Desc) : Prop where
  nodup : (ids d).Nodup
  pos : ∀ e ∈ d, e.ts ≥ 1
  coh : ∀ e ∈ d, e = U e.id e.ts (decide (e.state = .LEFT))

/-- sort entries by id for canonical display -/
def insertById (x : Inst) : Desc → Desc
  | [] => [x]
  | y :: ys => if x.id ≤ y.id then x :: y :: ys else y :: insertById x ys
def sortById (d : Desc) : Desc := d.foldr insertById []

/-! ## extension (C03): `RemoveTombstones` counters and sub-second limits, `MergeContent`, `Clone` -/

/-- `time.Unix(ts, 0).Before(time.Unix(sec, nsec))` ⇔ `ts < limitOf sec nsec`: a limit with a non-zero
nanosecond part lies strictly after the whole second `sec`. -/
def limitOf (sec : Int) (nsec : Nat) : Int := if nsec > 0 then sec + 1 else sec

/-- the entry is a tombstone that `RemoveTombstones(limit)` deletes (`none` = the zero time) -/
def isTomb (limit : Option Int) (i : Inst) : Bool :=
  i.state == .LEFT && (match limit with | none => true | some l => i.ts < l)

/-- the two counters returned by `RemoveTombstones`: `(total, removed)` = LEFT entries kept, LEFT entries deleted -/
def tombCounts (limit : Option Int) (d : Desc) : Nat × Nat :=
  ((d.filter fun i => i.state == .LEFT && !isTomb limit i).length, (d.filter (isTomb limit)).length)

/-- `MergeContent()`: the map keys (Go: in map order; compared as a sorted list) -/
def mergeContent (d : Desc) : List String := ids d

/-- `Clone()`: a descriptor with its own map holding the same entries. Model values are immutable, so
the clone IS the value; what the code adds (own map, shared token storage) is checked by the `C03.clone` stream. -/
def clone (d : Desc) : Desc := d

end C03
