import Model.C12
import Model.C02
import Model.C14
/-!
# C13 — a ring client's answers depend only on the latest ring content

Model of the long-lived `Ring` client (`ring/ring.go` updateRingState / setRingStateFromDesc /
getCachedShuffledSubring* / setCachedShuffledSubring*, `ring/model.go` RingCompare) and of the
partition-ring client (`PartitionRingWatcher.updatePartitionRing`, `partitionRingShuffleShardCache`).

* `Client.desc`  = `r.ringDesc` (always the latest descriptor);
* `Client.idx`   = the descriptor from which `ringTokens`, `ringTokensByZone`, `ringInstanceByToken`,
                   `ringZones`, the per-zone counters, `oldestRegisteredTimestamp` and the read-only
                   statistics were last rebuilt (`setRingStateFromDesc`); kept across updates that
                   `RingCompare` classifies `Equal` / `EqualButStatesAndTimestamps`;
* `Client.epoch` = `lastTopologyChange` (a counter instead of the wall clock);
* `Client.cache` / `lbCache` = `shuffledSubringCache` / `shuffledSubringWithLookbackCache`.

A cached sub-ring keeps its own copy of the member descriptors; serving it from the cache only
refreshes `State` and `Timestamp` (the loop in `getCachedShuffledSubring`).

The selection itself is `C12.shard` evaluated on the index descriptor; the member descriptors are
then read from the latest descriptor (`r.ringDesc.Ingesters[id]`). `PfC13.client_inv` shows that the
index descriptor and the latest descriptor agree on every field the selection reads.

`starts ident zone i` is the recorded `math/rand` stream (see `Model/C12.lean`).
-/
namespace C13
open Ring C12

inductive Cmp | equal | equalButStatesAndTimestamps | different
  deriving DecidableEq, Repr, Inhabited

/-- the per-instance part of `RingCompare`: `none` = Different, `some b` = same data, `b` = states
and timestamps equal too. Field order as in the Go code (Versions since fix 0ec0b1e of finding
F-C13-1). `Id` is derived from the map key (`setInstanceIDs`). -/
def instCompare (ing oing : Inst) : Option Bool :=
  if ing.addr != oing.addr then none
  else if ing.zone != oing.zone then none
  else if ing.regTs != oing.regTs then none
  else if ing.ro != oing.ro then none
  else if ing.roTs != oing.roTs then none
  else if ing.versions != oing.versions then none
  else if ing.tokens.length != oing.tokens.length then none
  else if ing.tokens != oing.tokens then none
  else some (ing.ts == oing.ts && ing.state == oing.state)

def ringCompareAux (o : Desc) : Desc → Bool → Cmp
  | [], eq => if eq then .equal else .equalButStatesAndTimestamps
  | ing :: rest, eq =>
    match o.get? ing.id with
    | none => .different
    | some oing =>
      match instCompare ing oing with
      | none => .different
      | some b => ringCompareAux o rest (eq && b)

/-- `Desc.RingCompare` -/
def ringCompare (d o : Desc) : Cmp :=
  if d.length != o.length then .different else ringCompareAux o d true

/-- names of the `InstanceDesc` fields read by `RingCompare` (tied to the Go source by `Generated/C13.lean`). -/
def comparedFields : List String :=
  ["Addr", "Zone", "RegisteredTimestamp", "ReadOnly", "ReadOnlyUpdatedTimestamp", "Versions", "Tokens", "Timestamp", "State"]
/-- fields refreshed when a cached sub-ring is served. -/
def refreshedFields : List String := ["State", "Timestamp"]
/-- fields whose change is classified `EqualButStatesAndTimestamps` -/
def stateFields : List String := ["Timestamp", "State"]

structure Sub where
  members : Desc
  epoch : Nat
  deriving DecidableEq, Repr

structure Key where
  ident : String
  size : Int
  deriving DecidableEq, Repr

structure LKey where
  ident : String
  size : Int
  period : Int
  deriving DecidableEq, Repr

structure LBEntry where
  sub : Sub
  after : Int
  before : Int
  deriving DecidableEq, Repr

structure Client where
  cfg : Cfg
  desc : Desc := []
  idx : Desc := []
  epoch : Nat := 0
  cache : List (Key × Sub) := []
  lbCache : List (LKey × LBEntry) := []
  deriving Repr

abbrev Streams := String → String → Nat → Nat

/-- `setRingStateFromDesc` -/
def rebuild (c : Client) (d : Desc) : Client :=
  { c with desc := d, idx := d, epoch := c.epoch + 1, cache := [], lbCache := [] }

/-- `updateRingState` -/
def update (c : Client) (d : Desc) : Client :=
  match ringCompare c.desc d with
  | .equal | .equalButStatesAndTimestamps => { c with desc := d }
  | .different => rebuild c d

def fresh (cfg : Cfg) (d : Desc) : Client := update { cfg := cfg } d

/-- does `shuffleShard` / `filterOutReadOnlyInstances` return the ring itself (never cached)? -/
def isSelf (c : Client) (size period now : Int) : Bool :=
  let p := mkLB period now
  let ix := c.idx.map core
  if size ≤ 0 then (roStats ix).1 == 0 || (p.on && decide ((roStats ix).2 ≥ p.til))
  else p.on && decide (oldestReg ix > 0) && decide (oldestReg ix ≥ p.til)

/-- the member descriptors of a newly built sub-ring (`buildRingForTheShard`). -/
def computeMembers (c : Client) (st : Streams) (ident : String) (size period now : Int) : Desc :=
  let ids := C12.shardIds c.cfg c.idx (st ident) size period now
  c.desc.filter fun i => ids.contains i.id

/-- the refresh loop of `getCachedShuffledSubring(WithLookback)`. -/
def refresh (desc : Desc) (s : Sub) : Sub :=
  { s with members := s.members.map fun m =>
      match desc.get? m.id with
      | some i => { m with state := i.state, ts := i.ts }
      | none => { m with state := .ACTIVE, ts := 0 } }

def setAssoc {κ β : Type} [DecidableEq κ] (k : κ) (v : β) : List (κ × β) → List (κ × β)
  | [] => [(k, v)]
  | (k', v') :: rest => if k' = k then (k, v) :: rest else (k', v') :: setAssoc k v rest

def lookupAssoc {κ β : Type} [DecidableEq κ] (k : κ) : List (κ × β) → Option β
  | [] => none
  | (k', v') :: rest => if k' = k then some v' else lookupAssoc k rest

/-- `Ring.ShuffleShard`: answer (members of the returned ring) and the client afterwards. -/
def queryShard (c : Client) (st : Streams) (ident : String) (size : Int) : Desc × Client :=
  let k : Key := ⟨ident, size⟩
  match lookupAssoc k c.cache with
  | some s =>
    let s' := refresh c.desc s
    (s'.members, { c with cache := setAssoc k s' c.cache })
  | none =>
    if isSelf c size 0 0 then (c.desc, c)
    else
      let s : Sub := ⟨computeMembers c st ident size 0 0, c.epoch⟩
      (s.members, { c with cache := setAssoc k s c.cache })

/-- `validForLookbackWindowsStartingBefore` computed by `setCachedShuffledSubringWithLookback`. -/
def validBefore (members : Desc) (w : Int) : Int :=
  members.foldl (fun b i =>
    let b := if i.regTs ≥ w && i.regTs < b then i.regTs else b
    if i.roTs ≥ w && i.roTs < b then i.roTs else b) C12.maxInt

/-- `Ring.ShuffleShardWithLookback` -/
def queryShardLB (c : Client) (st : Streams) (ident : String) (size period now : Int) : Desc × Client :=
  let k : LKey := ⟨ident, size, period⟩
  let w := now - period
  let hit : Option LBEntry :=
    match lookupAssoc k c.lbCache with
    | some e => if w < e.after || w > e.before then none else some e
    | none => none
  match hit with
  | some e =>
    let s' := refresh c.desc e.sub
    (s'.members, { c with lbCache := setAssoc k { e with sub := s' } c.lbCache })
  | none =>
    if isSelf c size period now then (c.desc, c)
    else
      let s : Sub := ⟨computeMembers c st ident size period now, c.epoch⟩
      let store : Bool :=
        match lookupAssoc k c.lbCache with
        | some e => decide (e.after < w)
        | none => true
      let c' := if store then { c with lbCache := setAssoc k ⟨s, w, validBefore s.members w⟩ c.lbCache } else c
      (s.members, c')

/-- `Ring.Get(key, allStatesOp)` with ReplicationFactor 1: the owner of the first token > key
(looked up in the token index), its descriptor read from the latest descriptor. -/
def get1 (c : Client) (key : Nat) : Option Inst :=
  match walkOrder (allTokens (c.idx.map core)) key with
  | [] => none
  | o :: _ => some ((c.desc.get? o.id).getD { id := "" })

structure Counts where
  instances : Nat
  zones : Nat
  withTokens : Nat
  writableWithTokens : Nat
  perZone : List (String × Nat × Nat × Nat)   -- zone, instances, with tokens, writable with tokens
  deriving DecidableEq, Repr

def counts (c : Client) (zs : List String) : Counts :=
  let ix := c.idx
  { instances := c.desc.length
    zones := (zonesOf (ix.map core)).length
    withTokens := (ix.filter fun i => !i.tokens.isEmpty).length
    writableWithTokens := (ix.filter fun i => !i.tokens.isEmpty && !i.ro).length
    perZone := zs.map fun z =>
      let m := ix.filter (·.zone == z)
      (z, m.length, (m.filter fun i => !i.tokens.isEmpty).length, (m.filter fun i => !i.tokens.isEmpty && !i.ro).length) }

/-! ## partition ring client -/

structure PEntry where
  ids : List Int
  after : Int
  before : Int
  deriving DecidableEq, Repr

structure PClient where
  parts : List Part := []
  cache : List (Key × List Int) := []
  lbCache : List (LKey × PEntry) := []
  deriving Repr

/-- `PartitionRingWatcher.updatePartitionRing`: a new immutable `PartitionRing` with an empty cache. -/
def pupdate (_c : PClient) (ps : List Part) : PClient := { parts := ps }

abbrev PStreams := String → Nat → Nat

def pqueryShard (c : PClient) (st : PStreams) (ident : String) (size : Int) : List Int × PClient :=
  let k : Key := ⟨ident, size⟩
  match lookupAssoc k c.cache with
  | some ids => (ids, c)
  | none =>
    let ids := pshard c.parts (st ident) size 0 0
    (ids, { c with cache := setAssoc k ids c.cache })

/-- a shard of a shard: `ring.ShuffleShard(a, n)` and then `ShuffleShard(b, m)` / `ShuffleShardWithLookback`
on the returned sub-ring. The sub-ring is a `PartitionRing` built from the selected partitions with a
shuffle-shard cache of its own (`NewPartitionRingWithOptions`), so only the first query touches the
client's cache. -/
def pnested (c : PClient) (st : PStreams) (a : String) (n : Int) (b : String) (m period now : Int) : List Int × PClient :=
  let r := pqueryShard c st a n
  let sub := c.parts.filter fun p => r.1.contains p.id
  (pshard sub (st b) m period now, r.2)

def pvalidBefore (ps : List Part) (ids : List Int) (w : Int) : Int :=
  (ps.filter fun p => ids.contains p.id).foldl (fun b p => if p.stateTs ≥ w && p.stateTs < b then p.stateTs else b) C12.maxInt

def pqueryShardLB (c : PClient) (st : PStreams) (ident : String) (size period now : Int) : List Int × PClient :=
  let k : LKey := ⟨ident, size, period⟩
  let w := now - period
  let hit : Option PEntry :=
    match lookupAssoc k c.lbCache with
    | some e => if w < e.after || w > e.before then none else some e
    | none => none
  match hit with
  | some e => (e.ids, c)
  | none =>
    let ids := pshard c.parts (st ident) size period now
    let store : Bool :=
      match lookupAssoc k c.lbCache with
      | some e => decide (e.after < w)
      | none => true
    (ids, if store then { c with lbCache := setAssoc k ⟨ids, w, pvalidBefore c.parts ids w⟩ c.lbCache } else c)


/-! ## the two halves of a shuffle-shard query and the cache-fill guard

`Ring.ShuffleShard` is not atomic: it (1) looks the cache up and, on a miss, computes the sub-ring under
the read lock (`shuffleShard`; the sub-ring remembers the `lastTopologyChange` it was built at,
`Sub.epoch`), releases the lock, and (2) `setCachedShuffledSubring` takes the write lock and stores the
sub-ring **only if `r.lastTopologyChange.Equal(subring.lastTopologyChange)`**. Between (1) and (2) the
watch callback may run `updateRingState` any number of times and other readers may query and store.
`beginShard` / `storeShard` (and the look-back pair) are the two halves; `queryShard` is one directly
after the other (`PfC13.queryShard_eq_begin_store`). The epoch is a counter: two re-indexings never
carry the same `lastTopologyChange` (in Go: two `time.Now()` readings under the write lock never
coincide — the explicit hypothesis behind the guard). -/

/-- first half of `ShuffleShard`: answer, the sub-ring to be stored later (if one was built), client. -/
def beginShard (c : Client) (st : Streams) (ident : String) (size : Int) : Desc × Option Sub × Client :=
  let k : Key := ⟨ident, size⟩
  match lookupAssoc k c.cache with
  | some s =>
    let s' := refresh c.desc s
    (s'.members, none, { c with cache := setAssoc k s' c.cache })
  | none =>
    if isSelf c size 0 0 then (c.desc, none, c)
    else
      let s : Sub := ⟨computeMembers c st ident size 0 0, c.epoch⟩
      (s.members, some s, c)

/-- second half, `setCachedShuffledSubring`: store only if the ring was not re-indexed in between. -/
def storeShard (c : Client) (k : Key) (s : Sub) : Client :=
  if s.epoch == c.epoch then { c with cache := setAssoc k s c.cache } else c

/-- first half of `ShuffleShardWithLookback` (the pending store remembers the window start). -/
def beginShardLB (c : Client) (st : Streams) (ident : String) (size period now : Int) : Desc × Option (Sub × Int) × Client :=
  let k : LKey := ⟨ident, size, period⟩
  let w := now - period
  let hit : Option LBEntry :=
    match lookupAssoc k c.lbCache with
    | some e => if w < e.after || w > e.before then none else some e
    | none => none
  match hit with
  | some e =>
    let s' := refresh c.desc e.sub
    (s'.members, none, { c with lbCache := setAssoc k { e with sub := s' } c.lbCache })
  | none =>
    if isSelf c size period now then (c.desc, none, c)
    else
      let s : Sub := ⟨computeMembers c st ident size period now, c.epoch⟩
      (s.members, some (s, w), c)

/-- second half, `setCachedShuffledSubringWithLookback`: nothing if the ring was re-indexed in between;
otherwise store unless an entry for a later (or the same) window start is already there. -/
def storeShardLB (c : Client) (k : LKey) (s : Sub) (w : Int) : Client :=
  if s.epoch == c.epoch then
    let store : Bool :=
      match lookupAssoc k c.lbCache with
      | some e => decide (e.after < w)
      | none => true
    if store then { c with lbCache := setAssoc k ⟨s, w, validBefore s.members w⟩ c.lbCache } else c
  else c

/-- `Ring.CleanupShuffleShardCache(identifier)`: drops the identifier's entries from both caches. -/
def cleanup (c : Client) (ident : String) : Client :=
  { c with cache := c.cache.filter (fun e => e.1.ident != ident), lbCache := c.lbCache.filter (fun e => e.1.ident != ident) }

/-! ## further reads of the client: `Get` (any operation / replication factor), `GetReplicationSetForOperation`,
`GetTokenRangesForInstance`, `Zones`, and `Get` on a returned shuffle-shard sub-ring

Every read takes the *index descriptor* `ix` (what `ringTokens`, `ringTokensByZone`,
`ringInstanceByToken`, `ringZones`, `instancesCountPerZone` were last rebuilt from) and the *latest
descriptor* `d` (`r.ringDesc`) separately, exactly as the Go methods mix them; for a fresh client the
two coincide. `PfC13.read*_fresh` show that with `ix = d` these are `C01.getWith`, `C02.getAll`
and `C14.rangesForInstance` (the models the other properties prove things about). -/

/-- `ringInstanceByToken[t]`: `instanceInfo{InstanceID, Zone}` of the entry that registered `t`. -/
def ownerInfo (ix : Desc) (t : Nat) : Option (String × String) := (C01.tokenInfo ix t).map fun i => (i.id, i.zone)

/-- the loop of `findInstancesForKey`: token owner and zone from `ringInstanceByToken`, per-zone totals
from `instancesCountPerZone`, the instance itself from `r.ringDesc.Ingesters[info.InstanceID]`
(a missing key yields Go's zero `InstanceDesc`). -/
def rwalk (cfg : C01.Cfg) (owner : Nat → Option (String × String)) (total : String → Nat) (d : Desc)
    (zones : List String) (target : Nat) (op : C01.Op) : List Nat → C01.WalkSt → Except C01.Err (List Inst)
  | [], _ => .ok []
  | t :: rest, st =>
    if ¬ (st.distinct.length < min d.length st.size) then .ok []
    else if cfg.zoneAware && C01.canStopLooking zones total st target then .ok []
    else match owner t with
      | none => .error .inconsistentTokens
      | some (id, zone) =>
        if st.distinct.contains id then rwalk cfg owner total d zones target op rest st
        else if cfg.zoneAware && !zones.contains zone then .error .inconsistentTokens
        else if cfg.zoneAware && zone != "" && decide (st.found zone ≥ target) then
          rwalk cfg owner total d zones target op rest st
        else
          let inst := (d.get? id).getD { id := "" }
          (rwalk cfg owner total d zones target op rest (st.select cfg op { inst with id := id, zone := zone })).map (inst :: ·)

/-- `Ring.Get` / `GetWithOptions` (`getReplicationSetForKey`). -/
def readGet (cfg : C01.Cfg) (ix d : Desc) (key : Nat) (op : C01.Op) (now : Int) (rfCall : Int) : Except C01.Err C01.RSet :=
  let tokens := C01.sortedTokens ix
  if tokens.length = 0 then .error .emptyRing else
  let rf : Nat := if rfCall ≤ 0 ∨ rfCall < cfg.rf then cfg.rf else rfCall.toNat
  if rf > cfg.rf then .error .rfTooLarge
  else if cfg.rf = 0 then .error .panic
  else do
    let target := max 1 (rf / cfg.rf)
    let instances ← rwalk cfg (ownerInfo ix) (C01.zoneTotal ix) d (C01.ringZones ix) target op
      (C01.rot tokens (C01.searchToken tokens key)) { size := rf }
    C01.filter cfg op now rf instances

/-- `Ring.GetReplicationSetForOperation`: emptiness from `ringTokens`, the zone count from `ringZones`
(both index), the instances from the latest descriptor. -/
def readAll (cfg : C01.Cfg) (ix d : Desc) (op : C01.Op) (now : Int) : Except C01.Err C02.RSetAll :=
  if (C01.sortedTokens ix).length = 0 then .error .emptyRing else
  let healthy := d.filter (C01.isHealthy op cfg.hbTimeout now)
  let zoneFailures := C02.zonesOf (d.filter (fun i => !C01.isHealthy op cfg.hbTimeout now i))
  if cfg.zoneAware then
    let numReplicatedZones := min (C02.zonesOf ix).length cfg.rf
    let minSuccessZones := numReplicatedZones / 2 + 1
    let maxUnavailableZones := minSuccessZones - 1
    if zoneFailures.length > maxUnavailableZones then .error .tooManyUnhealthy
    else
      let healthy :=
        if zoneFailures.length > 0 then healthy.filter (fun i => !zoneFailures.contains i.zone) else healthy
      .ok { instances := healthy, maxErrors := 0,
            maxUnavailableZones := maxUnavailableZones - zoneFailures.length, zoneAware := true }
  else
    let numRequired := (if d.length < cfg.rf then cfg.rf else d.length) - cfg.rf / 2
    if healthy.length < numRequired then .error .tooManyUnhealthy
    else .ok { instances := healthy, maxErrors := healthy.length - numRequired,
               maxUnavailableZones := 0, zoneAware := false }

/-- `Ring.GetTokenRangesForInstance`: the instance (its zone) from the latest descriptor; the number of
zones, the zone's token list and the owner flags from the indexes. -/
def readRanges (cfg : C01.Cfg) (ix d : Desc) (id : String) : Except C14.Err (List Nat) :=
  match d.get? id with
  | none => .error .notFound
  | some inst =>
    if inst.zone == "" then .error .zoneNotSet
    else if !cfg.zoneAware || cfg.rf != (C14.zonesOf ix).length then .error .badConfig
    else
      let toks := (C14.zoneTokens ix inst.zone).map (·.1)
      if toks.isEmpty then .error .noTokensForZone
      else match C14.zoneFlagsOf ix toks id with
        | none => .error .inconsistent
        | some zt => .ok (C14.instRangesOf zt)

/-- `Ring.GetSubringForOperationStates(op)`: the instances of the LATEST descriptor whose state the operation
accepts (`op.IsInstanceInStateHealthy`; `healthy` = the states of the operation's mask). A pure function of the
latest descriptor: never cached, no kept index involved. `subGet` is `Get` on the returned sub-ring. -/
def readOpSub (d : Desc) (healthy : List State) : Desc := d.filter fun i => healthy.contains i.state

/-- `Ring.Zones()` -/
def readZones (ix : Desc) : List String := C01.ringZones ix

/-- `Get` on a sub-ring built by `buildRingForTheShard`: its own token / zone / count indexes come from
its member descriptors (`ringInstanceByToken` is the parent's map, a superset that agrees on the
members' tokens). -/
def subGet (cfg : C01.Cfg) (members : Desc) (key : Nat) (op : C01.Op) (now : Int) : Except C01.Err C01.RSet :=
  readGet cfg members members key op now cfg.rf

def Client.rcfg (c : Client) (rf : Nat) (hb : Int) : C01.Cfg := { rf := rf, zoneAware := c.cfg.zoneAware, hbTimeout := hb }

/-- `ShuffleShard(ident, size).Get(key, op)` on the client as it is (the cache is looked up, not updated). -/
def getOnShard (c : Client) (st : Streams) (rf : Nat) (hb : Int) (ident : String) (size : Int) (key : Nat) (op : C01.Op) (now : Int) :
    Except C01.Err C01.RSet :=
  match lookupAssoc (⟨ident, size⟩ : Key) c.cache with
  | some s => subGet (c.rcfg rf hb) (refresh c.desc s).members key op now
  | none =>
    if isSelf c size 0 0 then readGet (c.rcfg rf hb) c.idx c.desc key op now rf
    else subGet (c.rcfg rf hb) (computeMembers c st ident size 0 0) key op now

/-- `ShuffleShardWithLookback(ident, size, period, qnow).Get(key, op)`. -/
def getOnShardLB (c : Client) (st : Streams) (rf : Nat) (hb : Int) (ident : String) (size period qnow : Int) (key : Nat)
    (op : C01.Op) (now : Int) : Except C01.Err C01.RSet :=
  let w := qnow - period
  let hit : Option LBEntry :=
    match lookupAssoc (⟨ident, size, period⟩ : LKey) c.lbCache with
    | some e => if w < e.after || w > e.before then none else some e
    | none => none
  match hit with
  | some e => subGet (c.rcfg rf hb) (refresh c.desc e.sub).members key op now
  | none =>
    if isSelf c size period qnow then readGet (c.rcfg rf hb) c.idx c.desc key op now rf
    else subGet (c.rcfg rf hb) (computeMembers c st ident size period qnow) key op now

/-! ## the lock sections of the real code as a labelled transition system

`Ring.ShuffleShard` consists of THREE separate critical sections of `r.mtx` (and so does
`ShuffleShardWithLookback`):

1. `getCachedShuffledSubring` — `RLock`: cache look-up; on a hit the cached sub-ring is refreshed (states and
   timestamps from the latest descriptor) and returned (`lookShard`);
2. `shuffleShard` / `filterOutReadOnlyInstances` — a second `RLock` acquisition: the sub-ring is computed from the
   indexes as they are NOW (the cache is not consulted again) and remembers `r.lastTopologyChange` (`compShard`);
3. `setCachedShuffledSubring` — `Lock`: stored only if `r.lastTopologyChange.Equal(subring.lastTopologyChange)`
   (`storeShardT`).

Between any two of them the watch callback may run `updateRingState` (whose write section replaces the descriptor
and, on a topology change, re-indexes, stamps `lastTopologyChange := time.Now()` and drops both caches) and other
readers may run their sections. `beginShard` of the coarser model above is section 1 directly followed (on a miss)
by section 2; here they are separate events, so a reader may compute although another reader has filled the cache
in between, and overwrite that entry.

**The clock.** `lastTopologyChange` is a wall-clock reading in the code. `clk e` is the reading `time.Now()` gave the
`e`-th re-indexing (`clk 0` = the zero `time.Time` of a ring that was never indexed); the guard of section 3 compares
READINGS (`clk sub.epoch == clk c.epoch`), not the counters. The theorems hold for every injective `clk` (a clock
that advances between two re-indexings); `PC13.clock_collision_witness` shows what happens otherwise. -/

/-- reader section 1, `getCachedShuffledSubring`. -/
def lookShard (c : Client) (ident : String) (size : Int) : Option Desc × Client :=
  let k : Key := ⟨ident, size⟩
  match lookupAssoc k c.cache with
  | some s =>
    let s' := refresh c.desc s
    (some s'.members, { c with cache := setAssoc k s' c.cache })
  | none => (none, c)

/-- reader section 2, `shuffleShard` / `filterOutReadOnlyInstances`: the answer and, unless the ring itself is
returned, the sub-ring to be stored by section 3. -/
def compShard (c : Client) (st : Streams) (ident : String) (size : Int) : Desc × Option Sub :=
  if isSelf c size 0 0 then (c.desc, none)
  else
    let s : Sub := ⟨computeMembers c st ident size 0 0, c.epoch⟩
    (s.members, some s)

/-- reader section 3, `setCachedShuffledSubring`, the guard comparing clock readings. -/
def storeShardT (clk : Nat → Nat) (c : Client) (k : Key) (s : Sub) : Client :=
  if clk s.epoch == clk c.epoch then { c with cache := setAssoc k s c.cache } else c

/-- section 1 of `ShuffleShardWithLookback`, `getCachedShuffledSubringWithLookback`. -/
def lookShardLB (c : Client) (ident : String) (size period now : Int) : Option Desc × Client :=
  let k : LKey := ⟨ident, size, period⟩
  let w := now - period
  let hit : Option LBEntry :=
    match lookupAssoc k c.lbCache with
    | some e => if w < e.after || w > e.before then none else some e
    | none => none
  match hit with
  | some e =>
    let s' := refresh c.desc e.sub
    (some s'.members, { c with lbCache := setAssoc k { e with sub := s' } c.lbCache })
  | none => (none, c)

/-- section 2 of `ShuffleShardWithLookback` (the pending store remembers the window start). -/
def compShardLB (c : Client) (st : Streams) (ident : String) (size period now : Int) : Desc × Option (Sub × Int) :=
  if isSelf c size period now then (c.desc, none)
  else
    let s : Sub := ⟨computeMembers c st ident size period now, c.epoch⟩
    (s.members, some (s, now - period))

/-- section 3 of `ShuffleShardWithLookback`, `setCachedShuffledSubringWithLookback`. -/
def storeShardLBT (clk : Nat → Nat) (c : Client) (k : LKey) (s : Sub) (w : Int) : Client :=
  if clk s.epoch == clk c.epoch then
    let store : Bool :=
      match lookupAssoc k c.lbCache with
      | some e => decide (e.after < w)
      | none => true
    if store then { c with lbCache := setAssoc k ⟨s, w, validBefore s.members w⟩ c.lbCache } else c
  else c

/-- the events: one per critical section. -/
inductive Ev
  | upd (d : Desc)                                   -- writer: `updateRingState`
  | look (ident : String) (size : Int)               -- reader section 1
  | comp (ident : String) (size : Int)               -- reader section 2 (also without a preceding miss)
  | store (n : Nat)                                  -- reader section 3 for the n-th computed sub-ring (any order, repeatedly)
  | lookL (ident : String) (size period now : Int)
  | compL (ident : String) (size period now : Int)
  | storeL (n : Nat)
  | clean (ident : String)                           -- `CleanupShuffleShardCache`
  | qS (ident : String) (size : Int)                 -- an undisturbed `ShuffleShard` (sections 1-3 back to back)
  | qL (ident : String) (size period now : Int)
  deriving Repr

structure LState where
  c : Client
  pend : List (Key × Sub) := []
  pendL : List (LKey × Sub × Int) := []

def lstep (clk : Nat → Nat) (st : Streams) (s : LState) : Ev → LState
  | .upd d => { s with c := update s.c d }
  | .look i sz => { s with c := (lookShard s.c i sz).2 }
  | .comp i sz =>
    match (compShard s.c st i sz).2 with
    | some sub => { s with pend := s.pend ++ [(⟨i, sz⟩, sub)] }
    | none => s
  | .store n =>
    match s.pend[n]? with
    | some (k, sub) => { s with c := storeShardT clk s.c k sub }
    | none => s
  | .lookL i sz p n => { s with c := (lookShardLB s.c i sz p n).2 }
  | .compL i sz p n =>
    match (compShardLB s.c st i sz p n).2 with
    | some (sub, w) => { s with pendL := s.pendL ++ [(⟨i, sz, p⟩, sub, w)] }
    | none => s
  | .storeL n =>
    match s.pendL[n]? with
    | some (k, sub, w) => { s with c := storeShardLBT clk s.c k sub w }
    | none => s
  | .clean i => { s with c := cleanup s.c i }
  | .qS i sz => { s with c := (queryShard s.c st i sz).2 }
  | .qL i sz p n => { s with c := (queryShardLB s.c st i sz p n).2 }

/-- the sub-ring (its members) an event hands to its caller, if any: a hit of section 1, the result of section 2,
the result of an undisturbed query. -/
def lans (st : Streams) (s : LState) : Ev → Option Desc
  | .look i sz => (lookShard s.c i sz).1
  | .comp i sz => some (compShard s.c st i sz).1
  | .lookL i sz p n => (lookShardLB s.c i sz p n).1
  | .compL i sz p n => some (compShardLB s.c st i sz p n).1
  | .qS i sz => some (queryShard s.c st i sz).1
  | .qL i sz p n => some (queryShardLB s.c st i sz p n).1
  | _ => none

def lrun (clk : Nat → Nat) (st : Streams) (s : LState) (evs : List Ev) : LState := evs.foldl (lstep clk st) s

end C13
