import Model.Common
/-!
# C07 — compare-and-swap on the KV backends

Executable model of the CAS loops in `kv/consul/client.go` (`cas`) over `kv/consul/mock.go`
(`mockKV.Get/CAS`), `kv/etcd/etcd.go` (`CAS`) over `kv/etcd/mock.go` (`doGet/doTxn/doPut`),
`kv/memberlist/memberlist_client.go` (`CAS`, `trySingleCas`, `get`, `mergeValueForKey`,
`computeNewValue`) and of the wrappers `kv/prefix.go`, `kv/metrics.go`, `kv/multi.go`
(`MultiClient.CAS`, `writeToSecondary`).

Granularity: one *event* is one critical section of the store (the mocks' mutex / `storeMu`):
a `Get` (read) or a conditional write. The caller-supplied function runs between the two and is
local, so it is folded into the write step. Any number of callers, any interleaving of their steps.

Quirks that are modelled because the code has them:
* consul/etcd keep the token variable (`index` / `revision`) across attempts and only overwrite it
  when the key exists; memberlist reads a fresh version on every attempt (0 when absent);
* consul's mock accepts a CAS on an absent key for *any* index; etcd compares `Version` (0 if absent);
* memberlist: `cas && curr.Version != casVersion` is the mismatch test (version 0 = key absent, so
  the first write of a key is conditional too — this is the repair of finding D4; the old rule is
  kept as `condWriteMlOld` for the history witness only); the write is a *merge* into the current
  value and "no change" is an error that is retried only if `f` returned `retry = true`; a version
  mismatch is likewise only retried when `f` said `retry = true`;
* consul/etcd retry a conflict regardless of the retry flag;
* memberlist merges IN PLACE: on the "no change" path the stored object is what `Merge` left in it
  (version unchanged) — invisible for a Mergeable that honours "do not change the logical value
  when returning an empty change" (`Lawful` in the proofs), visible otherwise;
* `MultiClient` mirrors the value returned by the *last* invocation of `f` after the primary CAS
  returned nil, with a one-shot function (`retry = false`), to every client except the one it
  captured as primary when the call started; the primary may be switched at runtime (`Ev.switch`)
  while calls are in flight.

Dead code, on purpose: consul's "a CAS on an absent key succeeds for any index" and the token
variable kept across attempts can only matter when a key disappears between two attempts (Delete).
`Ev` has no Delete (C07 quantifies over CAS calls only), so in every run an attempt that finds the
key absent holds token 0 (`absent_read_holds_zero_token` in Props); the quirks are modelled as the
code has them but never fire.
-/
namespace C07

abbrev Key := List Nat

inductive Backend | consul | etcd | ml
  deriving DecidableEq, Repr

structure Entry (α : Type) where
  val : α
  tok : Nat      -- consul ModifyIndex / etcd Version / memberlist ValueDesc.Version

/-- One backend instance. `cur` is `mockKV.current` of the consul mock (unused by the others). -/
structure Store (α : Type) where
  kind : Backend
  cur : Nat
  ent : Key → Option (Entry α)

variable {α : Type}

def Store.empty (kind : Backend) : Store α := ⟨kind, 1, fun _ => none⟩

def Store.val (s : Store α) (k : Key) : Option α := (s.ent k).map (·.val)

def Store.ver (s : Store α) (k : Key) : Nat :=
  match s.ent k with
  | some e => e.tok
  | none => 0

def Store.set (s : Store α) (k : Key) (e : Entry α) : Store α :=
  { s with ent := fun k' => if k' = k then some e else s.ent k' }

/-- The token a caller holds after a `Get`: consul `index` / etcd `revision` are only assigned when
the key exists; memberlist's `get` returns the stored version, 0 for an absent key. -/
def readIdx (s : Store α) (k : Key) (idx : Nat) : Nat :=
  match s.ent k with
  | some e => e.tok
  | none => match s.kind with
    | .ml => 0
    | _ => idx

inductive Outcome | wrote | conflict | nochange | declined | failed
  deriving DecidableEq, Repr

/-- The conditional write. `merge cur out = (result, changed)` is `computeNewValue` followed by the
"no change" test of `mergeValueForKey` (`change == nil || len(change.MergeContent()) == 0`). -/
def condWrite (merge : Option α → α → α × Bool) (s : Store α) (k : Key) (idx : Nat) (out : α) :
    Store α × Outcome :=
  match s.kind with
  | .consul =>
    -- mockKV.CAS: `if ok && existing.ModifyIndex != p.ModifyIndex {return false}`; m.current++
    match s.ent k with
    | some e =>
      if e.tok ≠ idx then (s, .conflict)
      else (({ s with cur := s.cur + 1 } : Store α).set k ⟨out, s.cur + 1⟩, .wrote)
    | none => (({ s with cur := s.cur + 1 } : Store α).set k ⟨out, s.cur + 1⟩, .wrote)
  | .etcd =>
    -- Txn If(Version(key) = revision) Then(Put): evalCmp reads a zero entry when absent; doPut Version+1 / 1
    if s.ver k ≠ idx then (s, .conflict) else (s.set k ⟨out, s.ver k + 1⟩, .wrote)
  | .ml =>
    -- mergeValueForKey(cas = true, casVersion = idx): `if cas && curr.Version != casVersion` → mismatch;
    -- version 0 = the key did not exist when it was read, and must still not exist
    if s.ver k ≠ idx then (s, .conflict)
    else match s.ent k with
      | none =>
        -- computeNewValue with oldVal == nil: result = change = incoming
        match merge none out with
        | (r, true) => (s.set k ⟨r, 1⟩, .wrote)
        | (_, false) => (s, .nochange)
      | some e =>
        -- `oldVal.Merge(incoming, cas)` works IN PLACE on the stored object ("we do not take a deep
        -- copy of curr.value here, it is modified in-place"): on the no-change path no new ValueDesc
        -- is stored and the version stays, but the stored value is whatever Merge left in the object
        match merge (some e.val) out with
        | (r, true) => (s.set k ⟨r, e.tok + 1⟩, .wrote)
        | (r, false) => (s.set k ⟨r, e.tok⟩, .nochange)

/-- HISTORY (not the current code): memberlist's rule before the repair of finding D4 (dskit commit
"memberlist KV CAS on a missing key is not atomic"): `if casVersion > 0 && curr.Version != casVersion`,
i.e. an attempt that had read an absent key (version 0) was never rejected. Kept only for the
witness `ml_first_write_not_atomic_history`; nothing in the model of the current code uses it. -/
def condWriteMlOld (merge : Option α → α → α × Bool) (s : Store α) (k : Key) (idx : Nat) (out : α) :
    Store α × Outcome :=
  if idx > 0 ∧ s.ver k ≠ idx then (s, .conflict)
  else match merge (s.val k) out with
    | (_, false) => (s, .nochange)
    | (r, true) => (s.set k ⟨r, s.ver k + 1⟩, .wrote)

/-- What the caller-supplied function returns. -/
inductive FRet (α : Type)
  | write (out : α) (retry : Bool)
  | decline
  | fail (retry : Bool)

/-- One CAS call as seen by the store-level clients: the key is already mapped through the prefix
wrappers; `f att inp` is the result of the `att`-th invocation (0-based) on input `inp`;
`mirror` = a `MultiClient` with mirroring enabled is in the path (see `wrapCall`). -/
structure Call (α : Type) where
  key : Key
  f : Nat → Option α → FRet α
  mirror : Bool

/-- Where a caller is. Stores are identified by their position in `MultiClient.clients` (a plain
client is the one-element list). `p` is the position `MultiClient.CAS` captured as primary when the
call started (`_, kv := m.getPrimaryClient()`); `t :: rest` are the stores `writeToSecondary` still
has to write to. -/
inductive Phase (α : Type)
  | idle
  | reading (p : Nat) (cl : Call α) (cid att idx : Nat)                       -- next: Get on store p
  | holding (p : Nat) (cl : Call α) (cid att idx : Nat) (inp : Option α)      -- next: f, then conditional write on p
  | mreading (t : Nat) (rest : List Nat) (k : Key) (v : α) (att idx : Nat)    -- mirror write: Get on store t
  | mholding (t : Nat) (rest : List Nat) (k : Key) (v : α) (att idx : Nat) (inp : Option α)  -- mirror: conditional write on t

/-- Log record of one attempt of a primary loop (one invocation of `f`). -/
structure Rec (α : Type) where
  caller : Nat
  cid : Nat                 -- call identifier (unique per `begin`)
  store : Nat               -- position of the store the call uses as primary
  key : Key
  att : Nat
  idx : Nat                 -- token held by the attempt
  inp : Option α            -- value `f` was applied to
  before : Option α         -- stored value at the moment of the conditional write
  out : Option α            -- value returned by `f` (none: declined / failed)
  after : Option α          -- stored value after the step
  outcome : Outcome
  done : Option Bool        -- `some true`: the CAS loop returns nil, `some false`: returns an error, `none`: retries

structure Cfg (α : Type) where
  budget : Nat                          -- attempts of the primary CAS loop (≥ 1)
  sbudget : Nat                         -- attempts of each mirror CAS loop
  merge : Option α → α → α × Bool       -- memberlist: (value left in the store, changed?)

structure Sys (α : Type) where
  stores : Nat → Store α    -- MultiClient.clients[i].client
  clients : List Nat        -- positions that exist (`[p]` for a plain client)
  primary : Nat             -- MultiClient.primaryID
  ph : Nat → Phase α
  nextCid : Nat
  log : List (Rec α)        -- newest first

inductive Ev (α : Type)
  | begin (c : Nat) (cl : Call α)
  | step (c : Nat)
  | switch (ix : Nat)       -- runtime configuration `MultiRuntimeConfig.PrimaryStore` → `setNewPrimaryClient`

def Sys.setPh (s : Sys α) (c : Nat) (p : Phase α) : Sys α :=
  { s with ph := fun c' => if c' = c then p else s.ph c' }

def Sys.setStore (s : Sys α) (i : Nat) (st : Store α) : Sys α :=
  { s with stores := fun j => if j = i then st else s.stores j }

/-- Is a failed conditional write retried? consul/etcd `continue` unconditionally; memberlist's
`trySingleCas` hands back the retry flag that `f` returned. -/
def retryable (kind : Backend) (retry : Bool) : Bool :=
  match kind with
  | .ml => retry
  | _ => true

/-- after a failed attempt: loop again (budget permitting) or give up with an error. -/
def retryPhase (cfg : Cfg α) (kind : Backend) (p : Nat) (cl : Call α) (cid att idx : Nat) : Phase α × Option Bool :=
  if att + 1 < cfg.budget then
    (.reading p cl cid (att + 1) (match kind with | .ml => 0 | _ => idx), none)
  else (.idle, some false)

/-- `MultiClient.writeToSecondary`: "propagate new value to all remaining clients" — the mirror write
goes to every client of `m.clients` except the one the CAS call used as primary
(`if kvc == primary { continue }`), wherever that primary sits in the list. -/
def mirrorTargets (clients : List Nat) (primary : Nat) : List Nat :=
  clients.filter (fun c => c != primary)

/-- the loop of `writeToSecondary` over the remaining targets. -/
def mirrorNext (cfg : Cfg α) (ts : List Nat) (k : Key) (v : α) : Phase α :=
  match ts with
  | [] => .idle
  | t :: rest => if 0 < cfg.sbudget then .mreading t rest k v 0 0 else .idle

/-- phase after the primary CAS (on store `p`) succeeded with a written value. -/
def mirrorPhase (cfg : Cfg α) (s : Sys α) (p : Nat) (cl : Call α) (out : α) : Phase α :=
  if cl.mirror then mirrorNext cfg (mirrorTargets s.clients p) cl.key out else .idle

/-- the apply + conditional-write step of caller `c` on its primary store `p`. -/
def commit (cfg : Cfg α) (s : Sys α) (c p : Nat) (cl : Call α) (cid att idx : Nat) (inp : Option α) : Sys α :=
  let before := (s.stores p).val cl.key
  let mk (out : Option α) (after : Option α) (oc : Outcome) (done : Option Bool) : Rec α :=
    ⟨c, cid, p, cl.key, att, idx, inp, before, out, after, oc, done⟩
  match cl.f att inp with
  | .fail retry =>
    let (q, d) := if retry then retryPhase cfg (s.stores p).kind p cl cid att idx else (.idle, some false)
    { (s.setPh c q) with log := mk none before .failed d :: s.log }
  | .decline =>
    { (s.setPh c .idle) with log := mk none before .declined (some true) :: s.log }
  | .write out retry =>
    match condWrite cfg.merge (s.stores p) cl.key idx out with
    | (st, .wrote) =>
      { ((s.setStore p st).setPh c (mirrorPhase cfg s p cl out)) with
        log := mk (some out) (st.val cl.key) .wrote (some true) :: s.log }
    | (st, oc) =>
      let (q, d) := if retryable (s.stores p).kind retry then retryPhase cfg (s.stores p).kind p cl cid att idx
                    else (.idle, some false)
      { ((s.setStore p st).setPh c q) with log := mk (some out) (st.val cl.key) oc d :: s.log }

/-- the conditional write of one mirror loop (`writeToSecondary`: `return newValue, false, nil`, so a
memberlist target never retries; consul/etcd retry conflicts within their budget); an error is only
logged and the loop goes on with the next store. -/
def mcommit (cfg : Cfg α) (s : Sys α) (c t : Nat) (rest : List Nat) (k : Key) (v : α) (att idx : Nat) : Sys α :=
  match condWrite cfg.merge (s.stores t) k idx v with
  | (st, .wrote) => (s.setStore t st).setPh c (mirrorNext cfg rest k v)
  | (st, _) =>
    if retryable (s.stores t).kind false = true ∧ att + 1 < cfg.sbudget
    then (s.setStore t st).setPh c (.mreading t rest k v (att + 1) idx)
    else (s.setStore t st).setPh c (mirrorNext cfg rest k v)

def next (cfg : Cfg α) (s : Sys α) : Ev α → Sys α
  | .begin c cl =>
    match s.ph c with
    | .idle => { (s.setPh c (.reading s.primary cl s.nextCid 0 0)) with nextCid := s.nextCid + 1 }
    | _ => s
  | .step c =>
    match s.ph c with
    | .idle => s
    | .reading p cl cid att idx =>
      s.setPh c (.holding p cl cid att (readIdx (s.stores p) cl.key idx) ((s.stores p).val cl.key))
    | .holding p cl cid att idx inp => commit cfg s c p cl cid att idx inp
    | .mreading t rest k v att idx =>
      s.setPh c (.mholding t rest k v att (readIdx (s.stores t) k idx) ((s.stores t).val k))
    | .mholding t rest k v att idx _ => mcommit cfg s c t rest k v att idx
  | .switch ix =>
    -- setNewPrimaryClient: unknown store names are rejected; CAS calls in flight are not interrupted
    if ix ∈ s.clients then { s with primary := ix } else s

def run (cfg : Cfg α) (s : Sys α) (evs : List (Ev α)) : Sys α := evs.foldl (next cfg) s

/-- a `MultiClient` over `pri` (position 0, primary) and `sec` (position 1); with `multi = false` a
plain client over `pri`. -/
def Sys.init2 (pri sec : Store α) (multi : Bool) : Sys α :=
  ⟨fun i => if i = 0 then pri else sec, if multi then [0, 1] else [0], 0, fun _ => .idle, 0, []⟩

def Sys.pri (s : Sys α) : Store α := s.stores s.primary

/-! ### Wrappers (`kv.createClient`: backend → MultiClient → PrefixClient → metrics) -/

/-- `prefixedKVClient`: every operation goes to `prefix ++ key`. -/
def prefixKey (p : Key) (k : Key) : Key := p ++ k

/-- the wrappers of `kv/`, outermost first. -/
inductive Wrap
  | pfx (p : Key)            -- kv/prefix.go: `c.client.CAS(ctx, c.prefix+key, f)`
  | metrics                  -- kv/metrics.go: `instrument.CollectedRequest(…, m.c.CAS(ctx, key, f))`, same key, f, result
  | multi (mirror : Bool)    -- kv/multi.go: CAS on the primary with a function that remembers f's output, then the mirror

/-- what the user hands to `kv.Client.CAS`. -/
structure UCall (α : Type) where
  key : Key
  f : Nat → Option α → FRet α

def wrapKey : List Wrap → Key → Key
  | [], k => k
  | .pfx p :: ws, k => wrapKey ws (prefixKey p k)
  | _ :: ws, k => wrapKey ws k

def wrapMirror : List Wrap → Bool
  | [] => false
  | .multi m :: ws => m || wrapMirror ws
  | _ :: ws => wrapMirror ws

/-- the store-level call a user call becomes after passing through a wrapper stack. -/
def wrapCall (ws : List Wrap) (u : UCall α) : Call α := ⟨wrapKey ws u.key, u.f, wrapMirror ws⟩

/-- user-level events: the scheduler steps and runtime switches are what they are; a `begin` goes
through the wrapper stack. -/
inductive UEv (α : Type)
  | begin (c : Nat) (u : UCall α)
  | step (c : Nat)
  | switch (ix : Nat)

def wrapEv (ws : List Wrap) : UEv α → Ev α
  | .begin c u => .begin c (wrapCall ws u)
  | .step c => .step c
  | .switch ix => .switch ix

/-! ### The value type used by the correspondence harness: max-register counter + grow-only id set -/

/-- `touch` counts the `Merge` calls that ran on the stored object without reporting a change: it is
not part of the logical value (the judge ignores it) and makes memberlist's in-place merge on the
"no change" path observable. -/
structure Val where
  ctr : Nat
  set : List Nat      -- strictly increasing
  touch : Nat := 0
  deriving DecidableEq, Repr

def insertId (x : Nat) : List Nat → List Nat
  | [] => [x]
  | y :: ys => if x < y then x :: y :: ys else if x = y then y :: ys else y :: insertId x ys

def Val.empty : Val := ⟨0, [], 0⟩

def Val.join (a b : Val) : Val := ⟨max a.ctr b.ctr, b.set.foldl (fun acc x => insertId x acc) a.set, a.touch⟩

/-- `c07Val.Merge` + the "no change" test of `mergeValueForKey` (`len(change.MergeContent()) == 0`).
`touchy = true` is the harness type (counts no-change merges in place); `touchy = false` is the
lawful variant ("implementations should be careful about not changing logical value when returning
empty change") used in the non-vacuity examples. -/
def Val.mergeWith (touchy : Bool) (cur : Option Val) (out : Val) : Val × Bool :=
  match cur with
  | none => (out, !(out.ctr = 0 ∧ out.set = []))
  | some v =>
    let r := v.join out
    if r.ctr = v.ctr ∧ r.set = v.set then (if touchy then { v with touch := v.touch + 1 } else v, false)
    else (r, true)

def Val.merge := Val.mergeWith true

def Val.inc (v : Option Val) : Val := let w := v.getD Val.empty; { w with ctr := w.ctr + 1 }
def Val.app (id : Nat) (v : Option Val) : Val := let w := v.getD Val.empty; { w with set := insertId id w.set }

end C07
