import Model.Common
/-!
# C07 — compare-and-swap on the KV backends

Executable model of the CAS loops in `kv/consul/client.go` (`cas`) over `kv/consul/mock.go`
(`mockKV.Get/CAS`), `kv/etcd/etcd.go` (`CAS`) over `kv/etcd/mock.go` (`doGet/doTxn/doPut`),
`kv/memberlist/memberlist_client.go` (`CAS`, `trySingleCas`, `get`, `mergeValueForKey`,
`computeNewValue`) and of the wrappers `kv/prefix.go`, `kv/metrics.go`, `kv/multi.go`
(`MultiClient.CAS`, `writeToSecondary`).

Granularity: one *event* is one critical section of the store (the mocks' mutex / `storeMu`):
a `Get` (read) or a conditional write. The caller-supplied function runs between the two and is
local, so it is folded into the write step. Any number of callers, any interleaving of their steps.

Quirks that are modelled because the code has them:
* consul/etcd keep the token variable (`index` / `revision`) across attempts and only overwrite it
  when the key exists; memberlist reads a fresh version on every attempt (0 when absent);
* consul's mock accepts a CAS on an absent key for *any* index; etcd compares `Version` (0 if absent);
* memberlist: `cas && curr.Version != casVersion` is the mismatch test (version 0 = key absent, so
  the first write of a key is conditional too — this is the repair of finding D4; the old rule is
  kept as `condWriteMlOld` for the history witness only); the write is a *merge* into the current
  value and "no change" is an error that is retried only if `f` returned `retry = true`; a version
  mismatch is likewise only retried when `f` said `retry = true`;
* consul/etcd retry a conflict regardless of the retry flag;
* `MultiClient` mirrors the value returned by the *last* invocation of `f` after the primary CAS
  returned nil, with a one-shot function (`retry = false`).
-/
namespace C07

abbrev Key := List Nat

inductive Backend | consul | etcd | ml
  deriving DecidableEq, Repr

structure Entry (α : Type) where
  val : α
  tok : Nat      -- consul ModifyIndex / etcd Version / memberlist ValueDesc.Version

/-- One backend instance. `cur` is `mockKV.current` of the consul mock (unused by the others). -/
structure Store (α : Type) where
  kind : Backend
  cur : Nat
  ent : Key → Option (Entry α)

variable {α : Type}

def Store.empty (kind : Backend) : Store α := ⟨kind, 1, fun _ => none⟩

def Store.val (s : Store α) (k : Key) : Option α := (s.ent k).map (·.val)

def Store.ver (s : Store α) (k : Key) : Nat :=
  match s.ent k with
  | some e => e.tok
  | none => 0

def Store.set (s : Store α) (k : Key) (e : Entry α) : Store α :=
  { s with ent := fun k' => if k' = k then some e else s.ent k' }

/-- The token a caller holds after a `Get`: consul `index` / etcd `revision` are only assigned when
the key exists; memberlist's `get` returns the stored version, 0 for an absent key. -/
def readIdx (s : Store α) (k : Key) (idx : Nat) : Nat :=
  match s.ent k with
  | some e => e.tok
  | none => match s.kind with
    | .ml => 0
    | _ => idx

inductive Outcome | wrote | conflict | nochange | declined | failed
  deriving DecidableEq, Repr

/-- The conditional write. `merge cur out = none` is memberlist's "no change detected". -/
def condWrite (merge : Option α → α → Option α) (s : Store α) (k : Key) (idx : Nat) (out : α) :
    Store α × Outcome :=
  match s.kind with
  | .consul =>
    -- mockKV.CAS: `if ok && existing.ModifyIndex != p.ModifyIndex {return false}`; m.current++
    match s.ent k with
    | some e =>
      if e.tok ≠ idx then (s, .conflict)
      else (({ s with cur := s.cur + 1 } : Store α).set k ⟨out, s.cur + 1⟩, .wrote)
    | none => (({ s with cur := s.cur + 1 } : Store α).set k ⟨out, s.cur + 1⟩, .wrote)
  | .etcd =>
    -- Txn If(Version(key) = revision) Then(Put): evalCmp reads a zero entry when absent; doPut Version+1 / 1
    if s.ver k ≠ idx then (s, .conflict) else (s.set k ⟨out, s.ver k + 1⟩, .wrote)
  | .ml =>
    -- mergeValueForKey(cas = true, casVersion = idx): `if cas && curr.Version != casVersion` → mismatch;
    -- version 0 = the key did not exist when it was read, and must still not exist
    if s.ver k ≠ idx then (s, .conflict)
    else match merge (s.val k) out with
      | none => (s, .nochange)
      | some r => (s.set k ⟨r, s.ver k + 1⟩, .wrote)

/-- HISTORY (not the current code): memberlist's rule before the repair of finding D4 (dskit commit
"memberlist KV CAS on a missing key is not atomic"): `if casVersion > 0 && curr.Version != casVersion`,
i.e. an attempt that had read an absent key (version 0) was never rejected. Kept only for the
witness `ml_first_write_not_atomic_history`; nothing in the model of the current code uses it. -/
def condWriteMlOld (merge : Option α → α → Option α) (s : Store α) (k : Key) (idx : Nat) (out : α) :
    Store α × Outcome :=
  if idx > 0 ∧ s.ver k ≠ idx then (s, .conflict)
  else match merge (s.val k) out with
    | none => (s, .nochange)
    | some r => (s.set k ⟨r, s.ver k + 1⟩, .wrote)

/-- What the caller-supplied function returns. -/
inductive FRet (α : Type)
  | write (out : α) (retry : Bool)
  | decline
  | fail (retry : Bool)

/-- One CAS call as seen by the backend client: the key is already mapped through the prefix
wrappers; `f att inp` is the result of the `att`-th invocation (0-based) on input `inp`;
`mirror` = a `MultiClient` with mirroring enabled is in the path. -/
structure Call (α : Type) where
  key : Key
  f : Nat → Option α → FRet α
  mirror : Bool

inductive Phase (α : Type)
  | idle
  | reading (cl : Call α) (cid att idx : Nat)                       -- next: Get on the primary
  | holding (cl : Call α) (cid att idx : Nat) (inp : Option α)      -- next: f, then conditional write
  | mreading (k : Key) (v : α) (att idx : Nat)                      -- mirror write: Get on the secondary
  | mholding (k : Key) (v : α) (att idx : Nat) (inp : Option α)     -- mirror write: conditional write

/-- Log record of one attempt (one invocation of `f`). -/
structure Rec (α : Type) where
  caller : Nat
  cid : Nat                 -- call identifier (unique per `begin`)
  key : Key
  att : Nat
  idx : Nat                 -- token held by the attempt
  inp : Option α            -- value `f` was applied to
  before : Option α         -- stored value at the moment of the conditional write
  out : Option α            -- value returned by `f` (none: declined / failed)
  after : Option α          -- stored value after the step
  outcome : Outcome
  done : Option Bool        -- `some true`: the CAS loop returns nil, `some false`: returns an error, `none`: retries

structure Cfg (α : Type) where
  budget : Nat                          -- attempts of the primary CAS loop (≥ 1)
  sbudget : Nat                         -- attempts of the mirror CAS loop
  merge : Option α → α → Option α       -- memberlist: merge `out` into the stored value; none = no change

structure Sys (α : Type) where
  pri : Store α
  sec : Store α
  ph : Nat → Phase α
  nextCid : Nat
  log : List (Rec α)        -- newest first

inductive Ev (α : Type)
  | begin (c : Nat) (cl : Call α)
  | step (c : Nat)

def Sys.setPh (s : Sys α) (c : Nat) (p : Phase α) : Sys α :=
  { s with ph := fun c' => if c' = c then p else s.ph c' }

/-- Is a failed conditional write retried? consul/etcd `continue` unconditionally; memberlist's
`trySingleCas` hands back the retry flag that `f` returned. -/
def retryable (kind : Backend) (retry : Bool) : Bool :=
  match kind with
  | .ml => retry
  | _ => true

/-- after a failed attempt: loop again (budget permitting) or give up with an error. -/
def retryPhase (cfg : Cfg α) (kind : Backend) (cl : Call α) (cid att idx : Nat) : Phase α × Option Bool :=
  if att + 1 < cfg.budget then
    (.reading cl cid (att + 1) (match kind with | .ml => 0 | _ => idx), none)
  else (.idle, some false)

/-- phase after the primary CAS succeeded with a written value. -/
def mirrorPhase (cfg : Cfg α) (cl : Call α) (out : α) : Phase α :=
  if cl.mirror ∧ 0 < cfg.sbudget then .mreading cl.key out 0 0 else .idle

/-- the apply + conditional-write step of caller `c`. -/
def commit (cfg : Cfg α) (s : Sys α) (c : Nat) (cl : Call α) (cid att idx : Nat) (inp : Option α) : Sys α :=
  let before := s.pri.val cl.key
  let mk (out : Option α) (after : Option α) (oc : Outcome) (done : Option Bool) : Rec α :=
    ⟨c, cid, cl.key, att, idx, inp, before, out, after, oc, done⟩
  match cl.f att inp with
  | .fail retry =>
    let (p, d) := if retry then retryPhase cfg s.pri.kind cl cid att idx else (.idle, some false)
    { (s.setPh c p) with log := mk none before .failed d :: s.log }
  | .decline =>
    { (s.setPh c .idle) with log := mk none before .declined (some true) :: s.log }
  | .write out retry =>
    match condWrite cfg.merge s.pri cl.key idx out with
    | (st, .wrote) =>
      { (s.setPh c (mirrorPhase cfg cl out)) with pri := st, log := mk (some out) (st.val cl.key) .wrote (some true) :: s.log }
    | (_, oc) =>
      let (p, d) := if retryable s.pri.kind retry then retryPhase cfg s.pri.kind cl cid att idx else (.idle, some false)
      { (s.setPh c p) with log := mk (some out) before oc d :: s.log }

/-- the conditional write of the mirror loop (`writeToSecondary`: `return newValue, false, nil`). -/
def mcommit (cfg : Cfg α) (s : Sys α) (c : Nat) (k : Key) (v : α) (att idx : Nat) : Sys α :=
  match condWrite cfg.merge s.sec k idx v with
  | (st, .wrote) => { (s.setPh c .idle) with sec := st }
  | (_, _) =>
    if retryable s.sec.kind false = true ∧ att + 1 < cfg.sbudget then s.setPh c (.mreading k v (att + 1) idx) else s.setPh c .idle

def next (cfg : Cfg α) (s : Sys α) : Ev α → Sys α
  | .begin c cl =>
    match s.ph c with
    | .idle => { (s.setPh c (.reading cl s.nextCid 0 0)) with nextCid := s.nextCid + 1 }
    | _ => s
  | .step c =>
    match s.ph c with
    | .idle => s
    | .reading cl cid att idx => s.setPh c (.holding cl cid att (readIdx s.pri cl.key idx) (s.pri.val cl.key))
    | .holding cl cid att idx inp => commit cfg s c cl cid att idx inp
    | .mreading k v att idx => s.setPh c (.mholding k v att (readIdx s.sec k idx) (s.sec.val k))
    | .mholding k v att idx _ => mcommit cfg s c k v att idx

def run (cfg : Cfg α) (s : Sys α) (evs : List (Ev α)) : Sys α := evs.foldl (next cfg) s

def Sys.init (pri sec : Store α) : Sys α := ⟨pri, sec, fun _ => .idle, 0, []⟩

/-! ### Wrappers -/

/-- `MultiClient.writeToSecondary`: "propagate new value to all remaining clients" — the mirror write
goes to every client of `m.clients` except the one the CAS call used as primary
(`if kvc == primary { continue }`). Clients are identified by their position in `m.clients`; the
primary is `primaryID`, which `setNewPrimaryClient` (runtime configuration) may have moved away from
position 0. In `Sys`, `pri` is the store the calls use as primary and `sec` the remaining one,
wherever they sit in the client list; the mirror phases (`mreading`/`mholding`) are the store-level
steps of this loop and act on `sec` only. -/
def mirrorTargets (clients : List Nat) (primary : Nat) : List Nat :=
  clients.filter (fun c => c != primary)

/-- `prefixedKVClient`: every operation goes to `prefix ++ key`. -/
def prefixKey (p : Key) (k : Key) : Key := p ++ k

/-! ### The value type used by the correspondence harness: max-register counter + grow-only id set -/

structure Val where
  ctr : Nat
  set : List Nat      -- strictly increasing
  deriving DecidableEq, Repr

def insertId (x : Nat) : List Nat → List Nat
  | [] => [x]
  | y :: ys => if x < y then x :: y :: ys else if x = y then y :: ys else y :: insertId x ys

def Val.empty : Val := ⟨0, []⟩

def Val.join (a b : Val) : Val := ⟨max a.ctr b.ctr, b.set.foldl (fun acc x => insertId x acc) a.set⟩

/-- `c07Val.Merge` + the "no change" test of `mergeValueForKey` (`len(change.MergeContent()) == 0`). -/
def Val.merge (cur : Option Val) (out : Val) : Option Val :=
  match cur with
  | none => if out.ctr = 0 ∧ out.set = [] then none else some out
  | some v => let r := v.join out; if r = v then none else some r

def Val.inc (v : Option Val) : Val := let w := v.getD Val.empty; ⟨w.ctr + 1, w.set⟩
def Val.app (id : Nat) (v : Option Val) : Val := let w := v.getD Val.empty; ⟨w.ctr, insertId id w.set⟩

end C07
