import Model.Ring
/-!
# C08 / C09 — the two instance lifecyclers as pure event handlers

Executable model of `ring/lifecycler.go` (`Lifecycler`, kind `LC`) and `ring/basic_lifecycler.go` +
`ring/basic_lifecycler_delegates.go` (`BasicLifecycler` with the delegate stack
AutoForget? ∘ TokensPersistency? ∘ LeaveOnStopping ∘ InstanceRegister, kind `BLC`).

One event = one handler of the actor goroutine = at most one `kv.Client.CAS` call. A handler is a
pure function of the lifecycler's remembered self (`Local`), its tokens file, the value the CAS
callback is given (`none` = key absent), the clock reading `now` (seconds; every `time.Now()` of the
handler), the token generator and the store fault injected into this CAS. It returns the new
`Local`, the new file, what the callback answered (`CasOut`) and the handler's return value.

Map iteration order never matters here (entries are only looked up by id, filtered, or their tokens
are merged and sorted), so `Desc` is used as an association list; `put` = erase + cons and the
oracle sorts by id before comparing with the implementation.

Sub-second clock: Go compares `now.Sub(time.Unix(ts,0)) <= timeout` with a nanosecond clock; with
`now` the whole second of that clock (fraction > 0) this is `now - ts < timeout`, and
`time.Since(ts) > period` is `now - ts ≥ period`.
-/
namespace C08
open Ring

inductive Kind | LC | BLC
  deriving DecidableEq, Repr, Inhabited

structure Cfg where
  kind : Kind := .LC
  id : String
  addr : String := ""
  zone : String := ""
  numTokens : Nat := 1
  /-- `ObservePeriod > 0` (only selects the target state of the join timer) -/
  observe : Bool := false
  /-- `TokensFilePath != ""` -/
  hasFile : Bool := false
  /-- `RingConfig.HeartbeatTimeout` in seconds (readiness) -/
  hbTimeout : Int := 61
  readinessRing : Bool := true
  minReady : Int := 0
  /-- `InstanceRegisterDelegate.registerState` (BLC) -/
  registerState : State := .ACTIVE
  /-- `AutoForgetDelegate.forgetPeriod` in seconds, if the delegate is in the stack (BLC) -/
  forget : Option Int := none
  deriving Repr, Inhabited

/-- the tokens file: missing, unparsable, or a token list -/
inductive File | absent | corrupt | tokens (l : List Nat)
  deriving DecidableEq, Repr, Inhabited

/-- `LoadTokensFromFile`: error (missing / unparsable) = `none`; tokens are sorted on load. -/
def File.load : File → Option (List Nat)
  | .tokens l => some (sortNat l)
  | _ => none

/-- the lifecycler's remembered self. `cur` is `BasicLifecycler.currInstanceDesc`; the other
fields are `Lifecycler.{state,tokens,registeredAt,readOnly,readOnlyLastUpdated,ready,readySince}`
(a zero `time.Time` is 0). `started` = a process exists and has run its first handler. -/
structure Local where
  started : Bool := false
  state : State := .PENDING
  tokens : List Nat := []
  regTs : Int := 0
  ro : Bool := false
  roTs : Int := 0
  ready : Bool := false
  readySince : Int := 0
  cur : Option Inst := none
  deriving DecidableEq, Repr, Inhabited

inductive Event
  /-- process start + `initRing` / `registerInstance`. `shuf` = the tokens `rand.Shuffle` kept (LC, too many tokens) -/
  | init (shuf : List Nat)
  /-- `case <-autoJoinAfter` -/
  | joinTimer
  | verify
  | heartbeat
  | changeState (s : State)
  | changeRO (b : Bool)
  | claim (frm : String)
  | unregister
  | checkReady
  /-- BLC: tail of `starting()` (`OnRingInstanceTokens`) -/
  | onTokens
  /-- BLC: `OnRingInstanceStopping` of the delegate stack (LeaveOnStopping) -/
  | stopDelegate
  deriving DecidableEq, Repr, Inhabited

/-- what the CAS callback answered -/
inductive CasOut
  | noCas            -- the handler did not reach the callback
  | declined         -- `return nil, _, nil`
  | cbErr            -- the callback returned an error
  | write (d : Desc)
  deriving DecidableEq, Repr, Inhabited

inductive Ret | ok | err | yes | no
  deriving DecidableEq, Repr, Inhabited

/-- store fault injected into this handler's CAS: the call fails before the callback runs, or the
callback runs (once) and the commit is rejected. -/
inductive Fault | none | failBefore | failCommit
  deriving DecidableEq, Repr, Inhabited

abbrev Gen := Int → List Nat → List Nat

structure Res where
  l : Local
  file : File
  out : CasOut := .noCas
  ret : Ret := .ok
  genReq : Option (Int × List Nat) := none
  deriving Repr, Inhabited

/-! ### descriptor operations -/

def erase (d : Desc) (id : String) : Desc := d.filter (fun i => i.id != id)
/-- `d.Ingesters[i.id] = i` -/
def put (d : Desc) (i : Inst) : Desc := i :: erase d i.id
/-- `Desc.GetTokens`: all tokens, merged and sorted -/
def allTokens (d : Desc) : List Nat := sortNat (d.flatMap (·.tokens))
def tokensOf (d : Desc) (id : String) : List Nat :=
  match d.get? id with
  | some i => i.tokens
  | none => []

def storeFile (c : Cfg) (file : File) (t : List Nat) : File := if c.hasFile then .tokens t else file

/-- the transition table of `Lifecycler.changeState` -/
def allowed (cur new : State) : Bool :=
  (cur == .PENDING && new == .JOINING) || (cur == .JOINING && new == .PENDING) ||
  (cur == .JOINING && new == .ACTIVE) || (cur == .PENDING && new == .ACTIVE) ||
  (cur == .ACTIVE && new == .LEAVING)

def retOf (f : Fault) : Ret := if f = .failCommit then .err else .ok

/-! ### full `Lifecycler` -/

/-- the entry `AddIngester(i.ID, i.Addr, i.Zone, tokens, i.GetState(), i.getRegisteredAt(), ro, rots, nil)` -/
def lcInst (c : Cfg) (l : Local) (tokens : List Nat) (now : Int) : Inst :=
  { id := c.id, addr := c.addr, ts := now, state := l.state, tokens := tokens, zone := c.zone,
    regTs := l.regTs, roTs := l.roTs, ro := l.ro, versions := [] }

def pickShuf (shuf toks : List Nat) (n : Nat) : List Nat :=
  if shuf.length = n ∧ shuf.all (fun t => toks.contains t) then shuf else toks.take n

/-- token adjustment of `initRing` for an entry found LEAVING -/
def lcAdjust (c : Cfg) (d : Desc) (inst : Inst) (shuf : List Nat) (gen : Gen) : List Nat × Option (Int × List Nat) :=
  if inst.state = .LEAVING then
    if inst.tokens.length < c.numTokens then
      let n : Int := (c.numTokens : Int) - inst.tokens.length
      (sortNat (inst.tokens ++ gen n (allTokens d)), some (n, allTokens d))
    else if inst.tokens.length > c.numTokens then (sortNat (pickShuf shuf inst.tokens c.numTokens), none)
    else (inst.tokens, none)
  else (inst.tokens, none)

/-- the entry `initRing` takes over from an existing, non-JOINING entry (before the timestamp):
LEAVING becomes ACTIVE, tokens adjusted, address and zone are ours -/
def initInst (c : Cfg) (inst : Inst) (toks : List Nat) : Inst :=
  { inst with state := (if inst.state = .LEAVING then State.ACTIVE else inst.state), tokens := toks, addr := c.addr, zone := c.zone }

def lcInit (c : Cfg) (file : File) (din : Option Desc) (shuf : List Nat) (now : Int) (gen : Gen) (fault : Fault) : Res :=
  let l0 : Local := { started := true }
  if fault = .failBefore then { l := l0, file := file, out := .noCas, ret := .err } else
  let d := din.getD []
  let fromFile := if c.hasFile then file.load.getD [] else []
  match d.get? c.id with
  | none =>
    -- not in the ring: registered now; tokens from the file (if any) are used, ACTIVE at once if there are enough
    let l2 : Local := { l0 with regTs := now, tokens := fromFile,
                                state := if 0 < fromFile.length ∧ c.numTokens ≤ fromFile.length then .ACTIVE else .PENDING }
    { l := l2, file := if 0 < fromFile.length then storeFile c file fromFile else file,
      out := .write (put d (lcInst c l2 fromFile now)), ret := retOf fault }
  | some inst =>
    let l1 : Local := { l0 with regTs := inst.regTs, ro := inst.ro, roTs := if inst.roTs > 0 then inst.roTs else 0 }
    if inst.state = .JOINING then
      -- the edit `instanceDesc.State = PENDING` is made on a copy: the ring is written back unchanged
      { l := l1, file := file, out := .write d, ret := retOf fault }
    else
      let adj := lcAdjust c d inst shuf gen
      let inst' := initInst c inst adj.1
      { l := { l1 with state := inst'.state, tokens := adj.1 }, file := storeFile c file adj.1,
        out := if inst' ≠ inst then .write (put d { inst' with ts := now }) else .declined,
        ret := retOf fault, genReq := adj.2 }

def lcAutoJoin (c : Cfg) (l : Local) (file : File) (din : Option Desc) (target : State) (now : Int) (gen : Gen) (fault : Fault) : Res :=
  if fault = .failBefore then { l := l, file := file, out := .noCas, ret := .err } else
  let d := din.getD []
  -- missing in the ring (the ring was lost): it is registered again below, with a fresh registration time
  let l0 : Local := match d.get? c.id with
    | none => { l with regTs := now }
    | some _ => l
  let my := tokensOf d c.id
  let taken := allTokens d
  let n : Int := (c.numTokens : Int) - my.length
  let toks := sortNat (my ++ gen n taken)
  let l1 : Local := { l0 with state := target, tokens := toks }
  { l := l1, file := storeFile c file toks, out := .write (put d (lcInst c l1 toks now)), ret := retOf fault,
    genReq := some (n, taken) }

def lcJoinTimer (c : Cfg) (l : Local) (file : File) (din : Option Desc) (now : Int) (gen : Gen) (fault : Fault) : Res :=
  if l.state = .PENDING then lcAutoJoin c l file din (if c.observe then .JOINING else .ACTIVE) now gen fault
  else { l := l, file := file, out := .noCas, ret := .ok }

def lcVerify (c : Cfg) (l : Local) (file : File) (din : Option Desc) (now : Int) (gen : Gen) (fault : Fault) : Res :=
  if fault = .failBefore then { l := l, file := file, out := .noCas, ret := .no } else
  let d := din.getD []
  match d.get? c.id with
  | none =>
    -- missing in the ring (the ring was lost): re-register the remembered tokens and state with a fresh registration
    -- time, exactly as `updateConsul` does; nothing is generated, the tokens are verified again at the next observation
    let l1 : Local := { l with regTs := now }
    { l := l1, file := file, out := .write (put d (lcInst c l1 l.tokens now)), ret := .no }
  | some _ =>
    let ringT := tokensOf d c.id
    let taken := allTokens d
    let same : Bool := sortNat ringT = sortNat l.tokens      -- compareTokens (sorts both in place)
    let n : Int := (c.numTokens : Int) - ringT.length
    let rt := sortNat (ringT ++ gen n taken)
    { l := { l with tokens := if same then sortNat l.tokens else rt },
      file := if same then file else storeFile c file rt,
      out := if same then .declined else .write (put d (lcInst c l rt now)),
      ret := if same ∧ fault ≠ .failCommit then .yes else .no,
      genReq := if same then none else some (n, taken) }

/-- `updateConsul` (heartbeat; also the tail of `changeState` / `ChangeReadOnlyState`) -/
def lcUpdate (c : Cfg) (l : Local) (file : File) (din : Option Desc) (now : Int) (fault : Fault) : Res :=
  if fault = .failBefore then { l := l, file := file, out := .noCas, ret := .err } else
  let d := din.getD []
  -- missing in the ring: re-register with a fresh registration time and the remembered tokens
  let l1 : Local := match d.get? c.id with
    | none => { l with regTs := now }
    | some _ => l
  let tokens := match d.get? c.id with
    | none => l.tokens
    | some inst => inst.tokens
  { l := l1, file := file, out := .write (put d (lcInst c l1 tokens now)), ret := retOf fault }

def lcChangeState (c : Cfg) (l : Local) (file : File) (din : Option Desc) (s : State) (now : Int) (fault : Fault) : Res :=
  if allowed l.state s then lcUpdate c { l with state := s } file din now fault
  else { l := l, file := file, out := .noCas, ret := .err }

def lcChangeRO (c : Cfg) (l : Local) (file : File) (din : Option Desc) (b : Bool) (now : Int) (fault : Fault) : Res :=
  if l.ro = b then { l := l, file := file, out := .noCas, ret := .ok }
  else lcUpdate c { l with ro := b, roTs := now } file din now fault

/-- `Desc.ClaimTokens(from, self)` + heartbeat + sort, on a descriptor: `from`'s tokens move to the own entry -/
def claimOn (c : Cfg) (d0 : Desc) (frm : String) (now : Int) : Desc :=
  let toks := sortNat (tokensOf d0 frm)
  let d1 := match d0.get? frm with
    | some f => put d0 { f with tokens := [] }
    | none => d0
  let ing : Inst := (d1.get? c.id).getD { id := c.id }
  put d1 { ing with tokens := toks, ts := now }

/-- `ClaimTokensFor`: an instance missing in the ring is first added back (remembered state and tokens, fresh registration
time), then `Desc.ClaimTokens(from, self)`, heartbeat, sort. When the CAS fails (store rejects the call, the callback
returns an error, the commit is rejected) nothing was claimed and the remembered tokens are kept; otherwise
`setTokens(claimed)`. -/
def lcClaim (c : Cfg) (l : Local) (file : File) (din : Option Desc) (frm : String) (now : Int) (fault : Fault) : Res :=
  if fault = .failBefore then { l := l, file := file, out := .noCas, ret := .ok } else
  match din with
  | none => { l := l, file := file, out := .cbErr, ret := .ok }
  | some d =>
    let l0 : Local := match d.get? c.id with
      | none => { l with regTs := now }
      | some _ => l
    let d0 := match d.get? c.id with
      | none => put d (lcInst c l0 l.tokens now)
      | some _ => d
    let toks := sortNat (tokensOf d0 frm)
    { l := if fault = .failCommit then l0 else { l0 with tokens := toks },
      file := if fault = .failCommit then file else storeFile c file toks,
      out := .write (claimOn c d0 frm now), ret := .ok }

def lcUnregister (c : Cfg) (l : Local) (file : File) (din : Option Desc) (fault : Fault) : Res :=
  if fault = .failBefore then { l := l, file := file, out := .noCas, ret := .err } else
  match din with
  | none => { l := l, file := file, out := .cbErr, ret := .err }
  | some d => { l := l, file := file, out := .write (erase d c.id), ret := retOf fault }

def healthy (c : Cfg) (now : Int) (i : Inst) : Bool := decide (now - i.ts < c.hbTimeout)
/-- `InstanceDesc.IsReady` -/
def instReady (c : Cfg) (now : Int) (i : Inst) : Bool := healthy c now i && i.state == .ACTIVE

/-- `checkRingHealthForReadiness` after the token check; `store` = what `KVStore.Get` returns -/
def ringReady (c : Cfg) (store : Option Desc) (now : Int) : Bool :=
  match store with
  | none => false
  | some d =>
    if c.readinessRing then d.all (instReady c now) && (d.flatMap (·.tokens)).length != 0
    else match d.get? c.id with
      | some i => instReady c now i
      | none => false

/-- `CheckReady`; `getFails` = the store's Get returns an error -/
def lcCheckReady (c : Cfg) (l : Local) (store : Option Desc) (now : Int) (getFails : Bool) : Local × Ret :=
  if l.ready then (l, .ok)
  else if l.tokens.length = 0 ∨ getFails ∨ ringReady c store now = false then ({ l with readySince := 0 }, .err)
  else
    let since := if l.readySince = 0 then now else l.readySince
    if now - since < c.minReady then ({ l with readySince := since }, .err)
    else ({ l with readySince := since, ready := true }, .ok)

/-! ### `BasicLifecycler` with the standard delegates -/

def blcTokens (l : Local) : List Nat := match l.cur with | some i => i.tokens | none => []
def blcState (l : Local) : State := match l.cur with | some i => i.state | none => .PENDING
def blcRO (l : Local) : Bool × Int :=
  match l.cur with
  | some i => if i.ro then (true, i.roTs) else (false, 0)
  | none => (false, 0)

/-- what `TokensPersistencyDelegate` hands to `InstanceRegisterDelegate` as the tokens to keep -/
def blcInherited (c : Cfg) (file : File) (ex : Option Inst) : List Nat :=
  match ex with
  | some i => if c.hasFile ∧ i.tokens.length = 0 then (file.load.getD i.tokens) else i.tokens
  | none => if c.hasFile then file.load.getD [] else []

def blcRegister (c : Cfg) (file : File) (din : Option Desc) (now : Int) (gen : Gen) (fault : Fault) : Res :=
  let l0 : Local := { started := true }
  if fault = .failBefore then { l := l0, file := file, out := .noCas, ret := .err } else
  let d := din.getD []
  let ex := d.get? c.id
  let base := blcInherited c file ex
  -- the kept tokens may not be in the ring (tokens file): they are reported as taken too
  let taken := allTokens d ++ base
  let n : Int := (c.numTokens : Int) - base.length
  let toks := sortNat (base ++ gen n taken)
  let inst : Inst :=
    { id := c.id, addr := c.addr, ts := now, state := c.registerState, tokens := toks, zone := c.zone,
      regTs := (match ex with | some i => i.regTs | none => now),
      roTs := (match ex with | some i => if i.roTs > 0 then i.roTs else 0 | none => 0),
      ro := (match ex with | some i => i.ro | none => false), versions := [] }
  { l := if fault = .failCommit then l0 else { l0 with cur := some inst }, file := file,
    out := .write (put d inst), ret := retOf fault, genReq := some (n, taken) }

/-- result of an `updateInstance` callback argument -/
structure Upd where
  changed : Bool
  inst : Inst
  d : Desc
  flag : Bool := false
  genReq : Option (Int × List Nat) := none

/-- the entry `updateInstance` re-inserts when the instance is missing -/
def blcReinsert (c : Cfg) (l : Local) (now : Int) : Inst :=
  { id := c.id, addr := c.addr, ts := now, state := blcState l, tokens := blcTokens l, zone := c.zone,
    regTs := now, roTs := (blcRO l).2, ro := (blcRO l).1, versions := [] }

def blcUpdateInstance (c : Cfg) (l : Local) (file : File) (din : Option Desc) (now : Int) (fault : Fault)
    (update : Desc → Inst → Upd) : Res × Bool :=
  if fault = .failBefore then ({ l := l, file := file, out := .noCas, ret := .err }, false) else
  let d0 := din.getD []
  let ok := (d0.get? c.id).isSome
  -- missing in the ring: re-insert the remembered self with a fresh registration time
  let i := (d0.get? c.id).getD (blcReinsert c l now)
  let d1 := if ok then d0 else put d0 i
  let u := update d1 i
  let inst1 : Inst := if u.inst.ts = i.ts then { u.inst with ts := now } else u.inst
  let declined := ok && !u.changed
  let cur := if declined then u.inst else inst1
  ({ l := if fault = .failCommit then l else { l with cur := some cur }, file := file,
     out := if declined then .declined else .write (put u.d inst1),
     ret := retOf fault, genReq := u.genReq }, u.flag)

/-- `AutoForgetDelegate.OnRingInstanceHeartbeat` followed by `i.Timestamp = now` -/
def updHeartbeat (c : Cfg) (now : Int) (d : Desc) (i : Inst) : Upd :=
  { changed := true, inst := { i with ts := now },
    d := match c.forget with
      | some p => d.filter (fun x => !decide (now - x.ts ≥ p))
      | none => d }

def updState (s : State) (d : Desc) (i : Inst) : Upd :=
  if i.state = s then { changed := false, inst := i, d := d } else { changed := true, inst := { i with state := s }, d := d }

def updRO (b : Bool) (now : Int) (d : Desc) (i : Inst) : Upd :=
  if i.ro = b then { changed := false, inst := i, d := d } else { changed := true, inst := { i with ro := b, roTs := now }, d := d }

def updVerify (c : Cfg) (l : Local) (gen : Gen) (d : Desc) (i : Inst) : Upd :=
  if sortNat i.tokens = sortNat (blcTokens l) then { changed := false, inst := i, d := d, flag := true }
  else
    let n : Int := (c.numTokens : Int) - i.tokens.length
    { changed := true, inst := { i with tokens := sortNat (i.tokens ++ gen n (allTokens d)) }, d := d,
      genReq := some (n, allTokens d) }

def blcUnregister (c : Cfg) (l : Local) (file : File) (din : Option Desc) (fault : Fault) : Res :=
  if fault = .failBefore then { l := l, file := file, out := .noCas, ret := .err } else
  match din with
  | none => { l := l, file := file, out := .cbErr, ret := .err }
  | some d => { l := if fault = .failCommit then l else { l with cur := none }, file := file,
                out := .write (erase d c.id), ret := retOf fault }

/-! ### one event -/

def noop (l : Local) (file : File) (r : Ret) : Res := { l := l, file := file, out := .noCas, ret := r }

/-- One handler. For `checkReady`, `din` is what `Get` returns and `failBefore` means Get fails. -/
def step (c : Cfg) (l : Local) (file : File) (din : Option Desc) (ev : Event) (now : Int) (gen : Gen) (fault : Fault) : Res :=
  match c.kind, ev with
  | .LC, .init shuf => lcInit c file din shuf now gen fault
  | .BLC, .init _ => blcRegister c file din now gen fault
  | k, ev =>
    if !l.started then noop l file .err else
    match k, ev with
    | .LC, .joinTimer => lcJoinTimer c l file din now gen fault
    | .LC, .verify => lcVerify c l file din now gen fault
    | .LC, .heartbeat => lcUpdate c l file din now fault
    | .LC, .changeState s => lcChangeState c l file din s now fault
    | .LC, .changeRO b => lcChangeRO c l file din b now fault
    | .LC, .claim frm => lcClaim c l file din frm now fault
    | .LC, .unregister => lcUnregister c l file din fault
    | .LC, .checkReady =>
      let r := lcCheckReady c l din now (fault = .failBefore)
      { l := r.1, file := file, out := .noCas, ret := r.2 }
    | .BLC, .verify =>
      let r := blcUpdateInstance c l file din now fault (updVerify c l gen)
      { r.1 with ret := if r.1.ret = .ok ∧ r.2 then .yes else .no }
    | .BLC, .heartbeat => { (blcUpdateInstance c l file din now fault (updHeartbeat c now)).1 with ret := .ok }
    | .BLC, .changeState s => (blcUpdateInstance c l file din now fault (updState s)).1
    | .BLC, .changeRO b => (blcUpdateInstance c l file din now fault (updRO b now)).1
    | .BLC, .stopDelegate => { (blcUpdateInstance c l file din now fault (updState .LEAVING)).1 with ret := .ok }
    | .BLC, .unregister => blcUnregister c l file din fault
    | .BLC, .onTokens =>
      { l := l, file := if (blcTokens l).length > 0 then storeFile c file (blcTokens l) else file, out := .noCas, ret := .ok }
    | _, _ => noop l file .err

/-- the store after the handler's CAS: only an un-faulted `write` commits -/
def commit (store : Option Desc) (r : Res) (fault : Fault) : Option Desc :=
  match r.out, fault with
  | .write d, .none => some d
  | _, _ => store

/-! ### schedules

`Sys`: ONE lifecycler against an arbitrary environment (the other lifecyclers, operators, a store
that loses the key): an action is either one of its own handlers or a change of the store made by
somebody else. `World`: n lifecyclers sharing the store; a schedule is the order of their handler
runs (= the order of CAS commits, the in-memory store being linearizable). -/

structure Sys where
  store : Option Desc
  l : Local := {}
  file : File := .absent
  clock : Int := 0

inductive Act
  | own (ev : Event) (now : Int) (gen : Gen) (fault : Fault)
  /-- somebody else changed the store; the clock reads `now` -/
  | env (store : Option Desc) (now : Int)
  /-- the process dies (between two handlers); store and tokens file survive -/
  | crash
  /-- the process dies INSIDE a handler, after its CAS callback ran: before the commit (the write is lost) or
  right after it. What the callback wrote to the tokens file stays (`ClaimTokensFor` stores after the CAS). -/
  | crashIn (ev : Event) (now : Int) (gen : Gen) (afterCommit : Bool)

def Sys.next (c : Cfg) (s : Sys) : Act → Sys
  | .own ev now gen fault =>
    let r := step c s.l s.file s.store ev now gen fault
    { store := commit s.store r fault, l := r.l, file := r.file, clock := now }
  | .env st now => { s with store := st, clock := now }
  | .crash => { s with l := {} }
  | .crashIn ev now gen afterCommit =>
    let r := step c s.l s.file s.store ev now gen .none
    { store := if afterCommit then commit s.store r .none else s.store, l := {},
      file := (match ev with | .claim _ => s.file | _ => r.file), clock := now }

def Sys.run (c : Cfg) (s : Sys) (acts : List Act) : Sys := acts.foldl (Sys.next c) s

structure Node where
  cfg : Cfg
  l : Local := {}
  file : File := .absent

structure World where
  store : Option Desc
  nodes : List Node
  clock : Int := 0

structure WAct where
  idx : Nat
  act : Act

def World.next (w : World) (a : WAct) : World :=
  match w.nodes[a.idx]? with
  | none => w
  | some nd =>
    let s := Sys.next nd.cfg { store := w.store, l := nd.l, file := nd.file, clock := w.clock } a.act
    { store := s.store, nodes := w.nodes.set a.idx { nd with l := s.l, file := s.file }, clock := s.clock }

def World.run (w : World) (acts : List WAct) : World := acts.foldl World.next w

/-! ### compare-and-swap retries

The stores update the ring key by compare-and-swap: the handler (`f`) computes a new ring from the value read; if somebody
else wrote in between, the write is refused and `f` runs AGAIN on the fresh value, until an attempt is not interfered
with. `reads` = the values the successive attempts read; all attempts but the last are discarded — a handler must decide
from its argument alone, never from what an earlier attempt saw or generated. -/
def casRetry (f : Option Desc → Res) : List (Option Desc) → Option Res
  | [] => none
  | [d] => some (f d)
  | _ :: ds => casRetry f ds

/-- the shape that is NOT allowed (seen as a seeded change of `BasicLifecycler.registerInstance`): state and tokens are
computed on the FIRST value read and published on whatever ring the last attempt reads -/
def casReuseFirst (f : Option Desc → Res) (id : String) : List (Option Desc) → Option Res
  | [] => none
  | first :: rest =>
    let r := f first
    match r.out, (first :: rest).getLast? with
    | .write d1, some last =>
      (match Desc.get? d1 id with
       | some i => some { r with out := .write (put (last.getD []) i) }
       | none => some r)
    | _, _ => some r

end C08
