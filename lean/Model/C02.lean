import Model.C01
/-!
# C02 — executable model of `GetReplicationSetForOperation` and the quorum success criteria

Reuses C01's model for the per-key write lookup (`C01.get … opWrite`).
* `getAll` mirrors `Ring.GetReplicationSetForOperation` (ring.go): health scan of every registered
  instance, `zoneFailures`, and the two tolerance computations. Go iterates the instance map; the
  model scans the descriptor in id order and the result is compared as a set.
* `writeOk` / `readOkFlat` / `readOkZones` are the success criteria of the executors at model level:
  `DoBatch`'s `minSuccess = len(Instances) − MaxErrors`; `defaultResultTracker.succeeded`
  (`numSucceeded ≥ len(instances) − maxErrors`); `zoneAwareResultTracker.succeeded` (zones whose every
  instance answered ≥ number of zones − maxUnavailableZones). They are tied to the code in C10/C11.
-/
namespace C02
open Common Ring C01

structure RSetAll where
  instances : List Inst
  maxErrors : Nat
  maxUnavailableZones : Nat
  zoneAware : Bool
  deriving DecidableEq, Repr

/-- key set of a Go `map[string]…` filled from a list: the distinct strings, order irrelevant -/
def dedupStr : List String → List String
  | [] => []
  | x :: xs => if xs.contains x then dedupStr xs else x :: dedupStr xs

/-- distinct zones of a list of instances (`ringZones`, `zoneFailures`, `waitingByZone` key sets) -/
def zonesOf (l : List Inst) : List String := dedupStr (l.map (·.zone))

/-- `Ring.GetReplicationSetForOperation(op)` on a ring with token circle `tokens`. -/
def getAll (cfg : Cfg) (d : Desc) (tokens : List Nat) (op : Op) (now : Int) : Except Err RSetAll :=
  if tokens.length = 0 then .error .emptyRing else
  let healthy := d.filter (isHealthy op cfg.hbTimeout now)
  let zoneFailures := zonesOf (d.filter (fun i => !isHealthy op cfg.hbTimeout now i))
  if cfg.zoneAware then
    let numReplicatedZones := min (zonesOf d).length cfg.rf
    let minSuccessZones := numReplicatedZones / 2 + 1
    let maxUnavailableZones := minSuccessZones - 1
    if zoneFailures.length > maxUnavailableZones then .error .tooManyUnhealthy
    else
      let healthy :=
        if zoneFailures.length > 0 then healthy.filter (fun i => !zoneFailures.contains i.zone) else healthy
      .ok { instances := healthy, maxErrors := 0,
            maxUnavailableZones := maxUnavailableZones - zoneFailures.length, zoneAware := true }
  else
    let numRequired := (if d.length < cfg.rf then cfg.rf else d.length) - cfg.rf / 2
    if healthy.length < numRequired then .error .tooManyUnhealthy
    else .ok { instances := healthy, maxErrors := healthy.length - numRequired,
               maxUnavailableZones := 0, zoneAware := false }

/-- a set `A` of replicas whose acknowledgements make a quorum write to `W` succeed -/
def writeOk (A : List Inst) (W : RSet) : Prop :=
  A.Nodup ∧ (∀ a ∈ A, a ∈ W.instances) ∧ W.instances.length - W.maxErrors ≤ A.length

/-- a set `B` of instances whose answers make a quorum read of `R` succeed (not zone-aware) -/
def readOkFlat (B : List Inst) (R : RSetAll) : Prop :=
  B.Nodup ∧ (∀ b ∈ B, b ∈ R.instances) ∧ R.instances.length - R.maxErrors ≤ B.length

/-- a set `Zs` of zones all of whose instances answered, making a zone-aware quorum read succeed -/
def readOkZones (Zs : List String) (R : RSetAll) : Prop :=
  Zs.Nodup ∧ (∀ z ∈ Zs, z ∈ zonesOf R.instances) ∧ (zonesOf R.instances).length - R.maxUnavailableZones ≤ Zs.length

/-- a write-type operation: a state it accepts as healthy never extends the replica set
(`Write`, `WriteNoExtend`, `Reporting`; not `Read`, which accepts and extends on PENDING) -/
def NonExtending (op : Op) : Prop := ∀ s : State, healthyState op s = true → extendsOn op s = false

end C02
