import Model.C01
/-!
# C01 — declarative specification of the lookup (written from the property text)

Nothing here looks at `ringTokens`, `searchToken`, the walk loop or its counters. It only uses the
descriptor: all `(token, owner)` pairs in ascending token order (`Ring.Desc.tokenOwners`).

* `circle d key`   : the token circle read clockwise from the first token strictly greater than `key`.
* `D d key`        : the distinct instances met on that walk, each at its first occurrence.
* `Sfull`          : zone-awareness off: `D`. On: the members `x` of `D` such that no earlier
                     non-extending member of `D` lies in `x`'s (non-empty) zone — "at most one per zone",
                     an extending instance not using up its zone.
* `specWalked`     : the shortest prefix of `Sfull` holding `rf` non-extending members ("the first
                     replication-factor instances, plus one further instance for each extending one"),
                     all of `Sfull` if there are fewer.
* `specGet`        : healthy members of `specWalked`; fails iff `healthy < max rf |walked| / 2 + 1`,
                     else tolerates `healthy − (max rf |walked| / 2 + 1)` errors.
-/
namespace C01
open Common Ring

def circle (d : Desc) (key : Nat) : List (Nat × Inst) :=
  d.tokenOwners.filter (fun p => decide (key < p.1)) ++ d.tokenOwners.filter (fun p => decide (p.1 ≤ key))

/-- keep the first occurrence of every instance id. -/
def dedupIds (seen : List String) : List Inst → List Inst
  | [] => []
  | x :: xs => if seen.contains x.id then dedupIds seen xs else x :: dedupIds (x.id :: seen) xs

def D (d : Desc) (key : Nat) : List Inst := dedupIds [] ((circle d key).map (·.2))

/-- `x` is blocked when an earlier non-extending member of `D` lies in the same non-empty zone. -/
def zoneBlocked (op : Op) (earlier : List Inst) (x : Inst) : Bool :=
  x.zone != "" && earlier.any (fun y => y.zone == x.zone && !extendsOn op y.state)

def sfullAux (op : Op) (earlier : List Inst) : List Inst → List Inst
  | [] => []
  | x :: xs =>
    if zoneBlocked op earlier x then sfullAux op (earlier ++ [x]) xs
    else x :: sfullAux op (earlier ++ [x]) xs

def Sfull (cfg : Cfg) (op : Op) (d : Desc) (key : Nat) : List Inst :=
  if cfg.zoneAware then sfullAux op [] (D d key) else D d key

/-- shortest prefix containing `n` non-extending members (everything if there are fewer). -/
def takeRf (op : Op) : Nat → List Inst → List Inst
  | _, [] => []
  | 0, _ => []
  | n + 1, x :: xs => x :: takeRf op (if extendsOn op x.state then n + 1 else n) xs

def specWalked (cfg : Cfg) (op : Op) (d : Desc) (key : Nat) : List Inst :=
  takeRf op cfg.rf (Sfull cfg op d key)

/-- majority of the walked set, or of the replication factor if larger -/
def majority (rf n : Nat) : Nat := max rf n / 2 + 1

structure SpecRes where
  ok : Bool
  instances : List Inst     -- healthy members (walk order)
  maxErrors : Nat
  deriving DecidableEq, Repr

def specGet (cfg : Cfg) (op : Op) (d : Desc) (key : Nat) (now : Int) : SpecRes :=
  let w := specWalked cfg op d key
  let h := w.filter (isHealthy op cfg.hbTimeout now)
  let m := majority cfg.rf w.length
  if h.length < m then { ok := false, instances := [], maxErrors := 0 }
  else { ok := true, instances := h, maxErrors := h.length - m }

/-- well-formed ring (the C05 invariant): unique ids, every token owned by exactly one instance. -/
def WFRing (d : Desc) : Prop :=
  (d.map (·.id)).Nodup ∧ (d.flatMap (·.tokens)).Nodup

instance (d : Desc) : Decidable (WFRing d) := by unfold WFRing; exact inferInstance

/-- tokens are `uint32` values (§1.4: tokens are `Nat` with an explicit range predicate) -/
def TokensU32 (d : Desc) : Prop := ∀ i ∈ d, ∀ t ∈ i.tokens, t ≤ maxToken

instance (d : Desc) : Decidable (TokensU32 d) := by unfold TokensU32; exact inferInstance

end C01
