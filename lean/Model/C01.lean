import Model.Ring
/-!
# C01 — executable model of the key lookup (`ring/ring.go`, `ring/util.go`,
`ring/replication_strategy.go`, `ring/model.go`, `loser/loser.go`)

Reads like the Go code:
* `Op` is the `Operation` bitmap (`NewOp`, `IsInstanceInStateHealthy`, `ShouldExtendReplicaSetOnState`).
* `loserMerge` is `MergeTokens` = `loser.New(lists, math.MaxUint32)` + the `for tree.Next()` loop, node by
  node (the list order is Go's map iteration order and therefore a parameter).
* `searchToken` is `slices.BinarySearch` (by its contract on a sorted slice) + the two adjustments.
* `walk` is the `for` loop of `findInstancesForKey`, by structural recursion over the token circle
  rotated to `start` (one element = one iteration, so `iterations < len(ringTokens)` is list exhaustion).
  The per-zone counter slices indexed by zone index are functions of the zone name.
* `filter` is `defaultReplicationStrategy.Filter`; `time.Now()` is the parameter `now` (seconds).
-/
namespace C01
open Common Ring

inductive Err | emptyRing | inconsistentTokens | rfTooLarge | tooManyUnhealthy | panic
  deriving DecidableEq, Repr, Inhabited

def Err.name : Err → String
  | .emptyRing => "emptyRing" | .inconsistentTokens => "inconsistentTokens" | .rfTooLarge => "rfTooLarge"
  | .tooManyUnhealthy => "tooManyUnhealthy" | .panic => "panic"

/-! ## Operations (`ring.go` `NewOp`) -/

/-- `Operation`: lower 16 bits = healthy states, upper 16 bits = states that extend the replica set. -/
abbrev Op := Nat

def allStates : List State := [.ACTIVE, .LEAVING, .PENDING, .JOINING, .LEFT]

def newOp (healthy : List State) (ext : Option (State → Bool)) : Op :=
  let op := healthy.foldl (fun op s => op ||| (1 <<< s.toNat)) 0
  match ext with
  | none => op
  | some f => allStates.foldl (fun op s => if f s then op ||| (0x10000 <<< s.toNat) else op) op

/-- `op.IsInstanceInStateHealthy(s)` -/
def healthyState (op : Op) (s : State) : Bool := decide (op &&& (1 <<< s.toNat) > 0)
/-- `op.ShouldExtendReplicaSetOnState(s)` -/
def extendsOn (op : Op) (s : State) : Bool := decide (op &&& (0x10000 <<< s.toNat) > 0)

def opWrite : Op := newOp [.ACTIVE] (some fun s => s != .ACTIVE)
def opWriteNoExtend : Op := newOp [.ACTIVE] none
def opRead : Op := newOp [.ACTIVE, .PENDING, .LEAVING] (some fun s => s != .ACTIVE && s != .LEAVING)
def opReporting : Op := 0x0000ffff

structure Cfg where
  rf : Nat                -- cfg.ReplicationFactor
  zoneAware : Bool        -- cfg.ZoneAwarenessEnabled
  hbTimeout : Int := 60   -- cfg.HeartbeatTimeout in seconds
  deriving DecidableEq, Repr

/-- `InstanceDesc.IsHealthy(op, heartbeatTimeout, now)` (whole seconds). -/
def isHealthy (op : Op) (timeout now : Int) (i : Inst) : Bool :=
  healthyState op i.state && decide (now - i.ts ≤ timeout)

/-- `InstanceDesc.IsHealthy` at nanosecond resolution, exactly as the code computes it:
`now.Sub(time.Unix(i.Timestamp, 0)) <= heartbeatTimeout` with `now` = `sec` whole seconds plus `nanos`
nanoseconds (`nanos < 10^9`) and the timeout a whole number of seconds. -/
def isHealthyAt (op : Op) (timeout sec : Int) (nanos : Nat) (i : Inst) : Bool :=
  healthyState op i.state && decide ((sec - i.ts) * 1000000000 + (nanos : Int) ≤ timeout * 1000000000)

/-- The whole-second clock value the integer-second functions (`isHealthy`, `filter`, `get`, …) must be
given for a wall clock of `sec` s + `nanos` ns: the clock rounded UP (`PC01.isHealthyAt_eq_ceil`). -/
def ceilNow (sec : Int) (nanos : Nat) : Int := if nanos = 0 then sec else sec + 1

/-! ## `loser.Tree` and `MergeTokens` -/

structure Node where
  index : Int := 0
  value : Nat := 0
  items : List Nat := []
  deriving Inhabited, DecidableEq, Repr

structure Tree where
  maxVal : Nat
  nodes : List Node
  deriving DecidableEq, Repr

def Tree.get (t : Tree) (i : Nat) : Node := t.nodes.getD i default
def Tree.set (t : Tree) (i : Nat) (n : Node) : Tree := { t with nodes := t.nodes.set i n }
/-- Go indexes with an `int`; an index of -1 would panic, the model maps it to node 0 (never read when
the code does not panic: `nodes[0].index` is only -1 before `initialize`). -/
def Tree.geti (t : Tree) (i : Int) : Node := t.get i.toNat

def Tree.moveNext (t : Tree) (i : Nat) : Tree × Bool :=
  let n := t.get i
  match n.items with
  | x :: xs => (t.set i { n with value := x, items := xs }, true)
  | [] => (t.set i { n with value := t.maxVal, index := -1 }, false)

/-- `loser.New` -/
def Tree.new (lists : List (List Nat)) (maxVal : Nat) : Tree :=
  let nLists := lists.length
  let t : Tree := { maxVal := maxVal, nodes := List.replicate (nLists * 2) {} }
  let t := (lists.zipIdx).foldl (fun t (s, i) =>
    let t := t.set (i + nLists) { t.get (i + nLists) with items := s }
    (t.moveNext (i + nLists)).1) t
  if nLists > 0 then t.set 0 { t.get 0 with index := -1 } else t

/-- `playGame` (after fix a6b17a3): an exhausted sequence (index == -1, value == maxVal) loses against a
live sequence whose current value equals maxVal. -/
def Tree.playGame (t : Tree) (a b : Nat) : Nat × Nat :=   -- (loser, winner)
  if (t.get a).value < (t.get b).value ∨ ((t.get a).index ≠ -1 ∧ (t.get b).index = -1) then (b, a) else (a, b)

/-- body of the `for i := len-2; i > 0; i -= 2` loop of `initialize`; `k` counts the remaining rounds. -/
def Tree.initLoop (t : Tree) (winners : List Nat) : Nat → Nat → Tree × List Nat
  | 0, _ => (t, winners)
  | k + 1, i =>
    if i > 0 then
      let (loser, winner) := t.playGame (winners.getD i 0) (winners.getD (i + 1) 0)
      let p := i / 2
      let t := t.set p { t.get p with index := loser, value := (t.get loser).value }
      Tree.initLoop t (winners.set p winner) k (i - 2)
    else (t, winners)

def Tree.initialize (t : Tree) : Tree :=
  let len := t.nodes.length
  let winners := (List.range len).map fun i => if i ≥ len / 2 then i else 0
  let (t, winners) := Tree.initLoop t winners len (len - 2)
  let w := winners.getD 1 0
  t.set 0 { t.get 0 with index := w, value := (t.get w).value }

/-- `replayGames(pos)`: the `for n != 0` loop, `fuel` ≥ tree depth. -/
def Tree.replayLoop (t : Tree) : Nat → Nat → Nat → Tree × Nat
  | 0, _, pos => (t, pos)
  | fuel + 1, n, pos =>
    if n = 0 then (t, pos) else
    if (t.get n).value < (t.get pos).value then
      let loser := pos
      let pos' := (t.get n).index.toNat
      let t := t.set n { t.get n with index := loser, value := (t.get loser).value }
      Tree.replayLoop t fuel (n / 2) pos'
    else Tree.replayLoop t fuel (n / 2) pos

def Tree.replayGames (t : Tree) (pos : Nat) : Tree :=
  let (t, pos) := Tree.replayLoop t t.nodes.length (pos / 2) pos
  t.set 0 { t.get 0 with index := pos, value := (t.get pos).value }

/-- the `for n != 0 && nodes[nodes[n].index].index == -1` loop of `sequenceEnded`. -/
def Tree.endedLoop (t : Tree) : Nat → Nat → Nat
  | 0, n => n
  | fuel + 1, n => if n ≠ 0 ∧ (t.geti (t.get n).index).index = -1 then Tree.endedLoop t fuel (n / 2) else n

def Tree.sequenceEnded (t : Tree) (pos : Nat) : Tree :=
  let n := Tree.endedLoop t t.nodes.length (pos / 2)
  if n = 0 then t.set 0 { t.get 0 with index := pos, value := t.maxVal }
  else
    let loser := pos
    let winner := (t.get n).index.toNat
    let t := t.set n { t.get n with index := loser, value := (t.get loser).value }
    t.replayGames winner

/-- `Next()` -/
def Tree.next (t : Tree) : Tree × Bool :=
  if t.nodes.length = 0 then (t, false) else
  if (t.get 0).index = -1 then
    let t := t.initialize
    (t, (t.geti (t.get 0).index).index ≠ -1)
  else if (t.geti (t.get 0).index).index = -1 then (t, false)
  else
    let w := (t.get 0).index.toNat
    let (t, more) := t.moveNext w
    let t := if more then t.replayGames w else t.sequenceEnded w
    (t, (t.geti (t.get 0).index).index ≠ -1)

def Tree.winner (t : Tree) : Nat := (t.geti (t.get 0).index).value

def Tree.drain (t : Tree) : Nat → List Nat
  | 0 => []
  | fuel + 1 => match t.next with
    | (t, true) => t.winner :: Tree.drain t fuel
    | (_, false) => []

/-- `MergeTokens(instances)` (`loser.New(instances, math.MaxUint32)`, drained). -/
def loserMerge (lists : List (List Nat)) : List Nat :=
  Tree.drain (Tree.new lists maxToken) ((lists.map List.length).sum + 1)

/-- `Desc.GetTokens()` when the map is iterated in the order `order` (each list sorted first). -/
def getTokens (order : List Inst) : List Nat := loserMerge (order.map fun i => sortNat i.tokens)

/-- What `GetTokens` is meant to return: all tokens, ascending. -/
def sortedTokens (d : Desc) : List Nat := sortNat (d.flatMap (·.tokens))

/-! ## Derived ring state (`setRingStateFromDesc`) -/

/-- `ringInstanceByToken[token]` resolved to the descriptor entry (`getTokensInfo`; unique owner in a
well-formed ring — with colliding tokens Go's answer depends on map order, outside this model). -/
def tokenInfo (d : Desc) (t : Nat) : Option Inst := d.find? (fun i => i.tokens.contains t)

def insertStr (x : String) : List String → List String
  | [] => [x]
  | y :: ys => if x < y then x :: y :: ys else if x = y then y :: ys else y :: insertStr x ys
/-- `ringZones`: sorted distinct zones of ALL instances (token-less ones included). -/
def ringZones (d : Desc) : List String := (d.map (·.zone)).foldr insertStr []
/-- `instancesCountPerZone[zone]` -/
def zoneTotal (d : Desc) (z : String) : Nat := (d.filter (·.zone == z)).length

/-! ## `searchToken` -/

/-- `slices.BinarySearch` on a sorted slice returns the number of elements `< key` and whether the
element there equals `key`. -/
def searchToken (tokens : List Nat) (key : Nat) : Nat :=
  let i := (tokens.takeWhile (· < key)).length
  let i := if tokens[i]? = some key then i + 1 else i
  if i ≥ tokens.length then 0 else i

def rot (tokens : List Nat) (start : Nat) : List Nat := tokens.drop start ++ tokens.take start

/-! ## `findInstancesForKey` -/

structure WalkSt where
  distinct : List String := []       -- distinctHosts
  size : Nat                         -- replicaSetSize
  examined : String → Nat := fun _ => 0
  found : String → Nat := fun _ => 0

def bump (f : String → Nat) (z : String) : String → Nat := fun z' => if z' = z then f z' + 1 else f z'

/-- `canStopLooking` -/
def canStopLooking (zones : List String) (total : String → Nat) (st : WalkSt) (target : Nat) : Bool :=
  zones.all fun z => decide (st.found z ≥ target) || decide (st.examined z ≥ total z)

/-- the state update of one loop iteration that selects `inst`: `examinedHostsPerZone[zone]++` (zone-aware,
non-empty zone), `distinctHosts.add`, then `replicaSetSize++` if the state extends the set, else
`foundHostsPerZone[zone]++` (zone-aware, non-empty zone). -/
def WalkSt.select (cfg : Cfg) (op : Op) (inst : Inst) (st : WalkSt) : WalkSt :=
  let zoned := cfg.zoneAware && inst.zone != ""
  { distinct := st.distinct ++ [inst.id]
    size := if extendsOn op inst.state then st.size + 1 else st.size
    examined := if zoned then bump st.examined inst.zone else st.examined
    found := if zoned && !extendsOn op inst.state then bump st.found inst.zone else st.found }

/-- the loop of `findInstancesForKey`; the list is the token circle from `start` on. -/
def walk (cfg : Cfg) (d : Desc) (zones : List String) (target : Nat) (op : Op) :
    List Nat → WalkSt → Except Err (List Inst)
  | [], _ => .ok []
  | t :: rest, st =>
    if ¬ (st.distinct.length < min d.length st.size) then .ok []
    else if cfg.zoneAware && canStopLooking zones (zoneTotal d) st target then .ok []
    else match tokenInfo d t with
      | none => .error .inconsistentTokens
      | some inst =>
        if st.distinct.contains inst.id then walk cfg d zones target op rest st
        else if cfg.zoneAware && !zones.contains inst.zone then .error .inconsistentTokens
        else if cfg.zoneAware && inst.zone != "" && decide (st.found inst.zone ≥ target) then
          walk cfg d zones target op rest st
        else (walk cfg d zones target op rest (st.select cfg op inst)).map (inst :: ·)

def findInstancesForKey (cfg : Cfg) (d : Desc) (tokens : List Nat) (key : Nat) (op : Op) (rf : Nat) :
    Except Err (List Inst) :=
  if cfg.rf = 0 then .error .panic        -- replicationFactor / maxZones: integer divide by zero
  else
    let target := max 1 (rf / cfg.rf)
    walk cfg d (ringZones d) target op (rot tokens (searchToken tokens key)) { size := rf }

/-! ## `defaultReplicationStrategy.Filter` -/

structure RSet where
  instances : List Inst
  maxErrors : Nat
  deriving DecidableEq, Repr

def filter (cfg : Cfg) (op : Op) (now : Int) (rf : Nat) (instances : List Inst) : Except Err RSet :=
  let rf := if instances.length > rf then instances.length else rf
  let minSuccess := rf / 2 + 1
  let healthy := instances.filter (isHealthy op cfg.hbTimeout now)
  if healthy.length < minSuccess then .error .tooManyUnhealthy
  else .ok { instances := healthy, maxErrors := healthy.length - minSuccess }

/-! ## `getReplicationSetForKey` (`Get`: `rfCall = cfg.rf`; `GetWithOptions`: any `rfCall`, 0 = unset) -/

def getWith (cfg : Cfg) (d : Desc) (tokens : List Nat) (key : Nat) (op : Op) (now : Int) (rfCall : Int) :
    Except Err RSet :=
  if tokens.length = 0 then .error .emptyRing else
  let rf : Nat := if rfCall ≤ 0 ∨ rfCall < cfg.rf then cfg.rf else rfCall.toNat
  if rf > cfg.rf then .error .rfTooLarge     -- default strategy: !SupportsExpandedReplication()
  else do
    let instances ← findInstancesForKey cfg d tokens key op rf
    filter cfg op now rf instances

/-- `Ring.Get` on a ring whose token circle is `tokens`. -/
def get (cfg : Cfg) (d : Desc) (tokens : List Nat) (key : Nat) (op : Op) (now : Int) : Except Err RSet :=
  getWith cfg d tokens key op now cfg.rf

/-! ## The same lookup with the token→owner index as a parameter

`ringInstanceByToken` is built by `getTokensInfo` from a Go map: when two instances claim one token the
entry that wins depends on the map iteration order, which `tokenInfo` (first entry in list order) does
not reproduce. `walkO`/`getWithO` are `walk`/`getWith` with the index `owner` given from outside
(`PfC01.getWithO_tokenInfo`: with `owner = tokenInfo d` they are the functions above), so that facts
proved for EVERY `owner` cover whatever index the real ring holds. -/

def walkO (cfg : Cfg) (d : Desc) (owner : Nat → Option Inst) (zones : List String) (target : Nat) (op : Op) :
    List Nat → WalkSt → Except Err (List Inst)
  | [], _ => .ok []
  | t :: rest, st =>
    if ¬ (st.distinct.length < min d.length st.size) then .ok []
    else if cfg.zoneAware && canStopLooking zones (zoneTotal d) st target then .ok []
    else match owner t with
      | none => .error .inconsistentTokens
      | some inst =>
        if st.distinct.contains inst.id then walkO cfg d owner zones target op rest st
        else if cfg.zoneAware && !zones.contains inst.zone then .error .inconsistentTokens
        else if cfg.zoneAware && inst.zone != "" && decide (st.found inst.zone ≥ target) then
          walkO cfg d owner zones target op rest st
        else (walkO cfg d owner zones target op rest (st.select cfg op inst)).map (inst :: ·)

def findInstancesForKeyO (cfg : Cfg) (d : Desc) (owner : Nat → Option Inst) (tokens : List Nat) (key : Nat) (op : Op)
    (rf : Nat) : Except Err (List Inst) :=
  if cfg.rf = 0 then .error .panic
  else
    let target := max 1 (rf / cfg.rf)
    walkO cfg d owner (ringZones d) target op (rot tokens (searchToken tokens key)) { size := rf }

def getWithO (cfg : Cfg) (d : Desc) (owner : Nat → Option Inst) (tokens : List Nat) (key : Nat) (op : Op) (now : Int)
    (rfCall : Int) : Except Err RSet :=
  if tokens.length = 0 then .error .emptyRing else
  let rf : Nat := if rfCall ≤ 0 ∨ rfCall < cfg.rf then cfg.rf else rfCall.toNat
  if rf > cfg.rf then .error .rfTooLarge
  else do
    let instances ← findInstancesForKeyO cfg d owner tokens key op rf
    filter cfg op now rf instances

/-- `updateRingState` first deletes every instance registered in one of `cfg.ExcludedZones`; the ring
then indexes and serves the remaining descriptor. -/
def excludeZones (excluded : List String) (d : Desc) : Desc := d.filter fun i => !excluded.contains i.zone

end C01
