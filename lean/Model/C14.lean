import Model.Ring
/-!
# C14 — token ranges vs. key ownership

Executable model of
* `ring/util.go` `searchToken`
* `ring/token_range.go` `TokenRanges.IncludesKey`, `Ring.GetTokenRangesForInstance`
* `ring/partition_ring.go` `GetTokenRangesForPartition`, `ActivePartitionForKey`,
  `buildRingTokenPartitionLookups`, and `partition_ring_model.go` `tokens`, `WithPartitions`.

Tokens and keys are `Nat` (`< 2^32` in well-formed rings); the only place where uint32 arithmetic
wraps is `token - 1`, modelled by `pred32`.

Also defines the partition-ring descriptor (`PDesc`) and its line codec, shared with C15:
`pdesc := parts "|" owners`, `parts := "-" | part (";" part)*`,
`part := id "/" state "/" stateTs "/" locked "/" lockedTs "/" tokens` (state = protobuf number 0..4),
`owners := "-" | owner (";" owner)*`, `owner := id "/" partition "/" state "/" updatedTs`.
-/
namespace C14
open Common Ring

inductive Err
  | notFound | zoneNotSet | badConfig | noTokensForZone | inconsistent | partitionDoesNotExist
  | noActivePartition | panic
  deriving DecidableEq, Repr

def Err.name : Err → String
  | .notFound => "notFound" | .zoneNotSet => "zoneNotSet" | .badConfig => "badConfig"
  | .noTokensForZone => "noTokensForZone" | .inconsistent => "inconsistent"
  | .partitionDoesNotExist => "partitionDoesNotExist" | .noActivePartition => "noActivePartition"
  | .panic => "panic"

def maxU32 : Nat := 4294967295

/-- uint32 `t - 1` (wraps at 0). -/
def pred32 (t : Nat) : Nat := if t = 0 then maxU32 else t - 1

/-- index returned by `slices.BinarySearch` on an ascending list: the number of leading
elements `< key` (= first position whose element is `≥ key`). -/
def lowerBound : List Nat → Nat → Nat
  | [], _ => 0
  | x :: xs, k => if x < k then lowerBound xs k + 1 else 0

/-- `searchToken`: index of the first token `> key`, 0 when there is none (wrap). -/
def searchToken (tokens : List Nat) (key : Nat) : Nat :=
  let i := lowerBound tokens key
  let i := if tokens[i]? = some key then i + 1 else i
  if (tokens.drop i).isEmpty then 0 else i      -- `i >= len(tokens)`

/-- `TokenRanges.IncludesKey`. -/
def includesKey (tr : List Nat) (key : Nat) : Bool :=
  match tr, tr.getLast? with
  | first :: _, some last =>
    if key < first then false
    else if key > last then false
    else
      let index := lowerBound tr key
      if tr[index]? = some key then true       -- found: ranges are closed
      else index % 2 == 1
  | _, _ => false

/-! ## GetTokenRangesForInstance (code after fix 9068690: explicit `haveRangeEnd` flag) -/

/-- The backward loop `for i := len(subringTokens)-1; i > 0; i--`. The list argument is
`subringTokens[len-1], …, subringTokens[1]` (in that order), each with the flag
`info.InstanceID == instanceID`. The state is `some rangeEnd` iff `haveRangeEnd`. Returns the final
state and the values appended to `ranges`. -/
def walkLoop : Option Nat → List (Nat × Bool) → Option Nat × List Nat
  | re, [] => (re, [])
  | none, (token, mine) :: rest =>
      if mine then walkLoop (some (pred32 token)) rest else walkLoop none rest
  | some rangeEnd, (token, mine) :: rest =>
      if mine then walkLoop (some rangeEnd) rest
      else
        let r := walkLoop none rest
        (r.1, rangeEnd :: token :: r.2)

/-- the statements after the loop ("finally look at the first token again"). -/
def walkFinish (first : Nat × Bool) : Option Nat → List Nat
  | none => if first.2 ∧ first.1 ≠ 0 then [pred32 first.1, 0] else []
  | some rangeEnd => if first.2 then [rangeEnd, 0] else [rangeEnd, first.1]

/-- `GetTokenRangesForInstance` after the error checks: `zt` = the zone's sorted tokens, each with
"owned by the instance". -/
def instRangesOf (zt : List (Nat × Bool)) : List Nat :=
  match zt with
  | [] => []
  | first :: rest =>
    let r := walkLoop (if first.2 then some maxU32 else none) rest.reverse
    sortNat (r.2 ++ walkFinish first r.1)

/-! ### history: the walk BEFORE fix 9068690 (`rangeEnd == 0` meant "no range end")

Kept only so that the facts about the fixed defect (`Props/C14.lean`, last section) remain checked
statements. Not on the executable path of the oracle. -/

def walkLoopOld : Nat → List (Nat × Bool) → Nat × List Nat
  | rangeEnd, [] => (rangeEnd, [])
  | rangeEnd, (token, mine) :: rest =>
    if rangeEnd = 0 then
      if mine then walkLoopOld (pred32 token) rest else walkLoopOld 0 rest
    else
      if mine then walkLoopOld rangeEnd rest
      else
        let r := walkLoopOld 0 rest
        (r.1, rangeEnd :: token :: r.2)

def walkFinishOld (first : Nat × Bool) (rangeEnd : Nat) : List Nat :=
  if rangeEnd = 0 then
    if first.2 ∧ first.1 ≠ 0 then [pred32 first.1, 0] else []
  else
    if first.2 then [rangeEnd, 0] else [rangeEnd, first.1]

def instRangesOfOld (zt : List (Nat × Bool)) : List Nat :=
  match zt with
  | [] => []
  | first :: rest =>
    let r := walkLoopOld (if first.2 then maxU32 else 0) rest.reverse
    sortNat (r.2 ++ walkFinishOld first r.1)

/-- distinct zones of the descriptor (`len(r.ringTokensByZone)`: zones of token-less instances count). -/
def zonesOf (d : Desc) : List String := (d.map (·.zone)).eraseDups

/-- the zone's sorted tokens with their owners (`ringTokensByZone[zone]` + `ringInstanceByToken`). -/
def tokenInsts (d : Desc) : List (Nat × Inst) :=
  (d.flatMap fun i => i.tokens.map fun t => (t, i)).mergeSort (fun a b => a.1 ≤ b.1)

def zoneTokens (d : Desc) (zone : String) : List (Nat × Inst) := tokenInsts (d.filter (·.zone == zone))

/-- `ringInstanceByToken[token]` (`Desc.getTokensInfo`): the descriptor entry that registered the token.
(Unique in a well-formed ring; for a token registered twice Go keeps whichever map entry is iterated
last — outside the rings the properties quantify over.) -/
def instanceByToken (d : Desc) (t : Nat) : Option Inst := d.find? (fun i => i.tokens.contains t)

/-- the zone's token list with the flags `info.InstanceID == instanceID`, looked up in the cached index
`byToken` (= `r.ringInstanceByToken`); `none` = some token of the list has no entry (the
`ErrInconsistentTokensInfo` returns). -/
def zoneFlagsIdx (byToken : Nat → Option Inst) (toks : List Nat) (id : String) : Option (List (Nat × Bool)) :=
  toks.mapM fun t => (byToken t).map fun i => (t, i.id == id)

/-- … with the index `setRingStateFromDesc` builds from the descriptor -/
def zoneFlagsOf (d : Desc) (toks : List Nat) (id : String) : Option (List (Nat × Bool)) :=
  toks.mapM fun t => (instanceByToken d t).map fun i => (t, i.id == id)     -- = zoneFlagsIdx (instanceByToken d) toks id

/-- `GetTokenRangesForInstance` over the ring's CACHED state, the caches being explicit arguments:
`numZones = len(r.ringTokensByZone)`, `tokensByZone = r.ringTokensByZone`, `byToken = r.ringInstanceByToken`
(in the code they are fields refreshed together by `setRingStateFromDesc`; nothing in this function makes
them agree). `walk`: the code (`instRangesOf`) or the walk before fix 9068690 (`instRangesOfOld`). -/
def rangesForInstanceIdx (walk : List (Nat × Bool) → List Nat) (d : Desc) (numZones : Nat)
    (tokensByZone : String → List Nat) (byToken : Nat → Option Inst) (zoneAware : Bool) (rf : Nat)
    (id : String) : Except Err (List Nat) :=
  match d.get? id with
  | none => .error .notFound
  | some inst =>
    if inst.zone == "" then .error .zoneNotSet
    else if !zoneAware || rf != numZones then .error .badConfig
    else
      let toks := tokensByZone inst.zone                   -- r.ringTokensByZone[instance.Zone]
      if toks.isEmpty then .error .noTokensForZone
      else match zoneFlagsIdx byToken toks id with
        | none => .error .inconsistent                     -- ErrInconsistentTokensInfo
        | some zt => .ok (walk zt)

/-- the function on a ring whose caches were all built from its descriptor (`setRingStateFromDesc`) -/
def rangesForInstanceWith (walk : List (Nat × Bool) → List Nat) (d : Desc) (zoneAware : Bool) (rf : Nat)
    (id : String) : Except Err (List Nat) :=
  rangesForInstanceIdx walk d (zonesOf d).length (fun z => (zoneTokens d z).map (·.1)) (instanceByToken d) zoneAware rf id

/-- `Ring.GetTokenRangesForInstance` -/
def rangesForInstance := rangesForInstanceWith instRangesOf
/-- the function before fix 9068690 (history only) -/
def rangesForInstanceOld := rangesForInstanceWith instRangesOfOld

/-- owner of the first token strictly after `key` (cyclically) in a token-sorted list. -/
def succOwner {α} (to : List (Nat × α)) (key : Nat) : Option α :=
  (to[searchToken (to.map (·.1)) key]?).map (·.2)

/-- what `Ring.Get` selects inside `zone` when no instance extends the replica set, `rf = #zones`
and every zone has tokens: walk all tokens from `searchToken(ringTokens, key)` and take the first
instance of that zone (`findInstancesForKey` with one host per zone). -/
def lookupInZoneOf (all : List (Nat × Inst)) (zone : String) (key : Nat) : Option String :=
  let start := searchToken (all.map (·.1)) key
  ((all.drop start ++ all.take start).find? (fun p => p.2.zone == zone)).map (·.2.id)

def lookupInZone (d : Desc) (zone : String) (key : Nat) : Option String :=
  lookupInZoneOf (tokenInsts d) zone key

/-! ## Partition ring -/

structure Part where
  id : Int
  state : Nat := 2          -- 0 Unknown 1 Pending 2 Active 3 Inactive 4 Deleted
  stateTs : Int := 0
  locked : Bool := false
  lockedTs : Int := 0
  tokens : List Nat := []
  deriving DecidableEq, Repr, Inhabited

structure Owner where
  id : String
  partition : Int
  state : Nat := 1          -- 0 Unknown 1 Active 2 Deleted
  updatedTs : Int := 0
  deriving DecidableEq, Repr, Inhabited

/-- `PartitionRingDesc`: map entries in ascending key order. -/
structure PDesc where
  parts : List Part := []
  owners : List Owner := []
  deriving DecidableEq, Repr, Inhabited

def Part.isActive (p : Part) : Bool := p.state == 2

def PDesc.get? (d : PDesc) (id : Int) : Option Part := d.parts.find? (·.id == id)

/-- `(token, partition)` pairs ascending by token: `desc.tokens()` zipped with `partitionByToken`
(tokens are unique in well-formed rings). -/
def PDesc.tokenParts (d : PDesc) : List (Nat × Part) :=
  (d.parts.flatMap fun p => p.tokens.map fun t => (t, p)).mergeSort (fun a b => a.1 ≤ b.1)

def PDesc.ringTokens (d : PDesc) : List Nat := d.tokenParts.map (·.1)

/-- `addRange` closure; `rev` is `ranges` reversed (last element first). -/
def addRange (rev : List Nat) (s e : Nat) : List Nat :=
  match rev with
  | last :: rest => if last = pred32 s then e :: rest else e :: s :: rev
  | [] => [e, s]

/-- loop over `partition.Tokens`. `rt` = remaining `ringTokens`, `first` = `iter == 0`,
`rev` = ranges reversed, `last` = `some startOfLastRange` iff `ownsLastRange`. -/
def partLoop : List Nat → Bool → List Nat → List Nat → Option Nat → Except Err (List Nat × Option Nat)
  | _, _, [], rev, last => .ok (rev, last)
  | rt, first, t :: ts, rev, last =>
    let lastOwned := pred32 t
    let ix := searchToken rt lastOwned
    if ix = 0 then           -- prevIx < 0
      if !first then .error .inconsistent
      else match rt.getLast? with
        | none => .error .panic     -- ringTokens[-1]; cannot happen: ringTokens contain the partition's tokens
        | some start =>
          partLoop (rt.drop ix) false ts (if t > 0 then addRange rev 0 lastOwned else rev) (some start)
    else
      match rt[ix - 1]? with
      | none => .error .panic       -- unreachable: ix < len
      | some prev => partLoop (rt.drop ix) false ts (addRange rev prev lastOwned) last

def partRangesOf (ringTokens ptoks : List Nat) : Except Err (List Nat) :=
  match partLoop ringTokens true ptoks [] none with
  | .error e => .error e
  | .ok (rev, some start) => .ok (addRange rev start maxU32).reverse
  | .ok (rev, none) => .ok rev.reverse

def rangesForPartition (d : PDesc) (pid : Int) : Except Err (List Nat) :=
  match d.get? pid with
  | none => .error .partitionDoesNotExist
  | some p => partRangesOf d.ringTokens p.tokens

/-- `partitionByToken()[token]` -/
def partitionByToken (d : PDesc) (t : Nat) : Option Int := (d.parts.find? (·.tokens.contains t)).map (·.id)

/-- `buildRingTokenPartitionLookups(ringTokens, partitionByToken, partitions)` with its three arguments explicit:
for every ring token the owning partition id and its active flag; `ErrInconsistentTokensInfo` if a token has
no entry in `partitionByToken` or the partition id is not in `partitions`. -/
def buildLookupsIdx (ringTokens : List Nat) (byToken : Nat → Option Int) (getPart : Int → Option Part) :
    Except Err (List (Nat × Int × Bool)) :=
  ringTokens.mapM fun t =>
    match byToken t with
    | none => .error .inconsistent
    | some pid =>
      match getPart pid with
      | none => .error .inconsistent
      | some p => .ok (t, pid, p.isActive)

/-- as `NewPartitionRing` calls it: all three derived from the one descriptor -/
def buildLookups (d : PDesc) : Except Err (List (Nat × Int × Bool)) :=
  buildLookupsIdx d.ringTokens (partitionByToken d) d.get?

/-- `ActivePartitionForKey`: from `searchToken`, walk at most `len` steps, return the first
partition whose parallel active flag is set. -/
def activeForOf (all : List (Nat × Part)) (key : Nat) : Except Err Int :=
  let start := searchToken (all.map (·.1)) key
  match (all.drop start ++ all.take start).find? (fun p => p.2.isActive) with
  | some p => .ok p.2.id
  | none => .error .noActivePartition

def activeFor (d : PDesc) (key : Nat) : Except Err Int := activeForOf d.tokenParts key

/-- `WithPartitions(active ids)` (owners filtered likewise). -/
def PDesc.activeOnly (d : PDesc) : PDesc :=
  { parts := d.parts.filter (·.isActive),
    owners := d.owners.filter fun o => d.parts.any fun p => p.id == o.partition && p.isActive }

/-! ## line codec -/

def parsePart (s : String) : Option Part :=
  match s.splitOn "/" with
  | [id, st, sts, lk, lts, toks] => do
    -- `*n` = n tokens whose values are elided (histories)
    let tokens ← if toks.startsWith "*" then ((toks.drop 1).toString.toNat?).map (List.replicate · 0) else natList? toks
    pure { id := ← id.toInt?, state := ← st.toNat?, stateTs := ← sts.toInt?, locked := lk == "1",
           lockedTs := ← lts.toInt?, tokens := tokens }
  | _ => none

def parseOwner (s : String) : Option Owner :=
  match s.splitOn "/" with
  | [id, p, st, ts] => do
    pure { id := (str? id).replace "%" "/", partition := ← p.toInt?, state := ← st.toNat?, updatedTs := ← ts.toInt? }
  | _ => none

def parsePDesc (s : String) : Option PDesc :=
  match s.splitOn "|" with
  | [ps, os] => do
    let parts ← if ps == "-" then some [] else (ps.splitOn ";").mapM parsePart
    let owners ← if os == "-" then some [] else (os.splitOn ";").mapM parseOwner
    pure { parts := parts, owners := owners }
  | _ => none

def showPartOpt (elide : Bool) (p : Part) : String :=
  "/".intercalate [toString p.id, toString p.state, toString p.stateTs, (if p.locked then "1" else "0"),
    toString p.lockedTs, if elide && p.tokens.length > 8 then s!"*{p.tokens.length}" else showNatList p.tokens]

def showPart (p : Part) : String := showPartOpt false p

def showOwner (o : Owner) : String :=
  "/".intercalate [showStr (o.id.replace "/" "%"), toString o.partition, toString o.state, toString o.updatedTs]

def showPDescOpt (elide : Bool) (d : PDesc) : String :=
  (if d.parts.isEmpty then "-" else ";".intercalate (d.parts.map (showPartOpt elide))) ++ "|" ++
  (if d.owners.isEmpty then "-" else ";".intercalate (d.owners.map showOwner))

def showPDesc (d : PDesc) : String := showPDescOpt false d

end C14
