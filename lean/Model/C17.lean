import Model.Common
/-!
# C17 — executable model of `services.BasicService`, `services.Manager`, `services.FailureWatcher`

Labelled transition systems whose events are the atomic actions of the Go code (one mutex-protected
section, one context cancellation, one channel receive). Everything the Go code keeps in fields is a
field here; everything marked *ghost* exists only to state the theorems (logs of what happened).

`BasicService.main()` is the program-counter type `PC`: every `tau` event is one step of that
goroutine; the three user functions are entered by a `tau` and left by `startRet/runRet/stopRet`
(the function's result is the event's parameter, `none` = nil error).
-/
namespace C17
open Common

/-- `services.State` -/
inductive SState | new | starting | running | stopping | terminated | failed
deriving DecidableEq, Repr, Inhabited

namespace SState
/-- numeric value of the Go constant (checked against the running code via `Generated.C17`). -/
def toNat : SState → Nat
  | new => 0 | starting => 1 | running => 2 | stopping => 3 | terminated => 4 | failed => 5
def name : SState → String
  | new => "New" | starting => "Starting" | running => "Running" | stopping => "Stopping"
  | terminated => "Terminated" | failed => "Failed"
def all : List SState := [new, starting, running, stopping, terminated, failed]
/-- progress measure: every transition strictly increases it. -/
def rank : SState → Nat
  | new => 0 | starting => 1 | running => 2 | stopping => 3 | terminated => 4 | failed => 4
def terminal : SState → Bool
  | terminated => true | failed => true | _ => false
def code : SState → String
  | new => "N" | starting => "S" | running => "R" | stopping => "P" | terminated => "T" | failed => "F"
end SState

/-- identity of a scripted error (the harness uses 1..9). -/
abbrev ErrId := Nat

/-- one listener callback = one state transition, with the arguments the Go callback receives. -/
inductive Notif
  | starting | running
  | stopping (frm : SState) | terminated (frm : SState) | failed (frm : SState) (e : ErrId)
deriving DecidableEq, Repr, Inhabited

namespace Notif
def to : Notif → SState
  | starting => .starting | running => .running | stopping _ => .stopping
  | terminated _ => .terminated | failed _ _ => .failed
def frm : Notif → SState
  | starting => .new | running => .starting | stopping f => f | terminated f => f | failed f _ => f
end Notif

/-- the edges the property allows. -/
def legalEdge : SState → SState → Bool
  | .new, .starting => true
  | .starting, .running => true
  | .running, .stopping => true
  | .starting, .stopping => true
  | .stopping, .terminated => true
  | .starting, .failed => true
  | .stopping, .failed => true
  | .new, .terminated => true
  | _, _ => false

/-- ghost: an invocation of one of the three functions, with `serviceContext.Err() != nil` at entry. -/
inductive Call
  | start (ctxC : Bool) | run (ctxC : Bool) | stop (ctxC : Bool) (failure : Option ErrId)
deriving DecidableEq, Repr

/-- program counter of `BasicService.main()`. `f` is the local variable `failure`/`err`. -/
inductive PC
  | idle                                  -- main() not started
  | atStart                               -- `go b.main()` happened; about to call startFn (or skip a nil one)
  | inStart                               -- inside startFn
  | gotStart (r : Option ErrId)           -- startFn returned r
  | toRunning                             -- `serviceContext.Err() == nil` was observed; about to switch to Running
  | atRun                                 -- Running; about to call runningFn
  | inRun
  | toStopping (fromRunning : Bool) (f : Option ErrId)   -- label `stop:`; about to switch to Stopping
  | preCancel (f : Option ErrId)          -- Stopping; about to call serviceCancel()
  | atStop (f : Option ErrId)             -- about to call stoppingFn
  | inStop (f : Option ErrId)
  | toEnd (f : Option ErrId)              -- about to switch to Failed / Terminated
  | done
deriving DecidableEq, Repr

/-- things that would be a crash or a deadlock in Go. The theorems show none is reachable. -/
inductive Bad
  | sendOnClosed      -- send on a closed listener channel (panic)
  | blockedSend       -- send on a full listener channel while holding the service mutex (deadlock)
  | switchFailed      -- `mustSwitchState` panics
deriving DecidableEq, Repr

/-- listener channel capacity in `AddListener` (`make(chan func(l Listener), 4)`). -/
def listenerCap : Nat := 4

structure Lsn where
  id : Nat
  queue : List Notif := []     -- channel buffer
  closed : Bool := false       -- channel closed
  removed : Bool := false      -- the remove func ran: channel no longer in `b.listeners`, goroutine stopped
  regAt : Nat := 0             -- ghost: number of transitions made before registration
  seen : List Notif := []      -- ghost: callbacks begun, in order
  busy : Bool := false         -- the listener's goroutine is inside a callback (`lfn(listener)`)
  inCb : Nat := 0              -- ghost: number of callbacks of this listener executing right now
deriving DecidableEq, Repr

structure Svc where
  hasStart : Bool
  hasRun : Bool
  hasStop : Bool
  st : SState := .new
  pc : PC := .idle
  failure : Option ErrId := none      -- failureCase
  ctxC : Bool := false                -- serviceContext is cancelled (context exists iff st ≠ New)
  parentC : Bool := false             -- the parent context passed to StartAsync is cancelled
  runClosed : Nat := 0                -- number of close(runningWaitersCh)   (2 = panic)
  termClosed : Nat := 0               -- number of close(terminatedWaitersCh)
  lsns : List Lsn := []
  nextL : Nat := 0
  trans : List Notif := []            -- ghost: transitions made, in order
  calls : List Call := []             -- ghost: function invocations, in order
  errs : List ErrId := []             -- ghost: errors returned by the functions, in order
  startOk : Bool := false             -- ghost: starting succeeded (startFn returned nil or is nil)
  started : Bool := false             -- ghost: StartAsync succeeded (a context exists)
  bad : List Bad := []
deriving Repr

def init (hasStart hasRun hasStop : Bool) : Svc := { hasStart, hasRun, hasStop }

/-- `ch <- lfn; if closeChan { close(ch) }` for one registered listener. -/
def Lsn.send (n : Notif) (close : Bool) (l : Lsn) : Lsn × List Bad :=
  if l.removed then (l, [])
  else if l.closed then (l, [.sendOnClosed])
  else if l.queue.length ≥ listenerCap then (l, [.blockedSend])
  else ({ l with queue := l.queue ++ [n], closed := close }, [])

/-- `notifyListeners` -/
def notify (n : Notif) (close : Bool) : List Lsn → List Lsn × List Bad
  | [] => ([], [])
  | l :: ls =>
    let (l', b) := l.send n close
    let (ls', bs) := notify n close ls
    (l' :: ls', b ++ bs)

/-- body of a successful `switchState(from, to, fn)`: state change + notification, under the mutex. -/
def Svc.transition (s : Svc) (n : Notif) (close : Bool) : Svc :=
  { s with st := n.to, lsns := (notify n close s.lsns).1, trans := s.trans ++ [n],
           bad := s.bad ++ (notify n close s.lsns).2 }

/-- `mustSwitchState(from, …)`: panics unless the state is `from`. -/
def Svc.mustSwitch (s : Svc) (frm : SState) (k : Svc → Svc) : Svc :=
  if s.st = frm then k s else { s with bad := s.bad ++ [.switchFailed] }

inductive Ev
  | startAsync | stopAsync | parentCancel
  | tau
  | startRet (r : Option ErrId) | runRet (r : Option ErrId) | stopRet (r : Option ErrId)
  | addListener | removeListener (id : Nat)
  | deliver (id : Nat)       -- the listener's goroutine takes the next notification and ENTERS the callback
  | deliverEnd (id : Nat)    -- the callback returns
deriving DecidableEq, Repr

/-- one step of `main()`. -/
def tau (s : Svc) : Svc :=
  match s.pc with
  | .atStart =>
    if s.hasStart then { s with pc := .inStart, calls := s.calls ++ [.start s.ctxC] }
    else { s with pc := .gotStart none, startOk := true }
  | .gotStart (some e) =>
    s.mustSwitch .starting fun s =>
      { (s.transition (.failed .starting e) true) with
        failure := some e, ctxC := true, runClosed := s.runClosed + 1, termClosed := s.termClosed + 1, pc := .done }
  | .gotStart none =>
    if s.ctxC then { s with pc := .toStopping false none } else { s with pc := .toRunning }
  | .toRunning =>
    s.mustSwitch .starting fun s =>
      { (s.transition .running false) with runClosed := s.runClosed + 1, pc := .atRun }
  | .atRun =>
    if s.hasRun then { s with pc := .inRun, calls := s.calls ++ [.run s.ctxC] }
    else { s with pc := .toStopping true none }
  | .toStopping fromRunning f =>
    let frm : SState := if fromRunning then .running else .starting
    s.mustSwitch frm fun s =>
      { (s.transition (.stopping frm) false) with
        runClosed := if fromRunning then s.runClosed else s.runClosed + 1, pc := .preCancel f }
  | .preCancel f => { s with ctxC := true, pc := .atStop f }
  | .atStop f =>
    if s.hasStop then { s with pc := .inStop f, calls := s.calls ++ [.stop s.ctxC f] }
    else { s with pc := .toEnd f }
  | .toEnd (some e) =>
    s.mustSwitch .stopping fun s =>
      { (s.transition (.failed .stopping e) true) with failure := some e, termClosed := s.termClosed + 1, pc := .done }
  | .toEnd none =>
    s.mustSwitch .stopping fun s =>
      { (s.transition (.terminated .stopping) true) with termClosed := s.termClosed + 1, pc := .done }
  | _ => s

/-- the listener goroutine's loop `for { select { case lfn := <-listenerCh: lfn(listener) … } }`: it can
receive the next notification only when it is not inside a callback. -/
def deliverTo (id : Nat) : List Lsn → List Lsn
  | [] => []
  | l :: ls =>
    if l.id = id ∧ ¬ l.removed then
      if l.busy then l :: ls
      else match l.queue with
        | [] => l :: ls
        | n :: q => { l with queue := q, seen := l.seen ++ [n], busy := true, inCb := l.inCb + 1 } :: ls
    else l :: deliverTo id ls

/-- the callback of listener `id` returns. -/
def endTo (id : Nat) : List Lsn → List Lsn
  | [] => []
  | l :: ls =>
    if l.id = id then
      (if l.busy then { l with busy := false, inCb := l.inCb - 1 } :: ls else l :: ls)
    else l :: endTo id ls

def removeFrom (id : Nat) : List Lsn → List Lsn
  | [] => []
  | l :: ls => if l.id = id then { l with removed := true, queue := [] } :: ls else l :: removeFrom id ls

/-- the transition function; an event that is not enabled leaves the state unchanged. -/
def step (s : Svc) : Ev → Svc
  | .startAsync =>
    if s.st = .new then
      { (s.transition .starting false) with ctxC := s.parentC, started := true, pc := .atStart }
    else s
  | .stopAsync =>
    match s.st with
    | .stopping | .terminated | .failed => s
    | .new =>
      { (s.transition (.terminated .new) true) with runClosed := s.runClosed + 1, termClosed := s.termClosed + 1 }
    | _ => { s with ctxC := true }
  | .parentCancel => { s with parentC := true, ctxC := s.ctxC || s.started }
  | .tau => tau s
  | .startRet r =>
    if s.pc = .inStart then
      { s with pc := .gotStart r, errs := s.errs ++ r.toList, startOk := r.isNone } else s
  | .runRet r =>
    if s.pc = .inRun then { s with pc := .toStopping true r, errs := s.errs ++ r.toList } else s
  | .stopRet r =>
    match s.pc with
    | .inStop f => { s with pc := .toEnd (f <|> r), errs := s.errs ++ r.toList }
    | _ => s
  | .addListener =>
    if s.st.terminal then { s with nextL := s.nextL + 1 }
    else { s with lsns := s.lsns ++ [{ id := s.nextL, regAt := s.trans.length }], nextL := s.nextL + 1 }
  | .removeListener id => { s with lsns := removeFrom id s.lsns }
  | .deliver id => { s with lsns := deliverTo id s.lsns }
  | .deliverEnd id => { s with lsns := endTo id s.lsns }

def run (s : Svc) (evs : List Ev) : Svc := evs.foldl step s

/-! ### Observations (what the public API returns in a given state) -/

/-- `StartAsync` returns nil iff the service was New. -/
def startAsyncOk (s : Svc) : Bool := s.st = .new

/-- result of a waiter: `none` = still blocked. -/
inductive AwaitRes | ok | err (failure : Option ErrId)
deriving DecidableEq, Repr

/-- `AwaitRunning(ctx)` with a context that is never cancelled. -/
def awaitRunning (s : Svc) : Option AwaitRes :=
  if s.runClosed = 0 then none
  else if s.st = .running then some .ok else some (.err s.failure)

def awaitTerminated (s : Svc) : Option AwaitRes :=
  if s.termClosed = 0 then none
  else if s.st = .terminated then some .ok else some (.err s.failure)

/-- what a call `Await…(ctx)` can do: `select { case <-ctx.Done(): …; case <-latch: … }` takes any ready case. -/
inductive WaitOut | blocked | ctxErr | res (r : AwaitRes)
deriving DecidableEq, Repr

/-- possible outcomes of `AwaitRunning(ctx)` evaluated in state `s` with the waiter's context cancelled or not. -/
def awaitRunningCtx (s : Svc) (ctxCancelled : Bool) : List WaitOut :=
  match awaitRunning s, ctxCancelled with
  | none, false => [.blocked]
  | none, true => [.ctxErr]
  | some r, false => [.res r]
  | some r, true => [.ctxErr, .res r]

def awaitTerminatedCtx (s : Svc) (ctxCancelled : Bool) : List WaitOut :=
  match awaitTerminated s, ctxCancelled with
  | none, false => [.blocked]
  | none, true => [.ctxErr]
  | some r, false => [.res r]
  | some r, true => [.ctxErr, .res r]

/-! ## Manager -/

inductive MState | unknown | healthy | stopped
deriving DecidableEq, Repr

inductive MNotif | healthy | stopped | failure (svc : Nat)
deriving DecidableEq, Repr

structure MLsn where
  id : Nat
  queue : List MNotif := []
  closed : Bool := false
  removed : Bool := false
  regAt : Nat := 0
  seen : List MNotif := []
deriving DecidableEq, Repr

inductive MBad | sendOnClosed | blockedSend
deriving DecidableEq, Repr

structure Mgr where
  n : Nat                                   -- len(m.services)
  byState : SState → List Nat               -- m.byState (absent key = empty list)
  state : MState := .unknown
  healthyClosed : Bool := false             -- the field of that name
  healthyCloses : Nat := 0                  -- number of close(m.healthyCh)   (2 = panic)
  stoppedCloses : Nat := 0                  -- number of close(m.stoppedCh)
  lsns : List MLsn := []
  nextL : Nat := 0
  log : List MNotif := []                   -- ghost: notifications broadcast, in order
  bad : List MBad := []

def Mgr.init (n : Nat) : Mgr :=
  { n, byState := fun s => if s = .new then List.range n else [] }

def MLsn.send (n : MNotif) (close : Bool) (cap : Nat) (l : MLsn) : MLsn × List MBad :=
  if l.removed then (l, [])
  else if l.closed then (l, [.sendOnClosed])
  else if l.queue.length ≥ cap then (l, [.blockedSend])
  else ({ l with queue := l.queue ++ [n], closed := close }, [])

def mnotify (n : MNotif) (close : Bool) (cap : Nat) : List MLsn → List MLsn × List MBad
  | [] => ([], [])
  | l :: ls =>
    let (l', b) := l.send n close cap
    let (ls', bs) := mnotify n close cap ls
    (l' :: ls', b ++ bs)

def Mgr.notifyAll (m : Mgr) (n : MNotif) (close : Bool) : Mgr :=
  { m with lsns := (mnotify n close (m.n + 2) m.lsns).1, log := m.log ++ [n],
           bad := m.bad ++ (mnotify n close (m.n + 2) m.lsns).2 }

/-- remove the first occurrence (`append(fs[:ix], fs[ix+1:]...)` after the first match). -/
def eraseFirst (i : Nat) : List Nat → List Nat
  | [] => []
  | x :: xs => if x = i then xs else x :: eraseFirst i xs

/-- first part of `serviceStateChanged(s, from, to)`: move service `i` between the `byState` lists. -/
def Mgr.move (m : Mgr) (i : Nat) (frm to : SState) : Mgr :=
  let bs1 : SState → List Nat := fun s => if s = frm then eraseFirst i (m.byState frm) else m.byState s
  { m with byState := fun s => if s = to then bs1 to ++ [i] else bs1 s }

/-- `if to == Failed { notify Failure(s) }` -/
def Mgr.reportFailure (m : Mgr) (i : Nat) (to : SState) : Mgr :=
  if to = .failed then m.notifyAll (.failure i) false else m

/-- the `switch` that recomputes the manager state from the list lengths. -/
def Mgr.recompute (m : Mgr) : Mgr :=
  let running := (m.byState .running).length
  let stopping := (m.byState .stopping).length
  let done := (m.byState .terminated).length + (m.byState .failed).length
  if running = m.n then
    ({ m with healthyCloses := m.healthyCloses + 1, state := .healthy, healthyClosed := true }).notifyAll .healthy false
  else if done = m.n then
    ({ m with healthyCloses := if m.healthyClosed then m.healthyCloses else m.healthyCloses + 1, healthyClosed := true,
              stoppedCloses := m.stoppedCloses + 1, state := .stopped }).notifyAll .stopped true
  else
    { m with healthyCloses := if !m.healthyClosed && (decide (done > 0) || decide (stopping > 0)) then m.healthyCloses + 1 else m.healthyCloses,
             healthyClosed := m.healthyClosed || (decide (done > 0) || decide (stopping > 0)),
             state := .unknown }

/-- `serviceStateChanged(s, from, to)` for service number `i`. -/
def Mgr.changed (m : Mgr) (i : Nat) (frm to : SState) : Mgr :=
  ((m.move i frm to).reportFailure i to).recompute

def mdeliverTo (id : Nat) : List MLsn → List MLsn
  | [] => []
  | l :: ls =>
    if l.id = id ∧ ¬ l.removed then
      match l.queue with
      | [] => l :: ls
      | n :: q => { l with queue := q, seen := l.seen ++ [n] } :: ls
    else l :: mdeliverTo id ls

def mremoveFrom (id : Nat) : List MLsn → List MLsn
  | [] => []
  | l :: ls => if l.id = id then { l with removed := true, queue := [] } :: ls else l :: mremoveFrom id ls

inductive MEv
  | changed (i : Nat) (n : Notif)        -- the manager's listener on service i runs its callback for n
  | addListener | removeListener (id : Nat) | deliver (id : Nat)
deriving DecidableEq, Repr

def Mgr.step (m : Mgr) : MEv → Mgr
  | .changed i n => m.changed i n.frm n.to
  | .addListener =>
    if m.state = .stopped then { m with nextL := m.nextL + 1 }
    else { m with lsns := m.lsns ++ [{ id := m.nextL, regAt := m.log.length }], nextL := m.nextL + 1 }
  | .removeListener id => { m with lsns := mremoveFrom id m.lsns }
  | .deliver id => { m with lsns := mdeliverTo id m.lsns }

def Mgr.run (m : Mgr) (evs : List MEv) : Mgr := evs.foldl Mgr.step m

/-- `AwaitHealthy` with a never-cancelled context: `none` = blocked, `some true` = nil. -/
def Mgr.awaitHealthy (m : Mgr) : Option Bool :=
  if m.healthyCloses = 0 then none else some (m.state = .healthy)
def Mgr.awaitStopped (m : Mgr) : Option Bool :=
  if m.stoppedCloses = 0 then none else some true

/-! ## services and their manager together

`NewManager` installs its listener on every service first (listener 0, never removed); `handover i` is
the goroutine of that listener on service `i` running its next callback, which is
`serviceStateChanged` on the manager. Everything else that can happen to a service is `svc i e`. -/

structure System where
  svcs : List Svc
  mgr : Mgr

inductive SysEv
  | svc (i : Nat) (e : Ev)      -- any event of service i, except those of the manager's own listener
  | handover (i : Nat)
  | mgrLsn (e : MEv)            -- AddListener / remove / callback of a ManagerListener
deriving Repr

def System.init (cfgs : List (Bool × Bool × Bool)) : System :=
  { svcs := cfgs.map fun c => C17.step (C17.init c.1 c.2.1 c.2.2) .addListener, mgr := Mgr.init cfgs.length }

/-- the notification the manager's listener on this service will hand over next. -/
def nextForManager (s : Svc) : Option Notif :=
  match s.lsns with
  | l :: _ => if l.id = 0 ∧ l.removed = false then l.queue.head? else none
  | [] => none

/-- the state of a service as the manager knows it: where the last handed-over notification led. -/
def viewOf (s : Svc) : SState :=
  match s.lsns with
  | l :: _ => (l.seen.getLast?.map Notif.to).getD .new
  | [] => .new

def System.step (y : System) : SysEv → System
  | .svc i e =>
    if e = .deliver 0 ∨ e = .removeListener 0 then y
    else match y.svcs[i]? with
      | some s => { y with svcs := y.svcs.set i (C17.step s e) }
      | none => y
  | .handover i =>
    match y.svcs[i]? with
    | some s =>
      match nextForManager s with
      | some n =>
        -- the callback is `serviceStateChanged`, atomic under the manager's mutex: begin, change, return
        { svcs := y.svcs.set i (C17.step (C17.step s (.deliver 0)) (.deliverEnd 0)), mgr := y.mgr.step (.changed i n) }
      | none => y
    | none => y
  | .mgrLsn e =>
    match e with
    | .changed _ _ => y
    | _ => { y with mgr := y.mgr.step e }

def System.run (y : System) (evs : List SysEv) : System := evs.foldl System.step y

/-- a schedule that finishes one service from any reachable state: ask it to stop, then let `main()` run
and let every function return nil (12 = number of program counters of `main()`; steps that are not
enabled are no-ops). -/
def svcFinish : List Ev :=
  .stopAsync :: (List.replicate 12 [Ev.tau, .startRet none, .runRet none, .stopRet none]).flatten

/-- … and the whole system: finish every service, hand its (at most 4) notifications to the manager. -/
def sysFinish (n : Nat) : List SysEv :=
  (List.range n).flatMap fun i => svcFinish.map (SysEv.svc i) ++ List.replicate 4 (SysEv.handover i)

/-! ## FailureWatcher

`ch` is UNBUFFERED (`make(chan error)`): the watcher's listener callback blocks in `w.ch <- err` until a
reader receives. `Close()` holds `w.mu` while it calls each listener's remove function, which waits for the
listener goroutine (`wg.Wait()`): with a failure nobody has read yet `Close()` does not return, and every
`WatchService` / `WatchManager` / further `Close()` queues on the mutex behind it. -/

structure FW where
  closed : Bool := false                 -- `w.closed` (Close has completed)
  closing : Bool := false                -- a Close() holds the mutex, waiting for blocked listener goroutines
  chanCloses : Nat := 0                  -- number of close(w.ch)   (2 = panic)
  watching : Nat := 0
  blocked : List (Nat × ErrId) := []     -- listener goroutines blocked in `w.ch <- err`, in arrival order
  forwarded : List (Nat × ErrId) := []   -- what readers of `Chan()` have received, in order
  entered : List (Nat × ErrId) := []     -- ghost: failures whose callback started while the watcher was open
  waitingCalls : Nat := 0                -- Close / Watch calls queued on the mutex behind a blocked Close
  closeReturned : Nat := 0               -- Close() calls that have returned
  panics : Nat := 0                      -- Watch* calls that panicked (watcher closed)
deriving DecidableEq, Repr

inductive FEv
  | watch                             -- WatchService / WatchManager is called
  | failure (svc : Nat) (e : ErrId)   -- a watched service's Failed callback starts (listener still registered)
  | recv                              -- a reader receives from Chan()
  | close                             -- Close() is called
deriving DecidableEq, Repr

/-- the blocked Close() gets through: unregister done, channel closed; the calls queued behind it run
(a Watch* panics on the closed watcher, a Close returns at once — modelled together as returned calls). -/
def FW.finishClose (w : FW) : FW :=
  { w with closed := true, closing := false, chanCloses := w.chanCloses + 1, watching := 0,
           closeReturned := w.closeReturned + 1, waitingCalls := 0 }

def FW.step (w : FW) : FEv → FW
  | .watch =>
    if w.closed then { w with panics := w.panics + 1 }
    else if w.closing then { w with waitingCalls := w.waitingCalls + 1 }
    else { w with watching := w.watching + 1 }
  | .failure i e =>
    if w.closed then w else { w with blocked := w.blocked ++ [(i, e)], entered := w.entered ++ [(i, e)] }
  | .recv =>
    match w.blocked with
    | [] => w
    | x :: rest =>
      let w := { w with blocked := rest, forwarded := w.forwarded ++ [x] }
      if w.closing && rest.isEmpty then w.finishClose else w
  | .close =>
    if w.closed then { w with closeReturned := w.closeReturned + 1 }
    else if w.closing then { w with waitingCalls := w.waitingCalls + 1 }
    else if w.blocked.isEmpty then w.finishClose
    else { w with closing := true }

def FW.run (w : FW) (evs : List FEv) : FW := evs.foldl FW.step w

end C17
