import Model.Common
/-!
# C20 — tenant identifiers: validation, normalisation, propagation

Executable model of `tenant/tenant.go`, `tenant/resolver.go`, `tenant/metadata.go`,
`user/id.go`, `user/http.go`, `user/grpc.go`. Strings are byte lists (`Common.Bytes`).
-/
namespace C20
open Common

inductive Err
  | badChar | tooLong | unsafeID | noOrgID | tooMany | metaBadChar | metaTooLong | metaMalformed
  | differentOrg
  deriving DecidableEq, Repr

def Err.name : Err → String
  | .badChar => "badChar" | .tooLong => "tooLong" | .unsafeID => "unsafeID" | .noOrgID => "noOrgID"
  | .tooMany => "tooMany" | .metaBadChar => "metaBadChar" | .metaTooLong => "metaTooLong"
  | .metaMalformed => "metaMalformed" | .differentOrg => "differentOrg"

def inRange (lo hi c : UInt8) : Bool := lo ≤ c && c ≤ hi

/-- `validTenantIdChars` as built by `init()` in tenant.go: letters, digits and `!-_.*'()`. -/
def validChar (c : UInt8) : Bool :=
  inRange 97 122 c || inRange 65 90 c || inRange 48 57 c ||
  c == 33 || c == 45 || c == 95 || c == 46 || c == 42 || c == 39 || c == 40 || c == 41

/-- `validMetadataChars`: `:`, `=`, letters, digits, `-`, `_`. -/
def validMetaChar (c : UInt8) : Bool :=
  c == 58 || c == 61 || inRange 97 122 c || inRange 65 90 c || inRange 48 57 c || c == 45 || c == 95

def maxTenantIDLength : Nat := 150
def maxMetadataLength : Nat := 64
def sepTenants : UInt8 := 124   -- '|'
def sepMeta : UInt8 := 58       -- ':'
def sepKV : UInt8 := 61         -- '='

/-- `ValidTenantID`: characters first, then length, then `.` / `..`. -/
def validTenantID (s : Bytes) : Except Err Unit :=
  if !s.all validChar then .error .badChar
  else if s.length > maxTenantIDLength then .error .tooLong
  else if s = [46] ∨ s = [46, 46] then .error .unsafeID
  else .ok ()

/-- `TrimMetadata`. -/
def trimMeta (s : Bytes) : Bytes := s.takeWhile (· != sepMeta)

/-- `splitTenantAndMetadata`: the metadata part keeps its leading `:`. -/
def splitTenantAndMeta (s : Bytes) : Bytes × Bytes := (s.takeWhile (· != sepMeta), s.dropWhile (· != sepMeta))

/-- `TenantID` applied to the org-id string found in the context. -/
def tenantID (s : Bytes) : Except Err Bytes :=
  match splitOn sepTenants s with
  | [] => .error .noOrgID
  | p :: rest =>
    let t := trimMeta p
    match validTenantID t with
    | .error e => .error e
    | .ok _ => if rest.all (fun q => trimMeta q == t) then .ok t else .error .tooMany

def insertU (x : Bytes) : List Bytes → List Bytes
  | [] => [x]
  | y :: ys => if bytesLt x y then x :: y :: ys else if x = y then y :: ys else y :: insertU x ys

/-- `NormalizeTenantIDs`: sort + remove adjacent duplicates, as a single insertion pass. -/
def sortDedup (l : List Bytes) : List Bytes := l.foldr insertU []

def validateAll : List Bytes → Except Err Unit
  | [] => .ok ()
  | p :: ps => match validTenantID p with
    | .error e => .error e
    | .ok _ => validateAll ps

/-- `TenantIDs` / `parseTenantIDs`. -/
def tenantIDs (s : Bytes) : Except Err (List Bytes) :=
  let ps := (splitOn sepTenants s).map trimMeta
  match validateAll ps with
  | .error e => .error e
  | .ok _ => .ok (sortDedup ps)

/-- `ValidMetadata`. -/
def validMetadata (s : Bytes) : Except Err Unit :=
  if !s.all validMetaChar then .error .metaBadChar
  else if s.length > maxMetadataLength then .error .metaTooLong
  else .ok ()

/-- the key/value segments of a metadata string that starts with `:`; each keeps its `:`. -/
def metaSegments (src : Bytes) : List Bytes := (splitOn sepMeta src.tail).map (sepMeta :: ·)

/-- the loop of `ParseMetadata`: every segment has a `=`, keys strictly increasing. -/
def checkSegments (prev : Bytes) : List Bytes → Bool
  | [] => true
  | kv :: rest =>
    let key := kv.takeWhile (· != sepKV)
    if !kv.contains sepKV then false
    else if !bytesLt prev key then false
    else checkSegments key rest

/-- `ParseMetadata`; returns the source on success. -/
def parseMetadata (src : Bytes) : Except Err Bytes :=
  match validMetadata src with
  | .error e => .error e
  | .ok _ =>
    if src = [] then .ok []
    else if src.head? != some sepMeta then .error .metaMalformed
    else if checkSegments [] (metaSegments src) then .ok src else .error .metaMalformed

/-- `ParseWithMetadata`. -/
def parseWithMetadata (s : Bytes) : Except Err (Bytes × Bytes) :=
  match splitOn sepTenants s with
  | [] => .error .noOrgID
  | org :: rest =>
    let (t, m) := splitTenantAndMeta org
    match validTenantID t with
    | .error e => .error e
    | .ok _ =>
      if !rest.all (· == org) then .error .tooMany
      else match parseMetadata m with
        | .error e => .error e
        | .ok m => .ok (t, m)

/-! ## Transport: context, HTTP header, gRPC metadata -/

/-- the context keys of `user/id.go`. -/
inductive CKey
  | org | user
  deriving DecidableEq, Repr

/-- A `context.Context` as its chain of `context.WithValue` bindings, innermost (latest) first;
`ctx.Value(key)` finds the innermost binding of the key. -/
abbrev Ctx := List (CKey × Bytes)

def Ctx.value (c : Ctx) (k : CKey) : Option Bytes :=
  match c with
  | [] => none
  | (k', v) :: r => if k' = k then some v else Ctx.value r k

/-- `InjectOrgID`: a derived context; the parent's bindings stay underneath. -/
def injectOrgID (c : Ctx) (o : Bytes) : Ctx := (.org, o) :: c

/-- `ExtractOrgID`. -/
def extractOrgID (c : Ctx) : Except Err Bytes :=
  match c.value .org with | none => .error .noOrgID | some o => .ok o

/-- `http.Header.Get`: the first value of the header, `""` when the header is absent. The header
is the list of its values (`[]` = absent, `[[]]` = present with one empty value, several values
possible). -/
def headerGet (hdr : List Bytes) : Bytes := hdr.headD []

/-- `InjectOrgIDIntoHTTPRequest`: compares with `Header.Get` (an absent header and one whose first
value is empty look the same) and then `Header.Set`s — the header afterwards has exactly one value. -/
def injectHTTP (c : Ctx) (hdr : List Bytes) : Except Err (List Bytes) :=
  match extractOrgID c with
  | .error e => .error e
  | .ok o => if headerGet hdr ≠ [] ∧ headerGet hdr ≠ o then .error .differentOrg else .ok [o]

/-- `ExtractOrgIDFromHTTPRequest`: reads `Header.Get` (the FIRST value); `recv` is the context the
receiving request already carries (`r.Context()`; it may hold a stale identifier of the receiver and
other values); the new context is derived from it: `InjectOrgID(r.Context(), orgID)`. -/
def extractHTTP (recv : Ctx) (hdr : List Bytes) : Except Err Ctx :=
  if headerGet hdr = [] then .error .noOrgID else .ok (injectOrgID recv (headerGet hdr))

/-- `InjectIntoGRPCRequest`: `md = none` when the key is absent from outgoing metadata. -/
def injectGRPC (c : Ctx) (md : Option (List Bytes)) : Except Err (List Bytes) :=
  match extractOrgID c with
  | .error e => .error e
  | .ok o =>
    match md with
    | none => .ok [o]
    | some [x] => if x ≠ o then .error .differentOrg else .ok [x]
    | some _ => .error .tooMany

/-- `ExtractFromGRPCRequest` on the incoming metadata values of the key; `recv` is the incoming
context (possibly already holding an identifier), from which the new one is derived:
`InjectOrgID(ctx, orgIDs[0])`. -/
def extractGRPC (recv : Ctx) (vals : List Bytes) : Except Err Ctx :=
  match vals with
  | [x] => .ok (injectOrgID recv x)
  | _ => .error .noOrgID

/-- `tenant.TenantID(ctx)` / `TenantIDs(ctx)` / `ExtractWithMetadata(ctx)`: the org id is taken from the context first. -/
def resolveTenantID (c : Ctx) : Except Err Bytes :=
  match extractOrgID c with | .error e => .error e | .ok o => tenantID o

def resolveTenantIDs (c : Ctx) : Except Err (List Bytes) :=
  match extractOrgID c with | .error e => .error e | .ok o => tenantIDs o

def resolveWithMetadata (c : Ctx) : Except Err (Bytes × Bytes) :=
  match extractOrgID c with | .error e => .error e | .ok o => parseWithMetadata o

/-- One hop: the pre-existing header / metadata on the carrier and the context found on the
receiving side are part of the hop. -/
inductive Hop
  | http (existing : List Bytes) (recv : Ctx)
  | grpc (existing : Option (List Bytes)) (recv : Ctx)

def hop (c : Ctx) : Hop → Except Err Ctx
  | .http ex recv => match injectHTTP c ex with
    | .error e => .error e
    | .ok h => extractHTTP recv h
  | .grpc ex recv => match injectGRPC c ex with
    | .error e => .error e
    | .ok v => extractGRPC recv v

/-- run a chain; on failure report the index of the failing hop. -/
def chain (c : Ctx) : List Hop → Nat → Except (Err × Nat) Ctx
  | [], _ => .ok c
  | h :: hs, i => match hop c h with
    | .error e => .error (e, i)
    | .ok c' => chain c' hs (i + 1)

/-- nothing on the carrier conflicts with identifier `id`: no pre-existing header / metadata value,
or the same one (for HTTP: the FIRST value of the pre-existing header, as `Header.Get` reads it — a
header that is present with an empty first value counts as absent). An empty identifier cannot
travel in an HTTP header (an empty header is an absent one). -/
def hopClean (id : Bytes) : Hop → Bool
  | .http ex _ => id != [] && (headerGet ex == [] || headerGet ex == id)
  | .grpc ex _ => ex == none || ex == some [id]

end C20
