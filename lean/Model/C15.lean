import Model.C14
/-!
# C15 — routing to the next ACTIVE partition, partition state machine, owner-based replication sets

Executable model of
* `ring/partition_ring.go` `ActivePartitionForKey` (= `C14.activeFor`), `GetKeysByPartition`
* `ring/partition_ring_model.go` `UpdatePartitionState`, `UpdatePartitionStateChangeLock`, `AddPartition`,
  `AddOrUpdateOwner`, `RemoveOwner`, `RemovePartition`, `PartitionOwnersCount(UpdatedBefore)`
* `ring/partition_ring_editor.go` `changePartitionState`, `SetPartitionStateChangeLock`, `RemoveMultiPartitionOwner`
* `ring/partition_instance_lifecycler.go` `allowedPartitionStateChanges`, `createPartitionAndRegisterOwner`,
  `waitPartitionAndRegisterOwner`, `reconcileOwnedPartition`, `reconcileOtherPartitions`, `stopping`
* `ring/partition_instance_ring.go` `GetReplicationSetsForOperation`,
  `ring/multi_partition_instance_ring.go` `GetReplicationSetForPartitionAndOperation`.

`time.Now()` is the parameter `now` (unix seconds; durations are whole seconds). A store update
(`updateRing`'s CAS callback) is `PDesc → Except Err (Option PDesc)`: `none` = "not changed, nothing written".
-/
namespace C15
open Common C14

def sUnknown : Nat := 0
def sPending : Nat := 1
def sActive : Nat := 2
def sInactive : Nat := 3
def sDeleted : Nat := 4
def oActive : Nat := 1

inductive Err
  | partitionDoesNotExist | stateChangeNotAllowed | locked | ctx | noActivePartition | emptyRing | tooManyUnhealthy
  deriving DecidableEq, Repr

def Err.name : Err → String
  | .partitionDoesNotExist => "partitionDoesNotExist" | .stateChangeNotAllowed => "stateChangeNotAllowed"
  | .locked => "locked" | .ctx => "ctx" | .noActivePartition => "noActivePartition" | .emptyRing => "emptyRing"
  | .tooManyUnhealthy => "tooManyUnhealthy"

/-- `allowedPartitionStateChanges` / `isPartitionStateChangeAllowed`. -/
def allowed (f t : Nat) : Bool :=
  (f == sPending && (t == sActive || t == sInactive)) || (f == sActive && t == sInactive) ||
  (f == sInactive && t == sActive)

/-! ### map operations on the id-sorted association lists -/

def setPart (p : Part) : List Part → List Part
  | [] => [p]
  | q :: qs => if p.id < q.id then p :: q :: qs else if p.id == q.id then p :: qs else q :: setPart p qs

def removePart (id : Int) (ps : List Part) : List Part := ps.filter (·.id != id)

def getOwner? (d : PDesc) (id : String) : Option Owner := d.owners.find? (·.id == id)

def setOwner (o : Owner) : List Owner → List Owner
  | [] => [o]
  | q :: qs => if o.id < q.id then o :: q :: qs else if o.id == q.id then o :: qs else q :: setOwner o qs

/-! ### `PartitionRingDesc` methods -/

/-- `UpdatePartitionState` -/
def updatePartitionState (d : PDesc) (id : Int) (st : Nat) (now : Int) : Except Err (Option PDesc) :=
  match d.get? id with
  | none => .ok none
  | some p =>
    if p.state == st then .ok none
    else if p.locked then .error .locked
    else .ok (some { d with parts := setPart { p with state := st, stateTs := now } d.parts })

/-- `AddOrUpdateOwner`; `none` = unchanged -/
def addOrUpdateOwner (d : PDesc) (id : String) (st : Nat) (pid : Int) (now : Int) : Option PDesc :=
  match getOwner? d id with
  | some prev =>
    if prev.state == st && prev.partition == pid then none
    else some { d with owners := setOwner { id := id, partition := pid, state := st, updatedTs := now } d.owners }
  | none => some { d with owners := setOwner { id := id, partition := pid, state := st, updatedTs := now } d.owners }

/-- `RemoveOwner` -/
def removeOwner (d : PDesc) (id : String) : Option PDesc :=
  match getOwner? d id with
  | none => none
  | some _ => some { d with owners := d.owners.filter (·.id != id) }

def ownersCount (d : PDesc) (pid : Int) : Nat := (d.owners.filter (·.partition == pid)).length

/-- `PartitionOwnersCountUpdatedBefore` (owner state is not looked at) -/
def ownersCountUpdatedBefore (d : PDesc) (pid : Int) (before : Int) : Nat :=
  (d.owners.filter fun o => o.partition == pid && o.updatedTs < before).length

/-! ### editor / lifecycler store updates -/

/-- `changePartitionState` -/
def changePartitionState (d : PDesc) (pid : Int) (to : Nat) (now : Int) : Except Err (Option PDesc) :=
  match d.get? pid with
  | none => .error .partitionDoesNotExist
  | some p =>
    if p.state == to then .ok none
    else if !allowed p.state to then .error .stateChangeNotAllowed
    else updatePartitionState d pid to now

/-- `SetPartitionStateChangeLock` -/
def setLock (d : PDesc) (pid : Int) (locked : Bool) (now : Int) : Except Err (Option PDesc) :=
  match d.get? pid with
  | none => .error .partitionDoesNotExist
  | some p =>
    if p.locked == locked then .ok none
    else .ok (some { d with parts := setPart { p with locked := locked, lockedTs := now } d.parts })

structure Cfg where
  pid : Int
  inst : String
  multi : Bool := false
  waitCount : Nat := 0
  waitDur : Int := 0
  deleteAfter : Int := 0
  deriving DecidableEq, Repr, Inhabited

/-- `partitionOwnerID` -/
def Cfg.ownerID (c : Cfg) : String := if c.multi then c.inst ++ "/" ++ toString c.pid else c.inst

/-- `createPartitionAndRegisterOwner`; `tokens` = what the token generator returned (not modelled here). -/
def createAndRegister (d : PDesc) (c : Cfg) (tokens : List Nat) (now : Int) : Except Err (Option PDesc) :=
  let (d1, changed) := match d.get? c.pid with
    | some _ => (d, false)
    | none => ({ d with parts := setPart { id := c.pid, state := sPending, stateTs := now, tokens := tokens } d.parts }, true)
  match addOrUpdateOwner d1 c.ownerID oActive c.pid now with
  | some d2 => .ok (some d2)
  | none => .ok (if changed then some d1 else none)

/-- the poll of `waitPartitionAndRegisterOwner`: `getRing` (a plain read, OUTSIDE any CAS) + `HasPartition` -/
def pollSees (d : PDesc) (c : Cfg) : Bool := (d.get? c.pid).isSome

/-- the CAS function of `waitPartitionAndRegisterOwner`: an UNCONDITIONAL `AddOrUpdateOwner` — it does not look
whether the partition (still) exists; existence was polled before, on a possibly older ring (`pollSees`). -/
def waitAndRegister (d : PDesc) (c : Cfg) (now : Int) : Except Err (Option PDesc) :=
  .ok (addOrUpdateOwner d c.ownerID oActive c.pid now)

/-- `waitPartitionAndRegisterOwner` as a whole when nothing interferes between its poll and its CAS: it gives up
with the context error while the partition does not exist, else registers. -/
def waitSequential (d : PDesc) (c : Cfg) (now : Int) : Except Err (Option PDesc) :=
  if pollSees d c then waitAndRegister d c now else .error .ctx

/-- `reconcileOwnedPartition` -/
def reconcileOwned (d : PDesc) (c : Cfg) (now : Int) : Except Err (Option PDesc) :=
  match d.get? c.pid with
  | none => .error .partitionDoesNotExist
  | some p =>
    if p.state == sPending && ownersCountUpdatedBefore d c.pid (now - c.waitDur) ≥ c.waitCount then
      updatePartitionState d c.pid sActive now
    else .ok none

/-- is the partition removed by `reconcileOtherPartitions` of a lifecycler with config `c`? -/
def deletable (d : PDesc) (c : Cfg) (now : Int) (p : Part) : Bool :=
  c.deleteAfter > 0 && p.id != c.pid && p.state == sInactive && p.stateTs < now - c.deleteAfter &&
  ownersCount d p.id == 0

/-- `reconcileOtherPartitions` -/
def reconcileOthers (d : PDesc) (c : Cfg) (now : Int) : Except Err (Option PDesc) :=
  if d.parts.any (deletable d c now) then .ok (some { d with parts := d.parts.filter (fun p => !deletable d c now p) })
  else .ok none


/-! ### clocks with a sub-second part

`reconcile()` hands `time.Now()` — an instant with nanoseconds — to both handlers, while every stored timestamp
is `time.Now().Unix()`, the instant truncated DOWN to the second. The handlers compare in whole seconds:
`IsInactiveSince(since)` is `StateTimestamp < since.Unix()` with `since = now.Add(-delay)`, and
`PartitionOwnersCountUpdatedBefore(before)` is `UpdatedTimestamp < before.Unix()`. Instants are modelled in
milliseconds; `unixSec` is `Time.Unix()` (floor). -/

/-- `time.Time.Unix()` of an instant given in milliseconds (floor; `Int./` with a positive divisor) -/
def unixSec (ms : Int) : Int := ms / 1000

/-- `partition.IsInactiveSince(now.Add(-delay)) && PartitionOwnersCount == 0`, `now` in milliseconds -/
def deletableMs (d : PDesc) (c : Cfg) (nowMs : Int) (p : Part) : Bool :=
  c.deleteAfter > 0 && p.id != c.pid && p.state == sInactive && p.stateTs < unixSec (nowMs - c.deleteAfter * 1000) &&
  ownersCount d p.id == 0

/-- `reconcileOtherPartitions(ctx, now)` with `now` in milliseconds -/
def reconcileOthersMs (d : PDesc) (c : Cfg) (nowMs : Int) : Except Err (Option PDesc) :=
  if d.parts.any (deletableMs d c nowMs) then .ok (some { d with parts := d.parts.filter (fun p => !deletableMs d c nowMs p) })
  else .ok none

/-- `reconcileOwnedPartition(ctx, now)` with `now` in milliseconds -/
def reconcileOwnedMs (d : PDesc) (c : Cfg) (nowMs : Int) : Except Err (Option PDesc) :=
  match d.get? c.pid with
  | none => .error .partitionDoesNotExist
  | some p =>
    if p.state == sPending && ownersCountUpdatedBefore d c.pid (unixSec (nowMs - c.waitDur * 1000)) ≥ c.waitCount then
      updatePartitionState d c.pid sActive (unixSec nowMs)
    else .ok none

/-- `stopping` -/
def stopping (d : PDesc) (c : Cfg) (removeOwnerOnShutdown : Bool) : Except Err (Option PDesc) :=
  if removeOwnerOnShutdown then .ok (removeOwner d c.ownerID) else .ok none

/-- every store update an editor or a lifecycler can perform -/
inductive Op
  | change (pid : Int) (to : Nat) (now : Int)           -- editor / lifecycler ChangePartitionState
  | lock (pid : Int) (locked : Bool) (now : Int)
  | removeMultiOwner (inst : String) (pid : Int)
  | create (c : Cfg) (tokens : List Nat) (now : Int)
  | wait (c : Cfg) (now : Int)                          -- the registration CAS of waitPartitionAndRegisterOwner (after a successful poll)
  | reconcileOwned (c : Cfg) (now : Int)
  | reconcileOthers (c : Cfg) (now : Int)
  | stopping (c : Cfg) (remove : Bool)
  deriving Repr

def step (d : PDesc) : Op → Except Err (Option PDesc)
  | .change pid to now => changePartitionState d pid to now
  | .lock pid l now => setLock d pid l now
  | .removeMultiOwner inst pid => .ok (removeOwner d (inst ++ "/" ++ toString pid))
  | .create c toks now => createAndRegister d c toks now
  | .wait c now => waitAndRegister d c now
  | .reconcileOwned c now => reconcileOwned d c now
  | .reconcileOthers c now => reconcileOthers d c now
  | .stopping c rm => stopping d c rm

/-- `kv.Client.CAS(key, f)` as `updateRing` uses it: `f` runs on the value just read; if the store was
written in between, the write is refused and `f` runs again on the fresh value, until an attempt is not
interfered with. `reads` = the values the successive attempts read; all attempts but the last are discarded
(a handler must therefore decide from its argument alone, never from what an earlier attempt saw). -/
def casOutcome (f : PDesc → Except Err (Option PDesc)) : List PDesc → Option (Except Err (Option PDesc))
  | [] => none
  | [d] => some (f d)
  | _ :: ds => casOutcome f ds

/-- the ring after the update (`updateRing`: nothing is written on error or "unchanged") -/
def apply (d : PDesc) (op : Op) : PDesc :=
  match step d op with
  | .ok (some d') => d'
  | _ => d

/-! ### the service: `starting`, the `running` select loop, `stopping`

`PartitionInstanceLifecycler` is a `services.BasicService`: `starting` either creates-and-registers in one CAS,
or POLLS the ring (plain reads) until the partition exists and then registers in a CAS that no longer checks
existence — other actors may write between the poll and that CAS; if `starting` fails the service is Failed and
nothing else runs; `running` reconciles once on entry and then reacts, one
event per loop iteration, to the ticker, to a function received on `actorChan` (`ChangePartitionState`) and
to `ctx.Done()`; after that `stopping` runs once. Several lifecyclers and a `PartitionRingEditor` share the
ring; every handler is one CAS on it, so a schedule is a sequence of `Act`s. -/

structure Loop where
  cfg : Cfg
  createOnStartup : Bool := true
  removeOwnerOnShutdown : Bool := false
  deriving Repr, Inhabited

/-- what one iteration of the `select` in `running` reacts to -/
inductive Event
  | tick (nowOwned nowOthers : Int)     -- `<-reconcileTicker.C`: `reconcile()` with its two `time.Now()`
  | actor (to : Nat) (now : Int)         -- `f := <-l.actorChan; f()`: `ChangePartitionState(to)`
  | stop                                  -- `<-ctx.Done()`, followed by `stopping`
  deriving Repr

inductive Phase | new | polled | running | terminated | failed
  deriving DecidableEq, Repr

def Loop.startOp (l : Loop) (tokens : List Nat) (now : Int) : Op :=
  if l.createOnStartup then .create l.cfg tokens now else .wait l.cfg now

def Loop.tickOps (l : Loop) (a b : Int) : List Op := [.reconcileOwned l.cfg a, .reconcileOthers l.cfg b]

def Loop.eventOps (l : Loop) : Event → List Op
  | .tick a b => l.tickOps a b
  | .actor to now => [.change l.cfg.pid to now]
  | .stop => [.stopping l.cfg l.removeOwnerOnShutdown]

inductive Act
  | poll (i : Nat)                                                      -- `starting` without create-on-startup: the poll sees the partition
  | start (i : Nat) (tokens : List Nat) (now : Int) (first : Int × Int)  -- the CAS of `starting` + the reconcile on entering `running`
  | event (i : Nat) (e : Event)                                         -- one loop iteration of lifecycler `i`
  | editor (op : Op)                                                    -- a `PartitionRingEditor` call
  deriving Repr

structure Sys where
  ring : PDesc
  phase : Nat → Phase

def setPhase (f : Nat → Phase) (i : Nat) (p : Phase) : Nat → Phase := fun j => if j = i then p else f j

/-- `starting` can perform its CAS: at once when it creates the partition, after a successful poll otherwise -/
def Loop.canStart (l : Loop) (p : Phase) : Bool := if l.createOnStartup then p == .new else p == .polled

/-- the store updates the implementation performs for `a` in state `s` (`[]` if `a` is not enabled) -/
def actOps (ls : List Loop) (s : Sys) : Act → List Op
  | .poll _ => []
  | .start i tokens now first =>
    match ls[i]? with
    | some l =>
      if l.canStart (s.phase i) then
        match step s.ring (l.startOp tokens now) with
        | .error _ => [l.startOp tokens now]                         -- starting failed: `running` is never entered
        | .ok _ => l.startOp tokens now :: l.tickOps first.1 first.2
      else []
    | none => []
  | .event i e =>
    match ls[i]? with
    | some l => if s.phase i = .running then l.eventOps e else []
    | none => []
  | .editor op => [op]

def actPhase (ls : List Loop) (s : Sys) : Act → Nat → Phase
  | .poll i =>
    match ls[i]? with
    | some l => if !l.createOnStartup && s.phase i = .new && pollSees s.ring l.cfg then setPhase s.phase i .polled else s.phase
    | none => s.phase
  | .start i tokens now _ =>
    match ls[i]? with
    | some l =>
      if l.canStart (s.phase i) then
        match step s.ring (l.startOp tokens now) with
        | .error _ => setPhase s.phase i .failed
        | .ok _ => setPhase s.phase i .running
      else s.phase
    | none => s.phase
  | .event i e =>
    match ls[i]?, e with
    | some _, .stop => if s.phase i = .running then setPhase s.phase i .terminated else s.phase
    | _, _ => s.phase
  | .editor _ => s.phase

def sysStep (ls : List Loop) (s : Sys) (a : Act) : Sys :=
  { ring := (actOps ls s a).foldl apply s.ring, phase := actPhase ls s a }

def sysRun (ls : List Loop) (s : Sys) (as : List Act) : Sys := as.foldl (sysStep ls) s

/-- the calls a `PartitionRingEditor` offers -/
def isEditorOp : Op → Bool
  | .change .. => true | .lock .. => true | .removeMultiOwner .. => true | _ => false

/-! ### GetKeysByPartition -/

def insertIdx (pid : Int) (i : Nat) : List (Int × List Nat) → List (Int × List Nat)
  | [] => [(pid, [i])]
  | (q, l) :: r => if pid < q then (pid, [i]) :: (q, l) :: r else if pid == q then (q, l ++ [i]) :: r
                   else (q, l) :: insertIdx pid i r

/-- one iteration of the two passes of `GetKeysByPartition` for key `ki.1` at index `ki.2` -/
def groupStep (all : List (Nat × Part)) (acc : List (Int × List Nat)) (ki : Nat × Nat) :
    Except C14.Err (List (Int × List Nat)) :=
  match activeForOf all ki.1 with
  | .ok p => .ok (insertIdx p ki.2 acc)
  | .error e => .error e

def keysByPartition (d : PDesc) (keys : List Nat) : Except C14.Err (List (Int × List Nat)) :=
  if (d.parts.filter (·.isActive)).isEmpty then .error .noActivePartition
  else (keys.zipIdx).foldlM (groupStep d.tokenParts) []

/-! ### replication sets -/

/-- `InstanceDesc.IsHealthy(op, timeout, now)`; `healthyStates` = `op.IsInstanceInStateHealthy` on
ACTIVE, LEAVING, PENDING, JOINING, LEFT. -/
def isHealthy (healthyStates : List Bool) (timeout now : Int) (i : Ring.Inst) : Bool :=
  healthyStates.getD i.state.toNat false && decide (now - i.ts ≤ timeout)

def uniqueZones (l : List Ring.Inst) : List String :=
  l.foldl (fun acc i => if acc.contains i.zone then acc else acc ++ [i.zone]) []

/-- owners of a partition in ascending id order (`ownersByPartition`; owner state is not looked at) -/
def ownerIDs (d : PDesc) (pid : Int) : List String := (d.owners.filter (·.partition == pid)).map (·.id)

/-- `instancesRing.GetInstance(id)` + `IsHealthy`: the instance if it exists and is healthy -/
def healthyInst (insts : Ring.Desc) (hs : List Bool) (timeout now : Int) (id : String) : Option Ring.Inst :=
  match insts.get? id with
  | some i => if isHealthy hs timeout now i then some i else none
  | none => none

/-- one partition of `GetReplicationSetsForOperation`: instance ids and `MaxUnavailableZones` -/
def replSetFor (d : PDesc) (insts : Ring.Desc) (hs : List Bool) (timeout now : Int) (pid : Int) :
    Except Err (List String × Nat) :=
  let instances := (ownerIDs d pid).filterMap (healthyInst insts hs timeout now)
  if instances.isEmpty then .error .tooManyUnhealthy
  else .ok (instances.map (·.id), (uniqueZones instances).length - 1)

/-- `PartitionInstanceRing.GetReplicationSetsForOperation` (one set per partition, any state) -/
def replSets (d : PDesc) (insts : Ring.Desc) (hs : List Bool) (timeout now : Int) :
    Except Err (List (List String × Nat)) :=
  if d.parts.isEmpty then .error .emptyRing
  else d.parts.mapM fun p => replSetFor d insts hs timeout now p.id

/-- text before the last `/` (`MultiPartitionOwnerIDs`) -/
def stripSuffix (id : String) : String :=
  match (id.splitOn "/").reverse with
  | _ :: (b :: rest) => "/".intercalate (b :: rest).reverse
  | _ => id

/-- `indexFromInstanceSuffix` (`none` = `math.MaxInt`) -/
def indexFromSuffix (id : String) : Option Nat :=
  let digits := (id.toList.reverse.takeWhile Char.isDigit).reverse
  if digits.isEmpty then none else (String.ofList digits).toNat?

/-- `a < b` on suffix indexes with `none` = +∞ -/
def idxLt : Option Nat → Option Nat → Bool
  | some a, some b => a < b
  | some _, none => true
  | none, _ => false

/-- one iteration of the inner loop of `highestPreferablyNonReadOnlyFromEachZone` for `zone` -/
def pickStep (zone : String) (best : Option (String × Ring.Inst)) (cand : String × Ring.Inst) :
    Option (String × Ring.Inst) :=
  if cand.2.zone != zone then best else
  match best with
  | none => some cand
  | some h =>
    if h.2.ro && !cand.2.ro then some cand
    else if cand.2.ro && !h.2.ro then some h
    else if idxLt (indexFromSuffix cand.1) (indexFromSuffix h.1) then some h
    else some cand

def pickHighest (zone : String) (all : List (String × Ring.Inst)) : Option (String × Ring.Inst) :=
  all.foldl (pickStep zone) none

/-- the healthy owners of a partition in owner-id order, each with its (suffix-stripped) instance id -/
def multiFound (d : PDesc) (insts : Ring.Desc) (hs : List Bool) (timeout now : Int) (pid : Int) :
    List (String × Ring.Inst) :=
  ((ownerIDs d pid).map stripSuffix).filterMap fun id => (healthyInst insts hs timeout now id).map fun i => (id, i)

/-- `MultiPartitionInstanceRing.GetReplicationSetForPartitionAndOperation` -/
def multiReplSet (d : PDesc) (insts : Ring.Desc) (hs : List Bool) (timeout now : Int) (pid : Int) :
    Except Err (List String × Nat) :=
  if ((ownerIDs d pid).map stripSuffix).isEmpty then .error .emptyRing
  else
    let found := multiFound d insts hs timeout now pid
    if found.isEmpty then .error .tooManyUnhealthy
    else
      let zones := uniqueZones (found.map (·.2))
      .ok ((zones.filterMap fun z => (pickHighest z found).map (·.2.id)), zones.length - 1)

end C15
