import Model.Common
/-!
# C19 — cache wrappers (LRU, versioned, snappy) over the in-process backend; jump-hash placement

Executable model of `cache/lru.go`, `cache/versioned.go`, `cache/compression.go`, `cache/mock.go`,
`cache/jump_hash.go`, `cache/memcached_server_selector.go`. Keys and values are byte lists.

Time: the backend (`MockCache`) has its own virtual clock `Backend.now` (moved by `Advance`); the LRU
layer reads the wall clock (`time.Now()`), which is the parameter `wall` here. One tick = one minute
in the harness. Go map iteration order (LRU inserts of `SetMultiAsync` and of the `GetMulti`
back-fill) is a parameter (`hint`: any order; the theorems hold for every order).
-/
namespace C19
open Common

abbrev Key := Bytes

/-- `cache.Item`. -/
structure Item where
  data : Bytes
  exp : Int
  deriving DecidableEq, Repr, Inhabited

/-! ## association lists (Go maps with string keys) -/

def aGet {α} (k : Key) : List (Key × α) → Option α
  | [] => none
  | (k', v) :: r => if k' = k then some v else aGet k r

def aDel {α} (k : Key) : List (Key × α) → List (Key × α)
  | [] => []
  | (k', v) :: r => if k' = k then aDel k r else (k', v) :: aDel k r

def aPut {α} (k : Key) (v : α) (m : List (Key × α)) : List (Key × α) := (k, v) :: aDel k m

abbrev KV := List (Key × Item)
abbrev Res := List (Key × Bytes)

/-! ## backend: `MockCache` -/

structure Backend where
  items : KV
  now : Int
  deriving Repr

/-- `Set` / `SetAsync`: `m.cache[key] = Item{value, m.now.Add(ttl)}`. -/
def Backend.set (b : Backend) (k : Key) (v : Bytes) (ttl : Int) : Backend :=
  { b with items := aPut k ⟨v, b.now + ttl⟩ b.items }

/-- the live value under `k`: present and `now.Before(ExpiresAt)`. -/
def Backend.live (b : Backend) (k : Key) : Option Bytes :=
  match aGet k b.items with
  | some it => if b.now < it.exp then some it.data else none
  | none => none

/-- `Add`: `ErrNotStored` (false) when a live entry exists, else store. -/
def Backend.add (b : Backend) (k : Key) (v : Bytes) (ttl : Int) : Backend × Bool :=
  match b.live k with
  | some _ => (b, false)
  | none => (b.set k v ttl, true)

def Backend.del (b : Backend) (k : Key) : Backend := { b with items := aDel k b.items }

def Backend.setMulti (b : Backend) (data : Res) (ttl : Int) : Backend :=
  data.foldl (fun b kv => b.set kv.1 kv.2 ttl) b

/-- `GetMultiWithError`: a map of the live entries among `keys`. -/
def Backend.getMulti (b : Backend) (keys : List Key) : Res :=
  keys.foldl (fun acc k => match b.live k with | some v => aPut k v acc | none => acc) []

def Backend.advance (b : Backend) (d : Int) : Backend := { b with now := b.now + d }

/-! ## versioned: key prefix `"<version>@"` -/

/-- decimal digits of `n` as ASCII (`fmt.Sprintf("%d", version)` for a `uint`). -/
def digits (n : Nat) : Bytes :=
  if n < 10 then [UInt8.ofNat (48 + n)] else digits (n / 10) ++ [UInt8.ofNat (48 + n % 10)]
termination_by n
decreasing_by omega

def atSign : UInt8 := 64

def versionPrefix (n : Nat) : Bytes := digits n ++ [atSign]

/-- `addVersion`. -/
def addVersion (n : Nat) (k : Key) : Key := versionPrefix n ++ k

/-- `strings.TrimPrefix`. -/
def trimPrefix : Bytes → Bytes → Option Bytes
  | [], s => some s
  | _ :: _, [] => none
  | p :: ps, c :: cs => if p = c then trimPrefix ps cs else none

/-- `removeVersion`: the key without the prefix; unchanged when the prefix is absent. -/
def removeVersion (n : Nat) (k : Key) : Key := (trimPrefix (versionPrefix n) k).getD k

/-! ## compression: the codec is a parameter (snappy is trusted by contract) -/

structure Codec where
  enc : Bytes → Bytes
  dec : Bytes → Option Bytes

/-! ## LRU layer: `simplelru.LRU` as a most-recent-first list -/

/-- `lru.Add`: move to front / push front, evict the oldest when over capacity. -/
def lruAdd (size : Nat) (k : Key) (it : Item) (e : KV) : KV := (aPut k it e).take size

/-- Go map iteration order: the pairs of `data` sorted by their position in `hint` (the order in
which the implementation was seen to insert; keys not in `hint` first). Any `hint` gives a
permutation of `data`. -/
def rank (hint : List Key) (k : Key) : Nat :=
  match hint.idxOf? k with
  | some i => i + 1
  | none => 0

def orderBy (hint : List Key) (data : Res) : Res :=
  data.mergeSort (fun a b => decide (rank hint a.1 ≤ rank hint b.1))

def lruAddAll (size : Nat) (exp : Int) (data : Res) (e : KV) : KV :=
  data.foldl (fun e kv => lruAdd size kv.1 ⟨kv.2, exp⟩ e) e

structure Scan where
  ents : KV
  found : Res
  miss : List Key

/-- first loop of `LRUCache.GetMultiWithError`: hits move to the front, expired entries are removed. -/
def lruScan (wall : Int) : List Key → Scan → Scan
  | [], s => s
  | k :: ks, s =>
    match aGet k s.ents with
    | none => lruScan wall ks { s with miss := s.miss ++ [k] }
    | some it =>
      if wall < it.exp then lruScan wall ks { s with ents := aPut k it s.ents, found := aPut k it.data s.found }
      else lruScan wall ks { s with ents := aDel k s.ents, miss := s.miss ++ [k] }

/-! ## stacks of wrappers -/

inductive Layer
  | lru (size : Nat) (dttl : Int) (ents : KV)
  | ver (v : Nat)
  | snap
  deriving Repr

/-- `Set` and `SetAsync` through a stack (the in-process backend never fails; the LRU stores locally
regardless of the backend's answer). -/
def setL (cd : Codec) (wall : Int) : List Layer → Backend → Key → Bytes → Int → List Layer × Backend
  | [], be, k, v, ttl => ([], be.set k v ttl)
  | .ver n :: ls, be, k, v, ttl =>
    let r := setL cd wall ls be (addVersion n k) v ttl
    (.ver n :: r.1, r.2)
  | .snap :: ls, be, k, v, ttl =>
    let r := setL cd wall ls be k (cd.enc v) ttl
    (.snap :: r.1, r.2)
  | .lru sz d e :: ls, be, k, v, ttl =>
    let r := setL cd wall ls be k v ttl
    (.lru sz d (lruAdd sz k ⟨v, wall + ttl⟩ e) :: r.1, r.2)

/-- `Add`: the LRU stores locally only when the layers below stored the entry. -/
def addL (cd : Codec) (wall : Int) : List Layer → Backend → Key → Bytes → Int → List Layer × Backend × Bool
  | [], be, k, v, ttl => let r := be.add k v ttl; ([], r.1, r.2)
  | .ver n :: ls, be, k, v, ttl =>
    let r := addL cd wall ls be (addVersion n k) v ttl
    (.ver n :: r.1, r.2.1, r.2.2)
  | .snap :: ls, be, k, v, ttl =>
    let r := addL cd wall ls be k (cd.enc v) ttl
    (.snap :: r.1, r.2.1, r.2.2)
  | .lru sz d e :: ls, be, k, v, ttl =>
    let r := addL cd wall ls be k v ttl
    (.lru sz d (if r.2.2 then lruAdd sz k ⟨v, wall + ttl⟩ e else e) :: r.1, r.2.1, r.2.2)

/-- `SetMultiAsync`; `hints` is aligned with the layers (used by LRU layers only). -/
def setMultiL (cd : Codec) (wall : Int) : List Layer → Backend → Res → Int → List (List Key) → List Layer × Backend
  | [], be, data, ttl, _ => ([], be.setMulti data ttl)
  | .ver n :: ls, be, data, ttl, hs =>
    let r := setMultiL cd wall ls be (data.map fun kv => (addVersion n kv.1, kv.2)) ttl hs.tail
    (.ver n :: r.1, r.2)
  | .snap :: ls, be, data, ttl, hs =>
    let r := setMultiL cd wall ls be (data.map fun kv => (kv.1, cd.enc kv.2)) ttl hs.tail
    (.snap :: r.1, r.2)
  | .lru sz d e :: ls, be, data, ttl, hs =>
    let r := setMultiL cd wall ls be data ttl hs.tail
    (.lru sz d (lruAddAll sz (wall + ttl) (orderBy (hs.headD []) data) e) :: r.1, r.2)

def decodeAll (cd : Codec) (r : Res) : Res :=
  r.filterMap fun kv => (cd.dec kv.2).map fun v => (kv.1, v)

/-- `GetMultiWithError`: new layers (LRU recency / back-fill), result map, error reported. -/
def getL (cd : Codec) (wall : Int) : List Layer → Backend → List Key → List (List Key) → List Layer × Res × Bool
  | [], be, keys, _ => ([], be.getMulti keys, false)
  | .ver n :: ls, be, keys, hs =>
    let r := getL cd wall ls be (keys.map (addVersion n)) hs.tail
    (.ver n :: r.1, r.2.1.foldl (fun acc kv => aPut (removeVersion n kv.1) kv.2 acc) [], r.2.2)
  | .snap :: ls, be, keys, hs =>
    let r := getL cd wall ls be keys hs.tail
    (.snap :: r.1, decodeAll cd r.2.1, r.2.2 || r.2.1.any fun kv => (cd.dec kv.2).isNone)
  | .lru sz d e :: ls, be, keys, hs =>
    let sc := lruScan wall keys ⟨e, [], []⟩
    if sc.miss.isEmpty then (.lru sz d sc.ents :: ls, sc.found, false)
    else
      let r := getL cd wall ls be sc.miss hs.tail
      let o := orderBy (hs.headD []) r.2.1
      (.lru sz d (lruAddAll sz (wall + d) o sc.ents) :: r.1, o.foldl (fun f kv => aPut kv.1 kv.2 f) sc.found, r.2.2)

/-- `Delete`: local removal, then the layers below. -/
def delL : List Layer → Backend → Key → List Layer × Backend
  | [], be, k => ([], be.del k)
  | .ver n :: ls, be, k => let r := delL ls be (addVersion n k); (.ver n :: r.1, r.2)
  | .snap :: ls, be, k => let r := delL ls be k; (.snap :: r.1, r.2)
  | .lru sz d e :: ls, be, k => let r := delL ls be k; (.lru sz d (aDel k e) :: r.1, r.2)

/-! ## one client: operations and observations -/

inductive Op
  | set (k : Key) (v : Bytes) (ttl : Int)
  | setAsync (k : Key) (v : Bytes) (ttl : Int)
  | add (k : Key) (v : Bytes) (ttl : Int)
  | setMulti (data : Res) (ttl : Int)
  | get (keys : List Key)
  | del (k : Key)
  | advV (d : Int)      -- `MockCache.Advance`
  | advW (d : Int)      -- wall clock of the LRU layers moves
  | advBoth (d : Int)
  | raw (k : Key) (phys : Key) (bytes : Bytes) (ttl : Int)   -- foreign write straight into the backend
  deriving Repr

inductive Obs
  | none
  | added (ok : Bool)
  | got (res : Res) (err : Bool)
  deriving Repr

structure St where
  layers : List Layer
  be : Backend
  wall : Int

def step (cd : Codec) (s : St) (op : Op) (hs : List (List Key)) : St × Obs :=
  match op with
  | .set k v ttl | .setAsync k v ttl =>
    let r := setL cd s.wall s.layers s.be k v ttl
    ({ s with layers := r.1, be := r.2 }, .none)
  | .add k v ttl =>
    let r := addL cd s.wall s.layers s.be k v ttl
    ({ s with layers := r.1, be := r.2.1 }, .added r.2.2)
  | .setMulti data ttl =>
    let r := setMultiL cd s.wall s.layers s.be data ttl hs
    ({ s with layers := r.1, be := r.2 }, .none)
  | .get keys =>
    let r := getL cd s.wall s.layers s.be keys hs
    ({ s with layers := r.1 }, .got r.2.1 r.2.2)
  | .del k =>
    let r := delL s.layers s.be k
    ({ s with layers := r.1, be := r.2 }, .none)
  | .advV d => ({ s with be := s.be.advance d }, .none)
  | .advW d => ({ s with wall := s.wall + d }, .none)
  | .advBoth d => ({ s with be := s.be.advance d, wall := s.wall + d }, .none)
  | .raw _ phys bytes ttl => ({ s with be := s.be.set phys bytes ttl }, .none)

/-! ## the property as an executable judge: a map with expiry

Per key the judge remembers the last stored value with its deadline on the backend's clock (`dV` =
time of the store + TTL), the deadline of the copy the in-memory layer may hold on that layer's
clock (`dW`: the store's own TTL deadline, or `fill + default retention` after a back-fill) and the
in-memory clock reading `fill` of the latest back-fill since the store (`none` = no back-fill since
the store), or that the key was deleted. It is written from the property text and never looks at the
model of the wrappers. What it reads off the implementation besides results is which keys the
in-memory layer holds just before the operation (`held`, the layer's own key list). -/

inductive JEnt
  | never
  | deleted
  | present (val : Bytes) (dV dW : Int) (fill : Option Int)
  deriving DecidableEq, Repr

/-- what the judge needs to know about the stack: is there an in-memory layer, its default
retention, and the version prefixes applied above it (outermost first): the in-memory layer sees
client key `k` as `lruKey up k`. -/
structure JCfg where
  hasLru : Bool
  dttl : Int
  up : List Nat
  deriving Repr

abbrev Spec := List (Key × JEnt)

def Spec.get (σ : Spec) (k : Key) : JEnt := (aGet k σ).getD .never

structure JSt where
  spec : Spec
  V : Int
  W : Int

/-- the name of client key `k` inside the in-memory layer. -/
def lruKey (up : List Nat) (k : Key) : Key := up.foldl (fun k n => addVersion n k) k

/-- the in-memory layer holds a copy of `k` that is within its own deadline `dW`: it answers the
read itself and nothing is fetched from below (no back-fill, the deadline is NOT re-armed). -/
def servedLocally (cfg : JCfg) (held : List Key) (W dW : Int) (k : Key) : Bool :=
  cfg.hasLru && held.contains (lruKey cfg.up k) && decide (W < dW)

/-- may the value `v` be returned for `k` now? (reasons why not). Either the in-memory layer holds
the entry within its retention, or the entry is within its TTL on the backend's clock. -/
def checkRead (cfg : JCfg) (held : List Key) (j : JSt) (keys : List Key) (k : Key) (v : Bytes) : List String :=
  (if keys.contains k then [] else ["read-unrequested-key"]) ++
  match j.spec.get k with
  | .never => ["read-never-stored"]
  | .deleted => ["read-after-delete"]
  | .present val dV dW _ =>
    (if v = val then [] else ["read-not-last-stored"]) ++
    (if servedLocally cfg held j.W dW k = true ∨ j.V < dV then [] else ["read-after-deadline"])

/-- a read that returned `k` although the in-memory layer did not serve it itself came from below
while the entry was within its TTL: the in-memory layer takes a copy (back-fill) whose default
retention counts from now. A read served by the in-memory layer re-arms nothing. The entry is looked
up in the judge state `j` before the read. -/
def refill (cfg : JCfg) (held : List Key) (j : JSt) (σ : Spec) (k : Key) : Spec :=
  match j.spec.get k with
  | .present val dV dW _ =>
    if cfg.hasLru = true ∧ servedLocally cfg held j.W dW k = false ∧ j.V < dV
    then aPut k (.present val dV (j.W + cfg.dttl) (some j.W)) σ else σ
  | _ => σ

/-- is the last stored entry of `k` within its TTL on the backend's clock? (`Add` must be refused
exactly then) -/
def liveV (j : JSt) (k : Key) : Bool :=
  match j.spec.get k with
  | .present _ dV _ _ => decide (j.V < dV)
  | _ => false

/-- one judge step; `held` = the keys the in-memory layer holds just before the operation. -/
def jstep (cfg : JCfg) (held : List Key) (j : JSt) (op : Op) (obs : Obs) : JSt × List String :=
  match op, obs with
  | .set k v ttl, _ | .setAsync k v ttl, _ =>
    ({ j with spec := aPut k (.present v (j.V + ttl) (j.W + ttl) none) j.spec }, [])
  | .add k v ttl, .added true =>
    ({ j with spec := aPut k (.present v (j.V + ttl) (j.W + ttl) none) j.spec },
     if liveV j k then ["add-accepted-over-live-entry"] else [])
  | .add k _ _, .added false => (j, if liveV j k then [] else ["add-refused-without-live-entry"])
  | .add _ _ _, _ => (j, ["add-without-outcome"])
  | .setMulti data ttl, _ =>
    ({ j with spec := data.foldl (fun σ kv => aPut kv.1 (.present kv.2 (j.V + ttl) (j.W + ttl) none) σ) j.spec }, [])
  | .get keys, .got res _ =>
    ({ j with spec := res.foldl (fun σ kv => refill cfg held j σ kv.1) j.spec },
     res.flatMap fun kv => checkRead cfg held j keys kv.1 kv.2)
  | .get _, _ => (j, ["get-without-result"])
  | .del k, _ => ({ j with spec := aPut k .deleted j.spec }, [])
  | .advV d, _ => ({ j with V := j.V + d }, [])
  | .advW d, _ => ({ j with W := j.W + d }, [])
  | .advBoth d, _ => ({ j with V := j.V + d, W := j.W + d }, [])
  | .raw _ _ _ _, _ => (j, [])

/-- the keys the (first) in-memory layer of a stack holds — what `VerifLRUKeys` reads. -/
def heldKeys : List Layer → List Key
  | [] => []
  | .lru _ _ e :: _ => e.map (·.1)
  | _ :: ls => heldKeys ls

/-- run the model and the judge side by side; all reasons the judge raises. -/
def runJudge (cd : Codec) (cfg : JCfg) : St → JSt → List (Op × List (List Key)) → List String
  | _, _, [] => []
  | s, j, (op, hs) :: rest =>
    let r := step cd s op hs
    let q := jstep cfg (heldKeys s.layers) j op r.2
    q.2 ++ runJudge cd cfg r.1 q.1 rest

/-- final states of the model and of the judge after a run. -/
def runTo (cd : Codec) (cfg : JCfg) : St → JSt → List (Op × List (List Key)) → St × JSt
  | s, j, [] => (s, j)
  | s, j, (op, hs) :: rest =>
    let r := step cd s op hs
    runTo cd cfg r.1 (jstep cfg (heldKeys s.layers) j op r.2).1 rest

/-- no in-memory layer in the stack -/
def noLru : List Layer → Prop
  | [] => True
  | .lru .. :: _ => False
  | _ :: ls => noLru ls

/-- at most one in-memory layer (each wrapper is used at most once; versioned and compression
layers may repeat) -/
def oneLru : List Layer → Prop
  | [] => True
  | .lru .. :: ls => noLru ls
  | _ :: ls => oneLru ls

/-- freshly constructed wrappers: the in-memory layers are empty -/
def emptyLrus : List Layer → Prop
  | [] => True
  | .lru _ _ e :: ls => e = [] ∧ emptyLrus ls
  | _ :: ls => emptyLrus ls

/-- operations of a sequential client within the property's quantifier. -/
def OpOk : Op → Prop
  | .setMulti data _ => (data.map (·.1)).Nodup      -- a Go map has distinct keys
  | .advV d => 0 ≤ d                                -- clocks do not run backwards
  | .advW d => 0 ≤ d
  | .advBoth d => 0 ≤ d
  | .raw _ _ _ _ => False                           -- foreign writes are not client operations
  | _ => True

/-- the two clocks move together (one real clock): no separate `advV` / `advW`. -/
def Coupled : Op → Prop
  | .advV _ => False
  | .advW _ => False
  | _ => True

/-- freshly built wrappers over an empty backend; the judge knows nothing yet. -/
def St.fresh (ls : List Layer) (v0 w0 : Int) : St := ⟨ls, ⟨[], v0⟩, w0⟩
def JSt.fresh (v0 w0 : Int) : JSt := ⟨[], v0, w0⟩

/-- the backend key a client key ends up under. -/
def phys : List Layer → Key → Key
  | [], k => k
  | .ver n :: ls, k => phys ls (addVersion n k)
  | _ :: ls, k => phys ls k

def firstLru : List Layer → Option (Nat × Int)
  | [] => none
  | .lru sz d _ :: _ => some (sz, d)
  | _ :: ls => firstLru ls

/-- version prefixes applied above the first in-memory layer, outermost first. -/
def upVers : List Layer → List Nat
  | [] => []
  | .lru .. :: _ => []
  | .ver n :: ls => n :: upVers ls
  | .snap :: ls => upVers ls

def cfgOf (ls : List Layer) : JCfg :=
  match firstLru ls with
  | some (_, d) => ⟨true, d, upVers ls⟩
  | none => ⟨false, 0, upVers ls⟩

/-- does the in-memory layer of the stack hold a copy (live or not) of client key `k`? -/
def holds : List Layer → Key → Bool
  | [], _ => false
  | .ver n :: ls, k => holds ls (addVersion n k)
  | .snap :: ls, k => holds ls k
  | .lru _ _ e :: _, k => (e.map (·.1)).contains k

/-- final model state and judge state of a run from a fresh system. -/
def final (cd : Codec) (ls : List Layer) (v0 w0 : Int) (ops : List (Op × List (List Key))) : St × JSt :=
  runTo cd (cfgOf ls) (St.fresh ls v0 w0) (JSt.fresh v0 w0) ops

/-- what `GetMultiWithError keys` returns in a state. -/
def St.read (cd : Codec) (s : St) (keys : List Key) (hs : List (List Key)) : Res :=
  (getL cd s.wall s.layers s.be keys hs).2.1

/-! ## any number of in-memory layers

With several in-memory layers on a path each of them may take a copy from the layer below while
that copy is still served there, so retentions add up: the total `slack` of a stack is the sum of
the (non-negative parts of the) default retentions of its in-memory layers. The judge for such
stacks checks value, deletion and — on one clock — the hard deadline `TTL end + slack`. -/

def slack : List Layer → Int
  | [] => 0
  | .lru _ d _ :: ls => max d 0 + slack ls
  | _ :: ls => slack ls

def lruCount : List Layer → Nat
  | [] => 0
  | .lru .. :: ls => lruCount ls + 1
  | _ :: ls => lruCount ls

/-- may `v` be returned for `k`? value / deletion as in `checkRead`; deadline: on one clock
(`coupled`) never `slack` or more after the end of the TTL of the last store. -/
def checkReadM (sl : Int) (coupled : Bool) (j : JSt) (keys : List Key) (k : Key) (v : Bytes) : List String :=
  (if keys.contains k then [] else ["read-unrequested-key"]) ++
  match j.spec.get k with
  | .never => ["read-never-stored"]
  | .deleted => ["read-after-delete"]
  | .present val dV _ _ =>
    (if v = val then [] else ["read-not-last-stored"]) ++
    (if coupled = false ∨ j.V < dV + sl then [] else ["read-after-hard-deadline"])

/-- the judge step for stacks with several in-memory layers: stores, deletes, `Add` outcomes and
clocks as `jstep` (no in-memory bookkeeping), reads by `checkReadM`. -/
def jstepM (sl : Int) (coupled : Bool) (j : JSt) (op : Op) (obs : Obs) : JSt × List String :=
  match op, obs with
  | .get keys, .got res _ => (j, res.flatMap fun kv => checkReadM sl coupled j keys kv.1 kv.2)
  | _, _ => jstep ⟨false, 0, []⟩ [] j op obs

/-! ## two clients over a shared lower part (what the oracle runs for `cl=2` cases) -/

def isLru : Layer → Bool
  | .lru .. => true
  | _ => false

/-- align the observed per-LRU key orders with the layers of a path. -/
def alignHints : List Layer → List (List Key) → List (List Key)
  | [], _ => []
  | l :: ls, hs => if isLru l then hs.headD [] :: alignHints ls hs.tail else [] :: alignHints ls hs

/-- the whole system: private upper parts per client, shared lower part. -/
structure Sys where
  ups : List (List Layer)
  low : List Layer
  be : Backend
  wall : Int

def Sys.path (s : Sys) (c : Nat) : List Layer := (s.ups.getD c []) ++ s.low

def Sys.apply (cd : Codec) (s : Sys) (c : Nat) (op : Op) (hs : List (List Key)) : Sys × Obs :=
  let p := s.path c
  let r := step cd ⟨p, s.be, s.wall⟩ op (alignHints p hs)
  let n := (s.ups.getD c []).length
  ({ ups := s.ups.set c (r.1.layers.take n), low := r.1.layers.drop n, be := r.1.be, wall := r.1.wall }, r.2)

/-! ## jump hash and server selection -/

def lcg (key : UInt64) : UInt64 := key * 2862933555777941757 + 1

/-- the loop of `jumpHash`; `next key b` is the float expression
`int64(float64(b+1) * (float64(1<<31) / float64((key>>33)+1)))` (a parameter: the theorems hold for
every `next` with `b < next key b`). `fuel = n` iterations suffice. -/
def jumpLoop (next : UInt64 → Int → Int) (n : Int) : Nat → UInt64 → Int → Int → Int
  | 0, _, b, _ => b
  | fuel + 1, key, b, j =>
    if j < n then jumpLoop next n fuel (lcg key) j (next (lcg key) j) else b

def jump (next : UInt64 → Int → Int) (key : UInt64) (n : Nat) : Int :=
  jumpLoop next n n key (-1) 0

/-- the float expression, executed with IEEE doubles (oracle only; never used in a proof). -/
def nextFloat (key : UInt64) (b : Int) : Int :=
  (Float.ofInt (b + 1) * (Float.ofNat (2 ^ 31) / Float.ofNat ((key >>> 33).toNat + 1))).toInt64.toInt

/-- `PickServer` on an already sorted address list; `hash = xxhash.Sum64String(key)`. -/
def pick {α} (next : UInt64 → Int → Int) (servers : List α) (hash : UInt64) : Option α :=
  match servers with
  | [] => none
  | [a] => some a
  | _ => servers[(jump next hash servers.length).toNat]?

/-! ### natural sort (`facette/natsort`) -/

def isDigit (c : UInt8) : Bool := 48 ≤ c && c ≤ 57

/-- `chunkify`: maximal runs of digits / non-digits (ASCII). -/
def chunkify : Bytes → List Bytes
  | [] => []
  | c :: cs =>
    match chunkify cs with
    | [] => [[c]]
    | (d :: ds) :: rest => if isDigit c = isDigit d then (c :: d :: ds) :: rest else [c] :: (d :: ds) :: rest
    | [] :: rest => [c] :: rest   -- unreachable

/-- `strconv.Atoi` on a chunk: digit runs that fit an int64. -/
def atoi (s : Bytes) : Option Nat :=
  if s.isEmpty ∨ !s.all isDigit then none
  else
    let v := s.foldl (fun a c => a * 10 + (c.toNat - 48)) 0
    if v ≤ 9223372036854775807 then some v else none

/-- `natsort.Compare` on chunk lists, quirks included (`Compare a a = true`). -/
def natLessChunks : List Bytes → List Bytes → Bool
  | [], _ => false
  | _ :: _, [] => false
  | a :: as, b :: bs =>
    let onEqual := if as.isEmpty then true else if bs.isEmpty then false else natLessChunks as bs
    match atoi a, atoi b with
    | some x, some y => if x = y then onEqual else decide (x < y)
    | _, _ => if a = b then onEqual else bytesLt a b

def natLess (a b : Bytes) : Bool := natLessChunks (chunkify a) (chunkify b)

def insertBy (lt : Bytes → Bytes → Bool) (x : Bytes) : List Bytes → List Bytes
  | [] => [x]
  | y :: ys => if lt x y then x :: y :: ys else y :: insertBy lt x ys

/-- `natsort.Sort` (valid as a model of `sort.Sort` when `natLess` orders the input, see `natOrdered`). -/
def natSort (l : List Bytes) : List Bytes := l.foldr (insertBy natLess) []

/-- decidable condition under which "the naturally sorted list" is well defined: on the names of
`l`, `natLess` relates two distinct names in exactly one direction and is transitive. (`natLess a a`
is `true` for every non-empty `a` — natsort's quirk — so irreflexivity is not asked; names that
differ only in leading zeros of a digit run, e.g. `s1` / `s01`, compare both ways and fail the
condition.) -/
def natOrdered (l : List Bytes) : Bool :=
  l.all fun a => l.all fun b =>
    (a == b || (natLess a b != natLess b a)) &&
    l.all fun c => !(natLess a b && natLess b c) || a == c || natLess a c

/-! ### snappy block format decoder (oracle instance of `Codec.dec`; not used in proofs) -/

def uvarint (src : Array UInt8) : Option (Nat × Nat) := Id.run do
  let mut x : Nat := 0
  let mut s : Nat := 0
  for i in [0:src.size] do
    let b := src[i]!
    if i = 10 then return none
    if b < 0x80 then
      if i = 9 ∧ b > 1 then return none
      return some (x ||| (b.toNat <<< s), i + 1)
    x := x ||| ((b.toNat &&& 0x7f) <<< s)
    s := s + 7
  return none

def snappyDecode (srcL : Bytes) : Option Bytes := Id.run do
  let src := srcL.toArray
  match uvarint src with
  | none => return none
  | some (dLen, hdr) =>
    if dLen > 0xffffffff then return none
    let n := src.size
    let mut s := hdr
    let mut dst : Array UInt8 := Array.mkEmpty (min dLen 65536)
    for _ in [0:n + 1] do
      if s ≥ n then break
      let tag := src[s]!
      let kind := tag.toNat &&& 3
      if kind = 0 then
        let x0 := tag.toNat >>> 2
        let mut x := x0
        if x0 < 60 then s := s + 1
        else
          let extra := x0 - 59
          s := s + 1 + extra
          if s > n then return none
          x := 0
          for j in [0:extra] do
            x := x ||| (src[s - extra + j]!.toNat <<< (8 * j))
        let length := x + 1
        if length > dLen - dst.size ∨ length > n - s then return none
        for j in [0:length] do
          dst := dst.push src[s + j]!
        s := s + length
      else
        let mut length := 0
        let mut offset := 0
        if kind = 1 then
          s := s + 2
          if s > n then return none
          length := 4 + ((src[s - 2]!.toNat >>> 2) &&& 7)
          offset := (((src[s - 2]!.toNat &&& 0xe0) <<< 3) ||| src[s - 1]!.toNat)
        else if kind = 2 then
          s := s + 3
          if s > n then return none
          length := 1 + (src[s - 3]!.toNat >>> 2)
          offset := src[s - 2]!.toNat ||| (src[s - 1]!.toNat <<< 8)
        else
          s := s + 5
          if s > n then return none
          length := 1 + (src[s - 5]!.toNat >>> 2)
          offset := src[s - 4]!.toNat ||| (src[s - 3]!.toNat <<< 8) ||| (src[s - 2]!.toNat <<< 16) ||| (src[s - 1]!.toNat <<< 24)
        if offset = 0 ∨ dst.size < offset ∨ length > dLen - dst.size then return none
        for _ in [0:length] do
          dst := dst.push dst[dst.size - offset]!
    if dst.size ≠ dLen then return none
    return some dst.toList

end C19
