import Model.Ring
/-!
# C12 — shuffle sharding (`ring/ring.go` ShuffleShard / ShuffleShardWithLookback / shuffleShard,
`ring/shard/shard.go`, `ring/partition_ring.go` shuffleShard)

The model reads like the Go code:

* `CInst` are the fields of `InstanceDesc` that the shard selection reads (`core` projects an
  `InstanceDesc`; State / Timestamp / Addr / Versions are dropped, which is the content of
  `shard_ignores_state_ts`; that the real code reads nothing else is tied by the correspondence
  check, which perturbs exactly those fields).
* `ownedTokens` = `ringTokens` / `ringTokensByZone[zone]` together with `ringInstanceByToken`
  (each token carries its owner; with globally unique tokens this is what the Go maps hold).
* `searchToken`, `rotate` = `searchToken(tokens, random.Uint32())` and the `p %= len(tokens)` walk.
* `walk` = the inner `for p := start; iterations < len(tokens); p++` loop.
* `picks` = the `for i := 0; i < numInstancesPerZone; i++` loop (with its `break`).
* `zoneStep` = the body of `for _, zone := range actualZones` (with the whole-zone shortcut).
* the `math/rand` stream is a parameter: `starts zone i` is the i-th `Uint32()` of the generator
  seeded with `ShuffleShardSeed(identifier, zone)` (recorded from Go by the harness).
* time: `period` (= lookbackPeriod in whole seconds, ≥ 0) and `now` (unix seconds).
-/
namespace C12
open Ring

structure CInst where
  id : String
  zone : String
  tokens : List Nat
  regTs : Int
  roTs : Int
  ro : Bool
  deriving DecidableEq, Repr, Inhabited

abbrev CDesc := List CInst

def core (i : Inst) : CInst := ⟨i.id, i.zone, i.tokens, i.regTs, i.roTs, i.ro⟩

structure Cfg where
  zoneAware : Bool
  deriving DecidableEq, Repr

/-- look-back parameters: `on` = `lookbackPeriod > 0`, `til` = `lookbackUntil`. -/
structure LB where
  on : Bool
  til : Int
  deriving DecidableEq, Repr

def mkLB (period now : Int) : LB := ⟨decide (period > 0), now - period⟩

/-! ## derived indexes (`setRingStateFromDesc`) -/

def tokLe (a b : Nat × CInst) : Bool := decide (a.1 ≤ b.1)

/-- sorted token list of a set of instances, each token with its owner. -/
def ownedTokens (l : CDesc) : List (Nat × CInst) :=
  (l.flatMap fun i => i.tokens.map fun t => (t, i)).mergeSort tokLe

def inZone (z : String) (i : CInst) : Bool := i.zone == z

def zoneTokens (d : CDesc) (z : String) : List (Nat × CInst) := ownedTokens (d.filter (inZone z))
def allTokens (d : CDesc) : List (Nat × CInst) := ownedTokens d

def insertZone (z : String) : List String → List String
  | [] => [z]
  | y :: ys => if z < y then z :: y :: ys else if z = y then y :: ys else y :: insertZone z ys

/-- `getZones(ringTokensByZone)`: the zones of all instances, sorted, without duplicates. -/
def zonesOf (d : CDesc) : List String := d.foldr (fun i acc => insertZone i.zone acc) []

/-- `instancesCountPerZone[zone]` -/
def countPerZone (d : CDesc) (z : String) : Nat := (d.filter (inZone z)).length

/-- `getOldestRegisteredTimestamp` (the loop, in list order; the result is order independent). -/
def oldestRegAux : CDesc → Int → Int
  | [], r => r
  | i :: rest, r =>
    if i.regTs == 0 then 0
    else if r == 0 then oldestRegAux rest i.regTs
    else if i.regTs < r then oldestRegAux rest i.regTs
    else oldestRegAux rest r
def oldestReg (d : CDesc) : Int := oldestRegAux d 0

/-- `readOnlyInstancesAndOldestReadOnlyUpdatedTimestamp` -/
def roStatsAux : CDesc → Nat → Int → Bool → Nat × Int
  | [], n, o, _ => (n, o)
  | i :: rest, n, o, first =>
    if !i.ro then roStatsAux rest n o first
    else roStatsAux rest (n + 1) (if first then i.roTs else min o i.roTs) false
def roStats (d : CDesc) : Nat × Int := roStatsAux d 0 0 true

/-! ## shard utilities -/

def maxInt : Int := 9223372036854775807

/-- `ShuffleShardExpectedInstancesPerZone`: `MaxInt` stays `MaxInt`; with at least one zone the integer
ceiling `size / zones (+1 if size % zones > 0)` (since fix 90273d3; before, the float64 quotient
overflowed for one zone and `size ∈ [MaxInt-511, MaxInt-1]` and the shard came out empty — finding
F-C12-2). With no zone at all the Go code still returns `int(+Inf)`, which is never used (there is no
zone to iterate); the model returns 0 there. `size > 0` at every call site. -/
def expectedPerZone (size : Int) (zones : Nat) : Int :=
  if size == maxInt then maxInt
  else if zones == 0 then 0
  else
    let q := size.toNat / zones
    ((if size.toNat % zones > 0 then q + 1 else q : Nat) : Int)

/-- `searchToken`: index of the first token > key, wrapping to 0 (binary search + found → i+1). -/
def searchToken {α : Type} (toks : List (Nat × α)) (key : Nat) : Nat :=
  let i := (toks.takeWhile fun t => decide (t.1 < key)).length
  let i := if (toks[i]?.map (·.1)) == some key then i + 1 else i
  if i ≥ toks.length then 0 else i

def rotate {α : Type} (l : List α) (i : Nat) : List α := l.drop i ++ l.take i

/-- the owners met when walking all tokens once, starting at `searchToken(tokens, rnd)`. -/
def walkOrder {α : Type} (toks : List (Nat × α)) (rnd : Nat) : List α :=
  (rotate toks (searchToken toks rnd)).map (·.2)

/-- `shouldIncludeReadonlyInstanceInTheShard` -/
def includeRO (p : LB) (i : CInst) : Bool :=
  if !i.ro then true
  else if !p.on then false
  else if decide (i.roTs > 0) && decide (i.roTs < p.til) then false
  else true

/-- "include it in the subring but continue selecting" (registered, or read-only (changed), within the window). -/
def extend (p : LB) (i : CInst) : Bool :=
  p.on && (decide (i.regTs ≥ p.til) || i.ro || decide (i.roTs ≥ p.til))

def selected (sel : List CInst) (id : String) : Bool := sel.any fun s => s.id == id

/-- the inner loop over the rotated token owners; returns the shard and `found`. -/
def walk (p : LB) : List CInst → List CInst → List CInst × Bool
  | [], sel => (sel, false)
  | i :: rest, sel =>
    if selected sel i.id then walk p rest sel
    else if !includeRO p i then walk p rest sel
    else if extend p i then walk p rest (i :: sel)
    else (i :: sel, true)

/-- `for i := 0; i < numInstancesPerZone; i++ { … if !found { break } }`; `n` = iterations left,
`i` = index into the zone's random stream. -/
def picks (p : LB) (toks : List (Nat × CInst)) (starts : Nat → Nat) : Nat → Nat → List CInst → List CInst
  | 0, _, sel => sel
  | n + 1, i, sel =>
    let r := walk p (walkOrder toks (starts i)) sel
    if r.2 then picks p toks starts n (i + 1) r.1 else r.1

/-- body of `for _, zone := range actualZones`. -/
def zoneStep (cfg : Cfg) (d : CDesc) (p : LB) (starts : String → Nat → Nat) (n : Int)
    (shard : List CInst) (z : String) : List CInst :=
  if cfg.zoneAware then
    if n ≥ (countPerZone d z : Nat) then
      (d.filter fun i => inZone z i && includeRO p i) ++ shard
    else picks p (zoneTokens d z) (starts z) n.toNat 0 shard
  else picks p (allTokens d) (starts "") n.toNat 0 shard

def actualZones (cfg : Cfg) (d : CDesc) : List String := if cfg.zoneAware then zonesOf d else [""]

def perZone (cfg : Cfg) (d : CDesc) (size : Int) : Int :=
  if cfg.zoneAware then expectedPerZone size (zonesOf d).length else size

/-- `Ring.shuffleShard` (size > 0). The result lists the selected instances (a Go map: order irrelevant). -/
def shuffleShard (cfg : Cfg) (d : CDesc) (starts : String → Nat → Nat) (size period now : Int) : List CInst :=
  let p := mkLB period now
  if p.on && decide (oldestReg d > 0) && decide (oldestReg d ≥ p.til) then d
  else (actualZones cfg d).foldl (zoneStep cfg d p starts (perZone cfg d size)) []

/-- `Ring.filterOutReadOnlyInstances` -/
def filterOutRO (d : CDesc) (period now : Int) : List CInst :=
  let p := mkLB period now
  let st := roStats d
  if st.1 == 0 then d
  else if p.on && decide (st.2 ≥ p.til) then d
  else d.filter (includeRO p)

/-- `Ring.ShuffleShard` (`period = 0`) / `Ring.ShuffleShardWithLookback` without the cache. -/
def shard (cfg : Cfg) (d : CDesc) (starts : String → Nat → Nat) (size period now : Int) : List CInst :=
  if size ≤ 0 then filterOutRO d period now else shuffleShard cfg d starts size period now

/-- observation: ids of the members of the returned subring. -/
def shardIds (cfg : Cfg) (d : Desc) (starts : String → Nat → Nat) (size period now : Int) : List String :=
  (shard cfg (d.map core) starts size period now).map (·.id)

/-! ## the same with the token index kept apart from the owner index (`panic` branch explicit)

In Go the walk reads `tokens[p]` from `ringTokens` / `ringTokensByZone[zone]` and looks the owner up in
`ringInstanceByToken`; a token without an entry there makes `shuffleShard` panic with
`ErrInconsistentTokensInfo`. The model above carries the owner with each token, which hides that
branch; here the two indexes are separate and the lookup can fail. `PfC12.shard_total_on_wf`: on a
well-formed ring the checked model never fails and returns exactly `shard`. -/

inductive Err | inconsistentTokensInfo
  deriving DecidableEq, Repr

/-- `ringTokens` / `ringTokensByZone[zone]`: the sorted tokens of a set of instances. -/
def tokenList (l : CDesc) : List Nat := (l.flatMap (·.tokens)).mergeSort fun a b => decide (a ≤ b)

/-- `ringInstanceByToken[token]` followed by `ringDesc.Ingesters[info.InstanceID]`. -/
def instanceByToken (d : CDesc) (t : Nat) : Option CInst := d.find? fun i => i.tokens.contains t

/-- `searchToken` on a bare token list. -/
def searchTokenN (toks : List Nat) (key : Nat) : Nat := searchToken (toks.map fun t => (t, ())) key

def walkC (p : LB) (byTok : Nat → Option CInst) : List Nat → List CInst → Except Err (List CInst × Bool)
  | [], sel => .ok (sel, false)
  | t :: rest, sel =>
    match byTok t with
    | none => .error .inconsistentTokensInfo     -- panic(ErrInconsistentTokensInfo)
    | some i =>
      if selected sel i.id then walkC p byTok rest sel
      else if !includeRO p i then walkC p byTok rest sel
      else if extend p i then walkC p byTok rest (i :: sel)
      else .ok (i :: sel, true)

def picksC (p : LB) (byTok : Nat → Option CInst) (toks : List Nat) (starts : Nat → Nat) :
    Nat → Nat → List CInst → Except Err (List CInst)
  | 0, _, sel => .ok sel
  | n + 1, i, sel =>
    match walkC p byTok (rotate toks (searchTokenN toks (starts i))) sel with
    | .error e => .error e
    | .ok r => if r.2 then picksC p byTok toks starts n (i + 1) r.1 else .ok r.1

def zoneStepC (cfg : Cfg) (d : CDesc) (p : LB) (starts : String → Nat → Nat) (n : Int)
    (shard : List CInst) (z : String) : Except Err (List CInst) :=
  if cfg.zoneAware then
    if n ≥ (countPerZone d z : Nat) then
      .ok ((d.filter fun i => inZone z i && includeRO p i) ++ shard)
    else picksC p (instanceByToken d) (tokenList (d.filter (inZone z))) (starts z) n.toNat 0 shard
  else picksC p (instanceByToken d) (tokenList d) (starts "") n.toNat 0 shard

def foldZonesC (f : List CInst → String → Except Err (List CInst)) : List String → List CInst → Except Err (List CInst)
  | [], s => .ok s
  | z :: zs, s =>
    match f s z with
    | .ok s' => foldZonesC f zs s'
    | .error e => .error e

def shuffleShardC (cfg : Cfg) (d : CDesc) (starts : String → Nat → Nat) (size period now : Int) : Except Err (List CInst) :=
  let p := mkLB period now
  if p.on && decide (oldestReg d > 0) && decide (oldestReg d ≥ p.til) then .ok d
  else foldZonesC (zoneStepC cfg d p starts (perZone cfg d size)) (actualZones cfg d) []

/-- `Ring.ShuffleShard` / `Ring.ShuffleShardWithLookback` with the inconsistent-token panic modelled. -/
def shardC (cfg : Cfg) (d : CDesc) (starts : String → Nat → Nat) (size period now : Int) : Except Err (List CInst) :=
  if size ≤ 0 then .ok (filterOutRO d period now) else shuffleShardC cfg d starts size period now

/-- observation of the checked model on a ring descriptor. -/
def shardIdsC (cfg : Cfg) (d : Desc) (starts : String → Nat → Nat) (size period now : Int) : Except Err (List String) :=
  match shardC cfg (d.map core) starts size period now with
  | .ok l => .ok (l.map (·.id))
  | .error e => .error e

/-! ## partition ring (`PartitionRing.shuffleShard`) -/

inductive PState | unknown | pending | active | inactive | deleted
  deriving DecidableEq, Repr, Inhabited

structure Part where
  id : Int
  state : PState
  stateTs : Int
  tokens : List Nat
  deriving DecidableEq, Repr, Inhabited

def ptokLe (a b : Nat × Part) : Bool := decide (a.1 ≤ b.1)
def partTokens (ps : List Part) : List (Nat × Part) :=
  (ps.flatMap fun p => p.tokens.map fun t => (t, p)).mergeSort ptokLe

structure PSt where
  result : List Int
  exclude : List Int
  size : Nat
  deriving DecidableEq, Repr

/-- inner loop `for p := start; !found && iterations < tokensCount; p++`. -/
def pwalk (lbOn : Bool) (til : Int) : List Part → PSt → PSt × Bool
  | [], st => (st, false)
  | p :: rest, st =>
    if st.result.contains p.id then pwalk lbOn til rest st
    else if st.exclude.contains p.id then pwalk lbOn til rest st
    else if p.state == .pending then pwalk lbOn til rest { st with exclude := p.id :: st.exclude }
    else
      let within := lbOn && decide (p.stateTs ≥ til)
      let incl := p.state == .active || within
      let st1 : PSt := if incl then { st with result := p.id :: st.result } else { st with exclude := p.id :: st.exclude }
      let st2 : PSt := if within then { st1 with size := st1.size + 1 } else st1
      if incl && !within then (st2, true) else pwalk lbOn til rest st2

/-- outer loop `for len(result) < size { … if !found { break } }`; every iteration that does not
break adds a partition to `result`, so `fuel = number of partitions + 1` iterations suffice. -/
def ploop (lbOn : Bool) (til : Int) (toks : List (Nat × Part)) (starts : Nat → Nat) : Nat → Nat → PSt → PSt
  | 0, _, st => st
  | fuel + 1, i, st =>
    if st.result.length < st.size then
      let r := pwalk lbOn til (walkOrder toks (starts i)) st
      if r.2 then ploop lbOn til toks starts fuel (i + 1) r.1 else r.1
    else st

/-- ids of the partitions of the returned sub-ring. -/
def pshard (ps : List Part) (starts : Nat → Nat) (size period now : Int) : List Int :=
  let size : Nat := if size ≤ 0 || size ≥ ps.length then ps.length else size.toNat
  let til : Int := if period > 0 then now - period else 0
  let st := ploop (decide (period > 0)) til (partTokens ps) starts (ps.length + 1) 0 ⟨[], [], size⟩
  (ps.filter fun p => st.result.contains p.id).map (·.id)


/-! ## partition ring with the two look-ups that can fail (`ErrInconsistentTokensInfo`)

`PartitionRing.shuffleShard` reads `r.ringTokens[p]`, then `r.partitionByToken[token]` and (after the
result / exclude checks) `r.desc.Partitions[pid]`; either look-up failing returns
`ErrInconsistentTokensInfo`. `pshard` above carries the partition with each token, which hides both
branches; here the three indexes are separate. `PfC12.pshard_total`: with distinct partition ids and
globally unique tokens the checked model returns `.ok` of `pshard`. -/

/-- `r.ringTokens` -/
def ptokenList (ps : List Part) : List Nat := (ps.flatMap (·.tokens)).mergeSort fun a b => decide (a ≤ b)
/-- `r.partitionByToken[token]` -/
def partitionByToken (ps : List Part) (t : Nat) : Option Int := (ps.find? fun p => p.tokens.contains t).map (·.id)
/-- `r.desc.Partitions[pid]` -/
def partById (ps : List Part) (id : Int) : Option Part := ps.find? fun p => p.id == id

def pwalkC (lbOn : Bool) (til : Int) (byTok : Nat → Option Int) (byId : Int → Option Part) :
    List Nat → PSt → Except Err (PSt × Bool)
  | [], st => .ok (st, false)
  | t :: rest, st =>
    match byTok t with
    | none => .error .inconsistentTokensInfo
    | some pid =>
      if st.result.contains pid then pwalkC lbOn til byTok byId rest st
      else if st.exclude.contains pid then pwalkC lbOn til byTok byId rest st
      else match byId pid with
        | none => .error .inconsistentTokensInfo
        | some p =>
          if p.state == .pending then pwalkC lbOn til byTok byId rest { st with exclude := pid :: st.exclude }
          else
            let within := lbOn && decide (p.stateTs ≥ til)
            let incl := p.state == .active || within
            let st1 : PSt := if incl then { st with result := pid :: st.result } else { st with exclude := pid :: st.exclude }
            let st2 : PSt := if within then { st1 with size := st1.size + 1 } else st1
            if incl && !within then .ok (st2, true) else pwalkC lbOn til byTok byId rest st2

def ploopC (lbOn : Bool) (til : Int) (byTok : Nat → Option Int) (byId : Int → Option Part) (toks : List Nat)
    (starts : Nat → Nat) : Nat → Nat → PSt → Except Err PSt
  | 0, _, st => .ok st
  | fuel + 1, i, st =>
    if st.result.length < st.size then
      match pwalkC lbOn til byTok byId (rotate toks (searchTokenN toks (starts i))) st with
      | .error e => .error e
      | .ok r => if r.2 then ploopC lbOn til byTok byId toks starts fuel (i + 1) r.1 else .ok r.1
    else .ok st

/-- `PartitionRing.ShuffleShard` / `ShuffleShardWithLookback` with the error returns modelled. -/
def pshardC (ps : List Part) (starts : Nat → Nat) (size period now : Int) : Except Err (List Int) :=
  let size : Nat := if size ≤ 0 || size ≥ ps.length then ps.length else size.toNat
  let til : Int := if period > 0 then now - period else 0
  match ploopC (decide (period > 0)) til (partitionByToken ps) (partById ps) (ptokenList ps) starts (ps.length + 1) 0 ⟨[], [], size⟩ with
  | .error e => .error e
  | .ok st => .ok ((ps.filter fun p => st.result.contains p.id).map (·.id))

end C12
