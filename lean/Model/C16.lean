import Model.Common
/-!
# C16 — token generators

Executable model of `ring/token_generator.go` (`RandomTokenGenerator.GenerateTokens`),
`ring/spread_minimizing_token_generator.go`, `ring/ownership_priority_queue.go` and of the use
`PartitionRingDesc.AddPartition` makes of them. Tokens are `Nat` (`< 2^32` where it matters; `uint32`
wrap-around is written out as `% 2^32`).

Modelling decisions (each is exercised by the correspondence check):

* `math/rand` is a parameter: the recorded stream of `Uint32()` values. Drawing past the end of the
  recorded stream is `Err.exhausted` (the Go loop would keep drawing).
* `float64`: every float in the generator is an exact integer (`tokenDistance` values, their sums and
  differences, all `< 2^53`) except `optimalInstanceOwnership = 2^32/(i+1)`, which is only used as
  `uint32(optimalInstanceOwnership - currInstanceOwnership)`. For `i+1 < 2^21` and
  `0 ≤ curr ≤ ⌊2^32/(i+1)⌋` that conversion equals `⌊2^32/(i+1)⌋ - curr` (the quotient is either an
  integer or at least `1/(i+1) > 2^-21` away from one, rounding error `≤ 2^-22`, and the subtraction
  of an integer of smaller magnitude is exact). Outside that domain the Go conversion of a negative
  float is platform dependent; the model stops with `Err.outOfDomain` instead of guessing.
* `container/heap` over `ownershipPriorityQueue`: the only thing the generator observes of a queue
  is its maximum under the Go `Less`. `Less` is a strict total order on items with distinct keys
  (`PC16.less_*`), so that maximum is unique and the array layout of the real heap is unobservable.
  Both kinds of queue are modelled by a purely functional max-heap (`Heap`, a leftist heap):
  `Peek` = root, `heap.Push` = `Heap.push`, `heap.Pop` = merge of the root's subtrees,
  `heap.Fix(q,0)` after mutating the top = merge the root's subtrees and push the mutated item
  (`PC16.pq_top_is_max`, `PC16.queues_wellformed`).
* `tokensQueues[id]` (a slice indexed by instance id) is stored inside the instance's entry of the
  instance queue (`Inst.tq`): the code only ever reaches `tokensQueues[id]` through that entry.
* the `ownership` field of a token item always equals `tokenDistance(prevToken, token)` in the Go
  code (set together in `newRingTokenOwnershipInfo` and in the update after a split); the model
  derives it (`TokItem.own`).
* `State.degenerate` is a ghost flag (not in the code): some `calculateNewToken` returned the upper
  end of the range it was asked to split.
-/
namespace C16

inductive Err
  | exhausted     -- random stream used up (Go would keep drawing)
  | panic         -- Go panics (negative capacity in make, nil dereference)
  | outOfDomain   -- float64 -> uint32 conversion outside the exactly modelled domain
  | cannotAdd     -- "it was impossible to add ..." (instance with highest ownership too small / queue empty)
  | cannotCalc    -- calculateNewToken returned an error
  | fuel          -- model artefact, unreachable (`PC16.fuel_unreachable`): recursion bound of `pick` used up
  deriving DecidableEq, Repr

def Err.name : Err → String
  | .exhausted => "exhausted" | .panic => "panic" | .outOfDomain => "outOfDomain"
  | .cannotAdd => "cannotAdd" | .cannotCalc => "cannotCalc" | .fuel => "fuel"

/-! ## Constants (`spread_minimizing_token_generator.go`) -/

def totalTokensCount : Nat := 4294967296          -- math.MaxUint32 + 1
def optimalTokensPerInstance : Nat := 512
def maxZonesCount : Nat := 8

/-- `tokenDistance` (ring/util.go), in `int64`. -/
def tokenDistance (frm to : Nat) : Nat :=
  if frm < to then to - frm else 4294967295 - frm + to + 1

/-! ## `RandomTokenGenerator.GenerateTokens` -/

/-- the `for i := 0; i < requestedTokensCount;` loop: `used` is the map, `k` the tokens still to
find, the last argument the rest of the `Uint32()` stream. Returns tokens in draw order. -/
def randomLoop (used : List Nat) : Nat → List Nat → Except Err (List Nat)
  | 0, _ => .ok []
  | _ + 1, [] => .error .exhausted
  | k + 1, c :: s =>
    if used.contains c then randomLoop used (k + 1) s
    else (randomLoop (c :: used) k s).map (c :: ·)

/-- `sort.Slice(tokens, <)` / `slices.Sort`. -/
def sortTokens (l : List Nat) : List Nat := l.mergeSort (fun a b => decide (a ≤ b))

def genRandom (stream : List Nat) (requested : Int) (taken : List Nat) : Except Err (List Nat) :=
  if requested ≤ 0 then .ok []
  else (randomLoop taken requested.toNat stream).map sortTokens

/-! ## `ownershipPriorityQueue` -/

/-- Go `Less(i, j)` on the (ownership, key) pairs of two items (no NaN: all ownerships are integers). -/
def less (oi : Int) (ki : Nat) (oj : Int) (kj : Nat) : Bool :=
  if oi = oj then decide (kj < ki) else decide (oj < oi)

/-! ### priority queues: leftist heaps

A purely functional max-heap; what the generator observes is the same as with Go's binary heap:
the root is the maximum of `Less` (`PC16.pq_top_is_max`). -/
inductive Heap (α : Type) where
  | nil : Heap α
  | node (rank : Nat) (l : Heap α) (x : α) (r : Heap α) : Heap α
  deriving DecidableEq, Repr

namespace Heap
def rank {α : Type} : Heap α → Nat
  | nil => 0
  | node k _ _ _ => k

def mk {α : Type} (x : α) (a b : Heap α) : Heap α :=
  if rank b ≤ rank a then node (rank b + 1) a x b else node (rank a + 1) b x a

/-- `mergeAux hi h1 x1 l1 (merge r1) h2 = merge h1 h2` where `h1 = node _ l1 x1 r1`. -/
@[specialize] def mergeAux {α : Type} (hi : α → α → Bool) (h1 : Heap α) (x1 : α) (l1 : Heap α)
    (mergeR1 : Heap α → Heap α) : Heap α → Heap α
  | nil => h1
  | node k2 l2 x2 r2 =>
    if hi x2 x1 then mk x2 l2 (mergeAux hi h1 x1 l1 mergeR1 r2)
    else mk x1 l1 (mergeR1 (node k2 l2 x2 r2))

@[specialize] def merge {α : Type} (hi : α → α → Bool) : Heap α → Heap α → Heap α
  | nil => fun h => h
  | node k1 l1 x1 r1 => mergeAux hi (node k1 l1 x1 r1) x1 l1 (merge hi r1)

/-- `heap.Push`. -/
@[specialize] def push {α : Type} (hi : α → α → Bool) (x : α) (h : Heap α) : Heap α :=
  merge hi (node 1 nil x nil) h

def toList {α : Type} : Heap α → List α
  | nil => []
  | node _ l x r => x :: (toList l ++ toList r)
end Heap

/-- `ringToken`; the range it stands for is `(prev, token]`. `key() = int(token)`. -/
structure TokItem where
  token : Nat
  prev : Nat
  deriving DecidableEq, Repr

/-- the item's `ownership` field. -/
def TokItem.own (t : TokItem) : Nat := tokenDistance t.prev t.token

def tokHi (a b : TokItem) : Bool := less a.own a.token b.own b.token

/-- an entry of `instanceQueue` together with `tokensQueues[id]`. `key() = instanceID`. -/
structure Inst where
  id : Nat
  own : Int
  tq : Heap TokItem
  deriving DecidableEq, Repr

def instHi (a b : Inst) : Bool := less a.own a.id b.own b.id

/-! ## `SpreadMinimizingTokenGenerator` -/

/-- `generateFirstInstanceTokens`: `uint32(i*tokenDistance) + uint32(zoneID)`. -/
def firstInstanceTokens (zone : Nat) : List Nat :=
  let tokenDist := (totalTokensCount / optimalTokensPerInstance / maxZonesCount) * maxZonesCount
  (List.range optimalTokensPerInstance).map (fun i => (i * tokenDist + zone) % 4294967296)

/-- `calculateNewToken` in `uint32` arithmetic. -/
def calcNewToken (t : TokItem) (opt : Nat) : Except Err Nat :=
  if opt < maxZonesCount ∨ opt % maxZonesCount ≠ 0 then .error .cannotCalc
  else if t.prev % maxZonesCount ≠ t.token % maxZonesCount then .error .cannotCalc
  else if t.own ≤ opt then .error .cannotCalc
  else
    let maxTokenValue := ((totalTokensCount / maxZonesCount) - 1) * maxZonesCount
    let offset := (maxTokenValue + 4294967296 - t.prev) % 4294967296     -- uint32 subtraction
    if offset < opt then .ok (opt - offset)
    else .ok ((t.prev + opt) % 4294967296)

/-- `optimalTokenOwnership(2^32/(i+1), curr, remaining)`; see the header for the float argument. -/
def optimalTokenOwnership (i : Nat) (curr : Int) (remaining : Nat) : Except Err Nat :=
  let optInst : Nat := totalTokensCount / (i + 1)
  if 2097152 ≤ i + 1 then .error .outOfDomain
  else if curr < 0 ∨ (optInst : Int) < curr then .error .outOfDomain
  else if 4294967296 ≤ optInst - curr.toNat then .error .outOfDomain      -- does not fit uint32 (i = 0 only)
  else .ok (((optInst - curr.toNat) / remaining) / maxZonesCount * maxZonesCount)

/-- the items pushed for the first instance: `(token, firstInstanceTokens[prev])`, `prev` starting at
the last index. -/
def withPrevFrom : Nat → List Nat → List TokItem
  | _, [] => []
  | p, t :: r => ⟨t, p⟩ :: withPrevFrom t r

def withPrev (l : List Nat) : List TokItem :=
  match l.getLast? with
  | none => []
  | some last => withPrevFrom last l

/-- loop state while the 512 tokens of one instance are placed. -/
structure Loop where
  instQ : Heap Inst          -- instanceQueue (without the ignored instances)
  ignored : List Inst        -- ignoredInstances, most recent first
  curr : Int                 -- currInstanceOwnership
  currTq : Heap TokItem      -- currInstanceTokenQueue
  degenerate : Bool          -- ghost
  deriving Repr

/-- the part of the inner loop that `continue`s: look at the instance with the highest ownership;
ignore it (`heap.Pop`) if its largest token range cannot host `opt`. `opt` is the same on every such
iteration (neither `currInstanceOwnership` nor `addedTokens` changes). The first argument bounds the
recursion (each iteration pops one instance, so the queue size + 1 suffices; `Err.fuel` is
unreachable). Returns the donor `x`, its largest range `t` with the subtrees of the token queue's
root, the instance queue without `x`, and the ignored instances. -/
def pick (opt : Nat) : Nat → Heap Inst → List Inst →
    Except Err (Inst × TokItem × Heap TokItem × Heap TokItem × Heap Inst × List Inst)
  | 0, _, _ => .error .fuel
  | _ + 1, .nil, _ => .error .cannotAdd                          -- Peek() == nil
  | f + 1, .node _ l x r, ign =>
    if x.own ≤ (opt : Int) then .error .cannotAdd
    else match x.tq with
      | .nil => .error .panic                                     -- nil dereference (never: 512 items)
      | .node _ tl t tr =>
        if t.own ≤ opt then pick opt f (Heap.merge instHi l r) (x :: ign)   -- heap.Pop + append to ignoredInstances
        else .ok (x, t, tl, tr, Heap.merge instHi l r, ign)

/-- the body of the inner loop once the donor instance `x` (top of `instanceQueue`, the rest of the
queue is `rest`) and its largest range `t` (root of its token queue, subtrees `tl`, `tr`) are known
and `calculateNewToken` returned `newToken`. -/
def splitStep (st : Loop) (x : Inst) (t : TokItem) (tl tr : Heap TokItem) (rest : Heap Inst)
    (ign : List Inst) (newToken : Nat) : Loop :=
  let oldOwn : Int := t.own
  let newOwn : Int := tokenDistance newToken t.token
  let t' : TokItem := ⟨t.token, newToken⟩                         -- item.prevToken = newToken; heap.Fix
  let x' : Inst := ⟨x.id, x.own - oldOwn + newOwn, Heap.push tokHi t' (Heap.merge tokHi tl tr)⟩
  { instQ := Heap.push instHi x' rest                             -- heap.Fix(&instanceQueue, 0)
    ignored := ign
    curr := st.curr + (oldOwn - newOwn)
    currTq := Heap.push tokHi ⟨newToken, t.prev⟩ st.currTq
    degenerate := st.degenerate || newToken == t.token }

/-- `for addedTokens < optimalTokensPerInstance { ... }` for instance `i`, `remaining` tokens to go.
Returns the tokens in generation order and the final loop state. -/
def addTokens (i : Nat) : Nat → Loop → Except Err (List Nat × Loop)
  | 0, st => .ok ([], st)
  | r + 1, st => do
    let opt ← optimalTokenOwnership i st.curr (r + 1)
    let (x, t, tl, tr, rest, ign) ← pick opt (i + 1) st.instQ st.ignored
    let newToken ← calcNewToken t opt
    let (toks, fin) ← addTokens i r (splitStep st x t tl tr rest ign newToken)
    .ok (newToken :: toks, fin)

/-- state between two iterations of the outer loop. `toks[k]` = `tokensByInstanceID[k]`. -/
structure State where
  instQ : Heap Inst
  toks : List (List Nat)
  degenerate : Bool
  deriving Repr

/-- the state before the outer loop: the first instance's tokens, its token queue (one `heap.Push`
per token) and the instance queue holding instance 0 with `firstInstanceOwnership`. -/
def initStateOf (first : List Nat) : State :=
  let items := withPrev first
  let tq := items.foldl (fun q it => Heap.push tokHi it q) .nil
  let own : Int := (items.map (fun it => (it.own : Int))).foldl (· + ·) 0
  { instQ := Heap.push instHi ⟨0, own, tq⟩ .nil, toks := [first], degenerate := false }

def initState (zone : Nat) : State := initStateOf (firstInstanceTokens zone)

/-- one iteration `i` of the outer loop, including the pushes after it (Go skips them after the
last instance; nothing observes the difference). -/
def addInstance (i : Nat) (s : State) : Except Err State := do
  let (toks, fin) ← addTokens i optimalTokensPerInstance ⟨s.instQ, [], 0, .nil, s.degenerate⟩
  let q := fin.ignored.foldr (fun x q => Heap.push instHi x q) fin.instQ
  .ok { instQ := Heap.push instHi ⟨i, fin.curr, fin.currTq⟩ q, toks := s.toks ++ [toks], degenerate := fin.degenerate }

/-- the generator state after instance `n` was placed (`generateTokensByInstanceID` for
`instanceID = n`). -/
def genUpTo (zone : Nat) : Nat → Except Err State
  | 0 => .ok (initState zone)
  | i + 1 => do
    let s ← genUpTo zone i
    addInstance (i + 1) s

/-- `generateTokensByInstanceID`: element `k` = tokens of instance `k` in generation order. -/
def tokensByInstanceID (n zone : Nat) : Except Err (List (List Nat)) :=
  (genUpTo zone n).map (·.toks)

/-- `generateAllTokens`. -/
def generateAllTokens (n zone : Nat) : Except Err (List Nat) :=
  (tokensByInstanceID n zone).map (fun m => sortTokens (m.getD n []))

/-- the selection loop of `GenerateTokens`: first `k` tokens of `all` that are not taken. -/
def pickFree (taken : List Nat) : Nat → List Nat → List Nat
  | 0, _ => []
  | _ + 1, [] => []
  | k + 1, t :: r => if taken.contains t then pickFree taken (k + 1) r else t :: pickFree taken k r

/-- `SpreadMinimizingTokenGenerator.GenerateTokens`. A generation error is a Go `panic`, and so is a
negative `requestedTokensCount` (`make(Tokens, 0, requestedTokensCount)`). -/
def generateTokens (n zone : Nat) (requested : Int) (taken : List Nat) : Except Err (List Nat) :=
  match generateAllTokens n zone with
  | .error _ => .error .panic
  | .ok all => if requested < 0 then .error .panic else .ok (pickFree taken requested.toNat all)

/-- `AddPartition(id, …).Tokens`. -/
def partitionTokens (id : Nat) : Except Err (List Nat) :=
  generateTokens id 0 optimalTokensPerInstance []

end C16
