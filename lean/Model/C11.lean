import Model.Common
/-!
# C11 — executable model of the quorum-read executors of `ring/replication_set.go`

`DoUntilQuorumWithoutSuccessfulContextCancellation` (and its wrapper `DoUntilQuorum`) is a
*sequential* main loop that owns the result tracker, the context tracker and `resultsMap`, fed by
one goroutine per instance through the buffered channel `resultsChan`, and followed by a deferred
drain goroutine. The model is the labelled transition system of exactly those parts:

* per instance `i` (index into `r.Instances`): the state of its release channel (`Rel`), of its
  context (`ctx i = true` ⇔ cancelled) and of its goroutine (`Phase`);
* `chan` : the FIFO contents of `resultsChan`;
* the tracker counters (`nSucc`/`nErr` — `defaultResultTracker`; `waiting`/`fails` per zone —
  `zoneAwareResultTracker`), `pending` (`pendingInstances` resp. `pendingZones`), `resMap`
  (`resultsMap`), and where the main function is (`Main`);
* two output logs: `started` (calls of `f`) and `cleaned` (calls of `cleanupFunc`), and ghost
  history used only in theorem statements: `fin` (callbacks that returned, with their result),
  `doneErr` (failures passed to `tracker.done`), `released`, `nTicks`, `nFailRel`.

The terminal-error predicate: Go evaluates `cfg.IsTerminalError(result.err)` for EVERY non-nil error the
main loop receives — the error a callback returned, and also the error posted by a goroutine whose
`awaitStart` failed (the cancellation cause of its context). What a user-supplied predicate answers is
a parameter: for a callback error it is part of the result (`Res.term`), for an `awaitStart` error it
is the Boolean carried by the event `abort i t` and remembered in `abT i`.

Quirks kept as they are: an `awaitStart` error (`aborted`) received while the loop still runs is
counted by the tracker as a failure of that instance; `cancelContextFor` of the zone-aware context
tracker cancels the whole zone; when the success criterion holds before the loop starts (tolerance ≥
everything) the function returns the empty list at once, even with a cancelled caller context.

Events (`Ev`): the environment lets a running callback return (`finish`), ends the caller's context
(`cancel`) or lets a callback call the cancel function it was given (`cancelOne`); the hedging ticker fires (`tick`); the main loop receives a result (`recv`) or sees its
context done (`ctxDone`); an instance goroutine leaves `awaitStart` to call `f` (`begin`) or to give
up (`abort`); the drain goroutine receives a late result (`drain`). Whenever Go's `select` may pick
either of two ready cases, both events are enabled. `rand.Perm` / the zone sorter is the parameter
`order` of `init`.

Numbers: `minSucceeded = n - maxErrors` may be negative in Go; `succeeded` is therefore written
`nSucc + maxErrors ≥ n` (same for zones, where Go clamps at 0).
-/
namespace C11

/-- result of one instance as seen on `resultsChan`: `term` is an error for which
`cfg.IsTerminalError` answers true (if the predicate is set); `aborted` is the error posted by a
goroutine whose `awaitStart` failed (`f` was never called). -/
inductive Res | ok | err | term | aborted
  deriving DecidableEq, Repr

/-- release channel of an instance (`instanceRelease[i]` / `zoneRelease[zone]` + `zoneShouldStart`). -/
inductive Rel | held | go | abort
  deriving DecidableEq, Repr

inductive Phase | waiting | running | posted | consumed
  deriving DecidableEq, Repr

inductive ErrKind | inst (i : Nat) | cancelled | invalid
  deriving DecidableEq, Repr

inductive Main | running | retOk (rs : List Nat) | retErr (e : ErrKind)
  deriving DecidableEq, Repr

structure Cfg where
  zones : List Nat        -- zone of instance i (instances are 0 .. n-1)
  maxErrors : Nat
  maxUnavail : Nat
  zoneAware : Bool        -- ZoneAwarenessEnabled
  minimize : Bool         -- cfg.MinimizeRequests
  hedging : Bool          -- cfg.HedgingDelay > 0
  hasTerm : Bool          -- cfg.IsTerminalError != nil
  cancelAll : Bool        -- DoUntilQuorum (true: every context is cancelled on return) vs …WithoutSuccessfulContextCancellation
  deriving Repr

namespace Cfg
def n (c : Cfg) : Nat := c.zones.length
def zoneMode (c : Cfg) : Bool := decide (c.maxUnavail > 0) || c.zoneAware
def zoneOf (c : Cfg) (i : Nat) : Nat := c.zones.getD i 0
def invalid (c : Cfg) : Bool := c.zoneAware && decide (c.maxErrors > 0)
end Cfg

/-- the distinct elements of a list (keys of `waitingByZone`). -/
def distinct : List Nat → List Nat
  | [] => []
  | z :: zs => if z ∈ distinct zs then distinct zs else z :: distinct zs

def Cfg.zoneList (c : Cfg) : List Nat := distinct c.zones

def upd {α} (f : Nat → α) (i : Nat) (v : α) : Nat → α := fun j => if j = i then v else f j

structure St where
  rel : Nat → Rel
  ctx : Nat → Bool
  phase : Nat → Phase
  chan : List (Nat × Res)
  nSucc : Nat
  nErr : Nat
  waiting : Nat → Nat
  fails : Nat → Nat
  pending : List Nat
  resMap : List Nat
  main : Main
  parentCanc : Bool
  started : List Nat        -- log: calls of f, in order
  cleaned : List Nat        -- log: calls of cleanupFunc, in order
  doneErr : List Nat        -- ghost: instances whose error result the main loop passed to tracker.done
  released : List Nat       -- ghost: units (instances / zones) released with "start", in order
  abT : Nat → Bool          -- what `cfg.IsTerminalError` answers for the `awaitStart` error instance i posted
  fin : List (Nat × Res)    -- ghost: log of the callbacks that returned, with their result
  nTicks : Nat              -- ghost: hedging ticks handled by the main loop
  nFailRel : Nat            -- ghost: calls of startAdditionalRequestsDueTo("failure …") by tracker.done

/-! ### result tracker -/

def succeeded (c : Cfg) (s : St) : Bool :=
  if c.zoneMode then
    decide ((c.zoneList.filter fun z => s.waiting z == 0 && s.fails z == 0).length + c.maxUnavail ≥ c.zoneList.length)
  else decide (s.nSucc + c.maxErrors ≥ c.n)

def failed (c : Cfg) (s : St) : Bool :=
  if c.zoneMode then decide ((c.zoneList.filter fun z => decide (s.fails z > 0)).length > c.maxUnavail)
  else decide (s.nErr > c.maxErrors)

/-- `releaseZone(zone, v)` / sending resp. closing `instanceRelease[i]`. -/
def setRel (c : Cfg) (rel : Nat → Rel) (unit : Nat) (v : Rel) : Nat → Rel :=
  if c.zoneMode then fun j => if c.zoneOf j = unit then v else rel j else upd rel unit v

/-- `onSucceeded`: the requests still waiting to be released are told to abort. -/
def onSucceeded (c : Cfg) (s : St) : St :=
  { s with rel := s.pending.foldl (fun r u => setRel c r u .abort) s.rel, pending := [] }

/-- `startAdditionalRequestsDueTo`. -/
def releaseNext (c : Cfg) (s : St) : St :=
  match s.pending with
  | [] => s
  | u :: us => { s with rel := setRel c s.rel u .go, pending := us, released := s.released ++ [u] }

/-- `resultTracker.done(instance, err)`. -/
def trackerDone (c : Cfg) (s : St) (i : Nat) (isErr : Bool) : St :=
  if c.zoneMode then
    let z := c.zoneOf i
    let s1 := { s with waiting := upd s.waiting z (s.waiting z - 1) }
    if isErr then
      let s2 := { s1 with fails := upd s1.fails z (s1.fails z + 1) }
      if s2.fails z = 1 then releaseNext c { s2 with nFailRel := s2.nFailRel + 1 } else s2
    else if succeeded c s1 then onSucceeded c s1 else s1
  else if isErr then releaseNext c { s with nErr := s.nErr + 1, nFailRel := s.nFailRel + 1 }
  else
    let s1 := { s with nSucc := s.nSucc + 1 }
    if succeeded c s1 then onSucceeded c s1 else s1

def includes (c : Cfg) (s : St) (i : Nat) : Bool :=
  if c.zoneMode then s.fails (c.zoneOf i) == 0 && s.waiting (c.zoneOf i) == 0 else true

/-! ### context tracker -/

def cancelFor (c : Cfg) (ctx : Nat → Bool) (i : Nat) : Nat → Bool :=
  if c.zoneMode then fun j => ctx j || decide (c.zoneOf j = c.zoneOf i) else upd ctx i true

/-! ### exits of the main function -/

def kept (c : Cfg) (s : St) (i : Nat) : Bool := decide (i ∈ s.resMap) && includes c s i

/-- the code after the loop: collect the results to return in instance order, cancel and clean up the rest. -/
def finishOk (c : Cfg) (s : St) : St :=
  let insts := List.range c.n
  let ctx1 := insts.foldl (fun cx i => if kept c s i then cx else cancelFor c cx i) s.ctx
  { s with
    ctx := if c.cancelAll then fun _ => true else ctx1
    cleaned := s.cleaned ++ insts.filter (fun i => decide (i ∈ s.resMap) && !includes c s i)
    main := .retOk (insts.filter (kept c s)) }

/-- `terminate(err, cause)`. -/
def terminate (_c : Cfg) (s : St) (e : ErrKind) : St :=
  { s with ctx := fun _ => true, cleaned := s.cleaned ++ s.resMap, main := .retErr e }

/-- head of `for !resultTracker.succeeded()`. -/
def loopHead (c : Cfg) (s : St) : St := if succeeded c s then finishOk c s else s

/-! ### start -/

def base (c : Cfg) (pre : Bool) : St :=
  { rel := fun _ => .held, ctx := fun _ => pre, phase := fun _ => .waiting, chan := [], nSucc := 0, nErr := 0
    waiting := fun z => c.zones.count z, fails := fun _ => 0, pending := [], resMap := [], main := .running
    parentCanc := pre, started := [], cleaned := [], doneErr := [], released := [], abT := fun _ => false, fin := [], nTicks := 0
    nFailRel := 0 }

/-- the units (instances / zones) released at once by `startMinimumRequests`, given the order. -/
def startNow (c : Cfg) (order : List Nat) : List Nat :=
  if c.zoneMode then order.take (c.zoneList.length - c.maxUnavail) else order.drop c.maxErrors

/-- … and those kept back (`pendingInstances` / `pendingZones`). -/
def startLater (c : Cfg) (order : List Nat) : List Nat :=
  if c.zoneMode then order.drop (c.zoneList.length - c.maxUnavail) else order.take c.maxErrors

/-- `startMinimumRequests` (`order` = `rand.Perm` of the instances, resp. the sorted zones) or `startAllRequests`. -/
def startRequests (c : Cfg) (order : List Nat) (s : St) : St :=
  if c.minimize then
    let s1 := { s with rel := (startNow c order).foldl (fun r u => setRel c r u .go) s.rel, pending := startLater c order
                       released := startNow c order }
    if succeeded c s1 then onSucceeded c s1 else s1
  else { s with rel := fun _ => .go, released := if c.zoneMode then c.zoneList else List.range c.n }

/-- state when the main loop is first reached (`pre`: the caller's context was already done). -/
def init (c : Cfg) (order : List Nat) (pre : Bool) : St :=
  if c.invalid then { base c pre with main := .retErr .invalid, phase := fun _ => .consumed }
  else loopHead c (startRequests c order (base c pre))

/-! ### events -/

inductive Ev
  | finish (i : Nat) (r : Res)
  | cancel
  | tick
  | recv
  | ctxDone
  | begin (i : Nat)
  | abort (i : Nat) (t : Bool)   -- `awaitStart` failed; `t`: the terminal-error predicate holds for the error it posts
  | drain
  | cancelOne (i : Nat)   -- the callback of instance i calls the cancel function it was given
  deriving DecidableEq, Repr

def errKind (i : Nat) (r : Res) : ErrKind := if r = .aborted then .cancelled else .inst i

/-- a successful result: remember it, then back to the loop head. -/
def recvOk (c : Cfg) (s1 : St) (i : Nat) : St := loopHead c { s1 with resMap := s1.resMap ++ [i] }

/-- a failed result: cancel its context (zone), give up if the tolerance is exceeded. -/
def recvErr (c : Cfg) (s1 : St) (i : Nat) (r : Res) : St :=
  let s2 := { s1 with ctx := cancelFor c s1.ctx i, doneErr := s1.doneErr ++ [i] }
  if failed c s2 then terminate c s2 (errKind i r) else loopHead c s2

/-- `cfg.IsTerminalError != nil && cfg.IsTerminalError(result.err)` for a non-nil `result.err`: the error
of a callback (`term`) or the error posted after a failed `awaitStart` (`aborted`, answer `abT i`). -/
def isTerminal (c : Cfg) (s : St) (i : Nat) (r : Res) : Bool :=
  c.hasTerm && (decide (r = .term) || (decide (r = .aborted) && s.abT i))

/-- the body of `case result := <-resultsChan`. -/
def recvStep (c : Cfg) (s : St) (i : Nat) (r : Res) (rest : List (Nat × Res)) : St :=
  let s0 := { s with chan := rest, phase := upd s.phase i .consumed }
  if isTerminal c s i r then terminate c s0 (errKind i r)
  else if r = .ok then recvOk c (trackerDone c s0 i false) i
  else recvErr c (trackerDone c s0 i true) i r

def step (c : Cfg) (s : St) : Ev → Option St
  | .finish i r =>
    if i < c.n ∧ s.phase i = .running ∧ r ≠ .aborted then
      some { s with phase := upd s.phase i .posted, chan := s.chan ++ [(i, r)], fin := s.fin ++ [(i, r)] }
    else none
  | .cancel => some { s with parentCanc := true, ctx := fun _ => true }
  | .tick => if s.main = .running ∧ c.hedging then some (releaseNext c { s with nTicks := s.nTicks + 1 }) else none
  | .recv =>
    if s.main = .running then
      match s.chan with
      | [] => none
      | (i, r) :: rest => some (recvStep c s i r rest)
    else none
  | .ctxDone =>
    if s.main = .running ∧ s.parentCanc then
      some { s with cleaned := s.cleaned ++ s.resMap, main := .retErr .cancelled }
    else none
  | .begin i =>
    if i < c.n ∧ s.phase i = .waiting ∧ s.rel i = .go then
      some { s with phase := upd s.phase i .running, started := s.started ++ [i] }
    else none
  | .abort i t =>
    if i < c.n ∧ s.phase i = .waiting ∧ (s.rel i = .abort ∨ s.ctx i = true) then
      -- (a goroutine leaves `awaitStart` once, so `abT i` is written once; `||` keeps the flag monotone by construction)
      some { s with phase := upd s.phase i .posted, chan := s.chan ++ [(i, .aborted)], abT := upd s.abT i (s.abT i || t) }
    else none
  | .drain =>
    if s.main ≠ .running then
      match s.chan with
      | [] => none
      | (i, r) :: rest =>
        some { s with chan := rest, phase := upd s.phase i .consumed
                      cleaned := if r = .ok then s.cleaned ++ [i] else s.cleaned }
    else none
  | .cancelOne i => some { s with ctx := upd s.ctx i true }

/-- run a list of events; `none` if one of them is not enabled. -/
def run (c : Cfg) (s : St) : List Ev → Option St
  | [] => some s
  | e :: es => (step c s e).bind fun s' => run c s' es

/-- no event other than the environment's (`finish`, `cancel`) or the timer's (`tick`) is enabled. -/
def quiescent (c : Cfg) (s : St) : Bool :=
  (s.chan.isEmpty) && !(s.main = .running && s.parentCanc) &&
  (List.range c.n).all fun i => !(s.phase i = .waiting && (s.rel i != .held || s.ctx i))

/-- everything is over: the function returned, every goroutine posted and the drain goroutine consumed it. -/
def final (c : Cfg) (s : St) : Bool :=
  s.main != .running && s.chan.isEmpty && (List.range c.n).all fun i => s.phase i = .consumed

def results (s : St) : List Nat := match s.main with | .retOk rs => rs | _ => []

/-! ## The multi-set variant (`doMultiUntilQuorumWithoutSuccessfulContextCancellation`)

One worker per replication set runs the machine above on the shared `workersCtx`; instances are
numbered globally (`offset k + i`). `inflight` is `inflightInstanceTracker`. The environment rules of
the scenario: a callback that fails calls its cancel function before returning, the cleanup callback
calls the cancel function of the result it receives, a callback may call it just
before returning a result (`finishDone`) or later (`done`).

Code modelled: the tree with the fix "DoMultiUntilQuorum drops the results of successful sets without
cleanup when another set fails": before returning the first error, `cleanupFunc` is called for every
result accumulated from the sets that reached quorum (`mcleaned`). -/

structure MSt where
  sets : Nat → St                    -- state of worker / set k (k < number of sets)
  inflight : List (Nat × Nat)
  expectMore : Bool
  workersCanc : Bool
  retErr : Option (Nat × ErrKind)   -- first error: (set, error)
  results : List (Nat × Nat)
  joined : List Nat                  -- sets whose worker has finished (handled its result)
  ret : Option (Except (Nat × ErrKind) (List (Nat × Nat)))
  mcleaned : List (Nat × Nat)        -- log: calls of cleanupFunc made by the multi-set function itself

inductive MEv
  | set (k : Nat) (e : Ev)               -- an event of worker / set k (not `cancel`)
  | finishDone (k i : Nat) (r : Res)     -- callback calls its cancel function, then returns r
  | done (k i : Nat)                     -- callback (k,i) calls its cancel function
  | cancel                               -- caller's context ends
  | join (k : Nat)                       -- worker k handles the result of its DoUntilQuorum call
  | ret                                  -- `workersGroup.Wait()` returns
  deriving DecidableEq, Repr

/-- `cancelWorkersCtx(…)`: every set sees its parent context done. -/
def cancelWorkers (m : MSt) : MSt :=
  { m with workersCanc := true, sets := fun k => { m.sets k with parentCanc := true, ctx := fun _ => true } }

def cancelIfSafe (m : MSt) : MSt :=
  if !m.expectMore && m.inflight.isEmpty then cancelWorkers m else m

/-- the wrapped cancel function of callback (k,i). -/
def callCancel (m : MSt) (k i : Nat) : MSt :=
  cancelIfSafe { m with sets := upd m.sets k { m.sets k with ctx := upd (m.sets k).ctx i true }
                        inflight := m.inflight.filter (· != (k, i)) }

def Cfg.empty : Cfg :=
  { zones := [], maxErrors := 0, maxUnavail := 0, zoneAware := false, minimize := false, hedging := false, hasTerm := false, cancelAll := false }

def minit (cs : List Cfg) (orders : List (List Nat)) (pre : Bool) : MSt :=
  { sets := fun k => init (cs.getD k Cfg.empty) (orders.getD k []) pre
    inflight := [], expectMore := true, workersCanc := pre, retErr := none, results := [], joined := [], ret := none
    mcleaned := [] }

/-- `wrappedFn`: a started callback is tracked by the inflight tracker. -/
def trackBegin (m : MSt) (k : Nat) : Ev → MSt
  | .begin i => if (k, i) ∈ m.inflight then m else { m with inflight := m.inflight ++ [(k, i)] }
  | _ => m

/-- events a worker's set never sees directly in the multi-set variant. -/
def rawCancel : Ev → Bool
  | .cancel => true
  | .cancelOne _ => true
  | _ => false

def mstep (cs : List Cfg) (m : MSt) : MEv → Option MSt
  | .set k e =>
    match cs[k]? with
    | some c =>
      -- the caller's cancellation is `MEv.cancel`; callbacks only ever get the WRAPPED cancel function
      -- (`finishDone` / `done`), never the raw one
      if rawCancel e then none else
      match step c (m.sets k) e with
      | none => none
      | some s' =>
        let m2 := trackBegin { m with sets := upd m.sets k s' } k e
        -- the cleanup callback calls the cancel function of every result it is given
        let newly := s'.cleaned.drop (m.sets k).cleaned.length
        some (newly.foldl (fun mm i => callCancel mm k i) m2)
    | none => none
  | .finishDone k i r =>
    match cs[k]? with
    | some c =>
      if i < c.n ∧ (m.sets k).phase i = .running ∧ r ≠ .aborted then
        let m1 := callCancel m k i
        let s1 := m1.sets k
        some { m1 with sets := upd m1.sets k { s1 with phase := upd s1.phase i .posted, chan := s1.chan ++ [(i, r)], fin := s1.fin ++ [(i, r)] } }
      else none
    | none => none
  | .done k i =>
    match cs[k]? with
    | some c => if i < c.n ∧ i ∈ (m.sets k).started then some (callCancel m k i) else none
    | none => none
  | .cancel => some (cancelWorkers m)
  | .join k =>
    if k < cs.length ∧ k ∉ m.joined then
      match (m.sets k).main with
      | .running => none
      | .retOk rs => some { m with joined := m.joined ++ [k], results := m.results ++ rs.map fun i => (k, i) }
      | .retErr e =>
        match m.retErr with
        | some _ => some { m with joined := m.joined ++ [k] }
        | none => some (cancelWorkers { m with joined := m.joined ++ [k], retErr := some (k, e) })
    else none
  | .ret =>
    if m.ret.isNone ∧ (List.range cs.length).all (· ∈ m.joined) then
      match m.retErr with
      | some e =>
        -- the results of the sets that did reach quorum are not returned: they are cleaned up
        -- (the cleanup callback calls the cancel function of each, as everywhere in this scenario)
        some (m.results.foldl (fun mm ki => callCancel mm ki.1 ki.2) { m with ret := some (.error e), mcleaned := m.results })
      | none =>
        let m1 := cancelIfSafe { m with expectMore := false }
        some { m1 with ret := some (.ok m1.results) }
    else none

/-- what the multi-set call handed to its caller (nothing after an error). -/
def mreturned (m : MSt) : List (Nat × Nat) := match m.ret with | some (.ok rs) => rs | _ => []

def mrun (cs : List Cfg) (m : MSt) : List MEv → Option MSt
  | [] => some m
  | e :: es => (mstep cs m e).bind fun m' => mrun cs m' es

/-! ## The legacy executor `ReplicationSet.Do`

All goroutines share one context; the last `maxErrors` instances (by index) are *delayed* when
`delay > 0` and the set is not zone-aware (`MaxUnavailableZones = 0`): they start on a `forceStart`
token (one per tolerated failure), when their timer fires, or never (context done). There is no
cleanup callback and no filtering of the results by zone. -/

structure DCfg where
  zones : List Nat
  maxErrors : Nat
  maxUnavail : Nat
  delay : Bool
  deriving Repr

def DCfg.toCfg (d : DCfg) : Cfg :=
  { zones := d.zones, maxErrors := d.maxErrors, maxUnavail := d.maxUnavail, zoneAware := false, minimize := false
    hedging := false, hasTerm := false, cancelAll := true }

def DCfg.delayed (d : DCfg) (i : Nat) : Bool :=
  d.delay && d.maxUnavail == 0 && decide (i + d.maxErrors ≥ d.zones.length)

structure DSt where
  phase : Nat → Phase          -- waiting = delayed, not started; consumed = received by the loop or given up
  chan : List (Nat × Res)
  tr : St                      -- tracker counters only (nSucc, nErr, waiting, fails)
  tokens : Nat                 -- contents of forceStart
  results : List Nat           -- arrival order
  main : Main
  ctxCanc : Bool
  started : List Nat
  fin : List (Nat × Res)       -- ghost: callbacks that returned
  forced : Nat                 -- ghost: delayed requests started by a forceStart token
  timed : Nat                  -- ghost: delayed requests started by their timer
  nerr : Nat                   -- ghost: error results received by the loop

inductive DEv
  | finish (i : Nat) (r : Res)
  | cancel
  | recv
  | ctxDone
  | force (i : Nat)      -- delayed goroutine i takes a forceStart token
  | timer (i : Nat)      -- delayed goroutine i's timer fires
  | giveUp (i : Nat)     -- delayed goroutine i sees the context done
  deriving DecidableEq, Repr

def dinit (d : DCfg) (pre : Bool) : DSt :=
  let n := d.zones.length
  let tr := base d.toCfg pre
  let now := (List.range n).filter fun i => !d.delayed i
  { phase := fun i => if d.delayed i then .waiting else .running, chan := [], tr := tr, tokens := 0, results := []
    main := if succeeded d.toCfg tr then .retOk [] else .running
    ctxCanc := pre || succeeded d.toCfg tr, started := now, fin := [], forced := 0, timed := 0, nerr := 0 }

/-- the loop body after `tracker.done`: `results`/`forceStart` bookkeeping and the two exits. -/
def drecv (d : DCfg) (s1 : DSt) (i : Nat) (r : Res) : DSt :=
  let c := d.toCfg
  if r != .ok then
    if failed c s1.tr then { s1 with main := .retErr (.inst i), ctxCanc := true, nerr := s1.nerr + 1 }
    else
      let s2 := if d.delay && d.maxUnavail == 0 then { s1 with tokens := s1.tokens + 1, nerr := s1.nerr + 1 } else { s1 with nerr := s1.nerr + 1 }
      if succeeded c s1.tr then { s2 with main := .retOk s2.results, ctxCanc := true } else s2
  else
    let s2 := { s1 with results := s1.results ++ [i] }
    if succeeded c s1.tr then { s2 with main := .retOk s2.results, ctxCanc := true } else s2

def dstep (d : DCfg) (s : DSt) : DEv → Option DSt
  | .finish i r =>
    if i < d.zones.length ∧ s.phase i = .running ∧ r ≠ .aborted then
      some { s with phase := upd s.phase i .posted, chan := s.chan ++ [(i, r)], fin := s.fin ++ [(i, r)] }
    else none
  | .cancel => some { s with ctxCanc := true }
  | .recv =>
    if s.main = .running then
      match s.chan with
      | [] => none
      | (i, r) :: rest =>
        some (drecv d { s with chan := rest, phase := upd s.phase i .consumed, tr := trackerDone d.toCfg s.tr i (r != .ok) } i r)
    else none
  | .ctxDone =>
    if s.main = .running ∧ s.ctxCanc then some { s with main := .retErr .cancelled } else none
  | .force i =>
    if i < d.zones.length ∧ s.phase i = .waiting ∧ s.tokens > 0 then
      some { s with phase := upd s.phase i .running, tokens := s.tokens - 1, started := s.started ++ [i], forced := s.forced + 1 }
    else none
  | .timer i =>
    if i < d.zones.length ∧ s.phase i = .waiting then
      some { s with phase := upd s.phase i .running, started := s.started ++ [i], timed := s.timed + 1 }
    else none
  | .giveUp i =>
    if i < d.zones.length ∧ s.phase i = .waiting ∧ s.ctxCanc then some { s with phase := upd s.phase i .consumed } else none

def drun (d : DCfg) (s : DSt) : List DEv → Option DSt
  | [] => some s
  | e :: es => (dstep d s e).bind fun s' => drun d s' es

end C11
