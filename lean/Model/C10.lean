import Model.Common
/-!
# C10 — model of `ring/batch.go` (`DoBatchWithOptions`, `batchTracker.record`, `itemTracker`)

Two parts.

* **Sequential prefix** (`prepare`): the `InstancesCount` check, the loop over the keys (context
  check every 10 000 keys, `Get`, per-key tracker initialisation, grouping of the keys by replica
  address into `instances`), the last context check. `Get` itself is *not* modelled here (that is
  C01/C02): its results are inputs (`GetRes`).
* **Concurrent part**: a labelled transition system whose internal events are the atomic actions of
  the real code, one per step: every `atomic` operation of `record`/`recordError`, every channel
  send, `wg.Done`, the cleanup goroutine (`wg.Wait(); Cleanup()`), the end of the caller's context
  and the three branches of the caller's `select`. Channels have capacity 1 (a send on a full
  channel is *not enabled*). A thread (`Thread`) is one goroutine `callback; record; wg.Done`.

Errors are identified by the replica (address) whose callback returned them; `it.err.Load()` of a
never-stored `atomic.Error` is `none` (Go: `nil`).
-/
namespace C10

/-- result class of one replica call: success, or an error that `IsClientError` classifies as
client (`true`) or server (`false`). -/
inductive Outcome | ok | client | server
  deriving DecidableEq, Repr, Inhabited, Hashable

/-- `itemTracker` (config fields and atomics). `err = some a`: last stored error is the one returned
by replica `a`. -/
structure Item where
  minSuccess : Int
  maxFailures : Int
  succeeded : Int := 0
  failedClient : Int := 0
  failedServer : Int := 0
  remaining : Int
  err : Option Nat := none
  deriving DecidableEq, Repr, Inhabited, Hashable

/-- program counter of a callback goroutine inside `record`, relative to the item at the head of
its `todo` list. One constructor per atomic action that is *about to* be executed. -/
inductive Stage
  | idle        -- spawned (`o.Go` called), callback not yet invoked
  | inCall      -- callback running
  | eStore      -- err ≠ nil: `it.err.Store(err)`
  | eInc        -- `failedClient.Inc()` / `failedServer.Inc()`; then `errCount > maxFailures`?
  | eDec        -- `it.remaining.Dec() == 0`?
  | eFailInc    -- `b.rpcsFailed.Inc() == 1`?
  | eSend       -- `b.err <- err`
  | sInc        -- err = nil: `it.succeeded.Inc()`; compare with `minSuccess`
  | sPend       -- `b.rpcsPending.Dec() == 0`?
  | sDone       -- `b.done <- struct{}{}`
  | sDec        -- `it.remaining.Dec() == 0`?
  | sFailInc    -- `b.rpcsFailed.Inc() == 1`?
  | sLoad       -- `it.err.Load()`
  | sSend (e : Option Nat)  -- `b.err <- <loaded value>`
  | wgDone      -- `wg.Done()`
  | fin
  deriving DecidableEq, Repr, Inhabited, Hashable

structure Thread where
  id : Nat            -- replica address
  out : Outcome       -- what its callback returns
  todo : List Nat     -- item indexes still to be recorded (head = current item)
  st : Stage := .idle
  deriving DecidableEq, Repr, Inhabited, Hashable

/-- what the caller's `select` returned -/
inductive Ret | done | err (e : Option Nat) | ctx
  deriving DecidableEq, Repr, Inhabited, Hashable

structure St where
  items : List Item
  thr : List Thread
  pending : Int            -- rpcsPending
  failed : Int := 0        -- rpcsFailed
  done : Nat := 0          -- number of values buffered in `tracker.done` (capacity 1)
  errc : Option (Option Nat) := none   -- value buffered in `tracker.err` (capacity 1)
  wg : Int                 -- wait group counter
  cleanup : Nat := 0       -- how many times `o.Cleanup()` ran
  ctx : Bool := false      -- caller's context ended
  ret : Option Ret := none -- the caller has returned with this value
  nDone : Nat := 0         -- ghost: sends on `done` so far
  nErr : Nat := 0          -- ghost: sends on `err` so far
  sentErr : Option (Option Nat) := none  -- ghost: the value of the (first) send on `err`
  deriving DecidableEq, Repr, Inhabited, Hashable

inductive Ev
  | start (k : Nat)   -- goroutine k invokes the callback
  | ret (k : Nat)     -- the callback of goroutine k returns (with `out`)
  | tick (k : Nat)    -- goroutine k executes its next atomic action of `record` / `wg.Done`
  | cleanup           -- cleanup goroutine: `wg.Wait()` passes and `o.Cleanup()` runs
  | cancel            -- the caller's context ends
  | recvDone | recvErr | recvCtx   -- the caller's `select` takes that branch and returns
  deriving DecidableEq, Repr, Inhabited

/-! ### `record`, one atomic action at a time -/

/-- after the current item is finished: go to the next one, or to `wg.Done()`. -/
def Thread.advance (t : Thread) : Thread :=
  match t.todo.tail with
  | [] => { t with todo := [], st := .wgDone }
  | r => { t with todo := r, st := if t.out = .ok then .sInc else .eStore }

/-- first action after the callback returned (the `for` loop of `record` may be empty). -/
def Thread.enter (t : Thread) : Thread :=
  match t.todo with
  | [] => { t with st := .wgDone }
  | _ => { t with st := if t.out = .ok then .sInc else .eStore }

/-- the item the thread is working on (head of `todo`); `none` if the index is out of range. -/
def curItem (s : St) (t : Thread) : Option (Nat × Item) :=
  match t.todo with
  | [] => none
  | i :: _ => match s.items[i]? with
    | some it => some (i, it)
    | none => none

/-- replace thread `k`. -/
def St.put (s : St) (k : Nat) (t' : Thread) : St := { s with thr := s.thr.set k t' }

/-- replace item `i` and thread `k`. -/
def St.putItem (s : St) (i : Nat) (it' : Item) (k : Nat) (t' : Thread) : St :=
  { s with items := s.items.set i it', thr := s.thr.set k t' }

/-- `tick`: the next atomic action of thread `t` (which is `s.thr[k]`); `none` = not enabled. -/
def tickThread (s : St) (k : Nat) (t : Thread) : Option St :=
  match t.st with
  | .idle | .inCall | .fin => none
  | .wgDone => some ({ s with wg := s.wg - 1 }.put k { t with st := .fin })
  | .eSend =>
    if s.errc.isSome then none else
    some ({ s with errc := some (some t.id), nErr := s.nErr + 1,
                   sentErr := if s.nErr = 0 then some (some t.id) else s.sentErr }.put k t.advance)
  | .sSend e =>
    if s.errc.isSome then none else
    some ({ s with errc := some e, nErr := s.nErr + 1,
                   sentErr := if s.nErr = 0 then some e else s.sentErr }.put k t.advance)
  | .sDone =>
    if s.done ≥ 1 then none else
    some ({ s with done := s.done + 1, nDone := s.nDone + 1 }.put k t.advance)
  | .eFailInc =>
    some ({ s with failed := s.failed + 1 }.put k (if s.failed + 1 = 1 then { t with st := .eSend } else t.advance))
  | .sFailInc =>
    some ({ s with failed := s.failed + 1 }.put k (if s.failed + 1 = 1 then { t with st := .sLoad } else t.advance))
  | .sPend =>
    some ({ s with pending := s.pending - 1 }.put k (if s.pending - 1 = 0 then { t with st := .sDone } else t.advance))
  | .eStore =>
    match curItem s t with
    | none => none
    | some (i, it) => some (s.putItem i { it with err := some t.id } k { t with st := .eInc })
  | .eInc =>
    match curItem s t with
    | none => none
    | some (i, it) =>
      if t.out = .client then
        some (s.putItem i { it with failedClient := it.failedClient + 1 } k
          (if it.failedClient + 1 > it.maxFailures then { t with st := .eFailInc } else { t with st := .eDec }))
      else
        some (s.putItem i { it with failedServer := it.failedServer + 1 } k
          (if it.failedServer + 1 > it.maxFailures then { t with st := .eFailInc } else { t with st := .eDec }))
  | .eDec =>
    match curItem s t with
    | none => none
    | some (i, it) =>
      some (s.putItem i { it with remaining := it.remaining - 1 } k
        (if it.remaining - 1 = 0 then { t with st := .eFailInc } else t.advance))
  | .sInc =>
    match curItem s t with
    | none => none
    | some (i, it) =>
      some (s.putItem i { it with succeeded := it.succeeded + 1 } k
        (if it.succeeded + 1 = it.minSuccess then { t with st := .sPend }
         else if it.succeeded + 1 < it.minSuccess then { t with st := .sDec }
         else t.advance))
  | .sDec =>
    match curItem s t with
    | none => none
    | some (i, it) =>
      some (s.putItem i { it with remaining := it.remaining - 1 } k
        (if it.remaining - 1 = 0 then { t with st := .sFailInc } else t.advance))
  | .sLoad =>
    match curItem s t with
    | none => none
    | some (_, it) => some (s.put k { t with st := .sSend it.err })

def step (s : St) : Ev → Option St
  | .start k =>
    match s.thr[k]? with
    | some t => if t.st = .idle then some { s with thr := s.thr.set k { t with st := .inCall } } else none
    | none => none
  | .ret k =>
    match s.thr[k]? with
    | some t => if t.st = .inCall then some { s with thr := s.thr.set k t.enter } else none
    | none => none
  | .tick k =>
    match s.thr[k]? with
    | some t => tickThread s k t
    | none => none
  | .cleanup => if s.wg = 0 ∧ s.cleanup = 0 then some { s with cleanup := 1 } else none
  | .cancel => some { s with ctx := true }
  | .recvDone =>
    if s.ret.isNone ∧ s.done ≥ 1 then some { s with done := s.done - 1, ret := some .done } else none
  | .recvErr =>
    match s.ret, s.errc with
    | none, some e => some { s with errc := none, ret := some (.err e) }
    | _, _ => none
  | .recvCtx => if s.ret.isNone ∧ s.ctx then some { s with ret := some .ctx } else none

/-- run a schedule; `none` if some event is not enabled. -/
def run (s : St) : List Ev → Option St
  | [] => some s
  | e :: es => match step s e with
    | some s' => run s' es
    | none => none

/-! ### the sequential prefix -/

/-- result of `r.Get(key, …)`: replica addresses and `MaxErrors`, or an error. -/
inductive GetRes
  | ok (addrs : List Nat) (maxErrors : Int)
  | err
  deriving DecidableEq, Repr, Inhabited

/-- `instances[addr] = {…, indexes: append(curr.indexes, i)}` on an association list in
first-insertion order (Go: a map; the spawn order is the map's iteration order = arbitrary). -/
def addIdx (m : List (Nat × List Nat)) (a i : Nat) : List (Nat × List Nat) :=
  match m with
  | [] => [(a, [i])]
  | (b, l) :: r => if a = b then (b, l ++ [i]) :: r else (b, l) :: addIdx r a i

def addKey (m : List (Nat × List Nat)) (addrs : List Nat) (i : Nat) : List (Nat × List Nat) :=
  addrs.foldl (fun m a => addIdx m a i) m

/-- grouping of key indexes `i₀, i₀+1, …` by replica address. -/
def groupFrom (m : List (Nat × List Nat)) (i : Nat) : List (List Nat) → List (Nat × List Nat)
  | [] => m
  | addrs :: rest => groupFrom (addKey m addrs i) (i + 1) rest

def group (sets : List (List Nat)) : List (Nat × List Nat) := groupFrom [] 0 sets

/-- why `DoBatchWithOptions` returned before spawning anything -/
inductive Early | noInstances | ctx | get | emptyOk
  deriving DecidableEq, Repr, Inhabited

/-- what an early return of the prefix looks like from outside. The two counters are written down at
every `return` site of the model exactly as the Go code does it there (`o.Cleanup(); return …`, no
callback), so that "cleanup exactly once, no call" on the early paths is a theorem about the prefix
function (all inputs, all sites) and the oracle's expected trace is derived from them. -/
structure EarlyRet where
  why : Early
  gets : Nat       -- `Get` calls made before returning
  cleanups : Nat   -- times `o.Cleanup()` ran before the `return`
  calls : Nat      -- callbacks invoked
  deriving DecidableEq, Repr, Inhabited

structure Prep where
  items : List Item
  calls : List (Nat × List Nat)
  gets : Nat            -- number of `Get` calls made
  deriving DecidableEq, Repr, Inhabited

def mkItem (addrs : List Nat) (maxErrors : Int) : Item :=
  { minSuccess := (addrs.length : Int) - maxErrors, maxFailures := maxErrors, remaining := addrs.length }

/-- has the context ended once `i` calls of `Get` have been made? -/
def cancelled (cancelAt : Option Nat) (i : Nat) : Bool :=
  match cancelAt with
  | some c => decide (c ≤ i)
  | none => false

/-- the key loop. `cancelAt = some c`: the context ends after `c` calls of `Get` have been made
(`some 0` = already ended on entry). Returns the early return or the trackers and replica sets. -/
def keyLoop (cancelAt : Option Nat) : Nat → List GetRes → List Item → List (List Nat) →
    Except EarlyRet (List Item × List (List Nat))
  | _, [], items, sets => .ok (items.reverse, sets.reverse)
  | i, g :: rest, items, sets =>
    if i % 10000 = 0 ∧ cancelled cancelAt i then
      -- `if err := context.Cause(ctx); err != nil { o.Cleanup(); return err }`
      .error { why := .ctx, gets := i, cleanups := 1, calls := 0 }
    else match g with
      | .err =>
        -- `if err != nil { o.Cleanup(); return err }`
        .error { why := .get, gets := i + 1, cleanups := 1, calls := 0 }
      | .ok addrs me => keyLoop cancelAt (i + 1) rest (mkItem addrs me :: items) (addrs :: sets)

/-- shared body of the sequential prefix. `emptyEarly`: does an empty key list return early
(`if len(keys) == 0 { o.Cleanup(); return nil }` after the last context check)? -/
def prepareWith (emptyEarly : Bool) (icount : Int) (cancelAt : Option Nat) (gets : List GetRes) :
    Except EarlyRet Prep :=
  if icount ≤ 0 then
    -- `o.Cleanup(); return fmt.Errorf("DoBatch: InstancesCount <= 0")`
    .error { why := .noInstances, gets := 0, cleanups := 1, calls := 0 }
  else
  match keyLoop cancelAt 0 gets [] [] with
  | .error e => .error e
  | .ok (items, sets) =>
    if cancelled cancelAt gets.length then
      -- last context check: `o.Cleanup(); return err`
      .error { why := .ctx, gets := gets.length, cleanups := 1, calls := 0 }
    else if emptyEarly ∧ gets = [] then
      -- `if len(keys) == 0 { o.Cleanup(); return nil }`
      .error { why := .emptyOk, gets := 0, cleanups := 1, calls := 0 }
    else .ok { items := items, calls := group sets, gets := gets.length }

/-- the sequential prefix of `DoBatchWithOptions` (the code as it is now, i.e. with the repair of D2:
an empty key list returns `nil` after `Cleanup()`), up to the point where the goroutines are spawned. -/
def prepare (icount : Int) (cancelAt : Option Nat) (gets : List GetRes) : Except EarlyRet Prep :=
  prepareWith true icount cancelAt gets

/-- HISTORY: the prefix before commit "fix: DoBatch with an empty key list never returns" — no early
return for an empty key list. Kept only for the witness theorem `empty_keys_hang`. -/
def preparePreFix (icount : Int) (cancelAt : Option Nat) (gets : List GetRes) : Except EarlyRet Prep :=
  prepareWith false icount cancelAt gets

def mkThreads (calls : List (Nat × List Nat)) (out : Nat → Outcome) : List Thread :=
  calls.map fun (a, idx) => { id := a, out := out a, todo := idx }

/-- state right after the spawn loop and `o.Go(cleanup goroutine)`, when the caller enters `select`. -/
def initSt (p : Prep) (out : Nat → Outcome) : St :=
  { items := p.items, thr := mkThreads p.calls out, pending := p.items.length, wg := p.calls.length }

end C10
