import Model.C03
import Model.C03P
/-!
# C06 / C04 — node-level model of the gossiping KV store (`kv/memberlist/memberlist_client.go`,
`kv/memberlist/broadcast.go`)

A node = store (`key ↦ value, version, deleted, updateTime`) + the two broadcast queues with the
invalidation rule + delayed key notifications + watcher cells. The replicated values are the C03
models (`C03.merge` for `ring.Desc`, `C03P.merge` for `ring.PartitionRingDesc`), reached through the
class `MergeVal` so that the node model is written once for any mergeable value.

Every `time.Now()` of the code is a parameter (`now` in seconds for tombstone stamps and the
tombstone-retention limit, `nowMs` for the key-level `UpdateTime`).
-/
namespace C06
open Ring

/-- `memberlist.Mergeable` -/
class MergeVal (V : Type) where
  /-- `Merge(other, localCAS)` with the clock made explicit: resulting state of the receiver and the
  change; `none` = the error return (value of another type), receiver untouched -/
  merge : Bool → Int → V → V → Option (V × Option V)
  /-- `MergeContent()` -/
  names : V → List String
  /-- `RemoveTombstones(limit)`; `none` = the zero time (remove all tombstones) -/
  gc : Option Int → V → V

instance : MergeVal Desc where
  merge cas now a b := let m := C03.merge cas now a b; some (m.state, m.change)
  names d := C03.ids d
  gc lim d := C03.removeTombstones lim d

instance : MergeVal C03P.PDesc where
  merge cas now a b := let m := C03P.merge cas now a b; some (m.state, m.change)
  names p := p.parts.map (fun x => toString x.id) ++ p.owners.map (·.id)
  gc lim p := C03P.removeTombstones lim p

/-- the values a node can hold under its keys -/
inductive Val
  | ring (d : Desc)
  | part (p : C03P.PDesc)
  deriving DecidableEq, Repr, Inhabited

instance : MergeVal Val where
  merge cas now a b :=
    match a, b with
    | .ring x, .ring y => let m := C03.merge cas now x y; some (.ring m.state, m.change.map .ring)
    | .part x, .part y => let m := C03P.merge cas now x y; some (.part m.state, m.change.map .part)
    | _, _ => none
  names
    | .ring d => MergeVal.names d
    | .part p => MergeVal.names p
  gc lim
    | .ring d => .ring (MergeVal.gc lim d)
    | .part p => .part (MergeVal.gc lim p)

open MergeVal

/-! ## store -/

/-- `ValueDesc` (the codec id is determined by the kind of value) -/
structure Entry (V : Type) where
  val : V
  version : Nat
  deleted : Bool := false
  updateTime : Int := 0
  deriving DecidableEq, Repr

abbrev Store (V : Type) := List (String × Entry V)

def getE {V : Type} (st : Store V) (key : String) : Option (Entry V) :=
  match st with
  | [] => none
  | (k, e) :: r => if k = key then some e else getE r key

def setE {V : Type} (st : Store V) (key : String) (e : Entry V) : Store V :=
  match st with
  | [] => [(key, e)]
  | (k, x) :: r => if k = key then (k, e) :: r else (k, x) :: setE r key e

/-- what `mergeValueForKey` returns besides the store: change, new version, deleted, update time -/
structure Out (V : Type) where
  change : V
  version : Nat
  deleted : Bool
  updateTime : Int

structure MergeRes (V : Type) where
  store : Store V
  out : Option (Out V) := none
  err : Bool := false

/-- `KV.mergeValueForKey` (+ `computeNewValue`). `limit = some l` iff `LeftIngestersTimeout > 0`
(`l = now - timeout`). `cas` = this is a CAS operation: it only succeeds if the stored version still is
`casVersion` (0 = the key did not exist when it was read). -/
def mergeValueForKey {V : Type} [MergeVal V] (limit : Option Int) (now : Int) (st : Store V) (key : String)
    (incoming : V) (cas : Bool) (casVersion : Nat) (deleted : Bool) (updateTime : Int) : MergeRes V :=
  match getE st key with
  | none =>
    -- no current value
    if deleted then { store := st }
    else if cas ∧ 0 ≠ casVersion then { store := st, err := true }     -- version mismatch (current version is 0)
    else
      -- the first value is stored verbatim: no normalisation, no conflict resolution
      if (names incoming).isEmpty then { store := st }
      else
        let v := match limit with | none => incoming | some l => gc (some l) incoming
        if (names v).isEmpty then { store := st }
        else { store := setE st key { val := v, version := 1 },
               out := some { change := v, version := 1, deleted := false, updateTime := 0 } }
  | some c =>
    if cas ∧ c.version ≠ casVersion then { store := st, err := true }
    else
      match merge cas now c.val incoming with
      | none => { store := st, err := true }
      | some (result, change) =>
        -- `!updateTime.IsZero() && updateTime.After(curr.UpdateTime) && deleted`; 0 encodes the zero time, which
        -- every real time is after (the other values are relative to the case's base, possibly negative)
        let newer : Bool := decide (updateTime ≠ 0) && (decide (c.updateTime = 0) || decide (updateTime > c.updateTime)) && deleted
        let newUpdated := if newer then updateTime else c.updateTime
        let newDeleted := if newer then deleted else c.deleted
        let noChange : Bool := match change with | none => true | some ch => (names ch).isEmpty
        if noChange && c.deleted == newDeleted then { store := setE st key { c with val := result } }
        else
          let result' := match limit with | none => result | some l => gc (some l) result
          let change' := match limit with | none => change | some l => change.map (gc (some l))
          let emptied : Bool := match limit, change' with | some _, some ch => (names ch).isEmpty | _, _ => false
          -- the stored object was already merged and collected in place; version and flags stay
          if emptied then { store := setE st key { c with val := result' } }
          else
            let ch := match change' with | none => result' | some ch => ch
            { store := setE st key { val := result', version := c.version + 1, deleted := newDeleted, updateTime := newUpdated },
              out := some { change := ch, version := c.version + 1, deleted := newDeleted, updateTime := newUpdated } }

/-! ## broadcast queues (`TransmitLimitedQueue` + `ringBroadcast.Invalidates`) -/

structure Bcast (V : Type) where
  key : String
  content : List String
  version : Nat
  change : V
  deleted : Bool
  updateTime : Int
  transmits : Nat := 0

/-- `ringBroadcast.Invalidates`: same key, old content ⊆ new content, new version ≥ old version -/
def invalidates (nKey : String) (nContent : List String) (nVersion : Nat)
    (oKey : String) (oContent : List String) (oVersion : Nat) : Bool :=
  nKey == oKey && oContent.all (fun n => nContent.contains n) && decide (nVersion ≥ oVersion)

def Bcast.invalidates {V : Type} (n o : Bcast V) : Bool :=
  C06.invalidates n.key n.content n.version o.key o.content o.version

/-- `QueueBroadcast`: drop every queued broadcast the new one invalidates, then append -/
def enqueue {V : Type} (q : List (Bcast V)) (b : Bcast V) : List (Bcast V) :=
  q.filter (fun o => !b.invalidates o) ++ [b]

/-- `retransmitLimit(mult, n) = mult * ceil(log10(n+1))` -/
def transmitLimit (mult n : Nat) : Nat :=
  mult * (if n + 1 ≤ 1 then 0 else if n + 1 ≤ 10 then 1 else if n + 1 ≤ 100 then 2 else 3)

/-- one `GetBroadcasts` with an unbounded byte limit: everything queued is sent once more; entries
reaching the transmit limit leave the queue -/
def drain {V : Type} (lim : Nat) (q : List (Bcast V)) : List (Bcast V) :=
  (q.filter fun b => b.transmits + 1 < lim).map fun b => { b with transmits := b.transmits + 1 }

/-! ## watchers -/

/-- one `WatchKey` / `WatchPrefix` call: the buffered channel and the last value handed to `f` per key -/
structure Watcher (V : Type) where
  id : Nat
  isPrefix : Bool
  key : String
  cap : Nat
  pending : List String := []
  last : List (String × V) := []
  /-- ghost: the version of each key when the watcher was registered or last called for that key -/
  seen : List (String × Nat) := []

def setLast {V : Type} (l : List (String × V)) (k : String) (v : V) : List (String × V) :=
  match l with
  | [] => [(k, v)]
  | (k', x) :: r => if k' = k then (k, v) :: r else (k', x) :: setLast r k v

def Watcher.matches {V : Type} (w : Watcher V) (key : String) : Bool :=
  if w.isPrefix then key.startsWith w.key else w.key == key

/-- `notifyWatchersSync` for one watcher: non-blocking send on the buffered channel -/
def Watcher.notify {V : Type} (w : Watcher V) (key : String) : Watcher V :=
  if w.matches key ∧ w.pending.length < w.cap then { w with pending := w.pending ++ [key] } else w

/-! ## node -/

structure Cfg where
  /-- `LeftIngestersTimeout` in seconds, 0 = disabled -/
  lit : Int := 0
  /-- `NotifyInterval > 0` -/
  ni : Bool := false
  /-- transmit limit of the broadcast queues -/
  lim : Nat := 1
  /-- `WatchPrefixBufferSize` -/
  buf : Nat := 128
  /-- `ObsoleteEntriesTimeout` in milliseconds (−1 stands for a sub-millisecond timeout: every age counts) -/
  obs : Int := 3600000

/-- `limit := time.Now().Add(-LeftIngestersTimeout)` as used by `RemoveTombstones(limit)`: a tombstone is
removed iff `time.Unix(ts, 0).Before(limit)`. `now` is the Unix second of the clock (the value `now.Unix()`
that stamps tombstones, i.e. the FLOOR); the clock's sub-second part is taken to be non-zero, so
`ts·1s < now_exact − lit` ⟺ `ts < now + 1 − lit` ⟺ `ts ≤ now − lit`. (At an instant with zero nanoseconds
Go keeps `ts = now − lit` one more time; that instant is ignored.) -/
def Cfg.limit (c : Cfg) (now : Int) : Option Int := if c.lit > 0 then some (now + 1 - c.lit) else none

structure Node (V : Type) where
  store : Store V := []
  localQ : List (Bcast V) := []
  gossipQ : List (Bcast V) := []
  notifs : List String := []
  watchers : List (Watcher V) := []

/-- `KV.get`: clone with ALL tombstones removed, and the version -/
def Node.get {V : Type} [MergeVal V] (nd : Node V) (key : String) : Option V × Nat :=
  match getE nd.store key with
  | none => (none, 0)
  | some e => (some (gc none e.val), e.version)

def notifySync {V : Type} (nd : Node V) (key : String) : Node V :=
  { nd with watchers := nd.watchers.map (·.notify key) }

/-- `notifyWatchers` -/
def notify {V : Type} (cfg : Cfg) (nd : Node V) (key : String) : Node V :=
  if cfg.ni then { nd with notifs := if nd.notifs.contains key then nd.notifs else nd.notifs ++ [key] }
  else notifySync nd key

/-- `sendKeyNotifications` -/
def notifyTick {V : Type} (nd : Node V) : Node V :=
  { nd.notifs.foldl notifySync nd with notifs := [] }

/-- `broadcastNewValue` -/
def broadcast {V : Type} [MergeVal V] (nd : Node V) (key : String) (o : Out V) (locallyGenerated : Bool) : Node V :=
  let b : Bcast V := { key := key, content := names o.change, version := o.version, change := o.change,
                       deleted := o.deleted, updateTime := o.updateTime }
  if locallyGenerated then { nd with localQ := enqueue nd.localQ b } else { nd with gossipQ := enqueue nd.gossipQ b }

inductive CasRes | ok | noChange | err
  deriving DecidableEq, Repr

/-- one attempt of `KV.CAS` (`trySingleCas` + the tail of `CAS`); `f = none` means "no change to be done" -/
def cas {V : Type} [MergeVal V] (cfg : Cfg) (now nowMs : Int) (nd : Node V) (key : String) (f : Option V → Option V) :
    Node V × CasRes :=
  let (view, ver) := nd.get key
  match f view with
  | none => (nd, .ok)
  | some out =>
    let r := mergeValueForKey (cfg.limit now) now nd.store key out true ver false nowMs
    if r.err then (nd, .err)
    else match r.out with
      | none => ({ nd with store := r.store }, .noChange)
      | some o => (broadcast (notify cfg { nd with store := r.store } key) key o true, .ok)

/-- a message as it travels: `KeyValuePair` with the value decoded -/
structure Msg (V : Type) where
  key : String
  val : V
  deleted : Bool := false
  updateTime : Int := 0

/-- `NotifyMsg` → per-key worker → `mergeBytesValueForKey`; also one pair of `MergeRemoteState` -/
def deliver {V : Type} [MergeVal V] (cfg : Cfg) (now : Int) (nd : Node V) (m : Msg V) : Node V :=
  let r := mergeValueForKey (cfg.limit now) now nd.store m.key m.val false 0 m.deleted m.updateTime
  if r.err then nd
  else match r.out with
    | none => { nd with store := r.store }
    | some o => broadcast (notify cfg { nd with store := r.store } m.key) m.key o false

/-- `NotifyMsg`: a pair with an empty key is invalid and dropped (the push/pull path has no such check) -/
def notifyMsg {V : Type} [MergeVal V] (cfg : Cfg) (now : Int) (nd : Node V) (m : Msg V) : Node V :=
  if m.key.isEmpty then nd else deliver cfg now nd m

/-- `LocalState`: every key with its full value (tombstones included) -/
def localState {V : Type} (nd : Node V) : List (Msg V) :=
  nd.store.map fun (k, e) => { key := k, val := e.val, deleted := e.deleted, updateTime := e.updateTime }

/-- `MergeRemoteState`: every pair of the full-state message goes through the same validation and merge
as a gossiped message (a pair with an empty key is invalid and skipped; the others are merged in order) -/
def mergeRemoteState {V : Type} [MergeVal V] (cfg : Cfg) (now : Int) (nd : Node V) (ms : List (Msg V)) : Node V :=
  ms.foldl (notifyMsg cfg now) nd

def Bcast.msg {V : Type} (b : Bcast V) : Msg V :=
  { key := b.key, val := b.change, deleted := b.deleted, updateTime := b.updateTime }

/-- `GetBroadcasts(0, ∞)`: local queue first, then the gossip queue -/
def gossip {V : Type} (cfg : Cfg) (nd : Node V) : Node V × List (Msg V) :=
  ({ nd with localQ := drain cfg.lim nd.localQ, gossipQ := drain cfg.lim nd.gossipQ },
   (nd.localQ ++ nd.gossipQ).map (·.msg))

/-- `KV.Delete` -/
def delete {V : Type} [MergeVal V] (cfg : Cfg) (now nowMs : Int) (nd : Node V) (key : String) : Node V :=
  match getE nd.store key with
  | none => nd
  | some e =>
    if e.deleted then nd else
    let r := mergeValueForKey (cfg.limit now) now nd.store key e.val false 0 true nowMs
    if r.err then nd
    else match r.out with
      | none => { nd with store := r.store }
      | some o => broadcast (notify cfg { nd with store := r.store } key) key o false

/-- `cleanupObsoleteEntries`: keys marked deleted for longer than `ObsoleteEntriesTimeout` are removed from
the store — with all the tombstones their values held -/
def cleanupObsolete {V : Type} (cfg : Cfg) (nowMs : Int) (nd : Node V) : Node V :=
  { nd with store := nd.store.filter fun p => !(p.2.deleted && decide (nowMs - p.2.updateTime > cfg.obs)) }

/-- the watcher goroutine takes one notification from its channel, reads the value and calls `f` -/
def Watcher.run {V : Type} [MergeVal V] (st : Store V) (w : Watcher V) : Watcher V :=
  match w.pending with
  | [] => w
  | k :: rest =>
    match getE st k with
    | none => { w with pending := rest }     -- nil value: prefix watchers skip it (keys are never removed here)
    | some e => { w with pending := rest, last := setLast w.last k (gc none e.val), seen := setLast w.seen k e.version }

def Watcher.runAll {V : Type} [MergeVal V] (st : Store V) (w : Watcher V) : Nat → Watcher V
  | 0 => w
  | n + 1 => Watcher.runAll st (w.run st) n

/-- quiescence of one node: flush delayed notifications, let every watcher drain its channel -/
def settle {V : Type} [MergeVal V] (cfg : Cfg) (nd : Node V) : Node V :=
  let nd := if cfg.ni then notifyTick nd else nd
  { nd with watchers := nd.watchers.map fun w => w.runAll nd.store w.pending.length }

def addWatcher {V : Type} (cfg : Cfg) (nd : Node V) (id : Nat) (isPrefix : Bool) (key : String) : Node V :=
  { nd with watchers := nd.watchers ++ [{ id := id, isPrefix := isPrefix, key := key, cap := if isPrefix then cfg.buf else 1,
                                           seen := nd.store.map fun (k, e) => (k, e.version) }] }


/-! ## receive path with the decoder made explicit (`NotifyMsg`: unmarshal, codec lookup, decode) -/

/-- `NotifyMsg` on raw bytes: `dec` = `KeyValuePair.Unmarshal` + codec lookup + `codec.Decode`;
`none` = malformed, truncated, unknown codec. -/
def receive {V R : Type} [MergeVal V] (dec : R → Option (Msg V)) (cfg : Cfg) (now : Int) (nd : Node V) (raw : R) : Node V :=
  match dec raw with
  | none => nd
  | some m => notifyMsg cfg now nd m

/-- `MergeRemoteState` on raw bytes: the stream is a sequence of length-prefixed pairs, each decoded and
validated on its own (`dec` as in `receive`); a pair that does not decode or has an empty key is skipped -/
def receiveState {V R : Type} [MergeVal V] (dec : R → Option (Msg V)) (cfg : Cfg) (now : Int) (nd : Node V) (raws : List R) : Node V :=
  raws.foldl (receive dec cfg now) nd

/-! ## wire format of the two receive paths

`LocalState` / `MergeRemoteState`: the stream is `[4-byte big-endian length][marshalled KeyValuePair]`…;
`NotifyMsg`: one marshalled `KeyValuePair`. The protobuf unmarshaller (`unm`) and the codec registry
with the value decoders (`codecs`) are parameters; the framing, the validation order and the control
flow (break on a framing / unmarshal error, skip on empty key / unknown codec / undecodable value)
are modelled. -/

/-- a `KeyValuePair` as unmarshalled: the value is still encoded -/
structure RawPair where
  key : String
  codec : String
  deleted : Bool := false
  updateTime : Int := 0
  value : Common.Bytes := []

def be32 (a b c d : UInt8) : Nat := ((a.toNat * 256 + b.toNat) * 256 + c.toNat) * 256 + d.toNat

/-- reader state of the framing loop: inside the 4-byte header, or inside a body of known length -/
inductive FState
  | hdr (got : List UInt8)
  | body (need : Nat) (acc : Common.Bytes)
  deriving DecidableEq, Repr

/-- one more byte: possibly completes a frame -/
def feed : FState → UInt8 → FState × Option Common.Bytes
  | .hdr [a, b, c], d =>
    let n := be32 a b c d
    if n = 0 then (.hdr [], some []) else (.body n [], none)
  | .hdr got, x => (.hdr (got ++ [x]), none)
  | .body need acc, x =>
    if acc.length + 1 = need then (.hdr [], some (acc ++ [x])) else (.body need (acc ++ [x]), none)

/-- the complete frames of a byte stream, left to right, and the reader state at the end -/
def scan : FState → Common.Bytes → List Common.Bytes × FState
  | st, [] => ([], st)
  | st, x :: xs =>
    let r := scan (feed st x).1 xs
    (match (feed st x).2 with | some f => f :: r.1 | none => r.1, r.2)

/-- frames `MergeRemoteState` cuts out of `data`; `clean` = the data ends exactly at a frame boundary
(otherwise the loop ends with "not enough data left") -/
def framesOf (data : Common.Bytes) : List Common.Bytes × Bool :=
  let r := scan (.hdr []) data
  (r.1, r.2 == .hdr [])

/-- `snappy.Encode(nil, []byte{})`: what `mergeBytesValueForKey` substitutes for an empty value -/
def emptySnappy : Common.Bytes := [0]

/-- validation and decoding of one unmarshalled pair: non-empty key, registered codec, decodable value -/
def decodePair {V : Type} (codecs : String → Option (Common.Bytes → Option V)) (p : RawPair) : Option (Msg V) :=
  if p.key.isEmpty then none else
  match codecs p.codec with
  | none => none
  | some dec =>
    match dec (if p.value.isEmpty then emptySnappy else p.value) with
    | none => none
    | some v => some { key := p.key, val := v, deleted := p.deleted, updateTime := p.updateTime }

/-- `NotifyMsg(bytes)` -/
def notifyBytes {V : Type} [MergeVal V] (unm : Common.Bytes → Option RawPair) (codecs : String → Option (Common.Bytes → Option V))
    (cfg : Cfg) (now : Int) (nd : Node V) (data : Common.Bytes) : Node V :=
  match unm data with
  | none => nd
  | some p =>
    match decodePair codecs p with
    | none => nd
    | some m => deliver cfg now nd m

/-- the loop of `MergeRemoteState` over the frames: an unmarshal error ends the loop; an invalid pair is skipped -/
def mergeFrames {V : Type} [MergeVal V] (unm : Common.Bytes → Option RawPair) (codecs : String → Option (Common.Bytes → Option V))
    (cfg : Cfg) (now : Int) : Node V → List Common.Bytes → Node V
  | nd, [] => nd
  | nd, f :: fs =>
    match unm f with
    | none => nd
    | some p =>
      match decodePair codecs p with
      | none => mergeFrames unm codecs cfg now nd fs
      | some m => mergeFrames unm codecs cfg now (deliver cfg now nd m) fs

/-- `MergeRemoteState(bytes)` -/
def mergeRemoteBytes {V : Type} [MergeVal V] (unm : Common.Bytes → Option RawPair) (codecs : String → Option (Common.Bytes → Option V))
    (cfg : Cfg) (now : Int) (nd : Node V) (data : Common.Bytes) : Node V :=
  mergeFrames unm codecs cfg now nd (framesOf data).1

/-- the decodable pairs of a frame list, in order, up to the first frame that does not unmarshal -/
def stateMsgs {V : Type} (unm : Common.Bytes → Option RawPair) (codecs : String → Option (Common.Bytes → Option V)) :
    List Common.Bytes → List (Msg V)
  | [] => []
  | f :: fs =>
    match unm f with
    | none => []
    | some p =>
      match decodePair codecs p with
      | none => stateMsgs unm codecs fs
      | some m => m :: stateMsgs unm codecs fs

/-! ## cluster: nodes + messages in flight + one global clock (seconds) -/

structure Cluster (V : Type) where
  nodes : List (Node V) := []
  net : List (Msg V) := []
  clock : Int := 1

inductive Event (V : Type)
  /-- a CAS through `kv.Client` on node `n` (the clock of the step stamps tombstones) -/
  | cas (n : Nat) (key : String) (f : Option V → Option V)
  /-- memberlist asks node `n` for its broadcasts and puts them on the wire -/
  | gossipTick (n : Nat)
  /-- message number `m` in flight reaches node `n` (it stays in flight: duplication, any order = delay / reordering) -/
  | deliver (n m : Nat)
  /-- message number `m` is lost -/
  | drop (m : Nat)
  /-- message number `m` is duplicated on the wire -/
  | dup (m : Nat)
  /-- full-state exchange: node `b` merges the `LocalState` of node `a` -/
  | pushPull (a b : Nat)
  /-- an undecodable / unknown-codec message reaches node `n` (see `receive`) -/
  | corrupt (n : Nat)
  | watch (n : Nat) (isPrefix : Bool) (key : String)
  /-- watcher number `w` of node `n` takes one notification and calls its function -/
  | watcherRun (n w : Nat)
  | notifyTick (n : Nat)
  /-- node `n` restarts with an empty store -/
  | restart (n : Nat)
  /-- `KV.Delete(key)` on node `n` (key-level tombstone; outside the property's workloads) -/
  | delete (n : Nat) (key : String)
  /-- the obsolete-entries ticker of node `n` -/
  | cleanup (n : Nat)
  /-- the clock advances by one second -/
  | tick

def modifyAt {α : Type} (f : α → α) : Nat → List α → List α
  | _, [] => []
  | 0, x :: xs => f x :: xs
  | n + 1, x :: xs => x :: modifyAt f n xs

def Cluster.upd {V : Type} (c : Cluster V) (n : Nat) (f : Node V → Node V) : Cluster V :=
  { c with nodes := modifyAt f n c.nodes }

def stepC {V : Type} [MergeVal V] (cfg : Cfg) (c : Cluster V) : Event V → Cluster V
  | .cas n key f => c.upd n fun nd => (cas cfg c.clock (c.clock * 1000) nd key f).1
  | .gossipTick n =>
    match c.nodes[n]? with
    | none => c
    | some nd => { c.upd n (fun nd => (gossip cfg nd).1) with net := c.net ++ (gossip cfg nd).2 }
  | .deliver n m =>
    match c.net[m]? with
    | none => c
    | some msg => c.upd n fun nd => notifyMsg cfg c.clock nd msg
  | .drop m => { c with net := c.net.eraseIdx m }
  | .dup m =>
    match c.net[m]? with
    | none => c
    | some msg => { c with net := c.net ++ [msg] }
  | .pushPull a b =>
    match c.nodes[a]? with
    | none => c
    | some na => c.upd b fun nb => mergeRemoteState cfg c.clock nb (localState na)
  | .corrupt _ => c
  | .watch n p key => c.upd n fun nd => addWatcher cfg nd nd.watchers.length p key
  | .watcherRun n w => c.upd n fun nd => { nd with watchers := modifyAt (fun x => x.run nd.store) w nd.watchers }
  | .notifyTick n => c.upd n notifyTick
  | .restart n => c.upd n fun _ => {}
  | .delete n key => c.upd n fun nd => delete cfg c.clock (c.clock * 1000) nd key
  | .cleanup n => c.upd n fun nd => cleanupObsolete cfg (c.clock * 1000) nd
  | .tick => { c with clock := c.clock + 1 }

def runC {V : Type} [MergeVal V] (cfg : Cfg) (c : Cluster V) (evs : List (Event V)) : Cluster V :=
  evs.foldl (stepC cfg) c

/-- the explicit closing sequence: heal, then two full-state sync passes over the star around node 0
(pass 1: node 0 pulls every node; pass 2: every node pulls node 0) -/
def syncEvents (V : Type) (n : Nat) : List (Event V) :=
  ((List.range n).map fun i => Event.pushPull (i + 1) 0) ++ ((List.range n).map fun i => Event.pushPull 0 (i + 1))

/-! ## CAS workloads of the harness (edit scripts on the visible value) -/

def strict32 : Nat := 4294967295

/-- instance names of the harness workloads (some are proper prefixes of others) -/
def harnessIds : List String := ["i1", "i10", "i1-0", "i2"]

def idIndex (id : String) : Nat :=
  let rec go : List String → Nat → Nat
    | [], _ => 0
    | x :: xs, i => if x = id then i else go xs (i + 1)
  go harnessIds 0

/-- the static content of instance `id` in the harness workloads -/
def tokenPool (id : String) (clash : Bool) : List Nat :=
  if clash then [1, 2, 3, 4] else
  let k := idIndex id
  [k * 10 + 1, k * 10 + 2, k * 10 + 3, strict32 - k]

def maskTokens (pool : List Nat) (mask : Nat) : List Nat :=
  sortNat ((pool.zipIdx.filter fun (_, i) => (mask / 2 ^ i) % 2 = 1).map (·.1))

inductive Op
  | retNil
  | same
  | hb (id : String) (delta : Int) (st : State) (mask : Nat)
  | rm (id : String)
  | pa (pid : Int) (delta : Int) (st : Nat)
  | pl (pid : Int) (delta : Int) (locked : Bool)
  | pr (pid : Int)
  | oa (oid : String) (delta : Int) (pid : Int) (st : Nat)
  | orm (oid : String)
  deriving Repr

def applyRingOp (t0 : Int) (clash : Bool) (d : Desc) : Op → Desc
  | .hb id delta st mask =>
    let k := idIndex id
    -- mask bits 4 / 5: the heartbeat switches the instance to read-only / back to read-write, stamped with its own time
    let roSet := (mask / 16) % 2 = 1
    let roClr := (mask / 32) % 2 = 1
    C03.upsert { id := id, addr := "addr-" ++ id, zone := "z" ++ toString (k % 2), ts := t0 - delta, state := st,
                 tokens := maskTokens (tokenPool id clash) mask,
                 ro := roSet, roTs := if roSet ∨ roClr then t0 - delta else 0 } d
  | .rm id => d.filter (·.id ≠ id)
  | _ => d

def applyPartOp (t0 : Int) (d : C03P.PDesc) : Op → C03P.PDesc
  | .pa pid delta st =>
    let p : C03P.Part := match C03P.getP d.parts pid with
      | some p => p
      | none => { id := pid, tokens := [(pid * 100 + 1).toNat, (pid * 100 + 2).toNat] }
    { d with parts := C03P.upsertP { p with state := st, stateTs := t0 - delta } d.parts }
  | .pl pid delta locked =>
    match C03P.getP d.parts pid with
    | some p => { d with parts := C03P.upsertP { p with locked := locked, lockedTs := t0 - delta } d.parts }
    | none => d
  | .pr pid => { d with parts := d.parts.filter (·.id ≠ pid) }
  | .oa oid delta pid st => { d with owners := C03P.upsertO { id := oid, part := pid, state := st, ts := t0 - delta } d.owners }
  | .orm oid => { d with owners := d.owners.filter (·.id ≠ oid) }
  | _ => d

/-- the CAS function of the harness: `isPart` selects the codec of the key -/
def applyOps (t0 : Int) (clash : Bool) (isPart : Bool) (ops : List Op) (inp : Option Val) : Option Val :=
  if ops.any (fun o => match o with | .retNil => true | _ => false) then none
  else if isPart then
    let d : C03P.PDesc := match inp with | some (.part p) => p | _ => {}
    some (.part (ops.foldl (applyPartOp t0) d))
  else
    let d : Desc := match inp with | some (.ring r) => r | _ => []
    some (.ring (ops.foldl (applyRingOp t0 clash) d))

end C06
