import Model.C15
/-!
# C15 — the store as a versioned cell; `kv.Client.CAS` with foreign writes between read and commit

`updateRing` hands its closure to `kv.Client.CAS` (`kv/consul/client.go` `cas`): every attempt READS the value
together with its modify index, runs the closure on it and, if the closure wants to write, commits only if the index
is still the one read; otherwise the attempt is discarded and the next one starts from a fresh read (at most
`MaxCasRetries` = 10 attempts, then "failed to CAS"). A closure error or "not changed" returns at once, writing nothing.
Between an attempt's read and its compare ANY number of other actors' updates may commit (`sched`: the foreign
updates landing during the 1st, 2nd, … attempt; each is itself a committed store update, an `Op`).
-/
namespace C15
open Common C14

structure Cell where
  val : PDesc
  ver : Nat
  deriving DecidableEq, Repr

/-- another actor's update commits (an update that fails or changes nothing leaves the index alone) -/
def Cell.foreign (s : Cell) (w : Op) : Cell :=
  match step s.val w with
  | .ok (some d') => { val := d', ver := s.ver + 1 }
  | _ => s

inductive CasRes
  | done (r : Except Err (Option PDesc))   -- what the closure answered on the attempt that ended the call
  | exhausted                              -- "failed to CAS": every attempt lost its compare
  deriving DecidableEq, Repr

/-- `cas(ctx, key, f)` with `fuel` attempts left -/
def casRun (f : PDesc → Except Err (Option PDesc)) : Nat → Cell → List (List Op) → Cell × CasRes
  | 0, s, _ => (s, .exhausted)
  | fuel + 1, s, sched =>
    let s' := (sched.headD []).foldl Cell.foreign s          -- other actors commit while this attempt runs
    match f s.val with                                        -- the closure on the value READ
    | .ok (some d') =>
      if s'.ver = s.ver then ({ val := d', ver := s.ver + 1 }, .done (.ok (some d')))   -- index unchanged: commit
      else casRun f fuel s' sched.tail                        -- refused: re-read, re-run
    | r => (s', .done r)                                      -- error / not changed: nothing written

/-- cells reachable through other actors' updates only -/
inductive Foreign : Cell → Cell → Prop
  | refl (s) : Foreign s s
  | step (s t w) : Foreign s t → Foreign s (t.foreign w)

end C15
