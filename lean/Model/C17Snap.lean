import Model.C17
/-!
# C17 — `Manager.ServicesByState()` hands out snapshots

`ServicesByState` copies every list (`append([]Service(nil), ss...)`): what the caller gets is a VALUE. In the
model a kept snapshot is the function `byState` as it was when taken; nothing the manager does later can
change it, and nothing the caller does with it (appending to its slices, overwriting entries) reaches the
manager. The scenarios: `n` idle services under one manager, caller actions one after another, each driven
to quiescence (so the manager's listener has handled every notification of the action before the next one).
-/
namespace C17

inductive SnapAct
  | start (i : Nat)      -- StartAsync + AwaitRunning on service i
  | stop (i : Nat)       -- StopAsync + AwaitTerminated on service i
  | keep                 -- the caller keeps a ServicesByState() result
  | append               -- the caller appends a foreign service to every list of every kept result
  | overwrite            -- the caller overwrites the first entry of every list of every kept result
deriving DecidableEq, Repr

structure SnapSys where
  mgr : Mgr
  svc : List SState                                   -- the services' own states
  kept : List ((SState → List Nat) × Bool) := []      -- results the caller holds: content when taken, written since

def SnapSys.init (n : Nat) : SnapSys := { mgr := Mgr.init n, svc := List.replicate n .new }

/-- the transitions an idle service makes for the action, in the order its listeners see them. -/
def snapFeed (s : SState) : SnapAct → List (SState × SState)
  | .start _ => if s = .new then [(.new, .starting), (.starting, .running)] else []
  | .stop _ =>
    if s = .new then [(.new, .terminated)]
    else if s = .running then [(.running, .stopping), (.stopping, .terminated)] else []
  | _ => []

def SnapSys.feed (x : SnapSys) (i : Nat) (a : SnapAct) (final : SState) : SnapSys :=
  let fd := snapFeed (x.svc.getD i .failed) a
  { x with mgr := fd.foldl (fun m p => m.changed i p.1 p.2) x.mgr,
           svc := if fd.isEmpty then x.svc else x.svc.set i final }

def SnapSys.step (x : SnapSys) : SnapAct → SnapSys
  | .start i => x.feed i (.start i) .running
  | .stop i => x.feed i (.stop i) .terminated
  | .keep => { x with kept := x.kept ++ [(x.mgr.byState, false)] }
  | .append => { x with kept := x.kept.map fun k => (k.1, true) }
  | .overwrite => { x with kept := x.kept.map fun k => (k.1, true) }

def SnapSys.run (x : SnapSys) (acts : List SnapAct) : SnapSys := acts.foldl SnapSys.step x

/-- the actions that concern the services (as opposed to what the caller does with snapshots). -/
def SnapAct.onService : SnapAct → Bool
  | .start _ | .stop _ => true
  | _ => false

end C17
