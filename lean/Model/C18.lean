import Model.Common
import Model.C17
/-!
# C18 — executable model of `modules.Manager` (dependency graph, initialisation order) and of the
module service wrappers at run time.

Modules are numbered `0..n-1` (the harness names them `m0, m1, …`). `deps[i]` is the slice
`modules[i].deps` in insertion order (duplicates possible: `AddDependency` appends).
-/
namespace C18
open Common

abbrev Mod := Nat

structure Graph where
  n : Nat
  deps : List (List Mod)
deriving Repr, DecidableEq

def Graph.depsOf (g : Graph) (m : Mod) : List Mod := g.deps.getD m []
def Graph.has (g : Graph) (m : Mod) : Bool := decide (m < g.n)

def Graph.empty (n : Nat) : Graph := { n, deps := List.replicate n [] }

/-- `listDeps`: `deps := modules[mod].deps; for d in modules[mod].deps { deps = append(deps, listDeps(d)...) }`.
The Go function is recursive without a visited set; `fuel` is the recursion depth available
(`none` = the recursion does not bottom out within `fuel` frames: a stack overflow for unbounded fuel). -/
def listDeps (g : Graph) : Nat → Mod → Option (List Mod)
  | 0, _ => none
  | fuel + 1, m =>
    match (g.depsOf m).mapM (listDeps g fuel) with
    | none => none
    | some rest => some (g.depsOf m ++ rest.flatten)

/-- insertion sort + dedup: the *set* `DependenciesForModule` returns (Go sorts it by name; only membership
is ever used by the code and by the theorems). -/
def dedup : List Mod → List Mod
  | [] => []
  | x :: xs => if xs.contains x then dedup xs else x :: dedup xs

def dependenciesFor (g : Graph) (fuel : Nat) (m : Mod) : Option (List Mod) :=
  (listDeps g fuel m).map dedup

/-- `inverseDependenciesForModule`: every module whose transitive dependencies contain `m`. -/
def inverseDeps (g : Graph) (fuel : Nat) (m : Mod) : Option (List Mod) :=
  (List.range g.n).foldlM (fun acc x =>
    match dependenciesFor g fuel x with
    | none => none
    | some ds => some (if ds.contains m then acc ++ [x] else acc)) []

/-- one `for name, added := range uniq` pass of `orderedDeps`, iterating the map in the order `order`. -/
def pass (g : Graph) (uniq : List Mod) (order : List Mod) (added : List Mod) : List Mod :=
  order.foldl (fun acc name =>
    if !uniq.contains name || acc.contains name then acc
    else if (g.depsOf name).all acc.contains then acc ++ [name] else acc) added

/-- the outer loop `for len(result) < len(uniq)`; `orders k` is the map iteration order of pass `k`
(Go randomises it: the theorems are for every choice). `none` = the loop does not finish in `fuel` passes. -/
def passes (g : Graph) (uniq : List Mod) (orders : Nat → List Mod) : Nat → Nat → List Mod → Option (List Mod)
  | 0, _, res => if uniq.length ≤ res.length then some res else none
  | fuel + 1, k, res =>
    if uniq.length ≤ res.length then some res else passes g uniq orders fuel (k + 1) (pass g uniq (orders k) res)

def orderedDeps (g : Graph) (fuel : Nat) (orders : Nat → List Mod) (m : Mod) : Option (List Mod) :=
  match listDeps g fuel m with
  | none => none
  | some deps =>
    let uniq := dedup deps
    passes g uniq orders (uniq.length + 1) 0 []

/-! ### AddDependency -/

inductive AddRes | ok | noSuchModule | circular | crash
deriving DecidableEq, Repr

/-- the check loop of `AddDependency(name, dependsOn...)`: each new dependency must be registered, must
not be the module itself (fix a0dd941), and must not already depend on the module. -/
def addCheck (g : Graph) (fuel : Nat) (name : Mod) : List Mod → AddRes
  | [] => .ok
  | d :: ds =>
    if !g.has d then .noSuchModule
    else if d = name then .circular
    else match dependenciesFor g fuel d with
      | none => .crash
      | some prev => if prev.contains name then .circular else addCheck g fuel name ds

def setDeps (deps : List (List Mod)) (m : Mod) (f : List Mod → List Mod) : List (List Mod) :=
  deps.mapIdx fun i l => if i = m then f l else l

def addDependency (g : Graph) (fuel : Nat) (name : Mod) (dependsOn : List Mod) : AddRes × Graph :=
  if !g.has name then (.noSuchModule, g)
  else match addCheck g fuel name dependsOn with
    | .ok => (.ok, { g with deps := setDeps g.deps name (· ++ dependsOn) })
    | r => (r, g)

/-- HISTORY: the check loop before fix a0dd941 (no `newDep == name` test). Kept only to state what was
wrong (`Props/C18.lean`, `self_dependency_was_accepted`); the running code is `addCheck`. -/
def addCheckOld (g : Graph) (fuel : Nat) (name : Mod) : List Mod → AddRes
  | [] => .ok
  | d :: ds =>
    if !g.has d then .noSuchModule
    else match dependenciesFor g fuel d with
      | none => .crash
      | some prev => if prev.contains name then .circular else addCheckOld g fuel name ds

def addDependencyOld (g : Graph) (fuel : Nat) (name : Mod) (dependsOn : List Mod) : AddRes × Graph :=
  if !g.has name then (.noSuchModule, g)
  else match addCheckOld g fuel name dependsOn with
    | .ok => (.ok, { g with deps := setDeps g.deps name (· ++ dependsOn) })
    | r => (r, g)

/-! ### InitModuleServices -/

structure Cfg where
  hasInit : List Bool      -- initFn != nil
  initErr : List Bool      -- initFn returns an error
  hasSvc : List Bool       -- initFn returns a non-nil service
deriving Repr

structure InitState where
  inited : List Mod := []      -- initMap
  log : List Mod := []         -- initFn invocations, in order
  svcs : List Mod := []        -- keys of servicesMap
deriving Repr, DecidableEq

/-- the error `InitModuleServices` returns: `unrecognised t` ("unrecognised module name: t"),
`initFailed m` ("error initialising module: m: …", wrapping what `initFn` returned), `crash` = `listDeps`
does not return (impossible for graphs built with `AddDependency`, see `Props/C18.lean`). -/
inductive InitErr | unrecognised (t : Mod) | initFailed (m : Mod) | crash
deriving DecidableEq, Repr

def initLoop (cfg : Cfg) : List Mod → InitState → Except InitErr InitState
  | [], st => .ok st
  | n :: rest, st =>
    if st.inited.contains n then initLoop cfg rest st
    else if cfg.hasInit.getD n false then
      let st := { st with log := st.log ++ [n] }
      if cfg.initErr.getD n false then .error (.initFailed n)
      else
        let st := if cfg.hasSvc.getD n false then { st with svcs := st.svcs ++ [n] } else st
        initLoop cfg rest { st with inited := st.inited ++ [n] }
    else initLoop cfg rest { st with inited := st.inited ++ [n] }

/-- `initModule(name, initMap, servicesMap)` -/
def initModule (g : Graph) (cfg : Cfg) (fuel : Nat) (orders : Nat → List Mod) (name : Mod) (st : InitState) :
    Except InitErr InitState :=
  if !g.has name then .error (.unrecognised name)
  else match orderedDeps g fuel orders name with
    | none => .error .crash
    | some deps => initLoop cfg (deps ++ [name]) st

/-- `InitModuleServices(targets...)`; `orders c k` = map order in pass `k` of the `c`-th `initModule` call. -/
def initModules (g : Graph) (cfg : Cfg) (fuel : Nat) (orders : Nat → Nat → List Mod) :
    Nat → List Mod → InitState → Except InitErr InitState
  | _, [], st => .ok st
  | c, t :: ts, st =>
    match initModule g cfg fuel (orders c) t st with
    | .error e => .error e
    | .ok st' => initModules g cfg fuel orders (c + 1) ts st'

/-! #### the same three functions, keeping the state at the moment an error is returned

Go returns `(nil, err)`; what the theorems about the failure paths talk about is what had been done by
then: `initMap` (`inited`), the `initFn` calls made (`log`, the failing one included) and `servicesMap`. -/

def initLoopT (cfg : Cfg) : List Mod → InitState → InitState × Option InitErr
  | [], st => (st, none)
  | n :: rest, st =>
    if st.inited.contains n then initLoopT cfg rest st
    else if cfg.hasInit.getD n false then
      if cfg.initErr.getD n false then ({ st with log := st.log ++ [n] }, some (.initFailed n))
      else if cfg.hasSvc.getD n false then
        initLoopT cfg rest { st with log := st.log ++ [n], svcs := st.svcs ++ [n], inited := st.inited ++ [n] }
      else initLoopT cfg rest { st with log := st.log ++ [n], inited := st.inited ++ [n] }
    else initLoopT cfg rest { st with inited := st.inited ++ [n] }

def initModuleT (g : Graph) (cfg : Cfg) (fuel : Nat) (orders : Nat → List Mod) (name : Mod) (st : InitState) :
    InitState × Option InitErr :=
  if !g.has name then (st, some (.unrecognised name))
  else match orderedDeps g fuel orders name with
    | none => (st, some .crash)
    | some deps => initLoopT cfg (deps ++ [name]) st

def initModulesT (g : Graph) (cfg : Cfg) (fuel : Nat) (orders : Nat → Nat → List Mod) :
    Nat → List Mod → InitState → InitState × Option InitErr
  | _, [], st => (st, none)
  | c, t :: ts, st =>
    match initModuleT g cfg fuel (orders c) t st with
    | (st', some e) => (st', some e)
    | (st', none) => initModulesT g cfg fuel orders (c + 1) ts st'

/-! #### module options (`RegisterModule(name, initFn, options...)`) -/

inductive ModOpt | userInvisible | userInvisibleTargetable
deriving DecidableEq, Repr

/-- (userVisible, targetable) after the options have been applied in order to the defaults (true, true). -/
def applyOpts : List ModOpt → Bool × Bool
  | opts => opts.foldl (fun _ o => match o with
      | .userInvisible => (false, false)
      | .userInvisibleTargetable => (false, true)) (true, true)

/-- `UserVisibleModuleNames` (as module numbers). -/
def userVisibleModules (opts : List (List ModOpt)) : List Mod :=
  (List.range opts.length).filter fun i => (applyOpts (opts.getD i [])).1

/-! ### run time: the wrappers (`moduleService`) around the modules' own ("inner") services

One record per module that has a service. `ph` is where the wrapper's `BasicService` is (its state and
the position inside `start` / `run` / `stop`); `inner` is the state of the wrapped service; the inner
service's three functions return when the environment says so (`iStartRet` …). -/

open C17 (SState)

inductive WPhase
  | idle                        -- wrapper New
  | waitDeps (ok : List Mod)    -- wrapper Starting, in `start`: dependencies already seen Running
  | innerStart                  -- `service.StartAsync` done, in `service.AwaitRunning(serviceContext)`
  | startCleanup                -- AwaitRunning failed: in `StopAndAwaitTerminated(service)`
  | run                         -- wrapper Running, in `run`
  | stopEntry                   -- `run` has returned: wrapper Stopping, `stop` has not yet read the inner state
  | stopWait                    -- wrapper Stopping, `stop` waits for the dependants
  | innerStop                   -- `StopAndAwaitTerminated(service)`
  | term | failed               -- wrapper Terminated / Failed
deriving DecidableEq, Repr

structure ModSt where
  ph : WPhase := .idle
  wctx : Bool := false          -- wrapper's service context cancelled (StopAsync on the wrapper)
  inner : SState := .new
  iStopReq : Bool := false      -- StopAsync was called on the inner service
  iFail : Bool := false         -- inner service has a pending or final failure
  -- ghost
  wasRunning : Bool := false    -- wrapper has been Running
  started : Bool := false       -- wrapper was started (left New by StartAsync)
  stoppedByWrapper : Bool := false  -- inner StopAsync issued by `stop` after waiting for the dependants
deriving DecidableEq, Repr

/-- run-time system: which modules have services, their transitive dependencies / dependants among
those (`startDeps`, `stopDeps` of the wrapper), and the per-module state. -/
structure Sys where
  mods : List Mod
  startDeps : Mod → List Mod
  stopDeps : Mod → List Mod
  st : Mod → ModSt

def WPhase.terminal : WPhase → Bool
  | .term | .failed => true
  | _ => false

/-- the wrapper's `BasicService` state. -/
def WPhase.state : WPhase → SState
  | .idle => .new
  | .waitDeps _ | .innerStart | .startCleanup => .starting
  | .run => .running
  | .stopEntry | .stopWait | .innerStop => .stopping
  | .term => .terminated
  | .failed => .failed

/-- `runningWaitersCh` of the wrapper is closed. -/
def WPhase.latched : WPhase → Bool
  | .idle | .waitDeps _ | .innerStart | .startCleanup => false
  | _ => true

inductive REv
  | wStart (m : Mod) | wStop (m : Mod)
  | awaitOk (m d : Mod) | awaitFail (m d : Mod) | awaitCancelled (m : Mod)
  | depsDone (m : Mod) | innerUp (m : Mod) | innerStartFailed (m : Mod) | cleanupDone (m : Mod)
  | runExit (m : Mod) | stopLooks (m : Mod) | dependantsGone (m : Mod) | innerStopped (m : Mod)
  | iStartRet (m : Mod) (ok : Bool) | iRunRet (m : Mod) (ok : Bool) | iStopRet (m : Mod) (ok : Bool)
deriving DecidableEq, Repr

def Sys.set (s : Sys) (m : Mod) (x : ModSt) : Sys := { s with st := fun k => if k = m then x else s.st k }

/-- `StopAsync` on the inner service. -/
def innerStopAsync (x : ModSt) : ModSt :=
  match x.inner with
  | .new => { x with inner := .terminated, iStopReq := true }
  | _ => { x with iStopReq := true }

/-- the local effect of an event: which module changes and to what (`none` = the event is not enabled). -/
def Sys.local (s : Sys) : REv → Option (Mod × ModSt)
  | .wStart m =>
    let x := s.st m
    if x.ph = .idle then some (m, { x with ph := .waitDeps [], started := true }) else none
  | .wStop m =>
    let x := s.st m
    match x.ph with
    | .idle => some (m, { x with ph := .term })
    | .term | .failed | .stopEntry | .stopWait | .innerStop => none
    | _ => some (m, { x with wctx := true })
  | .awaitOk m d =>
    let x := s.st m
    match x.ph with
    | .waitDeps ok =>
      if (s.startDeps m).contains d ∧ ¬ ok.contains d ∧ (s.st d).ph = .run then some (m, { x with ph := .waitDeps (d :: ok) }) else none
    | _ => none
  | .awaitFail m d =>
    let x := s.st m
    match x.ph with
    | .waitDeps ok =>
      if (s.startDeps m).contains d ∧ ¬ ok.contains d ∧ (s.st d).ph.latched ∧ (s.st d).ph ≠ .run then some (m, { x with ph := .failed }) else none
    | _ => none
  | .awaitCancelled m =>
    let x := s.st m
    match x.ph with
    | .waitDeps _ => if x.wctx then some (m, { x with ph := .failed }) else none
    | _ => none
  | .depsDone m =>
    let x := s.st m
    match x.ph with
    | .waitDeps ok =>
      if (s.startDeps m).all ok.contains then
        (if x.inner = .new then some (m, { x with ph := .innerStart, inner := .starting }) else some (m, { x with ph := .failed }))
      else none
    | _ => none
  | .innerUp m =>
    let x := s.st m
    if x.ph = .innerStart ∧ x.inner = .running then
      some (m, { x with ph := if x.wctx then .stopEntry else .run, wasRunning := !x.wctx || x.wasRunning })
    else none
  | .innerStartFailed m =>
    let x := s.st m
    if x.ph = .innerStart ∧ (x.wctx ∨ x.inner = .stopping ∨ x.inner = .terminated ∨ x.inner = .failed) then
      some (m, { (innerStopAsync x) with ph := .startCleanup })
    else none
  | .cleanupDone m =>
    let x := s.st m
    if x.ph = .startCleanup ∧ x.inner.terminal then some (m, { x with ph := .failed }) else none
  | .runExit m =>
    -- `run` returns (the wrapper was told to stop, or the inner service is terminal): the wrapper's
    -- BasicService switches to Stopping; `stop` is entered only afterwards
    let x := s.st m
    if x.ph = .run ∧ (x.wctx ∨ x.inner.terminal) then some (m, { x with ph := .stopEntry }) else none
  | .stopLooks m =>
    -- `stop`: `if w.service.State() == services.Running { wait for dependants … } else { err = FailureCase() }`
    let x := s.st m
    if x.ph = .stopEntry then
      (if x.inner = .running then some (m, { x with ph := .stopWait })
       else some (m, { x with ph := if x.inner = .failed then .failed else .term }))
    else none
  | .dependantsGone m =>
    let x := s.st m
    if x.ph = .stopWait ∧ (s.stopDeps m).all (fun k => (s.st k).ph.terminal) then
      some (m, { (innerStopAsync x) with ph := .innerStop, stoppedByWrapper := true })
    else none
  | .innerStopped m =>
    let x := s.st m
    if x.ph = .innerStop ∧ x.inner.terminal then some (m, { x with ph := if x.inner = .failed then .failed else .term }) else none
  | .iStartRet m ok =>
    let x := s.st m
    if x.inner = .starting then
      (if ok then some (m, { x with inner := if x.iStopReq then .stopping else .running })
       else some (m, { x with inner := .failed, iFail := true }))
    else none
  | .iRunRet m ok =>
    let x := s.st m
    if x.inner = .running then some (m, { x with inner := .stopping, iFail := !ok }) else none
  | .iStopRet m ok =>
    let x := s.st m
    if x.inner = .stopping then some (m, { x with inner := if x.iFail || !ok then .failed else .terminated, iFail := x.iFail || !ok }) else none

/-- the transition function; an event that is not enabled leaves the state unchanged. -/
def Sys.step (s : Sys) (e : REv) : Sys :=
  match s.local e with
  | none => s
  | some (m, x) => s.set m x

def Sys.run (s : Sys) (evs : List REv) : Sys := evs.foldl Sys.step s

/-- the run-time system `InitModuleServices` builds: one wrapper per module of `svcs` (the keys of
servicesMap); `newModuleServiceWrapper` gives module `m` the start dependencies
`DependenciesForModule(m)` and the stop dependencies `inverseDependenciesForModule(m)`, each filtered at
call time by "has a service in the map" (`getDeps`). Everything starts New. -/
def wrapperSys (g : Graph) (fuel : Nat) (svcs : List Mod) : Sys :=
  { mods := svcs,
    startDeps := fun m => ((dependenciesFor g fuel m).getD []).filter svcs.contains,
    stopDeps := fun m => ((inverseDeps g fuel m).getD []).filter svcs.contains,
    st := fun _ => {} }

/-- a schedule that finishes module `m` once every module depending on it has finished: ask the wrapper
to stop, let every wait return, let the three functions of the inner service return nil. (Steps that
are not enabled in the state at hand are no-ops, so one fixed list serves every state.) -/
def modSched (m : Mod) : List REv :=
  [.wStop m, .awaitCancelled m, .innerStartFailed m, .runExit m, .stopLooks m, .dependantsGone m,
   .iStartRet m true, .iRunRet m true, .iStopRet m true, .cleanupDone m, .innerStopped m]

/-- a schedule that finishes the whole system from ANY state: `|mods|` rounds over all modules (each
round finishes at least the modules all of whose dependants have finished). -/
def finishSchedule (mods : List Mod) : List REv :=
  (List.replicate mods.length (mods.flatMap modSched)).flatten

/-! ### the manager as built by ANY sequence of `RegisterModule` / `AddDependency` calls

Module numbers are handed out in the order of FIRST registration (the harness names them accordingly), so
"registered" stays `m < g.n`. `RegisterModule(name, …)` with a number `≥ g.n` registers a new name (it gets
number `g.n`); with a number `< g.n` it is the re-registration of an existing name: the Go code stores a
fresh `*module` under the name, i.e. the module's OWN dependency list is dropped, its init function and
flags are replaced, and every edge that points TO it (other modules' `deps` hold the name) survives. -/

structure Mgr where
  g : Graph := Graph.empty 0
  hasInit : List Bool := []           -- initFn != nil
  flags : List (Bool × Bool) := []    -- (userVisible, targetable)
deriving Repr, DecidableEq

inductive MCall
  | register (m : Mod) (hasInit : Bool) (opts : List ModOpt)
  | addDep (name : Mod) (dependsOn : List Mod)
deriving Repr, DecidableEq

/-- `RegisterModule(name, initFn, options...)`. -/
def registerModule (M : Mgr) (m : Mod) (hasInit : Bool) (opts : List ModOpt) : Mgr :=
  if m < M.g.n then
    { g := { M.g with deps := setDeps M.g.deps m (fun _ => []) },
      hasInit := M.hasInit.set m hasInit, flags := M.flags.set m (applyOpts opts) }
  else
    { g := { n := M.g.n + 1, deps := M.g.deps ++ [[]] },
      hasInit := M.hasInit ++ [hasInit], flags := M.flags ++ [applyOpts opts] }

/-- one call; the recursion bound for `DependenciesForModule` inside `AddDependency` is the number of
registered modules + 1 (enough on every graph these calls can build: `Props/C18.lean`). -/
def Mgr.call (M : Mgr) : MCall → AddRes × Mgr
  | .register m hi opts => (.ok, registerModule M m hi opts)
  | .addDep name ds =>
    let r := addDependency M.g (M.g.n + 1) name ds
    (r.1, { M with g := r.2 })

def buildMgr (calls : List MCall) : Mgr := calls.foldl (fun M c => (M.call c).2) {}

/-- the results of the calls, in order (the oracle's observation). -/
def callResults : Mgr → List MCall → List AddRes
  | _, [] => []
  | M, c :: cs => (M.call c).1 :: callResults (M.call c).2 cs

/-- what a query of a module that is not registered does. -/
inductive QRes (α : Type) | val (a : α) | nilDeref | crash
deriving Repr, DecidableEq

def Mgr.isModuleRegistered (M : Mgr) (m : Mod) : Bool := M.g.has m
def Mgr.isUserVisibleModule (M : Mgr) (m : Mod) : Bool := M.g.has m && (M.flags.getD m (false, false)).1
def Mgr.isTargetableModule (M : Mgr) (m : Mod) : Bool := M.g.has m && (M.flags.getD m (false, false)).2
/-- `UserVisibleModuleNames` (Go sorts by name; as module numbers, ascending). -/
def Mgr.userVisibleModuleNames (M : Mgr) : List Mod := (List.range M.g.n).filter M.isUserVisibleModule
/-- `DependenciesForModule(name)`: `m.modules[name].deps` on an unregistered name dereferences a nil `*module`. -/
def Mgr.dependenciesForModule (M : Mgr) (fuel : Nat) (m : Mod) : QRes (List Mod) :=
  if !M.g.has m then .nilDeref
  else match dependenciesFor M.g fuel m with
    | none => .crash
    | some l => .val l
/-- the `Cfg` `InitModuleServices` sees (every init function succeeds and returns a service). -/
def Mgr.cfg (M : Mgr) : Cfg := { hasInit := M.hasInit, initErr := [], hasSvc := M.hasInit }

end C18
