import Model.C08
/-!
# C08 — the service loops one level up

`Lifecycler.loop` / `stopping` and `BasicLifecycler.starting` / `running` / `stopping` as transition systems over the
events their `select` statements react to. One loop event runs exactly ONE handler of `C08.step` (one CAS at
most), so a schedule of loop events of several lifecyclers (plus foreign writers) flattens 1-1 into a schedule of
`C08.World`; what the loops add is WHICH handler may run WHEN:

* full Lifecycler: `start` (= `initRing`, arms the join timer) · `joinTimer` (fires once; arms the observe timer
  when it joined as JOINING) · `observeTimer` (`verifyTokens`; on success the SAME iteration goes on with
  `changeState(ACTIVE)`, modelled as the pending micro-step `activate` during which nothing else of this
  lifecycler runs; on failure the timer is re-armed) · `heartbeat` (running and stopping) · `actor` (a closure
  received on `actorChan`: ChangeState / ChangeReadOnlyState / ClaimTokensFor; running only) · `ready` (CheckReady,
  called from outside) · `stop` (`ctx.Done()`: `changeState(LEAVING)`, error only logged) · `stopDone`
  (`processShutdown` finished: `unregister` if configured, then the process is gone) · `kill`.
* BasicLifecycler: `start` (= `registerInstance`; with tokens and an observe period the service stays in Starting
  inside `waitStableTokens`) · `observeTimer` (`verifyTokens`, re-armed until it succeeds) · `heartbeat` (inside
  `waitStableTokens`, running, stopping) · `startDone` (`OnRingInstanceTokens`, service Running) · `actor`
  (ChangeState / ChangeReadOnlyState) · `stop` (delegate `OnRingInstanceStopping`; a stop during Starting fails the
  service without any write) · `stopDone` (`unregisterInstance` unless the instance is kept) · `kill`.
-/
namespace C08
open Ring

inductive LPhase | new | starting | running | stopping | terminated | failed
  deriving DecidableEq, Repr, Inhabited

/-- control state of one service loop -/
structure Ctl where
  phase : LPhase := .new
  joinArmed : Bool := false
  observeArmed : Bool := false
  /-- `verifyTokens` succeeded, `changeState(ACTIVE)` of the same loop iteration is still to run -/
  pending : Bool := false
  deriving DecidableEq, Repr, Inhabited

inductive LEvent
  | start (shuf : List Nat)
  | joinTimer
  | observeTimer
  | activate
  | startDone
  | heartbeat
  | actor (req : Event)
  | ready
  | stop
  | stopDone
  | kill
  deriving DecidableEq, Repr, Inhabited

def isActorReq (k : Kind) : Event → Bool
  | .changeState _ => true
  | .changeRO _ => true
  | .claim _ => k == .LC
  | _ => false

def canStart (p : LPhase) : Bool := p == .new || p == .terminated || p == .failed

/-- The handler-level action a loop event runs and the control state afterwards; `none` = the event is not
enabled in this control state. `unregister` = UnregisterOnShutdown resp. ¬KeepInstanceInTheRingOnShutdown. -/
def loopNext (unregister : Bool) (c : Cfg) (ctl : Ctl) (l : Local) (file : File) (store : Option Desc)
    (ev : LEvent) (now : Int) (gen : Gen) : Option (Act × Ctl) :=
  let own (e : Event) : Act := .own e now gen .none
  let res (e : Event) : Res := step c l file store e now gen .none
  match c.kind, ev with
  | _, .kill => if ctl.phase != .new then some (.crash, { phase := .terminated }) else none
  | _, .ready => if ctl.phase == .running || ctl.phase == .stopping then some (own .checkReady, ctl) else none
  -- full Lifecycler
  | .LC, .start shuf =>
    if canStart ctl.phase then some (own (.init shuf), { phase := .running, joinArmed := true }) else none
  | .LC, .joinTimer =>
    if ctl.phase == .running && ctl.joinArmed && !ctl.pending then
      some (own .joinTimer, { ctl with joinArmed := false, observeArmed := l.state == .PENDING && c.observe })
    else none
  | .LC, .observeTimer =>
    if ctl.phase == .running && ctl.observeArmed && !ctl.pending then
      some (own .verify, if (res .verify).ret = .yes then { ctl with observeArmed := false, pending := true } else ctl)
    else none
  | .LC, .activate =>
    if ctl.phase == .running && ctl.pending then some (own (.changeState .ACTIVE), { ctl with pending := false }) else none
  | .LC, .heartbeat =>
    if (ctl.phase == .running || ctl.phase == .stopping) && !ctl.pending then some (own .heartbeat, ctl) else none
  | .LC, .actor req =>
    if ctl.phase == .running && !ctl.pending && isActorReq .LC req then some (own req, ctl) else none
  | .LC, .stop =>
    if ctl.phase == .running && !ctl.pending then some (own (.changeState .LEAVING), { ctl with phase := .stopping }) else none
  | .LC, .stopDone =>
    if ctl.phase == .stopping then some (if unregister then own .unregister else .crash, { phase := .terminated }) else none
  | .LC, .startDone => none
  -- BasicLifecycler
  | .BLC, .start _ =>
    if canStart ctl.phase then
      some (own (.init []), { phase := .starting, observeArmed := c.observe && (blcTokens (res (.init [])).l).length != 0 })
    else none
  | .BLC, .observeTimer =>
    if ctl.phase == .starting && ctl.observeArmed then
      some (own .verify, if (res .verify).ret = .yes then { ctl with observeArmed := false } else ctl)
    else none
  | .BLC, .startDone =>
    if ctl.phase == .starting && !ctl.observeArmed then some (own .onTokens, { ctl with phase := .running }) else none
  | .BLC, .heartbeat =>
    if (ctl.phase == .starting && ctl.observeArmed) || ctl.phase == .running || ctl.phase == .stopping then
      some (own .heartbeat, ctl) else none
  | .BLC, .actor req =>
    if ctl.phase == .running && isActorReq .BLC req then some (own req, ctl) else none
  | .BLC, .stop =>
    if ctl.phase == .running then some (own .stopDelegate, { ctl with phase := .stopping })
    else if ctl.phase == .starting then some (.crash, { phase := .failed })
    else none
  | .BLC, .stopDone =>
    if ctl.phase == .stopping then some (if unregister then own .unregister else .crash, { phase := .terminated }) else none
  | .BLC, .joinTimer => none
  | .BLC, .activate => none

/-- n service loops and foreign writers on one ring -/
structure LSys where
  w : World
  ctl : Nat → Ctl := fun _ => {}

inductive LAct
  /-- one iteration (micro-step) of the loop of lifecycler `i` -/
  | loop (i : Nat) (ev : LEvent) (now : Int) (gen : Gen)
  /-- a foreign writer replaces the ring -/
  | env (store : Option Desc) (now : Int)

def setCtl (f : Nat → Ctl) (i : Nat) (c : Ctl) : Nat → Ctl := fun j => if j = i then c else f j

/-- the handler-level action of the world an `LAct` stands for (`none` = not enabled: nothing happens) -/
def lflat (unreg : Nat → Bool) (s : LSys) : LAct → Option (WAct × (Nat → Ctl))
  | .loop i ev now gen =>
    match s.w.nodes[i]? with
    | none => none
    | some nd =>
      match loopNext (unreg i) nd.cfg (s.ctl i) nd.l nd.file s.w.store ev now gen with
      | none => none
      | some (a, ctl') => some ({ idx := i, act := a }, setCtl s.ctl i ctl')
  | .env st now => some ({ idx := 0, act := .env st now }, s.ctl)

def lstep (unreg : Nat → Bool) (s : LSys) (a : LAct) : LSys :=
  match lflat unreg s a with
  | none => s
  | some (wa, ctl') => { w := s.w.next wa, ctl := ctl' }

def lrun (unreg : Nat → Bool) (s : LSys) (as : List LAct) : LSys := as.foldl (lstep unreg) s

/-- the flattened handler-level schedule of a loop schedule -/
def lflatten (unreg : Nat → Bool) : LSys → List LAct → List WAct
  | _, [] => []
  | s, a :: as =>
    match lflat unreg s a with
    | none => lflatten unreg s as
    | some (wa, _) => wa :: lflatten unreg (lstep unreg s a) as

end C08
