import Model.C08
/-!
# C09 — recovery after a crash at any point / store faults

The machines are C08's (`C08.step` with its `Fault` parameter, `C08.Sys` with `Act.crash`). This file adds
* the restart procedure as the real loops run it (`restartLC`, `restartBLC`),
* the tokens file as the file system sees it while `Tokens.StoreToFile` runs (temporary file + rename).
-/
namespace C09
open Ring C08

/-! ### the tokens file on disk -/

/-- `path` and `path.tmp` -/
structure FS where
  main : File
  tmp : File := .absent
  deriving DecidableEq, Repr, Inhabited

/-- the file-system operations of `Tokens.StoreToFile`, in order: `os.Create(path+".tmp")` (truncates),
`f.Write(json)` (possibly partial when the process dies inside), `os.Rename(tmp, path)` -/
inductive FsOp
  | createTmp
  | writeTmpPartial
  | writeTmp (t : List Nat)
  | rename
  deriving DecidableEq, Repr

def FS.apply (fs : FS) : FsOp → FS
  | .createTmp => { fs with tmp := .corrupt }          -- created TRUNCATED, whatever an interrupted earlier write left there: empty file, not valid JSON
  | .writeTmpPartial => { fs with tmp := .corrupt }
  | .writeTmp t => { fs with tmp := .tokens t }
  | .rename => { main := fs.tmp, tmp := .absent }

/-- `StoreToFile t` -/
def storeOps (t : List Nat) : List FsOp := [.createTmp, .writeTmp t, .rename]

/-- the process may die after any prefix of the operations, and also in the middle of the write -/
def crashedStore (fs : FS) (t : List Nat) (k : Nat) (midWrite : Bool) : FS :=
  let fs1 := ((storeOps t).take k).foldl FS.apply fs
  if midWrite ∧ k = 1 then fs1.apply .writeTmpPartial else fs1

/-- `StoreToFile t` run to its end; `writeFails` = `f.Write` returns an error after a partial write (disk full,
quota, file-size limit): the function returns that error BEFORE closing and renaming, the partial temporary file
stays behind "for debugging". Returns the file system and whether an error was returned. -/
def storeResult (fs : FS) (t : List Nat) (writeFails : Bool) : FS × Bool :=
  if writeFails then ((fs.apply .createTmp).apply .writeTmpPartial, true)
  else ((storeOps t).foldl FS.apply fs, false)

/-- length of `json.Marshal(tokensJSON{Tokens: t})` = `{"tokens":[a,b,...]}` -/
def jsonLen (t : List Nat) : Nat := ("{\"tokens\":[" ++ ",".intercalate (t.map toString) ++ "]}").length

/-- `LoadTokensFromFile(path)` never looks at the temporary file -/
def FS.load (fs : FS) : Option (List Nat) := fs.main.load

/-! ### restart -/

/-- what `Lifecycler.loop` does after a (re)start until the instance is ACTIVE: initRing, the join timer,
and — with an observe period — one successful observation followed by `changeState(ACTIVE)` -/
def restartLC (shuf : List Nat) (now : Int) (gen : Gen) : List Act :=
  [.own (.init shuf) now gen .none, .own .joinTimer now gen .none, .own .verify now gen .none,
   .own (.changeState .ACTIVE) now gen .none]

/-- `BasicLifecycler.starting` + the owner's `ChangeState(ACTIVE)` -/
def restartBLC (now : Int) (gen : Gen) : List Act :=
  [.own (.init []) now gen .none, .own .verify now gen .none, .own .onTokens now gen .none,
   .own (.changeState .ACTIVE) now gen .none]

/-! ### `waitBeforeJoining` (token generators with a can-join check)

Before the auto-join CAS, `autoJoin` calls `waitBeforeJoining`: without a can-join check it returns at once and
never reads the store; with one it retries, 1 s apart, `KVStore.Get` + `CanJoin` until an attempt succeeds or the
can-join timeout is over (`budget` attempts) — and then goes on REGARDLESS (the error is only logged; only a
cancelled parent context aborts the join). -/

/-- outcome of one attempt: the read fails, the store has no ring, `CanJoin` refuses, or all is fine -/
inductive Read | fail | noRing | refused | ok
  deriving DecidableEq, Repr, Inhabited

/-- number of attempts `waitBeforeJoining` makes on the stream `reads` starting at attempt `k` -/
def waitAttempts : Nat → (Nat → Read) → Nat → Nat
  | 0, _, _ => 0
  | budget + 1, reads, k => if reads k = .ok then 1 else 1 + waitAttempts budget reads (k + 1)

/-- the join timer of a full Lifecycler whose generator may have a can-join check: the handler's result and the
number of store reads it made first -/
def joinTimerWithReads (c : Cfg) (l : Local) (file : File) (store : Option Desc) (now : Int) (gen : Gen)
    (canJoin : Bool) (budget : Nat) (reads : Nat → Read) : Res × Nat :=
  (step c l file store .joinTimer now gen .none,
   if canJoin ∧ l.started = true ∧ l.state = .PENDING then waitAttempts budget reads 0 else 0)

end C09
