import Model.Common
/-!
# Shared ring data model (`ring/model.go`, `ring/ring.proto`)

`Desc` is the list of map entries `(id ↦ InstanceDesc)` in ascending id order (Go maps have no
order; every model function that iterates the map either is order-insensitive or takes the order
as a parameter). Tokens are `Nat` (< 2^32 in well-formed rings).

Line encoding (shared with `harness/cmd/corr/ringcodec.go`):
`desc  := "-" | inst (";" inst)*`
`inst  := id "/" addr "/" ts "/" state "/" tokens "/" zone "/" regTs "/" roTs "/" ro "/" versions`
`state := A | L | P | J | X` (ACTIVE, LEAVING, PENDING, JOINING, LEFT); strings use `~` for empty;
`tokens := "-" | n ("," n)*`; `ro := 0|1`; `versions := "-" | k ":" v ("," k ":" v)*`.
-/
namespace Ring
open Common

inductive State | ACTIVE | LEAVING | PENDING | JOINING | LEFT
  deriving DecidableEq, Repr, Inhabited

def State.code : State → String
  | .ACTIVE => "A" | .LEAVING => "L" | .PENDING => "P" | .JOINING => "J" | .LEFT => "X"

def State.ofCode : String → Option State
  | "A" => some .ACTIVE | "L" => some .LEAVING | "P" => some .PENDING | "J" => some .JOINING
  | "X" => some .LEFT | _ => none

/-- protobuf enum value -/
def State.toNat : State → Nat
  | .ACTIVE => 0 | .LEAVING => 1 | .PENDING => 2 | .JOINING => 3 | .LEFT => 4

structure Inst where
  id : String
  addr : String := ""
  ts : Int := 0
  state : State := .ACTIVE
  tokens : List Nat := []
  zone : String := ""
  regTs : Int := 0
  roTs : Int := 0
  ro : Bool := false
  versions : List (Nat × Nat) := []
  deriving DecidableEq, Repr, Inhabited

abbrev Desc := List Inst

def maxToken : Nat := 4294967295

def str? (s : String) : String := if s == "~" then "" else s
def showStr (s : String) : String := if s.isEmpty then "~" else s

def parseVersions (s : String) : Option (List (Nat × Nat)) :=
  if s == "-" then some [] else
  (s.splitOn ",").mapM fun kv => match kv.splitOn ":" with
    | [k, v] => do pure ((← k.toNat?), (← v.toNat?))
    | _ => none

def showVersions (l : List (Nat × Nat)) : String :=
  if l.isEmpty then "-" else ",".intercalate (l.map fun (k, v) => s!"{k}:{v}")

def parseInst (s : String) : Option Inst :=
  match s.splitOn "/" with
  | [id, addr, ts, st, toks, zone, reg, rots, ro, vers] => do
    let ts ← ts.toInt?
    let st ← State.ofCode st
    let toks ← natList? toks
    let reg ← reg.toInt?
    let rots ← rots.toInt?
    let vers ← parseVersions vers
    pure { id := str? id, addr := str? addr, ts := ts, state := st, tokens := toks, zone := str? zone,
           regTs := reg, roTs := rots, ro := ro == "1", versions := vers }
  | _ => none

def parseDesc (s : String) : Option Desc :=
  if s == "-" then some [] else (s.splitOn ";").mapM parseInst

def showInst (i : Inst) : String :=
  "/".intercalate [showStr i.id, showStr i.addr, toString i.ts, i.state.code, showNatList i.tokens,
    showStr i.zone, toString i.regTs, toString i.roTs, (if i.ro then "1" else "0"), showVersions i.versions]

def showDesc (d : Desc) : String := if d.isEmpty then "-" else ";".intercalate (d.map showInst)

def Desc.get? (d : Desc) (id : String) : Option Inst := d.find? (·.id == id)

/-- insertion sort of naturals (used wherever Go sorts tokens). -/
def insertNat (x : Nat) : List Nat → List Nat
  | [] => [x]
  | y :: ys => if x ≤ y then x :: y :: ys else y :: insertNat x ys
def sortNat (l : List Nat) : List Nat := l.foldr insertNat []

/-- all (token, instance) pairs of the ring, ascending by token (stable in instance order). -/
def insertTok (x : Nat × Inst) : List (Nat × Inst) → List (Nat × Inst)
  | [] => [x]
  | y :: ys => if x.1 ≤ y.1 then x :: y :: ys else y :: insertTok x ys
def Desc.tokenOwners (d : Desc) : List (Nat × Inst) :=
  (d.flatMap fun i => i.tokens.map fun t => (t, i)).foldr insertTok []

end Ring
