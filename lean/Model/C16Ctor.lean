import Model.C16
/-!
# C16 — `NewSpreadMinimizingTokenGenerator`: from (instance name, zone name, configured zones) to
(instance index, zone index)

`ring/spread_minimizing_token_generator.go`: the zone list must have 1..`maxZonesCount` entries; it is
copied and sorted (Go string order = bytewise; the harness uses ASCII names); the zone index is the
position of the instance's zone in the sorted list (`findZoneID` = `slices.Index`, *not found* is an
error); the instance index is the decimal suffix after the last `-` (`^(.*-)(\d+)$` + `Atoi`).
-/
namespace C16

inductive CtorErr
  | zoneCount       -- errorZoneCountOutOfBound
  | zoneNotValid    -- errorZoneNotValid
  | badInstanceID   -- errorBadInstanceIDFormat / Atoi error
  deriving DecidableEq, Repr

def CtorErr.name : CtorErr → String
  | .zoneCount => "zoneCount" | .zoneNotValid => "zoneNotValid" | .badInstanceID => "badInstanceID"

/-- `slices.Index(sortedZones, zone)`. -/
def indexOf (zone : String) : List String → Option Nat
  | [] => none
  | a :: r => if a == zone then some 0 else (indexOf zone r).map (· + 1)

/-- `findZoneID`. -/
def findZoneID (zone : String) (sortedZones : List String) : Except CtorErr Nat :=
  match indexOf zone sortedZones with
  | some i => .ok i
  | none => .error .zoneNotValid

def sortZones (zones : List String) : List String := zones.mergeSort (fun a b => decide (a ≤ b))

/-- `parseInstanceID`: the part after the last `-` must be a non-empty string of ASCII digits. -/
def parseInstanceID (inst : String) : Except CtorErr Nat :=
  match inst.splitOn "-" with
  | [] => .error .badInstanceID
  | [_] => .error .badInstanceID                 -- no `-` at all
  | parts =>
    let last := parts.getLastD ""
    if last.isEmpty ∨ !(last.all Char.isDigit) then .error .badInstanceID
    else match last.toNat? with
      | some n => if n < 9223372036854775808 then .ok n else .error .badInstanceID   -- strconv.Atoi range
      | none => .error .badInstanceID

/-- `NewSpreadMinimizingTokenGenerator`: (instance index, zone index). The zone is looked up before
the instance name is parsed. -/
def newGenerator (inst zone : String) (zones : List String) : Except CtorErr (Nat × Nat) :=
  if zones.length = 0 ∨ zones.length > maxZonesCount then .error .zoneCount
  else match findZoneID zone (sortZones zones) with
    | .error e => .error e
    | .ok z => match parseInstanceID inst with
      | .error e => .error e
      | .ok n => .ok (n, z)

end C16
