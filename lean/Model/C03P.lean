import Model.Common
/-!
# C03 (partition ring) — `PartitionRingDesc.mergeWithTime`, `RemoveTombstones`
(`ring/partition_ring_model.go`)

Line encoding (shared with `harness/cmd/corr/partcodec.go`):
`pdesc := parts "#" owners`
`parts := "-" | part (";" part)*`, `part := id "/" tokens "/" state "/" stateTs "/" locked "/" lockedTs`
`owners := "-" | owner (";" owner)*`, `owner := id "/" partition "/" state "/" updatedTs`
states are the protobuf enum numbers (partition: 0 Unknown, 1 Pending, 2 Active, 3 Inactive,
4 Deleted; owner: 0 Unknown, 1 Active, 2 Deleted).
-/
namespace C03P
open Common

structure Part where
  id : Int
  tokens : List Nat := []
  state : Nat := 0
  stateTs : Int := 0
  locked : Bool := false
  lockedTs : Int := 0
  deriving DecidableEq, Repr, Inhabited

structure Owner where
  id : String
  part : Int := 0
  state : Nat := 0
  ts : Int := 0
  deriving DecidableEq, Repr, Inhabited

structure PDesc where
  parts : List Part := []
  owners : List Owner := []
  deriving DecidableEq, Repr, Inhabited

def partDeleted : Nat := 4
def ownerDeleted : Nat := 2

def getP (l : List Part) (id : Int) : Option Part :=
  match l with
  | [] => none
  | x :: xs => if x.id = id then some x else getP xs id

def upsertP (e : Part) : List Part → List Part
  | [] => [e]
  | x :: xs => if x.id = e.id then e :: xs else x :: upsertP e xs

def getO (l : List Owner) (id : String) : Option Owner :=
  match l with
  | [] => none
  | x :: xs => if x.id = id then some x else getO xs id

def upsertO (e : Owner) : List Owner → List Owner
  | [] => [e]
  | x :: xs => if x.id = e.id then e :: xs else x :: upsertO e xs

/-- per-partition merge: `none` = no change for this partition. -/
def mergePart (t : Option Part) (o : Part) : Option Part :=
  match t with
  | none => some o
  | some t =>
    let c1 := o.stateTs > t.stateTs ∨ (o.stateTs = t.stateTs ∧ o.state = partDeleted ∧ t.state ≠ partDeleted)
    let t1 := if c1 then { t with state := o.state, stateTs := o.stateTs } else t
    let c2 := o.lockedTs > t.lockedTs
    let t2 := if c2 then { t1 with locked := o.locked, lockedTs := o.lockedTs } else t1
    if c1 ∨ c2 then some t2 else none

/-- per-owner merge; a missing owner reads as the zero value (timestamp 0, state Unknown). -/
def ownerAccept (t : Option Owner) (o : Owner) : Bool :=
  let tts : Int := match t with | none => 0 | some t => t.ts
  let tDel : Bool := match t with | none => false | some t => t.state == ownerDeleted
  o.ts > tts || (o.ts == tts && o.state == ownerDeleted && !tDel)

structure Acc where
  this : PDesc
  chP : List Part
  chO : List Owner

def stepPart (acc : Acc) (o : Part) : Acc :=
  match mergePart (getP acc.this.parts o.id) o with
  | none => acc
  | some p => { acc with this := { acc.this with parts := upsertP p acc.this.parts }, chP := upsertP p acc.chP }

def casPart (other : PDesc) (now : Int) (acc : Acc) (t : Part) : Acc :=
  if (getP other.parts t.id).isNone ∧ t.state ≠ partDeleted then
    let p := { t with state := partDeleted, stateTs := now }
    { acc with this := { acc.this with parts := upsertP p acc.this.parts }, chP := upsertP p acc.chP }
  else acc

def stepOwner (acc : Acc) (o : Owner) : Acc :=
  if ownerAccept (getO acc.this.owners o.id) o then
    { acc with this := { acc.this with owners := upsertO o acc.this.owners }, chO := upsertO o acc.chO }
  else acc

def casOwner (other : PDesc) (now : Int) (acc : Acc) (t : Owner) : Acc :=
  if (getO other.owners t.id).isNone ∧ t.state ≠ ownerDeleted then
    let o := { t with state := ownerDeleted, ts := now }
    { acc with this := { acc.this with owners := upsertO o acc.this.owners }, chO := upsertO o acc.chO }
  else acc

structure MergeOut where
  state : PDesc
  change : Option PDesc

/-- `PartitionRingDesc.mergeWithTime(other, localCAS, now)`. -/
def merge (cas : Bool) (now : Int) (this other : PDesc) : MergeOut :=
  let acc := other.parts.foldl stepPart { this := this, chP := [], chO := [] }
  let acc := if cas then acc.this.parts.foldl (casPart other now) acc else acc
  let acc := other.owners.foldl stepOwner acc
  let acc := if cas then acc.this.owners.foldl (casOwner other now) acc else acc
  if acc.chP.isEmpty ∧ acc.chO.isEmpty then { state := acc.this, change := none }
  else { state := acc.this, change := some { parts := acc.chP, owners := acc.chO } }

def mergeState (this other : PDesc) : PDesc := (merge false 0 this other).state

/-- `RemoveTombstones(limit)`; `none` = zero time. -/
def removeTombstones (limit : Option Int) (d : PDesc) : PDesc :=
  let old (ts : Int) : Bool := match limit with | none => true | some l => ts < l
  { parts := d.parts.filter fun p => !(p.state == partDeleted && old p.stateTs),
    owners := d.owners.filter fun o => !(o.state == ownerDeleted && old o.ts) }

/-! ## codec -/

def parsePart (s : String) : Option Part :=
  match s.splitOn "/" with
  | [id, toks, st, sts, lk, lts] => do
    pure { id := (← id.toInt?), tokens := (← natList? toks), state := (← st.toNat?), stateTs := (← sts.toInt?),
           locked := lk == "1", lockedTs := (← lts.toInt?) }
  | _ => none

def parseOwner (s : String) : Option Owner :=
  match s.splitOn "/" with
  | [id, p, st, ts] => do
    pure { id := if id == "~" then "" else id, part := (← p.toInt?), state := (← st.toNat?), ts := (← ts.toInt?) }
  | _ => none

def parsePDesc (s : String) : Option PDesc :=
  match s.splitOn "#" with
  | [ps, os] => do
    let parts ← if ps == "-" then some [] else (ps.splitOn ";").mapM parsePart
    let owners ← if os == "-" then some [] else (os.splitOn ";").mapM parseOwner
    pure { parts := parts, owners := owners }
  | _ => none

def showPart (p : Part) : String :=
  "/".intercalate [toString p.id, showNatList p.tokens, toString p.state, toString p.stateTs,
    (if p.locked then "1" else "0"), toString p.lockedTs]

def showOwner (o : Owner) : String :=
  "/".intercalate [(if o.id.isEmpty then "~" else o.id), toString o.part, toString o.state, toString o.ts]

def insertPartById (x : Part) : List Part → List Part
  | [] => [x]
  | y :: ys => if x.id ≤ y.id then x :: y :: ys else y :: insertPartById x ys
def insertOwnerById (x : Owner) : List Owner → List Owner
  | [] => [x]
  | y :: ys => if x.id ≤ y.id then x :: y :: ys else y :: insertOwnerById x ys

/-- canonical display: partitions by id, owners by id -/
def showPDesc (d : PDesc) : String :=
  let ps := d.parts.foldr insertPartById []
  let os := d.owners.foldr insertOwnerById []
  (if ps.isEmpty then "-" else ";".intercalate (ps.map showPart)) ++ "#" ++
  (if os.isEmpty then "-" else ";".intercalate (os.map showOwner))

end C03P
