/-
Shared, core-only helpers for the executable models and the oracle line protocol.
Nothing here imports Mathlib, so the `oracle` executable links.
-/
deriving instance DecidableEq for Except

namespace Common

/-- Byte strings are lists of bytes; Go `string` comparison is bytewise lexicographic. -/
abbrev Bytes := List UInt8

def hexDigit (c : Char) : Option Nat :=
  if '0' ≤ c ∧ c ≤ '9' then some (c.toNat - '0'.toNat)
  else if 'a' ≤ c ∧ c ≤ 'f' then some (c.toNat - 'a'.toNat + 10)
  else none

def hexDecodeAux : List Char → Option Bytes
  | [] => some []
  | [_] => none
  | a :: b :: rest =>
    match hexDigit a, hexDigit b, hexDecodeAux rest with
    | some x, some y, some r => some (UInt8.ofNat (x * 16 + y) :: r)
    | _, _, _ => none

/-- `-` encodes the empty string so that fields are never empty. -/
def hexDecode (s : String) : Option Bytes :=
  if s = "-" then some [] else hexDecodeAux s.toList

def hexChar (n : Nat) : Char :=
  if n < 10 then Char.ofNat (n + '0'.toNat) else Char.ofNat (n - 10 + 'a'.toNat)

def hexEncode (b : Bytes) : String :=
  if b.isEmpty then "-" else
  String.ofList (b.flatMap fun c => [hexChar (c.toNat / 16), hexChar (c.toNat % 16)])

/-- lexicographic `<` on byte strings (Go's string `<`). -/
def bytesLt : Bytes → Bytes → Bool
  | [], [] => false
  | [], _ :: _ => true
  | _ :: _, [] => false
  | a :: as, b :: bs => if a < b then true else if b < a then false else bytesLt as bs

def bytesLe (a b : Bytes) : Bool := !bytesLt b a

/-- Split on a separator byte, like Go's `strings.Split(s, string(sep))`: always non-empty. -/
def splitOn (sep : UInt8) : Bytes → List Bytes
  | [] => [[]]
  | c :: cs =>
    match splitOn sep cs with
    | [] => [[]]   -- unreachable; keeps the function total
    | p :: ps => if c = sep then [] :: p :: ps else (c :: p) :: ps

def joinWith (sep : String) (l : List String) : String := sep.intercalate l

def natList? (s : String) : Option (List Nat) :=
  if s = "-" ∨ s = "" then some [] else (s.splitOn ",").mapM String.toNat?

def showNatList (l : List Nat) : String :=
  if l.isEmpty then "-" else ",".intercalate (l.map toString)

def fields (line : String) : List String := line.splitOn "\t"

end Common
