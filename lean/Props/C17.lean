import Model.C17
import Generated.C17
import Proofs.C17
import Proofs.C17.Fn
import Proofs.C17.Svc
import Proofs.C17.Manager
import Proofs.C17.FW
import Proofs.C17.System
import Proofs.C17.Live
import Proofs.C17.Late
import Model.C17Snap
import Proofs.C17.Snap
/-!
# C17 — property theorems (statements; proofs live in `Proofs/C17*.lean`)

A *reachable* service state is `run (init hasStart hasRun hasStop) evs` for an arbitrary list of events
`evs` (StartAsync / StopAsync / parent cancel / one step of `main()` / the return of a function with
any result / AddListener / remove / one listener callback): every theorem below is for every such
list, i.e. for every interleaving, of any length, with any function outcomes and any nil functions.
Events that are not enabled leave the state unchanged, so no guard on `evs` is needed.
-/
namespace PC17
open C17 PfC17

/-- the regenerated `services.State` constants equal the model's. -/
theorem generated_states :
    Generated.C17.stateValues = SState.all.map (fun s => (s.name, s.toNat)) := by
  decide

/-! ### one service -/

/-- The transitions made so far form a path of legal edges from New to the current state
(New→Starting→Running→Stopping→Terminated, Starting→Stopping, Failed from Starting/Stopping,
Terminated from New), so there are at most four of them. -/
theorem legal_edges (a b c : Bool) (evs : List Ev) :
    let s := run (init a b c) evs
    chainEnd .new s.trans = some s.st ∧ (∀ n ∈ s.trans, legalEdge n.frm n.to = true) ∧ s.trans.length ≤ 4 := by
  intro s
  have hc := (inv_run a b c evs).1
  exact ⟨hc.chain, chain_legal _ _ _ hc.chain, Nat.le_trans hc.len (rank_le_four _)⟩

/-- A service never moves backwards, and a terminal state is final. -/
theorem state_only_advances (a b c : Bool) (evs more : List Ev) :
    let s := run (init a b c) evs
    s.st.rank ≤ (run s more).st.rank ∧ (s.st.terminal = true → (run s more).st = s.st ∧ (run s more).trans = s.trans) := by
  intro s
  have hc := (inv_run a b c evs).1
  exact ⟨rank_mono s hc more, fun ht => terminal_stable s hc ht more⟩

/-- The three functions run at most once each and in the order start, run, stop (the kinds 0,1,2 of
the invocation log are strictly increasing); a nil function is never invoked. -/
theorem fn_order_once (a b c : Bool) (evs : List Ev) :
    let s := run (init a b c) evs
    (s.calls.map Call.kind).Pairwise (· < ·) ∧
    (∀ cl ∈ s.calls, (Call.kind cl = 0 → s.hasStart = true) ∧ (Call.kind cl = 1 → s.hasRun = true) ∧
      (Call.kind cl = 2 → s.hasStop = true)) := by
  intro s
  have hf := (inv_run a b c evs).2
  exact ⟨hf.order, fun cl h => ⟨hf.cfgStart cl h, hf.cfgRun cl h, hf.cfgStop cl h⟩⟩

/-- The stopping function runs only if starting succeeded, and once the service is terminal it HAS run
if and only if starting succeeded (`startOk`: startFn returned nil, or is nil and the service was started). -/
theorem stop_iff_started (a b c : Bool) (evs : List Ev) :
    let s := run (init a b c) evs
    (stopRan s → s.startOk = true) ∧
    (s.st.terminal = true → s.hasStop = true → (stopRan s ↔ s.startOk = true)) := by
  intro s
  obtain ⟨hc, hf⟩ := inv_run a b c evs
  exact ⟨hf.stopImp, fun ht hs => PfC17.stop_iff_started s hc hf ht hs⟩

/-- non-vacuity: a run in which starting succeeds, the service becomes terminal and the stop function has run … -/
example : let s := run (init true true true) [.startAsync, .tau, .startRet none, .tau, .tau, .tau, .runRet (some 2),
      .tau, .tau, .tau, .stopRet (some 3), .tau]
    s.st = .failed ∧ s.failure = some 2 ∧ s.startOk = true ∧ s.calls = [.start false, .run false, .stop true (some 2)] := by
  decide
/-- … and one in which starting fails and it never runs. -/
example : let s := run (init true true true) [.startAsync, .tau, .startRet (some 1), .tau]
    s.st = .failed ∧ s.startOk = false ∧ s.calls = [.start false] := by
  decide

/-- The service context is already cancelled whenever the stopping function is entered. -/
theorem ctx_cancelled_before_stop (a b c : Bool) (evs : List Ev) :
    ∀ ctxC f, Call.stop ctxC f ∈ (run (init a b c) evs).calls → ctxC = true :=
  (inv_run a b c evs).2.stopCtx

/-- Neither latch is closed twice, `mustSwitchState` never panics, no notification is sent on a closed
listener channel. -/
theorem no_double_close (a b c : Bool) (evs : List Ev) :
    let s := run (init a b c) evs
    s.runClosed ≤ 1 ∧ s.termClosed ≤ 1 ∧ s.bad = [] := by
  intro s
  have hc := (inv_run a b c evs).1
  exact ⟨(latch_counts _ hc).1, (latch_counts _ hc).2, hc.bad⟩

/-- No send to a listener ever blocks: a registered listener's channel never holds more than its
capacity (4), whatever the listener does (including never returning from a callback). -/
theorem no_blocked_listener (a b c : Bool) (evs : List Ev) :
    let s := run (init a b c) evs
    (∀ bd ∈ s.bad, bd ≠ Bad.blockedSend) ∧ ∀ l ∈ s.lsns, l.removed = false → l.queue.length ≤ listenerCap := by
  intro s
  have hc := (inv_run a b c evs).1
  refine ⟨by rw [hc.bad]; simp, fun l hl hr => ?_⟩
  have := queue_bound s hc l hl hr
  omega

/-- Waiters: `AwaitRunning` is released exactly when Running has been reached or can no longer be
reached (the state is past Starting; by `state_only_advances` it then never becomes Running again, and
while the state is New/Starting it still can), and returns nil exactly in state Running;
`AwaitTerminated` is released exactly in a terminal state and returns nil exactly in Terminated. -/
theorem waiters_exact (a b c : Bool) (evs : List Ev) :
    let s := run (init a b c) evs
    (awaitRunning s = none ↔ s.st = .new ∨ s.st = .starting) ∧
    (awaitRunning s = some .ok ↔ s.st = .running) ∧
    (awaitTerminated s = none ↔ s.st.terminal = false) ∧
    (awaitTerminated s = some .ok ↔ s.st = .terminated) :=
  latch_facts _ (inv_run a b c evs).1

/-- The latches stay closed: a waiter that has been released reads the state *later* (Go: `awaitState` calls
`State()` after waking), in some state `run s more`; whatever that state is, the call no longer blocks, and it
returns nil iff the state it reads is (still) Running / Terminated. (So `AwaitRunning` can return an error although
Running was reached, when the service has moved on before the waiter looked: the value is that of the read.) -/
theorem released_waiter_stays_released (a b c : Bool) (evs more : List Ev) :
    let s := run (init a b c) evs
    (awaitRunning s ≠ none → awaitRunning (run s more) ≠ none) ∧
    (awaitTerminated s ≠ none → awaitTerminated (run s more) ≠ none ∧ (run s more).st = s.st) :=
  waiter_stays _ (inv_run a b c evs).1 more

/-- Waiter contexts: a waiter whose own context is cancelled always returns (with the context's error, or with
the latch's result if that is ready too — `select` may take either); with a live context the outcome is the
single one of `waiters_exact`. -/
theorem cancelled_waiter_returns (a b c : Bool) (evs : List Ev) :
    let s := run (init a b c) evs
    (WaitOut.blocked ∉ awaitRunningCtx s true ∧ WaitOut.ctxErr ∈ awaitRunningCtx s true) ∧
    (WaitOut.blocked ∉ awaitTerminatedCtx s true ∧ WaitOut.ctxErr ∈ awaitTerminatedCtx s true) ∧
    (awaitRunningCtx s false = [match awaitRunning s with | none => .blocked | some r => .res r]) ∧
    (awaitTerminatedCtx s false = [match awaitTerminated s with | none => .blocked | some r => .res r]) := by
  intro s
  unfold awaitRunningCtx awaitTerminatedCtx
  cases awaitRunning s <;> cases awaitTerminated s <;> simp

/-- Once the state is past Running, Running is never reached (again): the release of the waiters is final. -/
theorem running_unreachable (a b c : Bool) (evs more : List Ev)
    (h : 3 ≤ (run (init a b c) evs).st.rank) : (run (run (init a b c) evs) more).st ≠ .running :=
  running_unreachable' _ (inv_run a b c evs).1 h more

example : 3 ≤ (run (init true true true) [.startAsync, .stopAsync, .tau, .startRet none, .tau, .tau]).st.rank := by decide

/-- The failure cause is the first error any of the functions returned; the service ends Failed iff
some function returned an error; a non-terminal service has no failure cause. -/
theorem failure_is_first_error (a b c : Bool) (evs : List Ev) :
    let s := run (init a b c) evs
    (s.st.terminal = true → s.failure = s.errs.head? ∧ (s.st = .failed ↔ s.errs ≠ [])) ∧
    (s.st.terminal = false → s.failure = none) := by
  intro s
  obtain ⟨hc, hf⟩ := inv_run a b c evs
  exact failure_facts s hc hf

/-- Every listener that is still registered has received or has queued, in order and exactly once,
every transition made since its registration; a removed listener has received a prefix of them.
(`seen` = callbacks begun. That they never overlap: `one_callback_at_a_time`.) -/
theorem listener_sees_all_in_order (a b c : Bool) (evs : List Ev) :
    let s := run (init a b c) evs
    ∀ l ∈ s.lsns, l.regAt ≤ s.trans.length ∧
      (l.removed = false → l.seen ++ l.queue = s.trans.drop l.regAt) ∧
      (l.removed = true → l.seen <+: s.trans.drop l.regAt) := by
  intro s l hl
  have hok := (inv_run a b c evs).1.lsn l hl
  exact ⟨hok.reg, fun h => (hok.live h).1, hok.gone⟩

/-- **One callback at a time.** A callback is two events — the listener's goroutine takes the notification
and enters the callback (`deliver`), the callback returns (`deliverEnd`) — with any other events of the
service, and any events of other listeners, in between. For every listener and every interleaving at most
one of its callbacks is executing, and it is executing exactly while the goroutine is `busy`; the next one
begins only after the previous one has returned (`deliver` on a busy listener changes nothing). -/
theorem one_callback_at_a_time (a b c : Bool) (evs : List Ev) :
    let s := run (init a b c) evs
    (∀ l ∈ s.lsns, l.inCb ≤ 1 ∧ (l.inCb = 1 ↔ l.busy = true)) ∧
    ∀ id, (∀ l ∈ s.lsns, l.id = id → l.busy = true) → (step s (.deliver id)).lsns = s.lsns := by
  intro s
  have hc := (inv_run a b c evs).1
  refine ⟨fun l hl => ?_, fun id hb => ?_⟩
  · have := (hc.lsn l hl).cb
    cases hbz : l.busy <;> simp [hbz] at this <;> simp [this]
  · exact deliver_busy_noop s.lsns id hb

/-- non-vacuity: two transitions are queued for a slow listener; the second callback cannot begin before the
first has returned. -/
example :
    let s := run (init true true true) [.addListener, .startAsync, .tau, .startRet none, .tau, .tau, .deliver 0]
    let s1 := step s (.deliver 0)
    let s2 := step (step s (.deliverEnd 0)) (.deliver 0)
    s.lsns.map (fun l => (l.seen, l.queue, l.inCb)) = [([.starting], [.running], 1)] ∧ s1.lsns = s.lsns ∧
    s2.lsns.map (fun l => (l.seen, l.queue, l.inCb)) = [([.starting, .running], [], 1)] := by
  decide

/-- What a listener registered before the first transition (such as the manager's) is handed next is a
legal edge out of the state its previous callbacks led to — the hypothesis `LegalFeed` of the manager
theorems below is therefore met by real services. -/
theorem manager_feed_is_legal (a b c : Bool) (evs : List Ev) (l : Lsn) (n : Notif) (q : List Notif)
    (hl : l ∈ (run (init a b c) evs).lsns) (hr : l.removed = false) (h0 : l.regAt = 0) (hq : l.queue = n :: q) :
    ∃ cur, chainEnd .new l.seen = some cur ∧ n.frm = cur ∧ legalEdge cur n.to = true :=
  listener_feed_legal _ (inv_run a b c evs).1 l hl hr h0 n q hq

example : let s := run (init true true true) [.addListener, .startAsync, .tau, .deliver 0, .startRet none, .tau, .tau]
    ∃ l ∈ s.lsns, l.removed = false ∧ l.regAt = 0 ∧ l.seen = [.starting] ∧ l.queue = [.running] := by
  refine ⟨_, List.mem_cons_self .., ?_⟩
  decide

/-! ### manager

`vs = viewsAfter (replicate n New) evs` is the state of each service according to the notifications
the manager has been handed; `LegalFeed` says each service's notifications arrive in the service's own
legal order, with ANY interleaving across services and with AddListener / remove / callbacks of the
manager's listeners anywhere in between. -/

/-- AS NOTIFIED: the manager is healthy exactly while every service's last notification handed to the manager
says Running, stopped exactly when they all say Terminated/Failed (`viewsAfter`). A service can already be
Stopping while its notification is still queued and the manager still reports healthy; the statement about the
services' REAL states is `system_healthy_iff_all_running_when_drained`. -/
theorem healthy_iff_all_running (n : Nat) (hn : 0 < n) (evs : List MEv) (hl : LegalFeed (List.replicate n .new) evs) :
    ((Mgr.init n).run evs).state = .healthy ↔ ∀ x ∈ viewsAfter (List.replicate n .new) evs, x = .running :=
  (minv_run _ _ evs (minv_init n hn) hl).rest.stH

theorem stopped_iff_all_terminal (n : Nat) (hn : 0 < n) (evs : List MEv) (hl : LegalFeed (List.replicate n .new) evs) :
    ((Mgr.init n).run evs).state = .stopped ↔ ∀ x ∈ viewsAfter (List.replicate n .new) evs, x.terminal = true :=
  (minv_run _ _ evs (minv_init n hn) hl).rest.stZ

/-- non-vacuity: two services, interleaved legal feed reaching healthy, then one fails. -/
example : LegalFeed (List.replicate 2 .new)
    [.changed 1 .starting, .changed 0 .starting, .addListener, .changed 0 .running, .changed 1 .running,
     .changed 1 (.stopping .running), .deliver 0, .changed 1 (.failed .stopping 5)] := by
  refine ⟨⟨by decide, by decide, by decide⟩, ⟨by decide, by decide, by decide⟩, ⟨by decide, by decide, by decide⟩,
    ⟨by decide, by decide, by decide⟩, ⟨by decide, by decide, by decide⟩, ⟨by decide, by decide, by decide⟩, trivial⟩

/-- `ServicesByState` partitions the services: service `i` is listed (once) under its current view. -/
theorem services_by_state (n : Nat) (hn : 0 < n) (evs : List MEv) (hl : LegalFeed (List.replicate n .new) evs) :
    let m := (Mgr.init n).run evs
    let vs := viewsAfter (List.replicate n .new) evs
    vs.length = n ∧ (∀ i (h : i < vs.length), i ∈ m.byState vs[i]) ∧ ∀ st, (m.byState st).length = vs.count st := by
  intro m vs
  have h := (minv_run _ _ evs (minv_init n hn) hl).cnt
  exact ⟨by simp [vs, viewsAfter_length], h.mem, h.cnt⟩

/-- Each failed service is reported to the manager's listeners exactly once, a service that has not
failed never. -/
theorem failure_reported_once (n : Nat) (hn : 0 < n) (evs : List MEv) (hl : LegalFeed (List.replicate n .new) evs) :
    let m := (Mgr.init n).run evs
    let vs := viewsAfter (List.replicate n .new) evs
    ∀ j (h : j < vs.length), m.log.count (.failure j) = if vs[j] = .failed then 1 else 0 :=
  (minv_run _ _ evs (minv_init n hn) hl).rest.fail

/-- `healthyCh` and `stoppedCh` are closed at most once; Healthy and Stopped are notified at most once;
`AwaitHealthy` is released exactly when health was reached or has become impossible (some service is
Stopping/Terminated/Failed); `AwaitStopped` exactly when all services are terminal. -/
theorem manager_latches (n : Nat) (hn : 0 < n) (evs : List MEv) (hl : LegalFeed (List.replicate n .new) evs) :
    let m := (Mgr.init n).run evs
    let vs := viewsAfter (List.replicate n .new) evs
    m.healthyCloses ≤ 1 ∧ m.stoppedCloses ≤ 1 ∧ m.log.count .healthy ≤ 1 ∧ m.log.count .stopped ≤ 1 ∧
    (m.awaitHealthy ≠ none ↔ (m.log.count .healthy = 1 ∨ ∃ x ∈ vs, 3 ≤ x.rank)) ∧
    (m.awaitStopped ≠ none ↔ ∀ x ∈ vs, x.terminal = true) :=
  latches_of_minv _ _ (minv_run _ _ evs (minv_init n hn) hl)

/-- The manager never blocks on, or sends on a closed, listener channel (at most n+2 notifications are
ever broadcast), and every registered manager listener receives every notification since its
registration once and in order. -/
theorem manager_listeners (n : Nat) (hn : 0 < n) (evs : List MEv) (hl : LegalFeed (List.replicate n .new) evs) :
    let m := (Mgr.init n).run evs
    m.bad = [] ∧ m.log.length ≤ n + 2 ∧
    ∀ l ∈ m.lsns, (l.removed = false → l.seen ++ l.queue = m.log.drop l.regAt) ∧
                  (l.removed = true → l.seen <+: m.log.drop l.regAt) := by
  have h := listeners_of_minv _ _ (minv_run _ _ evs (minv_init n hn) hl)
  rw [viewsAfter_length, List.length_replicate] at h
  exact h

/-! ### services and manager composed

`System`: n real service machines (any nil-function configuration each) whose first listener is the
manager's, plus the manager; events = any event of any service, the hand-over of a service's next
notification to the manager, and the manager's own listeners — in ANY interleaving. No hypothesis on
the feed is left: it is discharged by the service theorems. -/

/-- In every reachable state of the composed system the manager is healthy exactly while every service
is Running and stopped exactly when every service is terminal, *as far as the manager has been told*
(`viewOf`); each failed service has been reported once; and a service whose notifications have all been
handed over is seen in its real state. -/
theorem system_manager_tracks_services (cfgs : List (Bool × Bool × Bool)) (hne : cfgs ≠ []) (evs : List SysEv) :
    let y := (System.init cfgs).run evs
    (y.mgr.state = .healthy ↔ ∀ s ∈ y.svcs, viewOf s = .running) ∧
    (y.mgr.state = .stopped ↔ ∀ s ∈ y.svcs, (viewOf s).terminal = true) ∧
    (∀ j (h : j < y.svcs.length), y.mgr.log.count (.failure j) = if viewOf y.svcs[j] = .failed then 1 else 0) ∧
    (∀ s ∈ y.svcs, nextForManager s = none → viewOf s = s.st) ∧
    y.mgr.bad = [] ∧ y.mgr.healthyCloses ≤ 1 ∧ y.mgr.stoppedCloses ≤ 1 :=
  system_facts _ (yinv_run _ evs (yinv_init cfgs hne))

/-- Hence, once every notification has been handed over: healthy iff all services really are Running,
stopped iff all really are Terminated or Failed. -/
theorem system_healthy_iff_all_running_when_drained (cfgs : List (Bool × Bool × Bool)) (hne : cfgs ≠ [])
    (evs : List SysEv) (hd : ∀ s ∈ ((System.init cfgs).run evs).svcs, nextForManager s = none) :
    let y := (System.init cfgs).run evs
    (y.mgr.state = .healthy ↔ ∀ s ∈ y.svcs, s.st = .running) ∧
    (y.mgr.state = .stopped ↔ ∀ s ∈ y.svcs, s.st.terminal = true) :=
  system_drained _ (yinv_run _ evs (yinv_init cfgs hne)) hd

/-- non-vacuity: two services started, run, notifications handed over in interleaved order: healthy and drained. -/
example :
    let y := (System.init [(true, true, true), (false, true, true)]).run
      [.svc 0 .startAsync, .svc 1 .startAsync, .svc 1 .tau, .svc 1 .tau, .svc 1 .tau, .svc 1 .tau, .svc 0 .tau,
       .handover 1, .svc 0 (.startRet none), .svc 0 .tau, .svc 0 .tau, .handover 0, .handover 1, .svc 0 .tau, .handover 0]
    y.mgr.state = .healthy ∧ y.svcs.map (·.st) = [.running, .running] ∧ y.svcs.map nextForManager = [none, none] := by
  decide

/-! ### liveness without fairness: everything can always finish -/

/-- **A service can always finish.** From every reachable state the fixed, computable schedule `svcFinish`
(StopAsync, then let `main()` run and every function return nil) leaves the service Terminated or Failed:
no reachable state is a deadlock, whatever happened before (any interleaving, any errors, any listeners). -/
theorem service_can_always_finish (a b c : Bool) (evs : List Ev) :
    (run (run (init a b c) evs) svcFinish).st.terminal = true :=
  (svcFinish_terminal _ (inv_run a b c evs).1).1

/-- **Services + manager can always finish.** From every reachable state of the composed system the
schedule `sysFinish n` (finish each service, hand its notifications to the manager) leaves every service
Terminated or Failed and the manager Stopped, with `stoppedCh` closed exactly once (so every
`AwaitStopped` has returned). -/
theorem system_can_always_finish (cfgs : List (Bool × Bool × Bool)) (hne : cfgs ≠ []) (evs : List SysEv) :
    let y := (System.init cfgs).run evs
    let y' := y.run (sysFinish y.svcs.length)
    (∀ s ∈ y'.svcs, s.st.terminal = true) ∧ y'.mgr.state = .stopped ∧ y'.mgr.stoppedCloses = 1 := by
  intro y y'
  obtain ⟨h1, h2, h3, _⟩ := system_finishes y (yinv_run _ evs (yinv_init cfgs hne))
  exact ⟨h1, h2, h3⟩

/-- non-vacuity: a system stuck in the middle (service 0 inside its start function, service 1 running,
nothing handed over yet) is driven to the end by `sysFinish`. -/
example :
    let y := (System.init [(true, true, true), (false, true, false)]).run
      [.svc 0 .startAsync, .svc 1 .startAsync, .svc 1 .tau, .svc 1 .tau, .svc 1 .tau, .svc 1 .tau, .svc 0 .tau]
    let y' := y.run (sysFinish 2)
    y.svcs.map (·.st) = [.starting, .running] ∧ y.mgr.state = .unknown ∧
    y'.svcs.map (·.st) = [.terminated, .terminated] ∧ y'.mgr.state = .stopped := by
  decide +kernel

/-- **A listener added at any point of a history** (service not yet terminal, `k` transitions made so
far) sees exactly the transitions made after its registration, in order, each once: whatever happens
next, its callbacks run so far followed by the callbacks still queued are the transitions number
k+1, k+2, … (a prefix of them once its remove function has run), and the first k are never replayed. -/
theorem late_listener_sees_exact_suffix (a b c : Bool) (evs more : List Ev)
    (hnt : (run (init a b c) evs).st.terminal = false) :
    let s := run (init a b c) evs
    let s2 := run (step s .addListener) more
    s.trans <+: s2.trans ∧
    ∃ l ∈ s2.lsns, l.id = s.nextL ∧ l.regAt = s.trans.length ∧
      (l.removed = false → l.seen ++ l.queue = s2.trans.drop s.trans.length) ∧
      (l.removed = true → l.seen <+: s2.trans.drop s.trans.length) :=
  late_listener _ (inv_run a b c evs).1 hnt more

/-! ### failure watcher

Model: the channel is unbuffered (a forwarding callback blocks until a reader receives), `Close()` holds
the watcher's mutex while waiting for the listener goroutines. Events: Watch*, a watched service's Failed
callback starting, a reader receiving, Close. -/

/-- Every failure whose callback started before `Close()` completed is either still blocked in its send or
has been received — exactly once, in order, nothing else is ever received; and reading as many values as are
blocked delivers all of them. -/
theorem fw_each_failure_forwarded_once (evs : List FEv) :
    let w := ({} : FW).run evs
    w.forwarded ++ w.blocked = w.entered ∧
    (w.run (List.replicate w.blocked.length .recv)).forwarded = w.entered := by
  intro w
  have h := fwinv_run evs
  exact ⟨h.acct, (drain_completes _ w h rfl).2.1⟩

/-- `Close` is idempotent and safe: the channel is closed exactly once, only when no callback is blocked in
a send on it (no send on a closed channel), and never while another `Close` is still waiting. -/
theorem fw_close_idempotent (evs : List FEv) :
    let w := ({} : FW).run evs
    (w.chanCloses = if w.closed then 1 else 0) ∧ (w.closed = true → w.blocked = []) ∧
    ¬ (w.closed = true ∧ w.closing = true) := by
  intro w
  have h := fwinv_run evs
  exact ⟨h.closes, h.drained, h.excl⟩

/-- A `Close()` that had to wait completes as soon as the blocked failures have been read. -/
theorem fw_pending_close_completes_when_drained (evs : List FEv) (hc : (({} : FW).run evs).closing = true) :
    let w := ({} : FW).run evs
    ((w.run (List.replicate w.blocked.length .recv)).closed = true) ∧ w.blocked ≠ [] := by
  intro w
  have h := fwinv_run evs
  exact ⟨((drain_completes _ w h rfl).2.2 hc).1, h.closingBlocked hc⟩

/-- **Observation (outside the property's clauses; confirmed on the real code by `C17.fwblock`)**: with a
failure that nobody has read, `Close()` does not return, and a later `WatchService` and a second `Close()`
queue behind it on the mutex; one receive releases all of them (the Watch* then panics: watcher closed). -/
theorem fw_close_blocks_on_unread_failure_witness :
    let w := ({} : FW).run [.watch, .failure 0 1, .close, .watch, .close]
    w.closing = true ∧ w.closed = false ∧ w.closeReturned = 0 ∧ w.waitingCalls = 2 ∧
    (w.step .recv).closed = true ∧ (w.step .recv).closeReturned = 1 ∧ (w.step .recv).waitingCalls = 0 ∧
    (w.step .recv).forwarded = [(0, 1)] := by
  decide

/-! ### `Manager.ServicesByState()` hands out values

`SnapSys`: n idle services under one manager, caller actions one after another, each driven to quiescence:
start / stop a service, KEEP a `ServicesByState()` result, APPEND to / OVERWRITE entries of the kept results.
(Found missing by a seeded change that made the accessor return slices shared with the manager; tied by
the `C17.snap` cases.) -/

/-- The manager's bookkeeping (hence `IsHealthy`, `IsStopped`, `ServicesByState`, the latches) and the services
after ANY action sequence are those after the same sequence with every snapshot action erased — they never
depend on what a caller does with a result; and every result a caller holds is exactly the manager's
`byState` of the moment it was taken, whatever the manager did afterwards. -/
theorem services_by_state_snapshots_are_values (n : Nat) (acts : List SnapAct) :
    ((SnapSys.init n).run acts).mgr = ((SnapSys.init n).run (acts.filter SnapAct.onService)).mgr ∧
    ((SnapSys.init n).run acts).svc = ((SnapSys.init n).run (acts.filter SnapAct.onService)).svc ∧
    ∀ k ∈ ((SnapSys.init n).run acts).kept, ∃ pre suf, acts = pre ++ SnapAct.keep :: suf ∧
      k.1 = ((SnapSys.init n).run pre).mgr.byState := by
  obtain ⟨h1, h2⟩ := PfC17.snap_run_filter acts (SnapSys.init n) (SnapSys.init n) rfl rfl
  refine ⟨h1, h2, fun k hk => ?_⟩
  rcases PfC17.snap_kept_run acts (SnapSys.init n) k hk with ⟨k0, hk0, _⟩ | h
  · simp [SnapSys.init] at hk0
  · exact h

/-- non-vacuity: a result taken while healthy still lists [0, 2, 1] after service 0 (not last in the list) has left. -/
example :
    let x := (SnapSys.init 3).run [.start 0, .start 2, .start 1, .keep, .stop 0, .append]
    x.mgr.byState .running = [2, 1] ∧ (x.kept.map fun k => k.1 .running) = [[0, 2, 1]] ∧
    x.mgr.byState .terminated = [0] ∧ x.svc = [.terminated, .running, .running] := by
  decide +kernel

end PC17
