import Model.C13
import Generated.C13
import Proofs.C13
import Proofs.C13.Equiv
import Proofs.C13.Part
import Proofs.C13.LookbackEquiv
import Proofs.C13.PartLB
import Proofs.C13.Reads
import Proofs.C13.Interleave
import Proofs.C13.LTS
/-!
# C13 — property theorems (statements only; proofs in `Proofs/C13*.lean`)

`run st {cfg} steps` is the long-lived client after an arbitrary sequence of descriptor updates and
(plain / look-back) shuffle-shard queries; `fresh cfg d` is a client built from `d` alone.
Descriptors are canonical (`Canon`: map entries in strictly ascending id order — the model's
representation of a Go map).
-/
namespace PC13
open Ring C12 C13 PfC13

/-! ### the field lists read from the running code (regenerated on every run) -/

theorem generated_compared_eq_model : Generated.C13.comparedFields = comparedFields := by decide

theorem generated_refreshed_eq_model :
    Generated.C13.refreshedFields = refreshedFields ∧ Generated.C13.refreshedFieldsLookback = refreshedFields := by decide

/-- every `InstanceDesc` proto field is compared by `RingCompare`, except `Id` (derived from the map
key by `setInstanceIDs`). A new proto field that `RingCompare` does not read makes this obligation
fail (as `Versions` did before fix 0ec0b1e, finding F-C13-1). -/
theorem proto_fields_accounted :
    ∀ f ∈ Generated.C13.protoFields, f ∈ Generated.C13.comparedFields ∨ f = "Id" := by decide

/-! #### how `RingCompare` USES each field

`Generated.C13.fieldUse` is obtained by RUNNING the real `Desc.RingCompare` on two one-instance
descriptors that differ in exactly one proto field (reflection over `InstanceDesc`, so a new field
appears by itself): `E` = Equal, `S` = EqualButStatesAndTimestamps, `D` = Different. -/

def mBase : Inst :=
  { id := "i0", addr := "a", ts := 1, state := .ACTIVE, tokens := [1, 2], zone := "z", regTs := 5, roTs := 7,
    ro := false, versions := [(1, 1)] }
def cmpCode (m : Inst) : String :=
  match ringCompare [mBase] [m] with | .equal => "E" | .equalButStatesAndTimestamps => "S" | .different => "D"
/-- the same experiment on the model (`Id` is overwritten with the map key by `setInstanceIDs` before the
comparison, so changing only that field leaves the model's descriptor unchanged). -/
def modelFieldUse : List (String × String) :=
  [("Addr", cmpCode { mBase with addr := "ax" }), ("Timestamp", cmpCode { mBase with ts := 2 }),
   ("State", cmpCode { mBase with state := .LEAVING }), ("Tokens", cmpCode { mBase with tokens := [1, 3] }),
   ("Zone", cmpCode { mBase with zone := "zx" }), ("RegisteredTimestamp", cmpCode { mBase with regTs := 6 }),
   ("Id", cmpCode mBase), ("ReadOnlyUpdatedTimestamp", cmpCode { mBase with roTs := 8 }),
   ("ReadOnly", cmpCode { mBase with ro := true }), ("Versions", cmpCode { mBase with versions := [(1, 2)] })]

/-- the real `RingCompare` classifies a change of every single field exactly as the model's `ringCompare`. -/
theorem field_use_matches_model : Generated.C13.fieldUse = modelFieldUse := by decide

/-- the experiment covers every proto field (a new field cannot be forgotten). -/
theorem field_use_lists_every_proto_field : Generated.C13.fieldUse.map (·.1) = Generated.C13.protoFields := by decide

/-- a field whose change alone is classified `EqualButStatesAndTimestamps` (the cached sub-rings survive
it) is exactly a field that the cached sub-rings refresh when served; and the only field whose change is
not noticed at all is `Id`, which `setInstanceIDs` derives from the map key. A new field that
`RingCompare` ignores, or notices only by clearing the states-and-timestamps flag without the caches
refreshing it, breaks this obligation. -/
theorem state_class_iff_refreshed :
    (∀ p ∈ Generated.C13.fieldUse, p.2 = "S" ↔ p.1 ∈ Generated.C13.refreshedFields ∧ p.1 ∈ Generated.C13.refreshedFieldsLookback) ∧
    (∀ p ∈ Generated.C13.fieldUse, p.2 = "E" → p.1 = "Id") := by decide

/-- the fields that may differ under `EqualButStatesAndTimestamps` are exactly the fields the cached
sub-rings refresh. -/
theorem refreshed_are_state_fields :
    (∀ f ∈ Generated.C13.refreshedFields, f ∈ stateFields) ∧ (∀ f ∈ stateFields, f ∈ Generated.C13.refreshedFields) := by decide

/-! ### `RingCompare` -/

/-- not `Different` ⇒ the descriptors agree, instance by instance, on every field except State and
Timestamp — hence on everything the token / zone indexes, the per-zone counters, the
oldest registration time and the read-only statistics are computed from. -/
theorem compare_sound (a b : Desc) (ha : Canon a) (hb : Canon b) (h : ringCompare a b ≠ .different) :
    a.map key = b.map key ∧ a.map core = b.map core :=
  ⟨PfC13.compare_sound a b ha hb h, core_of_key a b (PfC13.compare_sound a b ha hb h)⟩

theorem compare_equal_sound (a b : Desc) (ha : Canon a) (hb : Canon b) (h : ringCompare a b = .equal) :
    a.map (fun i => (key i, i.ts, i.state)) = b.map (fun i => (key i, i.ts, i.state)) :=
  PfC13.compare_equal_sound a b ha hb h

/-! ### the client -/

/-- after any history the kept indexes are those of the latest descriptor, and the client holds the
latest descriptor. -/
theorem client_inv (st : Streams) (cfg : Cfg) (steps : List Step) (hc : CanonSteps steps) :
    let c := run st { cfg := cfg } steps
    c.desc = lastDesc steps [] ∧ c.cfg = cfg ∧ c.idx.map key = c.desc.map key ∧ c.idx.map core = c.desc.map core := by
  have hi := inv_run st steps { cfg := cfg } (inv_init st cfg) hc
  have hd := run_desc st steps { cfg := cfg }
  exact ⟨hd.1, hd.2, hi.keyEq, core_of_key _ _ hi.keyEq⟩

/-- **observational equivalence**: whatever updates the client has seen and whatever plain or
look-back queries (at any, also non-monotonic, query times) were served in between, EVERY MODELLED READ of
the long-lived client's state equals the same read of a client freshly built from the latest descriptor,
in every field of every returned instance:
* the plain and the look-back shuffle shard at any query time (cache hits and misses);
* `Get` on the returned sub-ring (`getOnShard`, `getOnShardLB`), any key / operation / replication factor;
* `Get` / `GetWithOptions` on the ring itself (`readGet`: token circle, owners, zones and per-zone
  counts from the kept indexes, instances from the latest descriptor), any operation and per-call
  replication factor; `get1` is its RF-1 special form kept from earlier rounds;
* `GetReplicationSetForOperation` (`readAll`), `GetTokenRangesForInstance` (`readRanges`), `Zones`
  (`readZones`), the instance / zone counters, and the descriptor itself.
(Full strength since fix 0ec0b1e; before it the statement held only up to `Versions`.)
What is proved and what is evidence: the conjuncts about the shuffle shards and `getOnShard(LB)` need the
cache invariants (hits, refresh, validity windows). The conjuncts about `readGet` / `readAll` /
`readRanges` / `readZones` / the descriptor follow from `client_inv` alone, because the model defines
these reads with the index descriptor and the latest descriptor as separate arguments; that the Go
methods mix kept indexes and latest descriptor exactly like that is differential evidence (the oracle
reproduces every such answer of the long-lived client), not a theorem. Histories here are sequences of
ATOMIC queries; `observational_equivalence_interleaved` below splits every query into its two lock
sections. -/
theorem observational_equivalence (st : Streams) (cfg : Cfg) (steps : List Step) (hc : CanonSteps steps) :
    let c := run st { cfg := cfg } steps
    let f := fresh cfg (lastDesc steps [])
    (∀ ident size, (queryShard c st ident size).1 = (queryShard f st ident size).1) ∧
    (∀ ident size period now, (queryShardLB c st ident size period now).1 = (queryShardLB f st ident size period now).1) ∧
    (∀ rf hb ident size k op now, getOnShard c st rf hb ident size k op now = getOnShard f st rf hb ident size k op now) ∧
    (∀ rf hb ident size period qnow k op now,
      getOnShardLB c st rf hb ident size period qnow k op now = getOnShardLB f st rf hb ident size period qnow k op now) ∧
    (∀ rcfg k op now rfCall, readGet rcfg c.idx c.desc k op now rfCall = readGet rcfg f.idx f.desc k op now rfCall) ∧
    (∀ rcfg op now, readAll rcfg c.idx c.desc op now = readAll rcfg f.idx f.desc op now) ∧
    (∀ rcfg id, readRanges rcfg c.idx c.desc id = readRanges rcfg f.idx f.desc id) ∧
    readZones c.idx = readZones f.idx ∧
    (∀ k, get1 c k = get1 f k) ∧ (∀ zs, counts c zs = counts f zs) ∧ c.desc = f.desc := by
  have hi := inv_run st steps { cfg := cfg } (inv_init st cfg) hc
  have hd := run_desc st steps { cfg := cfg }
  simp only
  have e : fresh cfg (lastDesc steps []) = fresh (run st { cfg := cfg } steps).cfg (run st { cfg := cfg } steps).desc := by
    rw [hd.1, hd.2]
  rw [e]
  have hf := fresh_fields (run st { cfg := cfg } steps).cfg (run st { cfg := cfg } steps).desc
  rw [hf.1, hf.2.1]
  exact ⟨fun i s => queryShard_equiv st _ hi i s, fun i s p n => queryShardLB_equiv st _ hi i s p n,
    fun rf hb i s k op n => getOnShard_equiv st _ hi rf hb i s k op n,
    fun rf hb i s p q k op n => getOnShardLB_equiv st _ hi rf hb i s p q k op n,
    fun rc k op n r => readGet_of_key rc _ _ _ hi.keyEq k op n r,
    fun rc op n => readAll_of_key rc _ _ _ hi.keyEq op n,
    fun rc id => readRanges_of_key rc _ _ _ hi.keyEq id,
    readZones_of_key _ _ hi.keyEq,
    fun k => get1_equiv st _ hi k, fun zs => counts_equiv st _ hi zs, rfl⟩

/-- `GetSubringForOperationStates(op)` (`readOpSub`: the instances of the latest descriptor in a state the operation
accepts) and hence every read of the returned sub-ring: after any history the long-lived client's answer is the
fresh client's, for every operation mask. (In the model the read is a function of the latest descriptor alone; that
the Go method is — it takes no cache and no kept index — is what the `Q!O` queries of the tie check, with a
state-only update between two queries for the same operation.) -/
theorem op_subring_equivalence (st : Streams) (cfg : Cfg) (steps : List Step) (hc : CanonSteps steps) (healthy : List State) :
    readOpSub (run st { cfg := cfg } steps).desc healthy = readOpSub (fresh cfg (lastDesc steps [])).desc healthy := by
  have h := (observational_equivalence st cfg steps hc).2.2.2.2.2.2.2.2.2.2
  exact congrArg (fun d => readOpSub d healthy) h

/-- on a freshly built client (index descriptor = latest descriptor, canonical) the reads of the C13
model ARE the models of the other properties: `C01.getWith` (C01), `C02.getAll` (C02),
`C14.rangesForInstance` (C14) — so `observational_equivalence` transports every theorem of those
properties about a ring descriptor to the long-lived client. -/
theorem fresh_reads_are_the_models (rcfg : C01.Cfg) (d : Desc) (hd : Canon d) :
    (∀ k op now rfCall, readGet rcfg d d k op now rfCall = C01.getWith rcfg d (C01.sortedTokens d) k op now rfCall) ∧
    (∀ op now, readAll rcfg d d op now = C02.getAll rcfg d (C01.sortedTokens d) op now) ∧
    (∀ id, readRanges rcfg d d id = C14.rangesForInstance d rcfg.zoneAware rcfg.rf id) :=
  ⟨fun k op now r => readGet_fresh rcfg d hd k op now r, fun op now => readAll_fresh rcfg d op now,
    fun id => readRanges_fresh rcfg d id⟩

def gi0 : Inst := { id := "i0", tokens := [10] }
def gi1 : Inst := { id := "i1", tokens := [20], ro := true, roTs := 5 }
def gi1' : Inst := { id := "i1", tokens := [20] }
def gst : Streams := fun _ _ _ => 0

/-- **observational equivalence under interleaving** (the "schedules / concurrent readers" half).
Histories are sequences of atomic actions of the real code, each under one lock acquisition:
`updateRingState`; the FIRST half of a (look-back) shuffle-shard query — cache look-up and, on a miss,
computation under the read lock, the built sub-ring remembering the `lastTopologyChange` (`epoch`) it
saw (`bS`, `bL`); the SECOND half — `setCachedShuffledSubring(WithLookback)`, which stores only if the
ring's `lastTopologyChange` is still the one the sub-ring saw (`fS n`, `fL n`: any pending store, in any
order, any number of times, after any number of updates and other readers' queries);
`CleanupShuffleShardCache` (`clean`); and the atomic queries `qS`, `qL` (= first half directly followed
by the second, `PfC13.queryShard_eq_begin_store`). After ANY such history every modelled read of the
client equals the read of a fresh client built from the latest descriptor; in particular a sub-ring
computed before a topology change is never served afterwards. Hypothesis made explicit by the model:
two re-indexings never carry the same `lastTopologyChange` (the epoch is a counter). -/
theorem observational_equivalence_interleaved (st : Streams) (cfg : Cfg) (steps : List IStep) (hc : CanonISteps steps) :
    let c := (irun st { c := { cfg := cfg } } steps).c
    let f := fresh cfg (lastDescI steps [])
    (∀ ident size, (queryShard c st ident size).1 = (queryShard f st ident size).1) ∧
    (∀ ident size, (beginShard c st ident size).1 = (queryShard f st ident size).1) ∧
    (∀ ident size period now, (queryShardLB c st ident size period now).1 = (queryShardLB f st ident size period now).1) ∧
    (∀ ident size period now, (beginShardLB c st ident size period now).1 = (queryShardLB f st ident size period now).1) ∧
    (∀ rf hb ident size k op now, getOnShard c st rf hb ident size k op now = getOnShard f st rf hb ident size k op now) ∧
    (∀ rf hb ident size period qnow k op now,
      getOnShardLB c st rf hb ident size period qnow k op now = getOnShardLB f st rf hb ident size period qnow k op now) ∧
    (∀ rcfg k op now rfCall, readGet rcfg c.idx c.desc k op now rfCall = readGet rcfg f.idx f.desc k op now rfCall) ∧
    (∀ rcfg op now, readAll rcfg c.idx c.desc op now = readAll rcfg f.idx f.desc op now) ∧
    (∀ rcfg id, readRanges rcfg c.idx c.desc id = readRanges rcfg f.idx f.desc id) ∧
    readZones c.idx = readZones f.idx ∧
    (∀ zs, counts c zs = counts f zs) ∧ c.desc = f.desc := by
  have hI := iinv_run st steps { c := { cfg := cfg } } (iinv_init st cfg) hc
  have hi := hI.inv
  have hd := irun_desc st steps { c := { cfg := cfg } }
  simp only
  have e : fresh cfg (lastDescI steps []) =
      fresh (irun st { c := { cfg := cfg } } steps).c.cfg (irun st { c := { cfg := cfg } } steps).c.desc := by
    rw [hd.1, hd.2]
  rw [e]
  have hf := fresh_fields (irun st { c := { cfg := cfg } } steps).c.cfg (irun st { c := { cfg := cfg } } steps).c.desc
  rw [hf.1, hf.2.1]
  exact ⟨fun i s => queryShard_equiv st _ hi i s,
    fun i s => by rw [beginShard_answer]; exact queryShard_equiv st _ hi i s,
    fun i s p n => queryShardLB_equiv st _ hi i s p n,
    fun i s p n => by rw [beginShardLB_answer]; exact queryShardLB_equiv st _ hi i s p n,
    fun rf hb i s k op n => getOnShard_equiv st _ hi rf hb i s k op n,
    fun rf hb i s p q k op n => getOnShardLB_equiv st _ hi rf hb i s p q k op n,
    fun rc k op n r => readGet_of_key rc _ _ _ hi.keyEq k op n r,
    fun rc op n => readAll_of_key rc _ _ _ hi.keyEq op n,
    fun rc id => readRanges_of_key rc _ _ _ hi.keyEq id,
    readZones_of_key _ _ hi.keyEq,
    fun zs => counts_equiv st _ hi zs, rfl⟩

/-- **the guard is necessary** (what the escaped seeded change C13-r2 removed): the very same
interleaving with the second half storing unconditionally serves a removed instance. First half of
`ShuffleShard("t", 0)` on `[wi0, wi1]`, then a topology change to `[wi1]`, then the store: with the
guard the later query answers like a fresh client, without it (`setAssoc` unconditionally) it would
answer `[wi0]`. -/
theorem cache_fill_guard_witness :
    let c0 : Client := update { cfg := ⟨false⟩ } [gi0, gi1]
    let r := beginShard c0 gst "t" 0
    let c1 := update r.2.2 [gi1']
    r.2.1 = some ⟨[gi0], 1⟩ ∧
    (queryShard (storeShard c1 ⟨"t", 0⟩ ⟨[gi0], 1⟩) gst "t" 0).1 = (queryShard (fresh ⟨false⟩ [gi1']) gst "t" 0).1 ∧
    (queryShard { c1 with cache := setAssoc ⟨"t", 0⟩ ⟨[gi0], 1⟩ c1.cache } gst "t" 0).1 = [{ gi0 with state := .ACTIVE, ts := 0 }] ∧
    (queryShard (fresh ⟨false⟩ [gi1']) gst "t" 0).1 = [gi1'] := by
  decide

/-! ### the lock sections as a labelled transition system, with clock readings -/

/-- **observational equivalence for every interleaving of lock sections** (`C13.lstep`, see `Model/C13.lean`).
Events are the critical sections of the real code: the writer's `updateRingState`; a reader's section 1
(`getCachedShuffledSubring`, `look`), section 2 (`shuffleShard` / `filterOutReadOnlyInstances`, `comp` — a separate
lock acquisition that does not consult the cache, so it may run although another reader has filled the entry
meanwhile) and section 3 (`setCachedShuffledSubring`, `store n`, for any computed sub-ring, in any order, any
number of times) — the same three for the look-back query — `CleanupShuffleShardCache`, and undisturbed queries.
Any number of readers is any interleaving of such events. `clk e` is the `time.Now()` reading stored as
`lastTopologyChange` by the `e`-th re-indexing, and the guard of section 3 compares READINGS. For EVERY clock that
gives different readings to different re-indexings, every history and every state reached:
* the client holds the latest descriptor;
* whatever sub-ring ANY section would hand to its caller next (`lans`: a cache hit of section 1, the result of
  section 2, an undisturbed query; plain or look-back, any key, any query time) is the one a fresh client built
  from the latest descriptor hands out (`freshAns`);
* no stale sub-ring is cached: every entry of the plain cache, refreshed as section 1 does, is the fresh answer;
* `Get` / `GetReplicationSetForOperation` / token ranges / zones / counters read the indexes of the latest descriptor.
Since the statement is about every reachable state, it covers "after quiescence" (all pending stores executed or
abandoned) as well as every moment before. -/
theorem lts_observational_equivalence (clk : Nat → Nat) (hclk : Function.Injective clk) (st : Streams) (cfg : Cfg)
    (evs : List Ev) (hc : CanonEvs evs) :
    let s := lrun clk st { c := { cfg := cfg } } evs
    let d := lastDescL evs []
    s.c.desc = d ∧ s.c.cfg = cfg ∧
    (∀ x a, lans st s x = some a → freshAns cfg d st x = some a) ∧
    (∀ k sub, lookupAssoc k s.c.cache = some sub →
      (refresh s.c.desc sub).members = (queryShard (fresh cfg d) st k.ident k.size).1) ∧
    (∀ rcfg k op now rfCall, readGet rcfg s.c.idx s.c.desc k op now rfCall = readGet rcfg d d k op now rfCall) ∧
    (∀ rcfg op now, readAll rcfg s.c.idx s.c.desc op now = readAll rcfg d d op now) ∧
    (∀ rcfg id, readRanges rcfg s.c.idx s.c.desc id = readRanges rcfg d d id) ∧
    readZones s.c.idx = readZones d ∧ (∀ zs, counts s.c zs = counts (fresh cfg d) zs) := by
  have hI := linv_run clk hclk st evs { c := { cfg := cfg } } (linv_init st cfg) hc
  have hd := lrun_desc clk st evs { c := { cfg := cfg } }
  have hi : Inv st (lrun clk st { c := { cfg := cfg } } evs).c := hI.inv
  simp only
  refine ⟨hd.1, hd.2, ?_, ?_, ?_, ?_, ?_, ?_, ?_⟩
  · intro x a ha
    have h := lans_fresh st _ hi x a ha
    rw [hd.1, hd.2] at h; exact h
  · intro k sub hk
    obtain ⟨ki, ks⟩ := k
    have h := lans_fresh st _ hi (.look ki ks) (refresh (lrun clk st { c := { cfg := cfg } } evs).c.desc sub).members
      (by simp only [lans, lookShard, hk])
    rw [hd.1, hd.2] at h
    simp only [freshAns, Option.some.injEq] at h
    rw [hd.1]; exact h.symm
  · intro rc k op n r
    have h := readGet_of_key rc _ _ (lrun clk st { c := { cfg := cfg } } evs).c.desc hi.keyEq k op n r
    rw [hd.1] at h ⊢; exact h
  · intro rc op n
    have h := readAll_of_key rc _ _ (lrun clk st { c := { cfg := cfg } } evs).c.desc hi.keyEq op n
    rw [hd.1] at h ⊢; exact h
  · intro rc id
    have h := readRanges_of_key rc _ _ (lrun clk st { c := { cfg := cfg } } evs).c.desc hi.keyEq id
    rw [hd.1] at h ⊢; exact h
  · have h := readZones_of_key _ _ hi.keyEq
    rw [hd.1] at h; exact h
  · intro zs
    have h := counts_equiv st _ hi zs
    rw [hd.1, hd.2] at h; exact h

/-- the same for a clock that ADVANCES between two re-indexings (what `time.Now()` with its monotonic reading
delivers unless two `setRingStateFromDesc` calls fall into one clock tick). -/
theorem lts_observational_equivalence_advancing_clock (clk : Nat → Nat) (hclk : ∀ a b, a < b → clk a < clk b)
    (st : Streams) (cfg : Cfg) (evs : List Ev) (hc : CanonEvs evs) :
    let s := lrun clk st { c := { cfg := cfg } } evs
    ∀ x a, lans st s x = some a → freshAns cfg (lastDescL evs []) st x = some a := by
  have hinj : Function.Injective clk := by
    intro a b e
    rcases Nat.lt_trichotomy a b with h | h | h
    · exact absurd e (Nat.ne_of_lt (hclk a b h))
    · exact h
    · exact absurd e.symm (Nat.ne_of_lt (hclk b a h))
  exact (lts_observational_equivalence clk hinj st cfg evs hc).2.2.1

/-- **the hypothesis on the clock is necessary** (`lastTopologyChange` is a wall-clock reading, not a counter):
if two re-indexings get the SAME reading (`clk` constant), a reader that computed `ShuffleShard("t", 0)` on
`[gi0, gi1]` and is paused before section 3 while `gi0` is removed and `gi1` changes passes the guard, its stale
sub-ring is cached, and the next look-up serves the removed instance `gi0`; with an advancing clock the same
history leaves the cache empty. (Needs two `setRingStateFromDesc` calls and the reader's section 2 between them
within one tick of `time.Now()`; not reachable in the tie, where the observed readings always advance — the oracle
reports `clk=collide` otherwise.) -/
theorem clock_collision_witness :
    let evs := [Ev.upd [gi0, gi1], Ev.comp "t" 0, Ev.upd [gi1'], Ev.store 0]
    CanonEvs evs ∧
    lans gst (lrun (fun _ => 7) gst { c := { cfg := ⟨false⟩ } } evs) (.look "t" 0) = some [{ gi0 with state := .ACTIVE, ts := 0 }] ∧
    freshAns ⟨false⟩ (lastDescL evs []) gst (.look "t" 0) = some [gi1'] ∧
    lans gst (lrun id gst { c := { cfg := ⟨false⟩ } } evs) (.look "t" 0) = none := by
  refine ⟨?_, by decide, by decide, by decide⟩
  intro s hs d hd
  simp only [List.mem_cons, List.not_mem_nil, or_false] at hs
  rcases hs with rfl | rfl | rfl | rfl <;> cases hd <;> (unfold Canon; decide)

/-- section 2 may run although the cache already holds the entry (two readers missed one after the other): the
second store OVERWRITES the first; both sub-rings are the fresh one. -/
example : let evs := [Ev.upd [gi0, gi1], Ev.look "t" 0, Ev.look "t" 0, Ev.comp "t" 0, Ev.comp "t" 0, Ev.store 0, Ev.store 1]
    lans gst (lrun id gst { c := { cfg := ⟨false⟩ } } evs) (.look "t" 0) = some [gi0] := by decide

/-- **lookback_window_valid**: after any history, a cached look-back sub-ring is valid for every
window start in `[after, before]`: there the ring itself would not be returned and the look-back
selection is the one that was cached (`before` = `validForLookbackWindowsStartingBefore`, the
earliest registration / read-only timestamp of a member inside the window). -/
theorem lookback_window_valid (st : Streams) (cfg : Cfg) (steps : List Step) (hc : CanonSteps steps)
    (k : LKey) (e : LBEntry) (hl : lookupAssoc k (run st { cfg := cfg } steps).lbCache = some e) (now : Int)
    (hw1 : e.after ≤ now - k.period) (hw2 : now - k.period ≤ e.before) :
    let c := run st { cfg := cfg } steps
    isSelf c k.size k.period now = false ∧
    shardIds c.cfg c.idx (st k.ident) k.size k.period now =
      shardIds c.cfg c.idx (st k.ident) k.size k.period (e.after + k.period) :=
  PfC13.lookback_window_valid st _ (inv_run st steps { cfg := cfg } (inv_init st cfg) hc) k e hl now hw1 hw2

/-! ### partition ring: watcher and shard cache -/

/- `watcher_fresh` (`pupdate c ps = { parts := ps }`, true by definition of the model) is no longer listed as
an obligation: that `PartitionRingWatcher.updatePartitionRing` replaces the whole immutable ring — and
with it the cache — is an assumption of the model tied by the `C13.phist` correspondence cases. Its error
path (`NewPartitionRingWithOptions` fails → the old ring is kept) is not modelled: with tokens and
owners derived from the same descriptor `buildRingTokenPartitionLookups` cannot fail. -/

/-- **partition ring, observational equivalence**: after any history of watcher updates (partition ids
distinct, as map keys are) and plain / look-back queries, the plain shard and the look-back shard at
any query time (cache hits included) are the shards computed from the latest descriptor. Histories
may contain `evict` steps that drop arbitrary entries from both caches (what the LRU storage of
`partitions_ring_shuffle_shard_cache.go` does when `ShuffleShardCacheSize > 0`). -/
theorem partition_observational_equivalence (st : PStreams) (steps : List PStep) (hw : PWFSteps steps) :
    let c := prun st {} steps
    (∀ ident size, (pqueryShard c st ident size).1 = pshard (plast steps []) (st ident) size 0 0) ∧
    (∀ ident size period now,
      (pqueryShardLB c st ident size period now).1 = pshard (plast steps []) (st ident) size period now) := by
  have h2 := pinv2_run st steps {} (pinv2_init st) hw
  have h1 := pinv_run st steps {} (fun k ids hk => by simp [lookupAssoc] at hk)
  simp only
  refine ⟨fun i s => by rw [pqueryShard_equiv st _ h1.1, h1.2], fun i s p n => by rw [pqueryShardLB_equiv st _ h2, h1.2]⟩

/-
History — finding F-C13-1 (fixed by 0ec0b1e). Before the fix `RingCompare` did not read `Versions`; these
were theorems about the model of the old code:

  theorem compare_misses_versions : ringCompare [wi0, wi1] [wi0v, wi1] = .equal ∧ [wi0, wi1] ≠ [wi0v, wi1]
  theorem stale_versions_witness :
      let steps := [Step.upd [wi0, wi1], Step.qS "t" 0, Step.upd [wi0v, wi1]]
      CanonSteps steps ∧ (queryShard (run wst {cfg := ⟨false⟩} steps) wst "t" 0).1 = [wi0] ∧
      (queryShard (fresh ⟨false⟩ (lastDesc steps [])) wst "t" 0).1 = [wi0v]

and `observational_equivalence` was `observational_equivalence_partial` (answers equal up to Versions).
`versions_update_is_different` is the former witness on the fixed code.
-/

def wi0 : Inst := { id := "i0", tokens := [10] }
def wi0v : Inst := { id := "i0", tokens := [10], versions := [(7, 7)] }
def wi1 : Inst := { id := "i1", tokens := [20], ro := true, roTs := 5 }
def wst : Streams := fun _ _ _ => 0

/-- a Versions-only update is now `Different`, and the former stale answer is fresh. -/
theorem versions_update_is_different :
    ringCompare [wi0, wi1] [wi0v, wi1] = .different ∧
    (queryShard (run wst { cfg := ⟨false⟩ } [Step.upd [wi0, wi1], Step.qS "t" 0, Step.upd [wi0v, wi1]]) wst "t" 0).1 = [wi0v] := by
  decide

/-! ### non-vacuity -/

example : Canon [wi0, wi1] ∧ Canon [{ wi0 with ts := 5 }, wi1] ∧ ringCompare [wi0, wi1] [{ wi0 with ts := 5 }, wi1] ≠ .different := by
  refine ⟨by unfold Canon; decide, by unfold Canon; decide, by decide⟩
example : CanonSteps [Step.upd [wi0, wi1], Step.qS "t" 0, Step.upd [wi0v, wi1]] := by
  intro s hs d hd
  simp only [List.mem_cons, List.not_mem_nil, or_false] at hs
  rcases hs with rfl | rfl | rfl
  · cases hd; unfold Canon; decide
  · cases hd
  · cases hd; unfold Canon; decide
/-- `lookback_window_valid` is not vacuous: after `upd [wi0, wi1]; ShuffleShardWithLookback("t", 0, 10 s, now = 100)`
the look-back cache holds an entry valid from window start 90 on, and a query at `now = 103` (window
start 93) falls inside its validity window. -/
example : let c := run wst { cfg := ⟨false⟩ } [Step.upd [wi0, wi1], Step.qL "t" 0 10 100]
    ∃ e, lookupAssoc (⟨"t", 0, 10⟩ : LKey) c.lbCache = some e ∧ e.sub.members = [wi0] ∧
      e.after ≤ (103 : Int) - 10 ∧ (103 : Int) - 10 ≤ e.before :=
  ⟨⟨⟨[wi0], 1⟩, 90, C12.maxInt⟩, by decide, by decide, by decide, by decide⟩
/-- an interleaved history: a reader's first half, a topology change, the reader's (dropped) store, a cleanup. -/
example : CanonISteps [IStep.upd [gi0, gi1], IStep.bS "t" 0, IStep.upd [gi1'], IStep.fS 0, IStep.clean "t"] := by
  intro s hs d hd
  simp only [List.mem_cons, List.not_mem_nil, or_false] at hs
  rcases hs with rfl | rfl | rfl | rfl | rfl <;> cases hd <;> (unfold Canon; decide)
example : ringCompare [wi0, wi1] [{ wi0 with ts := 5 }, wi1] = .equalButStatesAndTimestamps := by decide
example : ringCompare [wi0, wi1] [{ wi0 with zone := "b" }, wi1] = .different := by decide

end PC13
