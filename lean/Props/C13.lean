import Model.C13
import Generated.C13
import Proofs.C13
import Proofs.C13.Equiv
import Proofs.C13.Part
/-!
# C13 — property theorems (statements only; proofs in `Proofs/C13*.lean`)

`run st {cfg} steps` is the long-lived client after an arbitrary sequence of descriptor updates and
(plain / look-back) shuffle-shard queries; `fresh cfg d` is a client built from `d` alone.
Descriptors are canonical (`Canon`: map entries in strictly ascending id order — the model's
representation of a Go map).
-/
namespace PC13
open Ring C12 C13 PfC13

/-! ### the field lists read from the running code (regenerated on every run) -/

theorem generated_compared_eq_model : Generated.C13.comparedFields = comparedFields := by decide

theorem generated_refreshed_eq_model :
    Generated.C13.refreshedFields = refreshedFields ∧ Generated.C13.refreshedFieldsLookback = refreshedFields := by decide

/-- every `InstanceDesc` proto field is compared by `RingCompare`, except `Id` (derived from the map
key by `setInstanceIDs`) and `Versions` (finding F-C13-1). A new proto field that `RingCompare` does
not read makes this obligation fail. -/
theorem proto_fields_accounted :
    ∀ f ∈ Generated.C13.protoFields, f ∈ Generated.C13.comparedFields ∨ f = "Id" ∨ f = "Versions" := by decide

/-- the fields that may differ under `EqualButStatesAndTimestamps` are exactly the fields the cached
sub-rings refresh. -/
theorem refreshed_are_state_fields :
    (∀ f ∈ Generated.C13.refreshedFields, f ∈ stateFields) ∧ (∀ f ∈ stateFields, f ∈ Generated.C13.refreshedFields) := by decide

/-! ### `RingCompare` -/

/-- not `Different` ⇒ the descriptors agree, instance by instance, on every field except State,
Timestamp and Versions — hence on everything the token / zone indexes, the per-zone counters, the
oldest registration time and the read-only statistics are computed from. -/
theorem compare_sound (a b : Desc) (ha : Canon a) (hb : Canon b) (h : ringCompare a b ≠ .different) :
    a.map key = b.map key ∧ a.map core = b.map core :=
  ⟨PfC13.compare_sound a b ha hb h, core_of_key a b (PfC13.compare_sound a b ha hb h)⟩

theorem compare_equal_sound (a b : Desc) (ha : Canon a) (hb : Canon b) (h : ringCompare a b = .equal) :
    a.map (fun i => (key i, i.ts, i.state)) = b.map (fun i => (key i, i.ts, i.state)) :=
  PfC13.compare_equal_sound a b ha hb h

/-! ### the client -/

/-- after any history the kept indexes are those of the latest descriptor, and the client holds the
latest descriptor. -/
theorem client_inv (st : Streams) (cfg : Cfg) (steps : List Step) (hc : CanonSteps steps) :
    let c := run st { cfg := cfg } steps
    c.desc = lastDesc steps [] ∧ c.cfg = cfg ∧ c.idx.map key = c.desc.map key ∧ c.idx.map core = c.desc.map core := by
  have hi := inv_run st steps { cfg := cfg } (inv_init st cfg) hc
  have hd := run_desc st steps { cfg := cfg }
  exact ⟨hd.1, hd.2, hi.keyEq, core_of_key _ _ hi.keyEq⟩

/-
Full statement (FALSE for the current code, see `stale_versions_witness`):

  theorem observational_equivalence … :
      (queryShard (run st {cfg} steps) st ident size).1 = (queryShard (fresh cfg (lastDesc steps [])) st ident size).1
      (and likewise for ShuffleShardWithLookback at every query time)

Proved part: the answers agree in every field except `Versions` (so: exactly, for histories whose
updates keep Versions), for the plain shuffle shard (cache hits and misses), key lookups and the
instance/zone counters. Not proved: the look-back cache (`lookback_window_valid`: a cached
look-back sub-ring is served only for window starts in `[after, before]`, inside which the
look-back shard is constant) — tied by correspondence and judged on every generated history only.
-/
theorem observational_equivalence_partial (st : Streams) (cfg : Cfg) (steps : List Step) (hc : CanonSteps steps) :
    let c := run st { cfg := cfg } steps
    let f := fresh cfg (lastDesc steps [])
    (∀ ident size, eraseV (queryShard c st ident size).1 = eraseV (queryShard f st ident size).1) ∧
    (∀ k, get1 c k = get1 f k) ∧ (∀ zs, counts c zs = counts f zs) ∧ c.desc = f.desc := by
  have hi := inv_run st steps { cfg := cfg } (inv_init st cfg) hc
  have hd := run_desc st steps { cfg := cfg }
  simp only
  have e : fresh cfg (lastDesc steps []) = fresh (run st { cfg := cfg } steps).cfg (run st { cfg := cfg } steps).desc := by
    rw [hd.1, hd.2]
  rw [e]
  refine ⟨fun i s => queryShard_equiv st _ hi i s, fun k => get1_equiv st _ hi k, fun zs => counts_equiv st _ hi zs, ?_⟩
  rw [fresh_eq]

/-- corollary: if the cached members carry the same Versions as the latest descriptor (in particular
if no update of the history changed Versions), the plain shard answer is exactly the fresh one. -/
theorem observational_equivalence_keeping_versions (st : Streams) (cfg : Cfg) (steps : List Step) (hc : CanonSteps steps)
    (ident : String) (size : Int)
    (hv : (queryShard (run st { cfg := cfg } steps) st ident size).1.map (·.versions) =
          (queryShard (fresh cfg (lastDesc steps [])) st ident size).1.map (·.versions)) :
    (queryShard (run st { cfg := cfg } steps) st ident size).1 = (queryShard (fresh cfg (lastDesc steps [])) st ident size).1 := by
  have h := (observational_equivalence_partial st cfg steps hc).1 ident size
  generalize (queryShard (run st { cfg := cfg } steps) st ident size).1 = A at h hv
  generalize (queryShard (fresh cfg (lastDesc steps [])) st ident size).1 = B at h hv
  induction A generalizing B with
  | nil => cases B with
    | nil => rfl
    | cons _ _ => simp [eraseV] at h
  | cons a A ih =>
    cases B with
    | nil => simp [eraseV] at h
    | cons b B =>
      simp only [eraseV, List.map_cons, List.cons.injEq] at h hv
      have := ih B (by simpa [eraseV] using h.2) hv.2
      rw [this]
      congr 1
      cases a; cases b
      simp_all

/-! ### partition ring: watcher and shard cache -/

/-- the watcher replaces the whole immutable ring (and with it the cache) on every update. -/
theorem watcher_fresh (c : PClient) (ps : List Part) : pupdate c ps = { parts := ps } := rfl

/-- after any history of updates and queries the cached plain partition shard is the computed one. -/
theorem partition_cache_equiv (st : PStreams) (steps : List PStep) (ident : String) (size : Int) :
    (pqueryShard (prun st {} steps) st ident size).1 = pshard (plast steps []) (st ident) size 0 0 := by
  have h := pinv_run st steps {} (fun k ids hk => by simp [lookupAssoc] at hk)
  rw [pqueryShard_equiv st _ h.1, h.2]

/-! ### the finding: `RingCompare` misses `Versions` -/

def wi0 : Inst := { id := "i0", tokens := [10] }
def wi0v : Inst := { id := "i0", tokens := [10], versions := [(7, 7)] }
def wi1 : Inst := { id := "i1", tokens := [20], ro := true, roTs := 5 }
def wst : Streams := fun _ _ _ => 0

/-- a Versions-only update is classified `Equal`. -/
theorem compare_misses_versions : ringCompare [wi0, wi1] [wi0v, wi1] = .equal ∧ [wi0, wi1] ≠ [wi0v, wi1] := by decide

/-- **F-C13-1**: query (fills the cache), Versions-only update, same query: the long-lived client
still answers with the old Versions, a fresh client with the new ones. -/
theorem stale_versions_witness :
    let steps := [Step.upd [wi0, wi1], Step.qS "t" 0, Step.upd [wi0v, wi1]]
    CanonSteps steps ∧
    (queryShard (run wst { cfg := ⟨false⟩ } steps) wst "t" 0).1 = [wi0] ∧
    (queryShard (fresh ⟨false⟩ (lastDesc steps [])) wst "t" 0).1 = [wi0v] := by
  refine ⟨?_, by decide, by decide⟩
  intro s hs d hd
  simp only [List.mem_cons, List.not_mem_nil, or_false] at hs
  rcases hs with rfl | rfl | rfl
  · cases hd; unfold Canon; decide
  · cases hd
  · cases hd; unfold Canon; decide

/-! ### non-vacuity -/

example : Canon [wi0, wi1] ∧ Canon [wi0v, wi1] ∧ ringCompare [wi0, wi1] [wi0v, wi1] ≠ .different := by
  refine ⟨by unfold Canon; decide, by unfold Canon; decide, by decide⟩
example : ringCompare [wi0, wi1] [{ wi0 with ts := 5 }, wi1] = .equalButStatesAndTimestamps := by decide
example : ringCompare [wi0, wi1] [{ wi0 with zone := "b" }, wi1] = .different := by decide

end PC13
