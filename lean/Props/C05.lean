import Model.C03
namespace PC05
theorem placeholder : True := trivial
end PC05
