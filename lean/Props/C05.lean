import Proofs.C05Wf
import Proofs.C05Link
import Props.C01
import Props.C12
import Props.C14
import Props.C13
/-!
# C05 — each token has one owner on every replica (property theorems)

Model: `Model/C03.lean` (`mergeWithTime`, `normalizeIngestersMap`, `conflictingTokensExist`,
`resolveConflicts`). `WF d` is the invariant: unique ids, token lists strictly sorted (hence
duplicate-free), tombstones hold no tokens, and no token occurs in two entries.
-/
namespace PC05
open Ring C03 PfC03 PfC05

/-- the pairwise rule used by conflict resolution is `≤` in the order "(leaving?, id)": an instance
that is leaving loses to one that is not, otherwise the smaller identifier wins … -/
theorem winner_rule (ing prev : Inst) : newcomerWins ing prev = true ↔ keyLe ing prev :=
  newcomerWins_iff ing prev

/-- … and that order is total, transitive and antisymmetric on identifiers (a total order on the
entries of a descriptor, whose ids are unique). -/
theorem winner_total_order :
    (∀ a b : Inst, keyLe a b ∨ keyLe b a) ∧
    (∀ a b c : Inst, keyLe a b → keyLe b c → keyLe a c) ∧
    (∀ a b : Inst, keyLe a b → keyLe b a → a.id = b.id) :=
  ⟨keyLe_total, fun _ _ _ => keyLe_trans, fun _ _ => keyLe_antisymm⟩

/-- colliding claims are resolved to the same winner whatever order the entries are scanned in.
WHAT THIS MEANS: `d'` is a permutation of `d`, i.e. the two replicas hold *identical entry contents,
token lists included*, and differ only in Go's map iteration order. That is the reading of "replicas
holding the same entries" under which the property is proved: resolution is a function of the entry
contents. It does NOT say that replicas which received the same UPDATES agree — they need not, see
`winner_depends_on_delivery_order_witness` below. -/
theorem resolve_perm_invariant (tok : Nat) {d d' : Desc} (hp : d.Perm d') (hn : (ids d).Nodup) :
    winner tok d none = winner tok d' none :=
  winner_perm tok hp hn

/-- hence every entry gets the same resolved token list on both replicas -/
theorem resolve_entry_perm_invariant {d d' : Desc} (hp : d.Perm d') (hn : (ids d).Nodup) (i : Inst) :
    resolveEntry d i = resolveEntry d' i := by
  unfold resolveEntry
  split
  · rfl
  · congr 2
    apply List.filter_congr
    intro t _
    rw [winner_perm t hp hn]

/-- after resolution: the descriptor is well-formed (one owner per token, sorted duplicate-free
lists, tombstones empty) … -/
theorem resolve_spec_wf (d : Desc) (hn : (ids d).Nodup) : WF (resolve d) := resolve_wf d hn

/-- … and a token is held exactly by the minimal claimant (the loser simply lacks it). -/
theorem resolve_spec_owner (d : Desc) (hn : (ids d).Nodup) (t : Nat) (i : Inst) (hi : i ∈ d) :
    t ∈ (resolveEntry d i).tokens ↔ (claims t i ∧ ∀ j ∈ d, claims t j → keyLe i j) :=
  resolve_owner d hn t i hi

/-- the collision detector is exact -/
theorem conflictsExist_iff (d : Desc) : conflictsExist d = false ↔ (allTokens d).Nodup :=
  hasDup_false_iff _

/-- a merge of ANY incoming descriptor (unsorted, duplicated, clashing tokens; gossip or local
CAS; any clock) into a well-formed state yields a well-formed state — also when resolution is
skipped because no accepted entry changed its tokens. -/
theorem merge_preserves_wf (cas : Bool) (now : Int) (this other : Desc) (h : WF this) :
    WF (merge cas now this other).state :=
  PfC05.merge_preserves_wf cas now this other h

/-- **who holds a token after a merge** (the link between `merge` and the winner rule; this is what the
judge's `wrong-winner` / `token-not-with-its-claimant` rules check on the implementation). `M` = the
map built by the two loops of `mergeWithTime` before resolution (`merge_map_lww` says what it holds).
Every entry of `M` survives with its identity, state and timestamp, and holds `t` iff it is the minimal
claimant of `t` in `M` — also when `resolveConflicts` is skipped. -/
theorem merge_owner_spec (cas : Bool) (now : Int) (this other : Desc) (h : WF this) (t : Nat) (i : Inst)
    (hi : i ∈ (mergeAcc cas now this other).this) :
    ∃ e, get? (merge cas now this other).state i.id = some e ∧ e.id = i.id ∧ e.state = i.state ∧ e.ts = i.ts ∧
      (t ∈ e.tokens ↔ (claims t i ∧ ∀ j ∈ (mergeAcc cas now this other).this, claims t j → keyLe i j)) :=
  PfC05.merge_owner_spec cas now this other h t i hi

/-- the map a gossip merge builds before resolution is, per key, the last-writer-wins entry of the
receiver's entry and the NORMALISED incoming entry (newer timestamp, or same timestamp and a removal of
an entry that has not left; a missing receiver entry reads as timestamp 0, not left) -/
theorem merge_map_lww (now : Int) (this other : Desc) (hn : (ids other).Nodup) (k : String) :
    get? (mergeAcc false now this other).this k =
      match get? (normalize other) k with
      | none => get? this k
      | some o =>
        if o.ts > curTs (get? this k) ∨ (o.ts = curTs (get? this k) ∧ curLeft (get? this k) = false ∧ o.state = .LEFT)
        then some o else get? this k := by
  have hn' : (ids (normalize other)).Nodup := by
    have : ids (normalize other) = ids other := by
      unfold normalize ids; rw [List.map_map]; apply List.map_congr_left; intro i _; exact normInst_id i
    rw [this]; exact hn
  unfold mergeAcc
  simp only [Bool.false_eq_true, if_false]
  rw [get?_foldl _ _ k hn']
  cases get? (normalize other) k with
  | none => rfl
  | some o =>
    simp only [joinOpt, stepOpt, accept]
    by_cases h1 : o.ts > curTs (get? this k)
    · simp [h1]
    · by_cases h2 : o.ts = curTs (get? this k) ∧ curLeft (get? this k) = false ∧ o.state = .LEFT
      · simp [h1, h2]
      · simp [h1, h2]

/-- every state a replica can reach by merging peer updates and local writes is well-formed -/
theorem reachable_wf {s : Desc} (h : Reachable s) : WF s := PfC05.reachable_wf h

/-- in particular no token is held by two instances that have not left -/
theorem reachable_one_owner {s : Desc} (h : Reachable s) (t : Nat) (i j : Inst)
    (hi : i ∈ s) (hj : j ∈ s) (hti : t ∈ i.tokens) (htj : t ∈ j.tokens) : i = j :=
  wf_one_owner (PfC05.reachable_wf h) t i j hi hj hti htj

/-- **lookups over any reachable state never report inconsistent token information and never
panic** (on the C01 lookup model, which is tied to `Ring.Get` by C01's correspondence check): the
well-formedness kept by every merge is exactly what C01's walk needs. -/
theorem lookups_total_on_reachable {s : Desc} (h : Reachable s) (cfg : C01.Cfg) (key : Nat) (op : C01.Op)
    (now : Int) (hrf : 1 ≤ cfg.rf) :
    C01.get cfg s (C01.sortedTokens s) key op now ≠ .error .inconsistentTokens ∧
    C01.get cfg s (C01.sortedTokens s) key op now ≠ .error .panic :=
  let hw := PfC05.reachable_wf h
  PC01.walk_no_inconsistent cfg s key op now ⟨hw.nodup, hw.noconf⟩ hrf

/-- the same through the real token-list construction (`getTokens`, the loser-tree merge of the
per-instance lists in ANY map iteration order), for reachable states whose tokens are `uint32` values -/
theorem lookups_total_on_reachable_any_order {s : Desc} (h : Reachable s) (hu : C01.TokensU32 s)
    (order : Desc) (hperm : order.Perm s) (cfg : C01.Cfg) (key : Nat) (op : C01.Op) (now : Int) (hrf : 1 ≤ cfg.rf) :
    C01.get cfg s (C01.getTokens order) key op now ≠ .error .inconsistentTokens ∧
    C01.get cfg s (C01.getTokens order) key op now ≠ .error .panic := by
  rw [PC01.getTokens_sorted s order hperm hu]
  exact lookups_total_on_reachable h cfg key op now hrf

/-- shuffle sharding (plain and with look-back, any size, identifier stream and time) over any
reachable state never takes the inconsistent-token (panic) branch of `shuffleShard` (C12's checked
model `shardIdsC`, tied to `Ring.ShuffleShard(WithLookback)` by C12's correspondence check). -/
theorem shuffle_shard_total_on_reachable {s : Desc} (h : Reachable s) (cfg : C12.Cfg)
    (starts : String → Nat → Nat) (size period now : Int) :
    C12.shardIdsC cfg s starts size period now = .ok (C12.shardIds cfg s starts size period now) :=
  PC12.shardIds_total_on_wf cfg s (PfC05.reachable_wf h).noconf starts size period now

/-- token-range computation over any reachable state never reports inconsistent token information
and never panics (C14's model of `GetTokenRangesForInstance`). NOTE: this is `PC14.ranges_never_inconsistent`,
which holds for EVERY descriptor — the hypothesis `Reachable s` is not used; the theorem is listed
here only so that the property's three lookup kinds appear side by side. It is C14's fact, not C05's. -/
theorem token_ranges_total_on_reachable {s : Desc} (h : Reachable s) (za : Bool) (rf : Nat) (id : String) :
    C14.rangesForInstance s za rf id ≠ .error .inconsistent ∧ C14.rangesForInstance s za rf id ≠ .error .panic :=
  PC14.ranges_never_inconsistent s za rf id

/-- **a long-lived ring client never sees a broken index.** Take C13's model of the ring client (kept
token indexes, shard caches, the re-indexing shortcut) and ANY history of descriptor updates and
shuffle-shard queries in which every descriptor delivered to the client is — up to the order in which
the map entries are listed, the client receiving them in the canonical (sorted) order — a state some
replica can reach by merging. Then every `Get` / `GetWithOptions` served from the kept indexes — any
key, operation and time — is the C01 lookup on the latest descriptor, and it never reports
inconsistent token information and never panics. Composition of `reachable_wf` (C05),
`observational_equivalence` and `fresh_reads_are_the_models` (C13) and `walk_no_inconsistent` (C01). -/
theorem longlived_client_lookups_total (st : C13.Streams) (ccfg : C12.Cfg) (steps : List PfC13.Step)
    (hc : PfC13.CanonSteps steps)
    (hs : ∀ s ∈ steps, ∀ d, s = .upd d → ∃ r, Reachable r ∧ d.Perm r)
    (rcfg : C01.Cfg) (key : Nat) (op : C01.Op) (now : Int) (hrf : 1 ≤ rcfg.rf) :
    let c := PfC13.run st { cfg := ccfg } steps
    let d := PfC13.lastDesc steps []
    C13.readGet rcfg c.idx c.desc key op now rcfg.rf = C01.get rcfg d (C01.sortedTokens d) key op now ∧
    C13.readGet rcfg c.idx c.desc key op now rcfg.rf ≠ .error .inconsistentTokens ∧
    C13.readGet rcfg c.idx c.desc key op now rcfg.rf ≠ .error .panic := by
  intro c d
  have hwf : C01.WFRing d := lastDesc_of_all C01.WFRing steps [] (by simp [C01.WFRing])
    (fun s hs' d' hd' => by
      obtain ⟨r, hr, hp⟩ := hs s hs' d' hd'
      exact wfring_of_perm_wf (PfC05.reachable_wf hr) hp)
  have hcan : PfC13.Canon d := lastDesc_of_all PfC13.Canon steps [] (by simp [PfC13.Canon]) hc
  have ho := (PC13.observational_equivalence st ccfg steps hc).2.2.2.2.1 rcfg key op now rcfg.rf
  have hf := PfC13.fresh_fields ccfg d
  have hm := (PC13.fresh_reads_are_the_models rcfg d hcan).1 key op now rcfg.rf
  have e : C13.readGet rcfg c.idx c.desc key op now rcfg.rf = C01.get rcfg d (C01.sortedTokens d) key op now := by
    have := ho
    rw [hf.1, hf.2.1] at this
    rw [this, hm]; rfl
  have hw := PC01.walk_no_inconsistent rcfg d key op now hwf hrf
  exact ⟨e, by rw [e]; exact hw.1, by rw [e]; exact hw.2⟩

/-! ### What is NOT claimed: the winner depends on the delivery order

Three updates: `a@1 ACTIVE [7]`, `b@1 ACTIVE [7]`, `a@2 LEAVING [7]`. Delivered in two orders to two
replicas starting empty, they end in two different well-formed states that no re-delivery of these
updates changes any more: on the first, the LEAVING instance `a` keeps token 7 although the ACTIVE `b`
claims it (when `a@2` arrives its token list equals the stored one, so the "tokens unchanged" shortcut
skips resolution); on the second, `b` holds it. Only `verifyTokens` on the owners (lifecycler, not
modelled) repairs this. The same divergence for a token handed over at disjoint times is
`PC03.merge_diverges_on_token_handover`. The harness replays exactly this scenario on the real code
(`C05.order`, first line of the stream). -/

def wA1 : Desc := [{ id := "a", ts := 1, state := .ACTIVE, tokens := [7] }]
def wB1 : Desc := [{ id := "b", ts := 1, state := .ACTIVE, tokens := [7] }]
def wA2 : Desc := [{ id := "a", ts := 2, state := .LEAVING, tokens := [7] }]
def wEnd1 : Desc := [wA1, wB1, wA2].foldl mergeState []
def wEnd2 : Desc := [wA2, wB1, wA1].foldl mergeState []

theorem winner_depends_on_delivery_order_witness :
    [wA1, wB1, wA2].Perm [wA2, wB1, wA1] ∧
    wEnd1 = [{ id := "a", ts := 2, state := .LEAVING, tokens := [7] }, { id := "b", ts := 1, state := .ACTIVE, tokens := [] }] ∧
    wEnd2 = [{ id := "a", ts := 2, state := .LEAVING, tokens := [] }, { id := "b", ts := 1, state := .ACTIVE, tokens := [7] }] ∧
    (Reachable wEnd1 ∧ Reachable wEnd2) ∧ (wf wEnd1 = true ∧ wf wEnd2 = true) ∧
    (∀ d ∈ [wA1, wB1, wA2], mergeState wEnd1 d = wEnd1 ∧ mergeState wEnd2 d = wEnd2) := by
  refine ⟨?_, by decide, by decide, ⟨?_, ?_⟩, by decide, by decide⟩
  · exact (List.Perm.swap _ _ _).trans ((List.Perm.cons _ (List.Perm.swap _ _ _)).trans (List.Perm.swap _ _ _))
  · exact .step false 0 wA2 (.step false 0 wB1 (.step false 0 wA1 .empty))
  · exact .step false 0 wA1 (.step false 0 wB1 (.step false 0 wA2 .empty))

/-! ### Non-vacuity -/

-- "b" ACTIVE and "a" LEAVING both claim token 2: "b" wins although "a" < "b"; token 1 stays with "a"
example : resolve [{ id := "a", state := .LEAVING, tokens := [1, 2] }, { id := "b", tokens := [2, 3] }] =
    [{ id := "a", state := .LEAVING, tokens := [1] }, { id := "b", tokens := [2, 3] }] := by decide

-- a gossip merge that needs resolution, from a well-formed state
example : (merge false 0 [{ id := "b", ts := 1, tokens := [2, 3] }] [{ id := "a", ts := 1, tokens := [3, 1, 3] }]).state =
    [{ id := "b", ts := 1, tokens := [2] }, { id := "a", ts := 1, tokens := [1, 3] }] := by decide

example : Reachable (merge false 0 [] [{ id := "a", ts := 1, tokens := [3, 1, 3] }]).state :=
  Reachable.step false 0 _ Reachable.empty

-- a client history meeting the premises of `longlived_client_lookups_total`: two delivered descriptors,
-- each the sorted listing of a reachable state, with a shard query in between
def exR1 : Desc := (merge false 0 [] [{ id := "b", ts := 1, tokens := [2, 3] }]).state
def exR2 : Desc := (merge false 0 exR1 [{ id := "a", ts := 1, tokens := [3, 1, 3] }]).state
example : Reachable exR1 ∧ Reachable exR2 := ⟨.step false 0 _ .empty, .step false 0 _ (.step false 0 _ .empty)⟩
example : exR2 = [{ id := "b", ts := 1, tokens := [2] }, { id := "a", ts := 1, tokens := [1, 3] }] := by decide
example : PfC13.CanonSteps [.upd exR1, .qS "t" 1, .upd exR2.reverse] := by
  intro s hs d hd
  simp only [List.mem_cons, List.mem_nil_iff, or_false] at hs
  rcases hs with rfl | rfl | rfl
  · cases hd; unfold PfC13.Canon; decide
  · cases hd
  · cases hd; unfold PfC13.Canon; decide
example : exR2.reverse.Perm exR2 := List.reverse_perm _

end PC05
