import Proofs.C03Thm
import Proofs.C03Cas
import Proofs.C03P
import Proofs.C03PChange
import Proofs.C03X
/-!
# C03 — ring state merge is a CRDT (property theorems)

Model: `Model/C03.lean` (`Desc.mergeWithTime`) and `Model/C03P.lean` (`PartitionRingDesc.mergeWithTime`).
The vocabulary of the statements (`rk`, `rkO`, `Univ`, `Drawn`) is defined in `Model/C03.lean`.
The property's provisos are made explicit — and they are STRONGER than the property text reads:

* `Univ U`   — every (instance, timestamp, tombstone-ness) denotes ONE content `U id ts left`; contents
               are normalised (sorted duplicate-free tokens, tombstones hold none); and no token is EVER
               claimed by two different instance ids — at any pair of timestamps, so also not at
               disjoint times: a token handed over from one instance to another is outside every
               theorem below, and convergence really fails there
               (`merge_diverges_on_token_handover`);
* `Drawn U d` — `d` has unique ids, every timestamp is ≥ 1 (the code reads a missing entry as
               timestamp 0, so an entry at timestamp 0 can never be accepted: see
               `merge_comm_fails_at_zero`), and every entry is `U`'s content for its key. In particular
               the RECEIVER of a merge is already normalised (the code normalises only the incoming
               descriptor: `merge_comm_fails_on_unnormalised_receiver`).

Under `Univ.noclash` no merge of drawn descriptors ever meets a token collision, so conflict
resolution (`resolve`) is dead code in all instance-ring theorems of this file
(`conflict_resolution_dead_in_universe`); resolution is C05's subject.

"Same content" is equality of the `get?` view (a Go map has no order), for every key.

## proviso → witness that it is needed (all proved below by evaluation of the model)

| proviso                                              | witness theorem                                  |
|------------------------------------------------------|--------------------------------------------------|
| gossip mode (not local CAS)                          | `cas_breaks_comm`                                |
| timestamps ≥ 1                                       | `merge_comm_fails_at_zero`                       |
| normalised RECEIVER                                  | `merge_comm_fails_on_unnormalised_receiver`      |
| coherent: one content per (id, ts, tombstone-ness)   | `merge_comm_fails_on_incoherent_contents`, `merge_converge_fails_on_incoherent_contents` |
| clash-free tokens, over ALL time                     | `merge_diverges_on_token_handover`, `merge_diverges_on_token_clash` |
| local CAS: clock not behind the removed entries      | `cas_change_insufficient_when_clock_behind`      |
| partition ring: `Coherent a b` (commutativity)       | `pmerge_comm_fails_without_coherence`            |
| partition ring: owner timestamps ≥ 1 (`WF`)          | `pmerge_comm_fails_at_owner_ts_zero`             |
| GC vs merge: tombstones must not be collected early  | `gc_does_not_commute_with_merge` (resurrection)  |
-/
namespace PC03
open Ring C03 PfC03

variable {U : String → Int → Bool → Inst}

/-- merged descriptors stay inside the universe, so the laws compose along arbitrary histories -/
theorem merge_closed (hU : Univ U) {a b : Desc} (ha : Drawn U a) (hb : Drawn U b) :
    Drawn U (mergeState a b) := mergeState_drawn hU ha hb

/-- per entry the newer timestamp wins and, at equal timestamps, a removal wins -/
theorem lww_rule (hU : Univ U) {a b : Desc} (ha : Drawn U a) (hb : Drawn U b) (k : String) :
    get? (mergeState a b) k = (if rkO (get? a k) < rkO (get? b k) then get? b k else get? a k) :=
  view_merge hU ha hb k

theorem merge_idem (hU : Univ U) {a : Desc} (ha : Drawn U a) (k : String) :
    get? (mergeState a a) k = get? a k := merge_idem_view hU ha k

theorem merge_comm (hU : Univ U) {a b : Desc} (ha : Drawn U a) (hb : Drawn U b) (k : String) :
    get? (mergeState a b) k = get? (mergeState b a) k := merge_comm_view hU ha hb k

theorem merge_assoc (hU : Univ U) {a b c : Desc} (ha : Drawn U a) (hb : Drawn U b) (hc : Drawn U c)
    (k : String) : get? (mergeState (mergeState a b) c) k = get? (mergeState a (mergeState b c)) k :=
  merge_assoc_view hU ha hb hc k

/-- the reported change is sufficient: merged into the pre-merge state … -/
theorem change_sufficient (hU : Univ U) {a b ch : Desc} (ha : Drawn U a) (hb : Drawn U b)
    (hch : (merge false 0 a b).change = some ch) (k : String) :
    get? (mergeState a ch) k = get? (mergeState a b) k :=
  change_sufficient_view hU ha hb ha (fun _ => Int.le_refl _) hch k

/-- … or into any replica `s` that already contains that state, it yields the same content as
merging the full incoming descriptor. -/
theorem change_sufficient_above (hU : Univ U) {a b ch s : Desc} (ha : Drawn U a) (hb : Drawn U b)
    (hs : Drawn U s) (hcontains : ∀ k, rkO (get? a k) ≤ rkO (get? s k))
    (hch : (merge false 0 a b).change = some ch) (k : String) :
    get? (mergeState s ch) k = get? (mergeState s b) k :=
  change_sufficient_view hU ha hb hs hcontains hch k

/-- a merge that reports no change leaves the content untouched (any flags, any inputs) -/
theorem no_change_no_effect (cas : Bool) (now : Int) (a b : Desc)
    (h : (merge cas now a b).change = none) : (merge cas now a b).state = a :=
  PfC03.no_change_no_effect cas now a b h

/-- and no change is reported exactly when nothing incoming is newer -/
theorem no_change_iff (hU : Univ U) {a b : Desc} (ha : Drawn U a) (hb : Drawn U b) :
    (merge false 0 a b).change = none ↔ ∀ k, ¬ rkO (get? a k) < rkO (get? b k) :=
  PfC03.no_change_iff hU ha hb

/-- replicas that received the same set of updates in ANY order expose identical content … -/
theorem converge_perm (hU : Univ U) {s : Desc} {l l' : List Desc} (hp : l.Perm l') (hs : Drawn U s)
    (hl : ∀ d ∈ l, Drawn U d) (k : String) :
    get? (l.foldl mergeState s) k = get? (l'.foldl mergeState s) k :=
  PfC03.converge_perm hU hp hs hl k

/-- … in any multiplicity (re-delivering a merged update is a no-op) … -/
theorem converge_dup (hU : Univ U) {s d : Desc} {l : List Desc} (hs : Drawn U s)
    (hl : ∀ d ∈ l, Drawn U d) (hd : d ∈ l) (k : String) :
    get? (mergeState (l.foldl mergeState s) d) k = get? (l.foldl mergeState s) k :=
  PfC03.converge_dup hU hs hl hd k

/-- … and any grouping (this is associativity, restated for a pre-merged batch). -/
theorem converge_regroup (hU : Univ U) {s x y : Desc} (hs : Drawn U s) (hx : Drawn U x) (hy : Drawn U y)
    (k : String) : get? (mergeState s (mergeState x y)) k = get? (mergeState (mergeState s x) y) k :=
  (merge_assoc_view hU hs hx hy k).symm

/-- under the provisos conflict resolution never runs: the map built by the merge loop is collision-free,
so `resolve` is dead code in every theorem above (token collisions are C05's subject) -/
theorem conflict_resolution_dead_in_universe (hU : Univ U) {a b : Desc} (ha : Drawn U a) (hb : Drawn U b) :
    conflictsExist (mergeAcc false 0 a b).this = false := by
  rw [mergeAcc_eq_loop hU a hb]; exact drawn_no_conflicts hU (loop_drawn ha hb)

/-! ### The change reported by a LOCAL CAS (`cas = true`) — the change that is gossiped most often

A local CAS of the new value `b` over the pre-state `a` accepts `b`'s newer entries and turns every
entry of `a` that is missing from `b` (and has not left) into a tombstone stamped `now`; the reported
change holds the accepted entries AND those tombstones. The tombstones need not be contents of `U`. -/

/-- merged into a replica holding the pre-state, the change of a local CAS reproduces the post-CAS
state — provided the clock is not behind the entries the CAS removes (needed:
`cas_change_insufficient_when_clock_behind`) -/
theorem cas_change_sufficient (hU : Univ U) {a b ch : Desc} {now : Int} (ha : Drawn U a) (hb : Drawn U b)
    (hnow : now ≥ 1) (hclock : ∀ t ∈ a, t.state ≠ .LEFT → get? b t.id = none → t.ts ≤ now)
    (hch : (merge true now a b).change = some ch) (k : String) :
    get? (mergeState a ch) k = get? (merge true now a b).state k :=
  cas_change_sufficient_view hU ha hb hnow hclock hch k

/-- … and merged into ANY replica `s` that already contains the pre-state it yields the same content
as merging the whole post-CAS state (no condition on the clock) -/
theorem cas_change_sufficient_above (hU : Univ U) {a b ch s : Desc} {now : Int} (ha : Drawn U a) (hb : Drawn U b)
    (hs : Drawn U s) (hcontains : ∀ k, rkO (get? a k) ≤ rkO (get? s k)) (hnow : now ≥ 1)
    (hch : (merge true now a b).change = some ch) (k : String) :
    get? (mergeState s ch) k = get? (mergeState s (merge true now a b).state) k :=
  cas_change_sufficient_above_view hU ha hb hs hcontains hnow hch k

/-! ### Why the provisos are needed (witnesses, checked by evaluation) -/

/-- the local-CAS mode is not commutative, as the code's comment says -/
theorem cas_breaks_comm :
    (merge true 5 [{ id := "a", ts := 1 }] []).state ≠ (merge true 5 [] [{ id := "a", ts := 1 }]).state := by
  decide

/-- at timestamp 0 an entry is kept by a replica that has it but never accepted by one that lacks it -/
theorem merge_comm_fails_at_zero :
    get? (mergeState [{ id := "a", ts := 0 }] []) "a" ≠ get? (mergeState [] [{ id := "a", ts := 0 }]) "a" := by
  decide

/-- the receiver must already be normalised: the code sorts the INCOMING token lists only, so a
replica holding an unsorted list keeps it while its peer stores the sorted one -/
theorem merge_comm_fails_on_unnormalised_receiver :
    get? (mergeState [{ id := "a", ts := 1, tokens := [5, 1] }] []) "a" ≠
    get? (mergeState [] [{ id := "a", ts := 1, tokens := [5, 1] }]) "a" := by decide

/-- COHERENCE is needed: two replicas holding the same id at the same timestamp with different content
(here: different address; same state, no tokens, all normalised, ts ≥ 1) each keep their own -/
theorem merge_comm_fails_on_incoherent_contents :
    get? (mergeState [{ id := "a", ts := 1, addr := "x" }] [{ id := "a", ts := 1, addr := "y" }]) "a" ≠
    get? (mergeState [{ id := "a", ts := 1, addr := "y" }] [{ id := "a", ts := 1, addr := "x" }]) "a" := by decide

/-- … and the divergence is permanent: the same two updates delivered in the two orders leave two
replicas that differ, and re-delivering either update changes neither -/
theorem merge_converge_fails_on_incoherent_contents :
    let x : Desc := [{ id := "a", ts := 1, addr := "x" }]
    let y : Desc := [{ id := "a", ts := 1, addr := "y" }]
    [x, y].foldl mergeState [] ≠ [y, x].foldl mergeState [] ∧
    mergeState ([x, y].foldl mergeState []) y = [x, y].foldl mergeState [] ∧
    mergeState ([y, x].foldl mergeState []) x = [y, x].foldl mergeState [] := by decide

/-- a local CAS whose clock is behind the entry it removes stamps a tombstone that no replica
holding the pre-state accepts: the change is then NOT sufficient -/
theorem cas_change_insufficient_when_clock_behind :
    ∃ ch, (merge true 3 [{ id := "a", ts := 5 }] []).change = some ch ∧
      get? (mergeState [{ id := "a", ts := 5 }] ch) "a" ≠ get? (merge true 3 [{ id := "a", ts := 5 }] []).state "a" :=
  ⟨_, rfl, by decide⟩

/-! #### `noclash` over ALL timestamps is needed: a token handed over between two instances

Instance `a` holds token 7 at timestamp 1 and has given it up at timestamp 2; instance `b` claims it at
timestamp 3 — the two claims are at disjoint times, every (id, timestamp) has one content, all
contents are normalised. Only `Univ.noclash` fails. Two replicas that receive the same three updates
in two orders end with different token lists for `b`, permanently (all timestamps agree, so no
further delivery of these updates repairs it). -/

def Uh (id : String) (ts : Int) (l : Bool) : Inst :=
  { id := id, ts := ts, state := if l then .LEFT else .ACTIVE,
    tokens := if l then [] else if id = "a" ∧ ts < 2 then [7] else if id = "b" ∧ ts > 2 then [7] else [] }

def hA1 : Desc := [Uh "a" 1 false]
def hA2 : Desc := [Uh "a" 2 false]
def hB3 : Desc := [Uh "b" 3 false]

/-- `Uh` meets every clause of `Univ` except `noclash` -/
theorem handover_universe_coherent :
    (∀ id ts l, (Uh id ts l).id = id) ∧ (∀ id ts l, (Uh id ts l).ts = ts) ∧
    (∀ id ts l, (Uh id ts l).state = .LEFT ↔ l = true) ∧
    (∀ id ts l, sortedStrict (Uh id ts l).tokens = true) ∧ (∀ id ts, (Uh id ts true).tokens = []) := by
  refine ⟨fun _ _ _ => rfl, fun _ _ _ => rfl, ?_, ?_, fun _ _ => rfl⟩
  · intro id ts l; cases l <;> simp [Uh]
  · intro id ts l
    cases l
    · simp only [Uh, Bool.false_eq_true, if_false]
      split
      · rfl
      · split <;> rfl
    · rfl

/-- **convergence fails when a token is claimed by two ids, even at disjoint times.** The three
updates are drawn from `Uh`; delivered as `[a@1, a@2, b@3]` instance `b` ends holding `[7]`, delivered
as `[a@1, b@3, a@2]` it ends holding `[]` (the collision with the stale `a@1` was resolved in `a`'s
favour and nothing ever gives the token back); all timestamps and states agree on both replicas, and
both end states are stable under re-delivery of any of the three updates. -/
theorem merge_diverges_on_token_handover :
    (Drawn Uh hA1 ∧ Drawn Uh hA2 ∧ Drawn Uh hB3) ∧
    [hA1, hA2, hB3].Perm [hA1, hB3, hA2] ∧
    (get? ([hA1, hA2, hB3].foldl mergeState []) "b").map (·.tokens) = some [7] ∧
    (get? ([hA1, hB3, hA2].foldl mergeState []) "b").map (·.tokens) = some [] ∧
    (∀ k, (get? ([hA1, hA2, hB3].foldl mergeState []) k).map rk = (get? ([hA1, hB3, hA2].foldl mergeState []) k).map rk) ∧
    (∀ d ∈ [hA1, hA2, hB3],
      mergeState ([hA1, hA2, hB3].foldl mergeState []) d = [hA1, hA2, hB3].foldl mergeState [] ∧
      mergeState ([hA1, hB3, hA2].foldl mergeState []) d = [hA1, hB3, hA2].foldl mergeState []) := by
  refine ⟨⟨⟨by decide, by decide, by decide⟩, ⟨by decide, by decide, by decide⟩, ⟨by decide, by decide, by decide⟩⟩,
    List.Perm.cons _ (List.Perm.swap _ _ _), by decide, by decide, ?_, by decide⟩
  intro k
  have e1 : [hA1, hA2, hB3].foldl mergeState [] = [Uh "a" 2 false, Uh "b" 3 false] := by decide
  have e2 : [hA1, hB3, hA2].foldl mergeState [] = [Uh "a" 2 false, { Uh "b" 3 false with tokens := [] }] := by decide
  rw [e1, e2]
  simp only [get?]
  split
  · rfl
  · split <;> rfl

/-- the same with overlapping claims (the audit's example): `a` still holds 7 when `b` claims it -/
theorem merge_diverges_on_token_clash :
    (get? ([[{ id := "a", ts := 1, tokens := [7] }], [{ id := "b", ts := 2, tokens := [7] }], [{ id := "a", ts := 3 }]].foldl
        mergeState []) "b").map (·.tokens) = some [] ∧
    (get? ([[{ id := "a", ts := 1, tokens := [7] }], [{ id := "a", ts := 3 }], [{ id := "b", ts := 2, tokens := [7] }]].foldl
        mergeState []) "b").map (·.tokens) = some [7] := by decide

/-! ### `RemoveTombstones(limit)`, `MergeContent()`, `Clone()` — for ALL descriptors, no provisos

`removeTombstones (some l)` deletes the LEFT entries with `ts < l`; `none` is the zero time (all LEFT
entries). A limit `time.Unix(sec, nsec)` corresponds to `l = limitOf sec nsec` (`limitOf_spec`).
`tombCounts` are the two counters the Go function returns: (LEFT entries kept, LEFT entries removed). -/

/-- `time.Unix(ts,0).Before(time.Unix(sec,nsec))`, i.e. ts·10⁹ < sec·10⁹ + nsec, for 0 ≤ nsec < 10⁹ -/
theorem limitOf_spec (ts sec : Int) (nsec : Nat) (h : nsec < 1000000000) :
    ts < limitOf sec nsec ↔ ts * 1000000000 < sec * 1000000000 + nsec := by
  unfold limitOf; split <;> omega

/-- a second pass with the same limit removes nothing … -/
theorem gc_idem (l : Option Int) (d : Desc) : removeTombstones l (removeTombstones l d) = removeTombstones l d :=
  rt_idem l d

/-- … and reports (same total, 0 removed) -/
theorem gc_counts_second_pass (l : Option Int) (d : Desc) :
    tombCounts l (removeTombstones l d) = ((tombCounts l d).1, 0) := counts_second l d

/-- monotone in the limit: collecting with an earlier limit first does not change what a later limit leaves … -/
theorem gc_mono {l l' : Int} (h : l ≤ l') (d : Desc) :
    removeTombstones (some l') (removeTombstones (some l) d) = removeTombstones (some l') d := rt_mono h d

/-- … everything a later limit keeps, an earlier limit keeps … -/
theorem gc_mono_mem {l l' : Int} (h : l ≤ l') {d : Desc} {x : Inst} (hx : x ∈ removeTombstones (some l') d) :
    x ∈ removeTombstones (some l) d := by
  rw [mem_rt] at hx ⊢
  refine ⟨hx.1, ?_⟩
  cases ht : isTomb (some l) x
  · rfl
  · rw [isTomb_mono h x ht] at hx; exact absurd hx.2 (by decide)

/-- … and the zero limit is the top: it absorbs any earlier collection -/
theorem gc_zero_absorbs (l : Option Int) (d : Desc) :
    removeTombstones none (removeTombstones l d) = removeTombstones none d := rt_none_absorbs l d

/-- an entry that has not LEFT is never removed, whatever the limit -/
theorem gc_keeps_live (l : Option Int) {d : Desc} {x : Inst} (hx : x ∈ d) (hs : x.state ≠ .LEFT) :
    x ∈ removeTombstones l d := rt_keeps_live l hx hs

/-- nothing is added or altered, and what disappears is a LEFT entry older than the limit -/
theorem gc_removes_only_expired_tombstones (l : Option Int) {d : Desc} {x : Inst} :
    (x ∈ removeTombstones l d → x ∈ d) ∧
    (x ∈ d → x ∉ removeTombstones l d → x.state = .LEFT ∧ (∀ lim, l = some lim → x.ts < lim)) := by
  refine ⟨fun h => (mem_rt.mp h).1, fun hx hn => ?_⟩
  have h := rt_removed_is_tomb l hx hn
  refine ⟨h.1, fun lim hl => ?_⟩
  subst hl
  have := h.2
  simp only [isTomb, Bool.and_eq_true, decide_eq_true_eq] at this
  exact this.2

/-- per key (unique ids): the entry stays unless it is an expired tombstone -/
theorem gc_view (l : Option Int) {d : Desc} (hn : (ids d).Nodup) (k : String) :
    get? (removeTombstones l d) k = (get? d k).filter (fun i => !isTomb l i) := get?_rt l hn k

/-- the counters: `removed` is the number of entries that disappeared, `total` the number of LEFT
entries still there, and together they are the LEFT entries of the input -/
theorem gc_counts (l : Option Int) (d : Desc) :
    (tombCounts l d).2 + (removeTombstones l d).length = d.length ∧
    (tombCounts l d).1 = ((removeTombstones l d).filter (fun i => i.state == .LEFT)).length ∧
    (tombCounts l d).1 + (tombCounts l d).2 = (d.filter (fun i => i.state == .LEFT)).length :=
  ⟨counts_removed l d, counts_total l d, counts_left l d⟩

/-- `MergeContent` of a collected descriptor is a sub-list of the original's -/
theorem gc_merge_content_sublist (l : Option Int) (d : Desc) :
    (mergeContent (removeTombstones l d)).Sublist (mergeContent d) := ids_rt_sublist l d

/-- `Clone` then `Merge` of anything is `Merge` on the original (state and change, every mode) -/
theorem clone_then_merge (cas : Bool) (now : Int) (a b : Desc) :
    merge cas now (clone a) b = merge cas now a b ∧ mergeContent (clone a) = mergeContent a := ⟨rfl, rfl⟩

/-- collecting tombstones does NOT commute with merging — collected too early, a tombstone lets the
entry it deleted come back (this is why tombstones are kept for `LeftIngestersTimeout`; C04's subject):
`a` holds the removal of "i" at ts 2, `b` still the live entry at ts 1 -/
theorem gc_does_not_commute_with_merge :
    let a : Desc := [{ id := "i", ts := 2, state := .LEFT }]
    let b : Desc := [{ id := "i", ts := 1, tokens := [3] }]
    get? (removeTombstones none (mergeState a b)) "i" = none ∧
    get? (mergeState (removeTombstones none a) (removeTombstones none b)) "i" = some { id := "i", ts := 1, tokens := [3] } := by
  decide

/-- it does commute, per key, where no entry of either side is collected (full statement with the
weakest guard — "whenever the last-writer-wins winner is collected, so is the loser" — NOT proved) -/
theorem gc_commutes_with_merge_partial (l : Option Int) (a b : Desc)
    (ha : ∀ x ∈ a, isTomb l x = false) (hb : ∀ x ∈ b, isTomb l x = false) :
    mergeState (removeTombstones l a) (removeTombstones l b) = mergeState a b := by
  have e : ∀ d : Desc, (∀ x ∈ d, isTomb l x = false) → removeTombstones l d = d := by
    intro d hd; rw [rt_eq]; exact List.filter_eq_self.mpr (fun x hx => by simp [hd x hx])
  rw [e a ha, e b hb]

-- non-vacuity: limits around a tombstone at ts 3 (sub-second limit 3s+1ns removes it, 3s+0ns keeps it)
example : removeTombstones (some (limitOf 3 0)) [{ id := "a", ts := 3, state := .LEFT }, { id := "b", ts := 1 }] =
    [{ id := "a", ts := 3, state := .LEFT }, { id := "b", ts := 1 }] := by decide
example : removeTombstones (some (limitOf 3 1)) [{ id := "a", ts := 3, state := .LEFT }, { id := "b", ts := 1 }] =
    [{ id := "b", ts := 1 }] := by decide
example : tombCounts (some 3) [{ id := "a", ts := 3, state := .LEFT }, { id := "b", ts := 1, state := .LEFT }, { id := "c", ts := 1 }] = (1, 1) := by decide
example : (2 : Int) ≤ 4 ∧ removeTombstones (some 2) [{ id := "a", ts := 3, state := .LEFT }, { id := "b", ts := 1, state := .LEFT }] ≠
    removeTombstones (some 4) [{ id := "a", ts := 3, state := .LEFT }, { id := "b", ts := 1, state := .LEFT }] := by decide
example : ∀ x ∈ ([{ id := "a", ts := 3, state := .LEFT }, { id := "b", ts := 1 }] : Desc), isTomb (some 3) x = false := by decide

/-! ### Partition ring (`PartitionRingDesc.mergeWithTime`, model `Model/C03P.lean`)

Partition id and tokens are immutable; the state and the state-change lock are two
last-writer-wins registers per partition (a deletion wins at equal timestamps); owners are
last-writer-wins entries with tombstones. `WF`: unique ids, owner timestamps ≥ 1. `Coherent a b`: one
content per (entry, timestamp). "Same content" is equality of both `get` views (`Equiv`). -/

open C03P in
theorem pmerge_closed (a b : PDesc) (ha : PfC03P.WF a) (hb : PfC03P.WF b) : PfC03P.WF (C03P.mergeState a b) :=
  PfC03P.mergeState_wf a b ha hb

/-- per partition: registers are combined componentwise (newer timestamp wins, deletion wins ties),
a partition unknown to the receiver is taken as a whole; per owner: the newer entry, removal at ties -/
theorem pmerge_lww (a b : C03P.PDesc) (ha : PfC03P.WF a) (hb : PfC03P.WF b) :
    (∀ k, C03P.getP (C03P.mergeState a b).parts k = PfC03P.joinP (C03P.getP a.parts k) (C03P.getP b.parts k)) ∧
    (∀ k, C03P.getO (C03P.mergeState a b).owners k = PfC03P.joinO (C03P.getO a.owners k) (C03P.getO b.owners k)) :=
  ⟨fun k => PfC03P.view_parts a b hb k, fun k => PfC03P.view_owners a b ha hb k⟩

theorem pmerge_idem (a : C03P.PDesc) (ha : PfC03P.WF a) : PfC03P.Equiv (C03P.mergeState a a) a :=
  PfC03P.merge_idem a ha

theorem pmerge_comm (a b : C03P.PDesc) (ha : PfC03P.WF a) (hb : PfC03P.WF b) (hc : PfC03P.Coherent a b) :
    PfC03P.Equiv (C03P.mergeState a b) (C03P.mergeState b a) :=
  PfC03P.merge_comm a b ha hb hc

theorem pmerge_assoc (a b c : C03P.PDesc) (ha : PfC03P.WF a) (hb : PfC03P.WF b) (hc : PfC03P.WF c) :
    PfC03P.Equiv (C03P.mergeState (C03P.mergeState a b) c) (C03P.mergeState a (C03P.mergeState b c)) :=
  PfC03P.merge_assoc a b c ha hb hc

/-- partition-ring replicas that received the same updates in any order expose identical content -/
theorem pconverge_perm (s : C03P.PDesc) {l l' : List C03P.PDesc} (hp : l.Perm l') (hs : PfC03P.WF s)
    (hl : ∀ d ∈ l, PfC03P.WF d) (hc : ∀ x ∈ l, ∀ y ∈ l, PfC03P.Coherent x y) :
    PfC03P.Equiv (l.foldl C03P.mergeState s) (l'.foldl C03P.mergeState s) :=
  PfC03P.converge_perm s hp hs hl hc

/-- … and in any multiplicity: re-delivering an update that was already merged changes nothing
(absorption, not only `a ⊔ a = a`) -/
theorem pconverge_dup (s : C03P.PDesc) {l : List C03P.PDesc} {d : C03P.PDesc} (hs : PfC03P.WF s)
    (hl : ∀ d ∈ l, PfC03P.WF d) (hd : d ∈ l) :
    PfC03P.Equiv (C03P.mergeState (l.foldl C03P.mergeState s) d) (l.foldl C03P.mergeState s) :=
  PfC03P.converge_dup s l d hs hl hd

/-- the change reported by a partition-ring merge is sufficient: merged into the pre-merge state … -/
theorem pchange_sufficient (a b ch : C03P.PDesc) (ha : PfC03P.WF a) (hb : PfC03P.WF b)
    (hch : (C03P.merge false 0 a b).change = some ch) :
    PfC03P.Equiv (C03P.mergeState a ch) (C03P.mergeState a b) :=
  PfC03P.change_sufficient_view a b a ch ha hb ha (PfC03P.contains_refl a) hch

/-- … or into any replica `s` that already contains that state (`PfC03P.Contains a s`: every partition
of `a` is known to `s` with both registers at least as new, every owner of `a` is in `s` at least as
new), it yields the same content as merging the full incoming descriptor. -/
theorem pchange_sufficient_above (a b s ch : C03P.PDesc) (ha : PfC03P.WF a) (hb : PfC03P.WF b) (hs : PfC03P.WF s)
    (hcontains : PfC03P.Contains a s) (hch : (C03P.merge false 0 a b).change = some ch) :
    PfC03P.Equiv (C03P.mergeState s ch) (C03P.mergeState s b) :=
  PfC03P.change_sufficient_view a b s ch ha hb hs hcontains hch

/-- `Contains` is what a replica gets by merging anything on top of `a` -/
theorem pcontains_after_merge (a c : C03P.PDesc) (ha : PfC03P.WF a) (hc : PfC03P.WF c) :
    PfC03P.Contains a (C03P.mergeState a c) := PfC03P.contains_merge a c ha hc

/-- a partition-ring merge that reports no change leaves the state untouched (any flags, any inputs) -/
theorem pno_change_no_effect (cas : Bool) (now : Int) (a b : C03P.PDesc)
    (h : (C03P.merge cas now a b).change = none) : (C03P.merge cas now a b).state = a :=
  PfC03P.no_change_no_effect cas now a b h

/-- and no change is reported exactly when nothing incoming is newer -/
theorem pno_change_iff (a b : C03P.PDesc) (ha : PfC03P.WF a) (hb : PfC03P.WF b) :
    (C03P.merge false 0 a b).change = none ↔
      (∀ k o, C03P.getP b.parts k = some o → ∃ t, C03P.getP a.parts k = some t ∧
          PfC03P.srk (PfC03P.sreg o) ≤ PfC03P.srk (PfC03P.sreg t) ∧ PfC03P.lrk (PfC03P.lreg o) ≤ PfC03P.lrk (PfC03P.lreg t)) ∧
      (∀ k, PfC03P.orkO (C03P.getO b.owners k) ≤ PfC03P.orkO (C03P.getO a.owners k)) :=
  PfC03P.no_change_iff a b ha hb

/-- `Coherent` is needed for `pmerge_comm`: two well-formed partition rings in which owner "o" has, at the
same timestamp, two different contents (owned partition 1 vs 2) each keep their own -/
theorem pmerge_comm_fails_without_coherence :
    let a : C03P.PDesc := { parts := [], owners := [{ id := "o", part := 1, state := 1, ts := 4 }] }
    let b : C03P.PDesc := { parts := [], owners := [{ id := "o", part := 2, state := 1, ts := 4 }] }
    PfC03P.WF a ∧ PfC03P.WF b ∧
    C03P.getO (C03P.mergeState a b).owners "o" ≠ C03P.getO (C03P.mergeState b a).owners "o" :=
  ⟨⟨by decide, by decide, by decide⟩, ⟨by decide, by decide, by decide⟩, by decide⟩

/-- `WF`'s "owner timestamps ≥ 1" is needed: an owner at timestamp 0 is kept by the replica that has it
and never accepted by one that lacks it -/
theorem pmerge_comm_fails_at_owner_ts_zero :
    let a : C03P.PDesc := { parts := [], owners := [{ id := "o", part := 1, state := 1, ts := 0 }] }
    let b : C03P.PDesc := { parts := [], owners := [] }
    C03P.getO (C03P.mergeState a b).owners "o" ≠ C03P.getO (C03P.mergeState b a).owners "o" := by decide

/-! #### non-vacuity: two DIFFERENT coherent well-formed partition rings with two partitions -/

def pA : C03P.PDesc :=
  { parts := [{ id := 1, tokens := [5], state := 1, stateTs := 3 },
              { id := 2, tokens := [9], state := 2, stateTs := 1, locked := true, lockedTs := 2 }],
    owners := [{ id := "o", part := 1, state := 1, ts := 4 }] }
def pB : C03P.PDesc :=
  { parts := [{ id := 1, tokens := [5], state := 2, stateTs := 4 },
              { id := 2, tokens := [9], state := 2, stateTs := 1, locked := false, lockedTs := 1 }],
    owners := [{ id := "o", part := 1, state := 2, ts := 4 }, { id := "p", part := 2, state := 1, ts := 2 }] }

example : PfC03P.WF pA ∧ PfC03P.WF pB := ⟨⟨by decide, by decide, by decide⟩, ⟨by decide, by decide, by decide⟩⟩
example : PfC03P.Coherent pA pB := PfC03P.coherent_of_mem pA pB (by decide) (by decide)
example : pA ≠ pB ∧ C03P.mergeState pA pB ≠ pA ∧ C03P.mergeState pA pB ≠ pB := by decide
-- partition 1 takes the newer state, partition 2 keeps the newer lock, owner "o" the same-second
-- deletion, owner "p" is new: the reported change holds exactly partition 1 and both owners
example : (C03P.merge false 0 pA pB).change =
    some { parts := [{ id := 1, tokens := [5], state := 2, stateTs := 4 }],
           owners := [{ id := "o", part := 1, state := 2, ts := 4 }, { id := "p", part := 2, state := 1, ts := 2 }] } := by
  decide
-- a second, different replica containing pA, and a nil change in the other direction
example : (C03P.merge false 0 (C03P.mergeState pA pB) pA).change = none := by decide

-- non-vacuity: a pending→active state change and a same-second owner deletion are both accepted
example : C03P.mergeState
    { parts := [{ id := 1, tokens := [5], state := 1, stateTs := 3 }], owners := [{ id := "o", part := 1, state := 1, ts := 4 }] }
    { parts := [{ id := 1, tokens := [5], state := 2, stateTs := 4 }], owners := [{ id := "o", part := 1, state := 2, ts := 4 }] } =
    { parts := [{ id := 1, tokens := [5], state := 2, stateTs := 4 }], owners := [{ id := "o", part := 1, state := 2, ts := 4 }] } := by
  decide

/-! ### Non-vacuity: a concrete universe with tokens, two instances, three timestamps -/

def U0 (id : String) (ts : Int) (l : Bool) : Inst :=
  { id := id, ts := ts, state := if l then .LEFT else (if ts = 2 then .LEAVING else .ACTIVE),
    tokens := if l then [] else if id = "a" then [1, 5] else if id = "b" then [2, 4294967295] else [] }

theorem U0_univ : Univ U0 := by
  refine ⟨fun _ _ _ => rfl, fun _ _ _ => rfl, ?_, ?_, fun _ _ => rfl, ?_⟩
  · intro id ts l; cases l <;> simp [U0]; split <;> simp
  · intro id ts l
    cases l
    · by_cases ha : id = "a"
      · simp [U0, ha, sortedStrict]
      · by_cases hb : id = "b" <;> simp [U0, ha, hb, sortedStrict]
    · simp [U0, sortedStrict]
  · intro id ts l id' ts' l' hne t ht
    cases l
    · cases l'
      · by_cases ha : id = "a" <;> by_cases hb : id = "b" <;> by_cases ha' : id' = "a" <;>
          by_cases hb' : id' = "b" <;> simp_all [U0] <;> omega
      · simp [U0]
    · simp [U0] at ht

def dA : Desc := [U0 "a" 1 false, U0 "b" 3 false]
def dB : Desc := [U0 "a" 2 false, U0 "b" 3 true]

theorem dA_drawn : Drawn U0 dA :=
  ⟨by decide, by intro e he; simp [dA] at he; rcases he with rfl | rfl <;> simp [U0],
   by intro e he; simp [dA] at he; rcases he with rfl | rfl <;> simp [U0]⟩

theorem dB_drawn : Drawn U0 dB :=
  ⟨by decide, by intro e he; simp [dB] at he; rcases he with rfl | rfl <;> simp [U0],
   by intro e he; simp [dB] at he; rcases he with rfl | rfl <;> simp [U0]⟩

-- the merge is not trivial on these: `a` takes the newer LEAVING entry, `b` the same-timestamp tombstone
example : (mergeState dA dB) = [U0 "a" 2 false, U0 "b" 3 true] := by decide
example : ((merge false 0 dA dB).change).isSome = true := by decide

-- a local CAS over dA whose new value lacks `b` and carries a newer `a`: `a` is accepted, `b` becomes a
-- tombstone stamped 4; the change holds both and meets the hypotheses of `cas_change_sufficient`
def dC : Desc := [U0 "a" 2 false]

theorem dC_drawn : Drawn U0 dC :=
  ⟨by decide, by intro e he; simp [dC] at he; subst he; simp [U0],
   by intro e he; simp [dC] at he; subst he; simp [U0]⟩

example : (merge true 4 dA dC).state = [U0 "a" 2 false, { U0 "b" 3 false with state := .LEFT, tokens := [], ts := 4 }] := by decide
example : (merge true 4 dA dC).change = some [U0 "a" 2 false, { U0 "b" 3 false with state := .LEFT, tokens := [], ts := 4 }] := by decide
example : ∀ t ∈ dA, t.state ≠ .LEFT → get? dC t.id = none → t.ts ≤ 4 := by decide

end PC03
