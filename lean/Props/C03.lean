import Proofs.C03Thm
import Proofs.C03P
/-!
# C03 — ring state merge is a CRDT (property theorems)

Model: `Model/C03.lean` (`Desc.mergeWithTime`) and `Model/C03P.lean` (`PartitionRingDesc.mergeWithTime`).
The property's provisos are made explicit:

* `Univ U`   — every (instance, timestamp, tombstone-ness) denotes ONE content `U id ts left`, contents
               are normalised (sorted duplicate-free tokens, tombstones hold none) and no two
               instances ever claim the same token;
* `Drawn U d` — `d` has unique ids, every timestamp is ≥ 1 (the code reads a missing entry as
               timestamp 0, so an entry at timestamp 0 can never be accepted: see
               `merge_comm_fails_at_zero`), and every entry is `U`'s content for its key.

"Same content" is equality of the `get?` view (a Go map has no order), for every key.
-/
namespace PC03
open Ring C03 PfC03

variable {U : String → Int → Bool → Inst}

/-- merged descriptors stay inside the universe, so the laws compose along arbitrary histories -/
theorem merge_closed (hU : Univ U) {a b : Desc} (ha : Drawn U a) (hb : Drawn U b) :
    Drawn U (mergeState a b) := mergeState_drawn hU ha hb

/-- per entry the newer timestamp wins and, at equal timestamps, a removal wins -/
theorem lww_rule (hU : Univ U) {a b : Desc} (ha : Drawn U a) (hb : Drawn U b) (k : String) :
    get? (mergeState a b) k = (if rkO (get? a k) < rkO (get? b k) then get? b k else get? a k) :=
  view_merge hU ha hb k

theorem merge_idem (hU : Univ U) {a : Desc} (ha : Drawn U a) (k : String) :
    get? (mergeState a a) k = get? a k := merge_idem_view hU ha k

theorem merge_comm (hU : Univ U) {a b : Desc} (ha : Drawn U a) (hb : Drawn U b) (k : String) :
    get? (mergeState a b) k = get? (mergeState b a) k := merge_comm_view hU ha hb k

theorem merge_assoc (hU : Univ U) {a b c : Desc} (ha : Drawn U a) (hb : Drawn U b) (hc : Drawn U c)
    (k : String) : get? (mergeState (mergeState a b) c) k = get? (mergeState a (mergeState b c)) k :=
  merge_assoc_view hU ha hb hc k

/-- the reported change is sufficient: merged into the pre-merge state … -/
theorem change_sufficient (hU : Univ U) {a b ch : Desc} (ha : Drawn U a) (hb : Drawn U b)
    (hch : (merge false 0 a b).change = some ch) (k : String) :
    get? (mergeState a ch) k = get? (mergeState a b) k :=
  change_sufficient_view hU ha hb ha (fun _ => Int.le_refl _) hch k

/-- … or into any replica `s` that already contains that state, it yields the same content as
merging the full incoming descriptor. -/
theorem change_sufficient_above (hU : Univ U) {a b ch s : Desc} (ha : Drawn U a) (hb : Drawn U b)
    (hs : Drawn U s) (hcontains : ∀ k, rkO (get? a k) ≤ rkO (get? s k))
    (hch : (merge false 0 a b).change = some ch) (k : String) :
    get? (mergeState s ch) k = get? (mergeState s b) k :=
  change_sufficient_view hU ha hb hs hcontains hch k

/-- a merge that reports no change leaves the content untouched (any flags, any inputs) -/
theorem no_change_no_effect (cas : Bool) (now : Int) (a b : Desc)
    (h : (merge cas now a b).change = none) : (merge cas now a b).state = a :=
  PfC03.no_change_no_effect cas now a b h

/-- and no change is reported exactly when nothing incoming is newer -/
theorem no_change_iff (hU : Univ U) {a b : Desc} (ha : Drawn U a) (hb : Drawn U b) :
    (merge false 0 a b).change = none ↔ ∀ k, ¬ rkO (get? a k) < rkO (get? b k) :=
  PfC03.no_change_iff hU ha hb

/-- replicas that received the same set of updates in ANY order expose identical content … -/
theorem converge_perm (hU : Univ U) {s : Desc} {l l' : List Desc} (hp : l.Perm l') (hs : Drawn U s)
    (hl : ∀ d ∈ l, Drawn U d) (k : String) :
    get? (l.foldl mergeState s) k = get? (l'.foldl mergeState s) k :=
  PfC03.converge_perm hU hp hs hl k

/-- … in any multiplicity (re-delivering a merged update is a no-op) … -/
theorem converge_dup (hU : Univ U) {s d : Desc} {l : List Desc} (hs : Drawn U s)
    (hl : ∀ d ∈ l, Drawn U d) (hd : d ∈ l) (k : String) :
    get? (mergeState (l.foldl mergeState s) d) k = get? (l.foldl mergeState s) k :=
  PfC03.converge_dup hU hs hl hd k

/-- … and any grouping (this is associativity, restated for a pre-merged batch). -/
theorem converge_regroup (hU : Univ U) {s x y : Desc} (hs : Drawn U s) (hx : Drawn U x) (hy : Drawn U y)
    (k : String) : get? (mergeState s (mergeState x y)) k = get? (mergeState (mergeState s x) y) k :=
  (merge_assoc_view hU hs hx hy k).symm

/-! ### Why the provisos are needed (witnesses, checked by evaluation) -/

/-- the local-CAS mode is not commutative, as the code's comment says -/
theorem cas_breaks_comm :
    (merge true 5 [{ id := "a", ts := 1 }] []).state ≠ (merge true 5 [] [{ id := "a", ts := 1 }]).state := by
  decide

/-- at timestamp 0 an entry is kept by a replica that has it but never accepted by one that lacks it -/
theorem merge_comm_fails_at_zero :
    get? (mergeState [{ id := "a", ts := 0 }] []) "a" ≠ get? (mergeState [] [{ id := "a", ts := 0 }]) "a" := by
  decide

/-! ### Partition ring (`PartitionRingDesc.mergeWithTime`, model `Model/C03P.lean`)

Partition id and tokens are immutable; the state and the state-change lock are two
last-writer-wins registers per partition (a deletion wins at equal timestamps); owners are
last-writer-wins entries with tombstones. `WF`: unique ids, owner timestamps ≥ 1. `Coherent a b`: one
content per (entry, timestamp). "Same content" is equality of both `get` views (`Equiv`). -/

open C03P in
theorem pmerge_closed (a b : PDesc) (ha : PfC03P.WF a) (hb : PfC03P.WF b) : PfC03P.WF (C03P.mergeState a b) :=
  PfC03P.mergeState_wf a b ha hb

/-- per partition: registers are combined componentwise (newer timestamp wins, deletion wins ties),
a partition unknown to the receiver is taken as a whole; per owner: the newer entry, removal at ties -/
theorem pmerge_lww (a b : C03P.PDesc) (ha : PfC03P.WF a) (hb : PfC03P.WF b) :
    (∀ k, C03P.getP (C03P.mergeState a b).parts k = PfC03P.joinP (C03P.getP a.parts k) (C03P.getP b.parts k)) ∧
    (∀ k, C03P.getO (C03P.mergeState a b).owners k = PfC03P.joinO (C03P.getO a.owners k) (C03P.getO b.owners k)) :=
  ⟨fun k => PfC03P.view_parts a b hb k, fun k => PfC03P.view_owners a b ha hb k⟩

theorem pmerge_idem (a : C03P.PDesc) (ha : PfC03P.WF a) : PfC03P.Equiv (C03P.mergeState a a) a :=
  PfC03P.merge_idem a ha

theorem pmerge_comm (a b : C03P.PDesc) (ha : PfC03P.WF a) (hb : PfC03P.WF b) (hc : PfC03P.Coherent a b) :
    PfC03P.Equiv (C03P.mergeState a b) (C03P.mergeState b a) :=
  PfC03P.merge_comm a b ha hb hc

theorem pmerge_assoc (a b c : C03P.PDesc) (ha : PfC03P.WF a) (hb : PfC03P.WF b) (hc : PfC03P.WF c) :
    PfC03P.Equiv (C03P.mergeState (C03P.mergeState a b) c) (C03P.mergeState a (C03P.mergeState b c)) :=
  PfC03P.merge_assoc a b c ha hb hc

/-- partition-ring replicas that received the same updates in any order expose identical content -/
theorem pconverge_perm (s : C03P.PDesc) {l l' : List C03P.PDesc} (hp : l.Perm l') (hs : PfC03P.WF s)
    (hl : ∀ d ∈ l, PfC03P.WF d) (hc : ∀ x ∈ l, ∀ y ∈ l, PfC03P.Coherent x y) :
    PfC03P.Equiv (l.foldl C03P.mergeState s) (l'.foldl C03P.mergeState s) :=
  PfC03P.converge_perm s hp hs hl hc

-- non-vacuity: a pending→active state change and a same-second owner deletion are both accepted
example : C03P.mergeState
    { parts := [{ id := 1, tokens := [5], state := 1, stateTs := 3 }], owners := [{ id := "o", part := 1, state := 1, ts := 4 }] }
    { parts := [{ id := 1, tokens := [5], state := 2, stateTs := 4 }], owners := [{ id := "o", part := 1, state := 2, ts := 4 }] } =
    { parts := [{ id := 1, tokens := [5], state := 2, stateTs := 4 }], owners := [{ id := "o", part := 1, state := 2, ts := 4 }] } := by
  decide

/-! ### Non-vacuity: a concrete universe with tokens, two instances, three timestamps -/

def U0 (id : String) (ts : Int) (l : Bool) : Inst :=
  { id := id, ts := ts, state := if l then .LEFT else (if ts = 2 then .LEAVING else .ACTIVE),
    tokens := if l then [] else if id = "a" then [1, 5] else if id = "b" then [2, 4294967295] else [] }

theorem U0_univ : Univ U0 := by
  refine ⟨fun _ _ _ => rfl, fun _ _ _ => rfl, ?_, ?_, fun _ _ => rfl, ?_⟩
  · intro id ts l; cases l <;> simp [U0]; split <;> simp
  · intro id ts l
    cases l
    · by_cases ha : id = "a"
      · simp [U0, ha, sortedStrict]
      · by_cases hb : id = "b" <;> simp [U0, ha, hb, sortedStrict]
    · simp [U0, sortedStrict]
  · intro id ts l id' ts' l' hne t ht
    cases l
    · cases l'
      · by_cases ha : id = "a" <;> by_cases hb : id = "b" <;> by_cases ha' : id' = "a" <;>
          by_cases hb' : id' = "b" <;> simp_all [U0] <;> omega
      · simp [U0]
    · simp [U0] at ht

def dA : Desc := [U0 "a" 1 false, U0 "b" 3 false]
def dB : Desc := [U0 "a" 2 false, U0 "b" 3 true]

theorem dA_drawn : Drawn U0 dA :=
  ⟨by decide, by intro e he; simp [dA] at he; rcases he with rfl | rfl <;> simp [U0],
   by intro e he; simp [dA] at he; rcases he with rfl | rfl <;> simp [U0]⟩

theorem dB_drawn : Drawn U0 dB :=
  ⟨by decide, by intro e he; simp [dB] at he; rcases he with rfl | rfl <;> simp [U0],
   by intro e he; simp [dB] at he; rcases he with rfl | rfl <;> simp [U0]⟩

-- the merge is not trivial on these: `a` takes the newer LEAVING entry, `b` the same-timestamp tombstone
example : (mergeState dA dB) = [U0 "a" 2 false, U0 "b" 3 true] := by decide
example : ((merge false 0 dA dB).change).isSome = true := by decide

end PC03
