import Model.C12
import Proofs.C12
/-!
# C12 — property theorems (statements only; proofs in `Proofs/C12*.lean`)

All theorems are about the executable model `C12.shard` (= `Ring.ShuffleShard` /
`Ring.ShuffleShardWithLookback` without the cache), for **every** ring, identifier stream
`starts`, size and time. `WF d` = ids distinct and tokens globally unique; `AllTok d` = every
instance has a token (the property's quantifier; token-less instances are observation O4).
Plain queries are `period = 0`; `eligZ d z` = the not read-only instances of zone `z`;
`cnt E S` = number of elements of `E` that are in `S`.
-/
namespace PC12
open C12 PfC12

/-! ### deterministic ("depends on nothing else")

`shard_ignores_state_ts` is true by construction of the model (`shardIds` projects every instance with
`core` first); that the CODE reads nothing else is differential evidence (the harness perturbs exactly
State / Timestamp / Addr / Versions). The statements with content are `shard_perm_invariant` (the order
in which the Go map is listed is irrelevant) and `shard_plain_now_irrelevant` (so is the clock). -/

theorem shard_ignores_state_ts (cfg : Cfg) (d d' : Ring.Desc) (starts : String → Nat → Nat) (size period now : Int)
    (h : d.map core = d'.map core) :
    shardIds cfg d starts size period now = shardIds cfg d' starts size period now :=
  PfC12.shard_ignores_state_ts cfg d d' starts size period now h

/-- the shard does not depend on the order in which the descriptor (a Go map) is listed: plain shard for
every size, look-back shard for every positive size (not proved: look-back with `size ≤ 0`, whose
two shortcuts read the minimum `ReadOnlyUpdatedTimestamp`). -/
theorem shard_perm_invariant (cfg : Cfg) (d d' : CDesc) (hd : WF d) (h : d.Perm d') (starts : String → Nat → Nat)
    (size period now : Int) (hs : 0 < size ∨ period = 0) (m : CInst) :
    m ∈ shard cfg d starts size period now ↔ m ∈ shard cfg d' starts size period now :=
  PfC12.shard_perm_invariant cfg d d' hd h starts size period now hs m

/-- without look-back the result does not depend on the clock (`ShuffleShard` passes `time.Now()`). -/
theorem shard_plain_now_irrelevant (cfg : Cfg) (d : CDesc) (starts : String → Nat → Nat) (size now now' : Int) :
    shard cfg d starts size 0 now = shard cfg d starts size 0 now' :=
  PfC12.shard_plain_now_irrelevant cfg d starts size now now'

/-! ### total on well-formed rings: the inconsistent-token `panic` of `shuffleShard` is unreachable -/

/-- `shardC` is the model with the token index (`ringTokens`, `ringTokensByZone`) kept apart from the
owner index (`ringInstanceByToken`), where a token without an owner entry makes the walk fail like
the Go `panic(ErrInconsistentTokensInfo)`. On a well-formed ring — only "no token in two entries, no
token twice" is needed — the plain and the look-back shuffle shard, for every size, stream and time,
never fail and return exactly `shard` (which all other theorems are about). -/
theorem shard_total_on_wf (cfg : Cfg) (d : CDesc) (hd : WF d) (starts : String → Nat → Nat) (size period now : Int) :
    shardC cfg d starts size period now = .ok (shard cfg d starts size period now) :=
  PfC12.shard_total cfg d hd.toks starts size period now

/-- the same on a ring descriptor, with the hypothesis in the form of `PfC05.WF.noconf`
(`(C03.allTokens d).Nodup`, i.e. `(d.flatMap (·.tokens)).Nodup`). -/
theorem shardIds_total_on_wf (cfg : Cfg) (d : Ring.Desc) (hd : (d.flatMap (·.tokens)).Nodup)
    (starts : String → Nat → Nat) (size period now : Int) :
    shardIdsC cfg d starts size period now = .ok (shardIds cfg d starts size period now) :=
  PfC12.shardIds_total cfg d hd starts size period now

/-- the failing branch is real: a token of the token index without an owner makes the walk fail. -/
example : walkC (mkLB 0 0) (fun _ => none) [7] [] = .error .inconsistentTokensInfo := rfl

/-! ### members are registered, never read-only -/

theorem shard_excludes_readonly (cfg : Cfg) (d : CDesc) (hd : WF d) (starts : String → Nat → Nat) (size now : Int) :
    ∀ m ∈ shard cfg d starts size 0 now, m ∈ d ∧ m.ro = false :=
  PfC12.shard_plain_mem cfg d hd starts size now

/-- `size ≤ 0` means "no sharding": every instance that is not read-only. -/
theorem shard_unsharded (cfg : Cfg) (d : CDesc) (starts : String → Nat → Nat) (s0 now : Int) (h0 : s0 ≤ 0) (m : CInst) :
    m ∈ shard cfg d starts s0 0 now ↔ m ∈ d ∧ m.ro = false :=
  PfC12.shard_unsharded cfg d starts s0 now h0 m

/-! ### right-sized and spread evenly -/

/-- zone-aware: every zone contributes `min(⌈size/zones⌉, eligible instances of the zone)` members,
for every positive size up to `MaxInt` (full strength since fix 90273d3 of finding F-C12-2). -/
theorem shard_size (cfg : Cfg) (hza : cfg.zoneAware = true) (d : CDesc) (hd : WF d) (ht : AllTok d)
    (starts : String → Nat → Nat) (size now : Int) (hsize : 0 < size) (z : String) (hz : z ∈ zonesOf d) :
    cnt (eligZ d z) (shard cfg d starts size 0 now) =
      min (expectedPerZone size (zonesOf d).length).toNat (eligZ d z).length :=
  PfC12.shard_size_za cfg hza d hd ht starts size now hsize z hz

/-- the quota is the rounded-up quotient (`MaxInt`, "as many as there are", stays `MaxInt`). -/
theorem expectedPerZone_eq_ceil (size : Int) (k : Nat) (hk : 0 < k) (h1 : size ≠ maxInt) :
    expectedPerZone size k = ((size.toNat + k - 1) / k : Nat) :=
  PfC12.expectedPerZone_ceil size k hk h1

/-- zone-awareness off: `min(size, eligible instances)` members. -/
theorem shard_size_no_zones (cfg : Cfg) (hza : cfg.zoneAware = false) (d : CDesc) (hd : WF d) (ht : AllTok d)
    (starts : String → Nat → Nat) (size now : Int) (hsize : 0 < size) :
    cnt (d.filter fun i => !i.ro) (shard cfg d starts size 0 now) = min size.toNat (d.filter fun i => !i.ro).length :=
  PfC12.shard_size_nza cfg hza d hd ht starts size now hsize

/-! ### contains the shard of every smaller size -/

theorem shard_mono_size (cfg : Cfg) (d : CDesc) (hd : WF d) (starts : String → Nat → Nat) (s s' now : Int)
    (h0 : 0 < s) (h : s ≤ s') (hs' : s' ≤ maxInt) :
    ∀ m ∈ shard cfg d starts s 0 now, m ∈ shard cfg d starts s' 0 now :=
  PfC12.shard_mono_size cfg d hd starts s s' now h0 h hs'

theorem shard_sub_unsharded (cfg : Cfg) (d : CDesc) (hd : WF d) (starts : String → Nat → Nat) (s s0 now now' : Int)
    (h0 : s0 ≤ 0) : ∀ m ∈ shard cfg d starts s 0 now, m ∈ shard cfg d starts s0 0 now' :=
  PfC12.shard_sub_unsharded cfg d hd starts s s0 now now' h0

/-! ### the whole-zone shortcut equals what the walk yields (with or without look-back)

A statement about the two branches of `zoneStep` (shortcut vs. `picks`), not about `shard` as a whole: it
is what makes the shortcut unobservable and is used by `shard_remove_one` / `lookback_superset`. -/

theorem shortcut_consistent (d : CDesc) (hd : WF d) (ht : AllTok d) (p : LB) (starts : String → Nat → Nat)
    (z : String) (n : Nat) (hn : countPerZone d z ≤ n) (x : CInst) :
    x ∈ picks p (zoneTokens d z) (starts z) n 0 [] ↔ x ∈ d.filter (fun i => inZone z i && includeRO p i) :=
  PfC12.shortcut_consistent d hd ht p starts z n hn x

/-! ### one instance removed / added: at most one instance leaves and at most one enters -/

/-- `d.filter (neq x)` is the ring without `x`. If `x` was not a member nothing changes; otherwise the
new shard is the old one without `x` plus at most one new instance. Guard: the set of zones is
unchanged (finding F-C12-1, `remove_one_zone_vanishes_witness`). -/
theorem shard_remove_one (cfg : Cfg) (d : CDesc) (hd : WF d) (ht : AllTok d) (starts : String → Nat → Nat)
    (size now now' : Int) (hsize : 0 < size) (x : CInst)
    (hz : cfg.zoneAware = true → zonesOf (d.filter (neq x)) = zonesOf d) :
    (x ∉ shard cfg d starts size 0 now →
        ∀ a, a ∈ shard cfg (d.filter (neq x)) starts size 0 now' ↔ a ∈ shard cfg d starts size 0 now) ∧
    ∃ Z : List CInst, Z.length ≤ 1 ∧ (∀ z ∈ Z, z ∉ shard cfg d starts size 0 now) ∧
      ∀ a, a ∈ shard cfg (d.filter (neq x)) starts size 0 now' ↔
        ((a ∈ shard cfg d starts size 0 now ∧ a ≠ x) ∨ a ∈ Z) :=
  PfC12.shard_remove_one cfg d hd ht starts size now now' hsize x hz

/-- the same read from the smaller ring `d` to the larger ring `d'` (`d'` = `d` plus `x`). -/
theorem shard_add_one (cfg : Cfg) (d d' : CDesc) (hd : WF d') (ht : AllTok d') (starts : String → Nat → Nat)
    (size now now' : Int) (hsize : 0 < size) (x : CInst) (hdd : d = d'.filter (neq x))
    (hz : cfg.zoneAware = true → zonesOf d = zonesOf d') :
    ∃ Z : List CInst, Z.length ≤ 1 ∧ (∀ z ∈ Z, z ∉ shard cfg d' starts size 0 now) ∧
      ∀ a, a ∈ shard cfg d starts size 0 now' ↔ ((a ∈ shard cfg d' starts size 0 now ∧ a ≠ x) ∨ a ∈ Z) := by
  subst hdd
  exact (PfC12.shard_remove_one cfg d' hd ht starts size now now' hsize x hz).2

/-! ### look-back is a superset -/

/-- every member of the plain shard of the ring as it was before the instances `J` (all registered
inside the window) joined is a member of the look-back shard now. Guard: same set of zones. -/
theorem lookback_superset (cfg : Cfg) (d : CDesc) (hd : WF d) (ht : AllTok d) (starts : String → Nat → Nat)
    (size period now now' : Int) (hsize : 0 < size) (hperiod : 0 < period)
    (J : List CInst) (hJ : ∀ x ∈ J, x.regTs ≥ now - period)
    (hz : cfg.zoneAware = true → zonesOf (d.filter fun x => !J.contains x) = zonesOf d) :
    ∀ m ∈ shard cfg (d.filter fun x => !J.contains x) starts size 0 now',
      m ∈ shard cfg d starts size period now :=
  PfC12.lookback_superset cfg d hd ht starts size period now now' hsize hperiod J hJ hz

/-- in particular the look-back shard contains the present plain shard. -/
theorem lookback_contains_plain (cfg : Cfg) (d : CDesc) (hd : WF d) (ht : AllTok d) (starts : String → Nat → Nat)
    (size period now now' : Int) (hsize : 0 < size) (hperiod : 0 < period) :
    ∀ m ∈ shard cfg d starts size 0 now', m ∈ shard cfg d starts size period now := by
  have hf : (d.filter fun x => !([] : List CInst).contains x) = d := by
    apply List.filter_eq_self.mpr; intro a _; simp
  have := PfC12.lookback_superset cfg d hd ht starts size period now now' hsize hperiod [] (by simp)
    (by intro _; rw [hf])
  rw [hf] at this
  exact this

/-- the same when read-only flags changed inside the window: `g` gives every instance of the ring as it
was then (on the members of `d` only `ro` / `roTs` may differ: `ROOnlyOn d g`); for a member a flag differs
from the present one only if the present `ReadOnlyUpdatedTimestamp` lies inside the window. All
hypotheses speak about members of `d` only. -/
theorem lookback_superset_readonly (cfg : Cfg) (d : CDesc) (hd : WF d) (ht : AllTok d) (starts : String → Nat → Nat)
    (size period now now' : Int) (hsize : 0 < size) (hperiod : 0 < period)
    (J : List CInst) (hJ : ∀ x ∈ J, x.regTs ≥ now - period)
    (g : CInst → CInst) (hg : ROOnlyOn d g) (hK : ∀ i ∈ d, (g i).ro ≠ i.ro → i.roTs ≥ now - period)
    (hz : cfg.zoneAware = true → zonesOf (d.filter fun x => !J.contains x) = zonesOf d) :
    ∀ m' ∈ shard cfg ((d.filter fun x => !J.contains x).map g) starts size 0 now',
      ∃ m ∈ shard cfg d starts size period now, g m = m' :=
  PfC12.lookback_superset_readonly_on cfg d hd ht starts size period now now' hsize hperiod J hJ g hg hK hz

/-- **the look-back shard covers the window** (history corollary): `rτ` is the ring at some moment of
the window; since then the instances `L` left, the instances `J` registered and read-only flags
changed as described by `g`. Every member of the plain shard of that moment that is still registered
is, in its present form, a member of the look-back shard now. (A smaller size at that moment is
covered by `shard_mono_size`.) Guards: unchanged zone set along the way (finding F-C12-1).
`lookback_window_example` below is a concrete ring, window and history meeting every hypothesis. -/
theorem lookback_covers_window (cfg : Cfg) (d : CDesc) (hd : WF d) (ht : AllTok d) (starts : String → Nat → Nat)
    (size period now now' : Int) (hsize : 0 < size) (hperiod : 0 < period)
    (rτ : CDesc) (hrτ : WF rτ) (htτ : AllTok rτ) (L J : List CInst)
    (hJ : ∀ x ∈ J, x.regTs ≥ now - period)
    (g : CInst → CInst) (hg : ROOnlyOn d g) (hK : ∀ i ∈ d, (g i).ro ≠ i.ro → i.roTs ≥ now - period)
    (hr : rτ.filter (notIn L) = (d.filter fun x => !J.contains x).map g)
    (hzL : cfg.zoneAware = true → ∀ L' : List CInst, (∀ y ∈ L', y ∈ L) → zonesOf (rτ.filter (notIn L')) = zonesOf rτ)
    (hzJ : cfg.zoneAware = true → zonesOf (d.filter fun x => !J.contains x) = zonesOf d) :
    ∀ m' ∈ shard cfg rτ starts size 0 now', m' ∉ L → ∃ m ∈ shard cfg d starts size period now, g m = m' :=
  PfC12.lookback_covers_window_on cfg d hd ht starts size period now now' hsize hperiod rτ hrτ htτ L J hJ g hg hK hr hzL hzJ

/-- look-back with `size ≤ 0` ("no sharding", the `filterOutReadOnlyInstances` path): the earlier
unsharded result — every instance registered then and not read-only then — is covered as well. -/
theorem lookback_superset_unsharded (cfg : Cfg) (d : CDesc) (starts : String → Nat → Nat)
    (size period now now' : Int) (hsize : size ≤ 0) (hperiod : 0 < period)
    (keep : CInst → Bool) (g : CInst → CInst) (hK : ∀ i ∈ d, (g i).ro ≠ i.ro → i.roTs ≥ now - period) :
    ∀ m' ∈ shard cfg ((d.filter keep).map g) starts size 0 now',
      ∃ m ∈ shard cfg d starts size period now, g m = m' :=
  PfC12.lookback_superset_unsharded cfg d starts size period now now' hsize hperiod keep g hK

/-- one instance switches to read-only (`setRO x t` sets the flag of `x`): the new shard is the old one
without `x` plus at most one new instance; unchanged if `x` was not a member. Zones and counts do not
change, so there is no guard. (Read the other way round it is the switch back to read-write.) -/
theorem shard_set_readonly_one (cfg : Cfg) (d : CDesc) (hd : WF d) (ht : AllTok d) (starts : String → Nat → Nat)
    (size now now' : Int) (hsize : 0 < size) (x : CInst) (t : Int) :
    (x ∉ shard cfg d starts size 0 now →
        ∀ a, a ∈ shard cfg (d.map (setRO x t)) starts size 0 now' ↔ a ∈ shard cfg d starts size 0 now) ∧
    ∃ Z : List CInst, Z.length ≤ 1 ∧ (∀ z ∈ Z, z ∉ shard cfg d starts size 0 now) ∧
      ∀ a, a ∈ shard cfg (d.map (setRO x t)) starts size 0 now' ↔
        ((a ∈ shard cfg d starts size 0 now ∧ a ≠ x) ∨ a ∈ Z) :=
  PfC12.shard_set_readonly_one cfg d hd ht starts size now now' hsize x t

/-! ### partition ring: the same guarantees over ACTIVE partitions

`PWF ps` = partition ids distinct (map keys); `PAllTok` = every partition has a token; `PTokNodup` =
tokens globally unique. `mem_pshard` (in `Proofs/C12/PartBridge.lean`) shows that `pshard` — the model
of `PartitionRing.shuffleShard` with its `exclude` set and `size++` — is the abstract walk with
`incl = not PENDING ∧ (ACTIVE ∨ state changed inside the window)`, `ext = state changed inside the window`. -/

/-- without look-back the partition shard consists of ACTIVE partitions of the ring only. -/
theorem pshard_active_only (ps : List Part) (hid : ∀ p ∈ ps, ∀ q ∈ ps, p.id = q.id → p = q)
    (starts : Nat → Nat) (size now : Int) :
    ∀ id ∈ pshard ps starts size 0 now, ∃ p ∈ ps, p.id = id ∧ p.state = .active :=
  PfC12.pshard_active_only ps hid starts size now

/-- `min(size, ACTIVE partitions)` partitions. -/
theorem pshard_size (ps : List Part) (h : PWF ps) (ht : PAllTok ps) (starts : Nat → Nat) (size now : Int) (hsize : 0 < size) :
    (pshard ps starts size 0 now).length = min size.toNat (ps.filter isActive).length :=
  PfC12.pshard_size ps h ht starts size now hsize

/-- contains the shard of every smaller size (`size ≤ 0` = everything), with or without look-back. -/
theorem pshard_mono_size (ps : List Part) (h : PWF ps) (starts : Nat → Nat) (s s' period now : Int)
    (hs : (0 < s ∧ s ≤ s') ∨ s' ≤ 0) : ∀ id ∈ pshard ps starts s period now, id ∈ pshard ps starts s' period now :=
  PfC12.pshard_mono_size ps h starts s s' period now hs

/-- one partition removed (any size, `size ≤ 0` = all): the old ids without `x.id` plus at most one new id. -/
theorem pshard_remove_one (ps : List Part) (h : PWF ps) (ht : PAllTok ps) (htn : PTokNodup ps) (starts : Nat → Nat)
    (size now now' : Int) (x : Part) (hx : x ∈ ps) :
    (x.id ∉ pshard ps starts size 0 now →
      ∀ id, id ∈ pshard (ps.filter (neqP x)) starts size 0 now' ↔ id ∈ pshard ps starts size 0 now) ∧
    ∃ Z : List Int, Z.length ≤ 1 ∧ (∀ z ∈ Z, z ∉ pshard ps starts size 0 now) ∧
      ∀ id, id ∈ pshard (ps.filter (neqP x)) starts size 0 now' ↔
        ((id ∈ pshard ps starts size 0 now ∧ id ≠ x.id) ∨ id ∈ Z) :=
  PfC12.pshard_remove_one ps h ht htn starts size now now' x hx

/-- one partition added (the same read from the smaller ring `ps` to the larger ring `ps'`). -/
theorem pshard_add_one (ps ps' : List Part) (h : PWF ps') (ht : PAllTok ps') (htn : PTokNodup ps') (starts : Nat → Nat)
    (size now now' : Int) (x : Part) (hx : x ∈ ps') (hps : ps = ps'.filter (neqP x)) :
    ∃ Z : List Int, Z.length ≤ 1 ∧ (∀ z ∈ Z, z ∉ pshard ps' starts size 0 now) ∧
      ∀ id, id ∈ pshard ps starts size 0 now' ↔ ((id ∈ pshard ps' starts size 0 now ∧ id ≠ x.id) ∨ id ∈ Z) :=
  PfC12.pshard_add_one ps ps' h ht htn starts size now now' x hx hps

/-- one partition changes its state to a non-ACTIVE one (`setState x s t`, e.g. ACTIVE → INACTIVE): the
ids of the plain shard stay, except `x.id`, plus at most one new id; unchanged if `x.id` was not
selected. Read from right to left: a partition becomes ACTIVE. (No token hypotheses needed.) -/
theorem pshard_deactivate_one (ps : List Part) (h : PWF ps) (starts : Nat → Nat) (size now now' : Int)
    (x : Part) (hx : x ∈ ps) (s : PState) (hs : s ≠ PState.active) (t : Int) :
    (x.id ∉ pshard ps starts size 0 now →
      ∀ id, id ∈ pshard (ps.map (setState x s t)) starts size 0 now' ↔ id ∈ pshard ps starts size 0 now) ∧
    ∃ Z : List Int, Z.length ≤ 1 ∧ (∀ z ∈ Z, z ∉ pshard ps starts size 0 now) ∧
      ∀ id, id ∈ pshard (ps.map (setState x s t)) starts size 0 now' ↔
        ((id ∈ pshard ps starts size 0 now ∧ id ≠ x.id) ∨ id ∈ Z) :=
  PfC12.pshard_deactivate_one ps h starts size now now' x hx s hs t

/-- look-back superset: the earlier ring is the present one without the partitions added inside the
window (`keep`) and with the earlier states (`g`; on the partitions of `ps` only state / state timestamp
differ; a state differs only if the present `StateTimestamp` is inside the window; no partition went
back to PENDING, which no legal transition does). Every id of the earlier plain shard is an id of the
present look-back shard. All hypotheses speak about partitions of `ps` only. -/
theorem pshard_lookback_superset (ps : List Part) (h : PWF ps) (ht : PAllTok ps) (htn : PTokNodup ps)
    (starts : Nat → Nat) (size period now now' : Int) (hperiod : 0 < period)
    (keep : Part → Bool) (hJ : ∀ x ∈ ps, keep x = false → x.stateTs ≥ now - period)
    (g : Part → Part) (hg : StateOnlyOn ps g) (hK : ∀ x ∈ ps, (g x).state ≠ x.state → x.stateTs ≥ now - period)
    (hP : ∀ x ∈ ps, (g x).state = PState.active → x.state ≠ PState.pending) :
    ∀ id ∈ pshard ((ps.filter keep).map g) starts size 0 now', id ∈ pshard ps starts size period now :=
  PfC12.pshard_lookback_superset_on ps h ht htn starts size period now now' hperiod keep hJ g hg hK hP

/-- **the partition look-back shard covers the window** (history with removals, additions and state
changes): `rτ` is the partition ring at some moment of the window; since then the partitions `L` were
removed, the partitions dropped by `keep` were added (their `StateTimestamp` is inside the window) and
states changed as `g` describes (only inside the window, never back to PENDING). Every id of the plain
shard of that moment that was not removed is an id of the look-back shard now.
`pshard_window_example` below meets every hypothesis with concrete data. -/
theorem pshard_lookback_covers_window (ps : List Part) (h : PWF ps) (ht : PAllTok ps) (htn : PTokNodup ps)
    (starts : Nat → Nat) (size period now now' : Int) (hperiod : 0 < period)
    (rτ : List Part) (hrτ : PWF rτ) (htτ : PAllTok rτ) (htnτ : PTokNodup rτ) (L : List Part)
    (keep : Part → Bool) (hJ : ∀ x ∈ ps, keep x = false → x.stateTs ≥ now - period)
    (g : Part → Part) (hg : StateOnlyOn ps g) (hK : ∀ x ∈ ps, (g x).state ≠ x.state → x.stateTs ≥ now - period)
    (hP : ∀ x ∈ ps, (g x).state = PState.active → x.state ≠ PState.pending)
    (hr : rτ.filter (notInP L) = (ps.filter keep).map g) :
    ∀ id ∈ pshard rτ starts size 0 now', (∀ x ∈ L, x.id ≠ id) → id ∈ pshard ps starts size period now :=
  PfC12.pshard_lookback_covers_window_on ps h ht htn starts size period now now' hperiod rτ hrτ htτ htnτ L keep hJ g hg hK hP hr

/-- **total on well-formed partition rings**: `pshardC` keeps `ringTokens`, `partitionByToken` and
`desc.Partitions` apart, and either look-up failing returns `ErrInconsistentTokensInfo` as in the Go
code; with distinct partition ids and globally unique tokens it never fails and returns `pshard`
(plain and look-back, any size, stream and time). -/
theorem pshard_total_on_wf (ps : List Part) (h : PWF ps) (htn : PTokNodup ps) (starts : Nat → Nat) (size period now : Int) :
    pshardC ps starts size period now = .ok (pshard ps starts size period now) :=
  PfC12.pshard_total ps h htn starts size period now

example : pwalkC false 0 (fun _ => some 3) (fun _ => none) [7] ⟨[], [], 1⟩ = .error .inconsistentTokensInfo := rfl

/-- non-vacuity of the partition hypotheses. -/
example : let ps : List Part := [⟨0, .active, 5, [10]⟩, ⟨1, .inactive, 95, [20]⟩, ⟨2, .pending, 1, [30]⟩]
    PWF ps ∧ PAllTok ps ∧ PTokNodup ps :=
  ⟨by unfold PWF; decide, by unfold PAllTok; decide, by unfold PTokNodup TokNodupG; decide⟩

/-! ### witness of finding F-C12-1 (known finding) -/

def wa1 : CInst := ⟨"a1", "a", [10], 0, 0, false⟩
def wa2 : CInst := ⟨"a2", "a", [20], 0, 0, false⟩
def wb1 : CInst := ⟨"b1", "b", [30], 0, 0, false⟩
def wb2 : CInst := ⟨"b2", "b", [40], 0, 0, false⟩
def wc1 : CInst := ⟨"c1", "c", [50], 0, 0, false⟩
def wring : CDesc := [wa1, wa2, wb1, wb2, wc1]

theorem wring_wf : WF wring ∧ AllTok wring :=
  ⟨⟨by decide, by unfold TokNodup; decide⟩, by unfold AllTok; decide⟩

/-- **F-C12-1**: three zones, size 3, the only instance of zone `c` leaves: whatever the identifier,
two instances (one of zone `a`, one of zone `b`) enter the shard — more than "one difference". -/
theorem remove_one_zone_vanishes_witness (starts : String → Nat → Nat) :
    ∃ a b : CInst, a ≠ b ∧
      a ∈ shard ⟨true⟩ (wring.filter (neq wc1)) starts 3 0 0 ∧ b ∈ shard ⟨true⟩ (wring.filter (neq wc1)) starts 3 0 0 ∧
      a ∉ shard ⟨true⟩ wring starts 3 0 0 ∧ b ∉ shard ⟨true⟩ wring starts 3 0 0 := by
  have hw := wring_wf
  have hw' : WF (wring.filter (neq wc1)) ∧ AllTok (wring.filter (neq wc1)) := ⟨hw.1.filter _, hw.2.filter _⟩
  -- sizes before: one member per zone
  have sa := PfC12.shard_size_za ⟨true⟩ rfl wring hw.1 hw.2 starts 3 0 (by decide) "a" (by decide)
  have sb := PfC12.shard_size_za ⟨true⟩ rfl wring hw.1 hw.2 starts 3 0 (by decide) "b" (by decide)
  -- sizes after: two members per zone
  have sa' := PfC12.shard_size_za ⟨true⟩ rfl _ hw'.1 hw'.2 starts 3 0 (by decide) "a" (by decide)
  have sb' := PfC12.shard_size_za ⟨true⟩ rfl _ hw'.1 hw'.2 starts 3 0 (by decide) "b" (by decide)
  have ea : eligZ wring "a" = [wa1, wa2] := by decide
  have eb : eligZ wring "b" = [wb1, wb2] := by decide
  have ea' : eligZ (wring.filter (neq wc1)) "a" = [wa1, wa2] := by decide
  have eb' : eligZ (wring.filter (neq wc1)) "b" = [wb1, wb2] := by decide
  have z3 : (zonesOf wring).length = 3 := by decide
  have z2 : (zonesOf (wring.filter (neq wc1))).length = 2 := by decide
  rw [ea, z3] at sa; rw [eb, z3] at sb; rw [ea', z2] at sa'; rw [eb', z2] at sb'
  have q3 : (expectedPerZone 3 3).toNat = 1 := by decide
  have q2 : (expectedPerZone 3 2).toNat = 2 := by decide
  rw [q3] at sa sb; rw [q2] at sa' sb'
  have fulla := cnt_full _ _ (by rw [sa']; rfl)
  have fullb := cnt_full _ _ (by rw [sb']; rfl)
  -- some instance of zone a (resp. b) is not a member before
  have pick : ∀ (x y : CInst) (S : List CInst), cnt [x, y] S = 1 → ∃ c, (c = x ∨ c = y) ∧ c ∉ S := by
    intro x y S h
    by_cases hx : x ∈ S
    · by_cases hy : y ∈ S
      · exfalso
        have := cnt_self [x, y] S (by intro a ha; simp at ha; rcases ha with rfl | rfl <;> assumption)
        rw [this] at h; simp at h
      · exact ⟨y, Or.inr rfl, hy⟩
    · exact ⟨x, Or.inl rfl, hx⟩
  obtain ⟨a, ha, hna⟩ := pick _ _ _ sa
  obtain ⟨b, hb, hnb⟩ := pick _ _ _ sb
  refine ⟨a, b, ?_, ?_, ?_, hna, hnb⟩
  · rcases ha with rfl | rfl <;> rcases hb with rfl | rfl <;> decide
  · apply fulla; rcases ha with rfl | rfl <;> simp
  · apply fullb; rcases hb with rfl | rfl <;> simp

/-
History — finding F-C12-2 (fixed by 90273d3). Before the fix the model returned MinInt64 as the quota for
one zone and `size ∈ [MaxInt-511, MaxInt-1]` (float64 overflow) and this witness was a theorem:

  theorem near_maxint_size_witness (starts) :
      shard ⟨true⟩ [wa1] starts 9223372036854775806 0 0 = [] ∧
      shard ⟨true⟩ [wa1] starts 9223372036854775807 0 0 = [wa1]

`shard_size` carried the guard `¬ (nearMaxInt size ∧ (zonesOf d).length = 1)`; it is now unguarded, and
`near_maxint_sizes_hold` below is the former counterexample turned into an instance of it.
-/

/-- the former counterexample of F-C12-2 now holds the single instance. -/
theorem near_maxint_sizes_hold (starts : String → Nat → Nat) :
    cnt [wa1] (shard ⟨true⟩ [wa1] starts 9223372036854775806 0 0) = 1 := by
  have hw : WF [wa1] ∧ AllTok [wa1] := ⟨⟨by decide, by unfold TokNodup; decide⟩, by unfold AllTok; decide⟩
  have := PfC12.shard_size_za ⟨true⟩ rfl [wa1] hw.1 hw.2 starts 9223372036854775806 0 (by decide) "a" (by decide)
  have e : eligZ [wa1] "a" = [wa1] := by decide
  have z : (zonesOf [wa1]).length = 1 := by decide
  rw [e, z] at this
  rw [this]; decide

/-! ### rings with token-less instances (observation O4, outside the property's quantifier)

The theorems above that carry `AllTok` need it: the whole-zone shortcut takes token-less instances,
the walk cannot reach them. What the code does in general: -/

/-- size without `AllTok`: if the quota reaches the number of instances of the zone, every eligible
instance of the zone (token-less ones included) is a member; otherwise `min(quota, eligible instances
that own a token)`. -/
theorem shard_size_general (cfg : Cfg) (hza : cfg.zoneAware = true) (d : CDesc) (hd : WF d)
    (starts : String → Nat → Nat) (size now : Int) (hsize : 0 < size) (z : String) (hz : z ∈ zonesOf d) :
    cnt (eligZ d z) (shard cfg d starts size 0 now) =
      if expectedPerZone size (zonesOf d).length ≥ (countPerZone d z : Nat) then (eligZ d z).length
      else min (expectedPerZone size (zonesOf d).length).toNat (eligTokZ d z).length :=
  PfC12.shard_size_general cfg hza d hd starts size now hsize z hz

/-- a member owns a token unless its whole zone was taken by the shortcut (plain and look-back). -/
theorem shard_member_token_or_shortcut (cfg : Cfg) (hza : cfg.zoneAware = true) (d : CDesc) (hd : WF d)
    (starts : String → Nat → Nat) (size period now : Int) (hsize : 0 < size)
    (he : early d (mkLB period now) = false) :
    ∀ m ∈ shard cfg d starts size period now,
      m.tokens ≠ [] ∨ expectedPerZone size (zonesOf d).length ≥ (countPerZone d m.zone : Nat) :=
  PfC12.shard_member_token_or_shortcut cfg hza d hd starts size period now hsize he

def wt1 : CInst := ⟨"t1", "a", [], 0, 0, false⟩
def wt2 : CInst := ⟨"t2", "a", [], 0, 0, false⟩
def wtring : CDesc := [wa1, wa2, wt1, wt2]

/-- **O4 as a theorem**: one zone, size 3. With `a1` and the two token-less instances the shortcut takes
all three; after ONE instance (`a2`) is added the quota no longer reaches the zone size, the walk
runs and both token-less instances drop out — two members lost by one addition. This is why
`shard_add_one` / `shard_remove_one` require every instance to own a token. -/
theorem tokenless_one_change_witness (starts : String → Nat → Nat) :
    WF wtring ∧
    wt1 ∈ shard ⟨true⟩ (wtring.filter (neq wa2)) starts 3 0 0 ∧ wt2 ∈ shard ⟨true⟩ (wtring.filter (neq wa2)) starts 3 0 0 ∧
    wt1 ∉ shard ⟨true⟩ wtring starts 3 0 0 ∧ wt2 ∉ shard ⟨true⟩ wtring starts 3 0 0 := by
  have hw : WF wtring := ⟨by decide, by unfold TokNodup; decide⟩
  have hw' : WF (wtring.filter (neq wa2)) := hw.filter _
  have hsz := PfC12.shard_size_general ⟨true⟩ rfl _ hw' starts 3 0 (by decide) "a" (by decide)
  have e : eligZ (wtring.filter (neq wa2)) "a" = [wa1, wt1, wt2] := by decide
  have hc : expectedPerZone 3 (zonesOf (wtring.filter (neq wa2))).length ≥ (countPerZone (wtring.filter (neq wa2)) "a" : Nat) := by decide
  rw [if_pos hc, e] at hsz
  have hall := cnt_full _ _ hsz
  have hno : ∀ m ∈ shard ⟨true⟩ wtring starts 3 0 0, m.tokens ≠ [] := by
    intro m hm
    rcases PfC12.shard_member_token_or_shortcut ⟨true⟩ rfl wtring hw starts 3 0 0 (by decide) (early_plain _ _) m hm with h | h
    · exact h
    · exfalso
      have hz : m.zone = "a" := by
        have hmem := (PfC12.shard_plain_mem ⟨true⟩ wtring hw starts 3 0 m hm).1
        simp only [wtring, List.mem_cons, List.not_mem_nil, or_false] at hmem
        rcases hmem with rfl | rfl | rfl | rfl <;> rfl
      rw [hz] at h
      exact absurd h (by decide)
  refine ⟨hw, hall wt1 (by simp), hall wt2 (by simp), fun h => hno wt1 h rfl, fun h => hno wt2 h rfl⟩

/-! ### non-vacuity: the hypotheses are met by concrete non-trivial rings -/

example : WF wring ∧ AllTok wring ∧ "b" ∈ zonesOf wring := ⟨wring_wf.1, wring_wf.2, by decide⟩
/-- removing one of two instances of a zone keeps the zone set (guard of `shard_remove_one`). -/
example : zonesOf (wring.filter (neq wa2)) = zonesOf wring := by decide
/-- a recently registered instance may be dropped without changing the zones (guard of `lookback_superset`). -/
example : let j : CInst := ⟨"a2", "a", [20], 95, 0, false⟩
    let d : CDesc := [wa1, j, wb1]
    WF d ∧ AllTok d ∧ (∀ x ∈ [j], x.regTs ≥ (100 : Int) - 10) ∧ zonesOf (d.filter fun x => ![j].contains x) = zonesOf d :=
  ⟨⟨by decide, by unfold TokNodup; decide⟩, by unfold AllTok; decide, by decide, by decide⟩
/-! #### a concrete window meeting EVERY hypothesis of `lookback_superset_readonly` / `lookback_covers_window`

now = 100, period = 10 (window start 90), one zone, zone-awareness on.
Present ring `lwD` = `a1`, `a2` (read-only since 95), `j1` (registered at 95). At the earlier moment:
`j1` was not registered yet (`lwJ`), `a2` was still read-write (`lwG` restores that), and `l1`, which
left since, was there (`lwL`); `lwR` is that earlier ring. So `J ≠ []`, `L ≠ []`, `g ≠ id`. -/

def lwA1 : CInst := ⟨"a1", "a", [10], 5, 0, false⟩
def lwA2 : CInst := ⟨"a2", "a", [20], 5, 95, true⟩
def lwA2' : CInst := ⟨"a2", "a", [20], 5, 0, false⟩
def lwJ1 : CInst := ⟨"j1", "a", [30], 95, 0, false⟩
def lwL1 : CInst := ⟨"l1", "a", [40], 5, 0, false⟩
def lwD : CDesc := [lwA1, lwA2, lwJ1]
def lwJ : List CInst := [lwJ1]
def lwL : List CInst := [lwL1]
def lwR : CDesc := [lwA1, lwA2', lwL1]
def lwG : CInst → CInst := fun i => if i.id = "a2" then { i with ro := false, roTs := 0 } else i

theorem lookback_window_example :
    WF lwD ∧ AllTok lwD ∧ WF lwR ∧ AllTok lwR ∧
    (∀ x ∈ lwJ, x.regTs ≥ (100 : Int) - 10) ∧ ROOnlyOn lwD lwG ∧
    (∀ i ∈ lwD, (lwG i).ro ≠ i.ro → i.roTs ≥ (100 : Int) - 10) ∧ lwG lwA2 ≠ lwA2 ∧
    lwR.filter (notIn lwL) = (lwD.filter fun x => !lwJ.contains x).map lwG ∧
    (∀ L' : List CInst, (∀ y ∈ L', y ∈ lwL) → zonesOf (lwR.filter (notIn L')) = zonesOf lwR) ∧
    zonesOf (lwD.filter fun x => !lwJ.contains x) = zonesOf lwD := by
  refine ⟨⟨by decide, by unfold TokNodup; decide⟩, by unfold AllTok; decide,
    ⟨by decide, by unfold TokNodup; decide⟩, by unfold AllTok; decide, by decide, ?_, by decide, by decide, by decide, ?_, by decide⟩
  · refine ⟨?_, ?_, ?_, ?_⟩ <;> decide
  · intro L' hL'
    have hz : zonesOf lwR = ["a"] := by decide
    rw [hz]
    apply zonesOf_const
    · intro he
      have : lwA1 ∈ lwR.filter (notIn L') := by
        refine List.mem_filter.mpr ⟨by decide, ?_⟩
        simp only [notIn, Bool.not_eq_true']
        cases hc : L'.contains lwA1 with
        | false => rfl
        | true =>
          have := hL' lwA1 (by simpa using hc)
          revert this; decide
      rw [he] at this; cases this
    · intro i hi
      have hall : ∀ i ∈ lwR, i.zone = "a" := by decide
      exact hall i (List.mem_filter.mp hi).1

/-- the hypotheses of `lookback_covers_window` hold for this data, hence its conclusion (for every
identifier stream and size): whoever was in the earlier plain shard and did not leave is in the
look-back shard now. -/
example (starts : String → Nat → Nat) (size : Int) (hsize : 0 < size) :
    ∀ m' ∈ shard ⟨true⟩ lwR starts size 0 95, m' ∉ lwL → ∃ m ∈ shard ⟨true⟩ lwD starts size 10 100, lwG m = m' := by
  obtain ⟨h1, h2, h3, h4, h5, h6, h7, _, h9, h10, h11⟩ := lookback_window_example
  exact lookback_covers_window ⟨true⟩ lwD h1 h2 starts size 10 100 95 hsize (by decide) lwR h3 h4 lwL lwJ h5 lwG h6 h7 h9
    (fun _ => h10) (fun _ => h11)

/-- **the member restriction matters**: the natural `lwG` (defined by the id) does NOT satisfy the
hypothesis quantified over all instances — only the member-restricted form is usable. -/
theorem hK_over_all_instances_fails :
    ¬ ∀ i : CInst, (lwG i).ro ≠ i.ro → i.roTs ≥ (100 : Int) - 10 := by
  intro h
  have := h ⟨"a2", "zz", [], 0, 0, true⟩ (by decide)
  revert this; decide

/-! #### the same for the partition ring: `keep ≠ fun _ => true`, `g ≠ id`, `L ≠ []` -/

def pw0 : Part := ⟨0, .active, 5, [10]⟩
def pw1 : Part := ⟨1, .inactive, 95, [20]⟩      -- was ACTIVE at the earlier moment
def pw1' : Part := ⟨1, .active, 5, [20]⟩
def pw2 : Part := ⟨2, .active, 95, [30]⟩        -- added inside the window
def pw3 : Part := ⟨3, .active, 5, [40]⟩         -- removed since
def pwPs : List Part := [pw0, pw1, pw2]
def pwR : List Part := [pw0, pw1', pw3]
def pwKeep : Part → Bool := fun p => p.id != 2
def pwG : Part → Part := fun p => if p.id = 1 then { p with state := .active, stateTs := 5 } else p

theorem pshard_window_example :
    PWF pwPs ∧ PAllTok pwPs ∧ PTokNodup pwPs ∧ PWF pwR ∧ PAllTok pwR ∧ PTokNodup pwR ∧
    (∀ x ∈ pwPs, pwKeep x = false → x.stateTs ≥ (100 : Int) - 10) ∧ StateOnlyOn pwPs pwG ∧
    (∀ x ∈ pwPs, (pwG x).state ≠ x.state → x.stateTs ≥ (100 : Int) - 10) ∧
    (∀ x ∈ pwPs, (pwG x).state = PState.active → x.state ≠ PState.pending) ∧
    pwG pw1 ≠ pw1 ∧ pwKeep pw2 = false ∧
    pwR.filter (notInP [pw3]) = (pwPs.filter pwKeep).map pwG := by
  refine ⟨by unfold PWF; decide, by unfold PAllTok; decide, by unfold PTokNodup TokNodupG; decide,
    by unfold PWF; decide, by unfold PAllTok; decide, by unfold PTokNodup TokNodupG; decide,
    by decide, ⟨by decide, by decide⟩, by decide, by decide, by decide, by decide, by decide⟩

example (starts : Nat → Nat) (size : Int) :
    ∀ id ∈ pshard pwR starts size 0 95, (∀ x ∈ [pw3], x.id ≠ id) → id ∈ pshard pwPs starts size 10 100 := by
  obtain ⟨h1, h2, h3, h4, h5, h6, h7, h8, h9, h10, _, _, h13⟩ := pshard_window_example
  exact pshard_lookback_covers_window pwPs h1 h2 h3 starts size 10 100 95 (by decide) pwR h4 h5 h6 [pw3] pwKeep h7 pwG h8 h9 h10 h13

example : (0 : Int) < 3 ∧ (3 : Int) ≤ 12 ∧ (12 : Int) ≤ maxInt := by decide
example : countPerZone wring "a" ≤ 2 := by decide

end PC12
