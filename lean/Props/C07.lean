import Model.C07
import Proofs.C07
/-!
# C07 — compare-and-swap is atomic on every KV backend (property theorems)

All theorems quantify over **every** list of events `evs` (any number of callers, any interleaving
of their read and apply+conditional-write steps, any caller-supplied functions, any retry budget,
any keys, any well-formed initial store). Helper lemmas are in `Proofs/C07.lean`.
-/
namespace PC07
open C07 PfC07

variable {α : Type}

/-- **cas_chain (consul)**: on the consul client + in-memory store, for every interleaving, the
successful writes on a key — in commit order — form a chain: each was applied to the value left by
the previous one (the first to the initial value) and the stored value at the end is what the last
one left. -/
theorem cas_chain_consul (cfg : Cfg α) (s0 : Sys α) (h0 : Quiescent s0) (_hk : s0.pri.kind = .consul)
    (evs : List (Ev α)) (k : Key) :
    Chain (s0.pri.val k) (successful k (run cfg s0 evs).log) ((run cfg s0 evs).pri.val k) :=
  chain_chrono cfg s0 h0 evs k

/-- **cas_chain (etcd)**. -/
theorem cas_chain_etcd (cfg : Cfg α) (s0 : Sys α) (h0 : Quiescent s0) (_hk : s0.pri.kind = .etcd)
    (evs : List (Ev α)) (k : Key) :
    Chain (s0.pri.val k) (successful k (run cfg s0 evs).log) ((run cfg s0 evs).pri.val k) :=
  chain_chrono cfg s0 h0 evs k

/-- **no lost update** (every backend), per write: in every interleaving, each successful write was
applied to exactly the value that was stored at the moment of the write. -/
theorem no_lost_update (cfg : Cfg α) (s0 : Sys α) (h0 : Quiescent s0)
    (evs : List (Ev α)) (r : Rec α) (hr : r ∈ (run cfg s0 evs).log) (hw : r.outcome = .wrote) :
    r.inp = r.before :=
  wrote_input_current cfg s0 h0 evs r hr hw

/-- What a successful call leaves (consul, etcd) is exactly the value its function returned, and
the CAS call returns nil. -/
theorem wrote_leaves_output (cfg : Cfg α) (s0 : Sys α) (h0 : Quiescent s0) (hk : s0.pri.kind ≠ .ml)
    (evs : List (Ev α)) (r : Rec α) (hr : r ∈ (run cfg s0 evs).log) (hw : r.outcome = .wrote) :
    r.done = some true ∧ ∃ out, r.out = some out ∧ r.after = some out :=
  PfC07.wrote_leaves_output cfg s0 h0 hk evs r hr hw

/-- The value recorded as `out` of a successful attempt is the caller's function applied to the
value the attempt had read (`inp`): the step of a caller holding `inp` logs `f att inp`. -/
theorem wrote_applies_f (cfg : Cfg α) (s : Sys α) (c : Nat) (cl : Call α) (cid att idx : Nat) (inp : Option α)
    (hp : s.ph c = .holding cl cid att idx inp) :
    ∃ r, (next cfg s (.step c)).log = r :: s.log ∧ r.inp = inp ∧ r.key = cl.key ∧
      (r.outcome = .wrote → ∃ out retry, cl.f att inp = .write out retry ∧ r.out = some out) :=
  PfC07.wrote_applies_f cfg s c cl cid att idx inp hp

/-! ### failed or declined calls change nothing (all backends, memberlist included) -/

/-- **failed_or_declined_noop (steps)**: the stored value of a key changes only in a step that logs a
successful write on that key; every other step — reads, failed or declined attempts, conflicts,
"no change" merges, mirror writes — leaves every key of the primary store as it was. -/
theorem non_write_steps_noop (cfg : Cfg α) (s : Sys α) (ev : Ev α) (k : Key)
    (h : (next cfg s ev).pri.val k ≠ s.pri.val k) :
    ∃ r, (next cfg s ev).log = r :: s.log ∧ r.outcome = .wrote ∧ r.key = k :=
  PfC07.non_write_steps_noop cfg s ev k h

/-- **failed_or_declined_noop (calls)**: in every run, if a CAS call reported failure (its loop ended
with an error) or its function declined to write, then *no* attempt of that call wrote, and every
attempt of that call left the stored value exactly as it found it. -/
theorem failed_or_declined_noop (cfg : Cfg α) (s0 : Sys α) (h0 : Quiescent s0) (evs : List (Ev α))
    (r : Rec α) (hr : r ∈ (run cfg s0 evs).log) (hfail : r.done = some false ∨ r.outcome = .declined)
    (r' : Rec α) (hr' : r' ∈ (run cfg s0 evs).log) (hsame : r'.cid = r.cid) :
    r'.outcome ≠ .wrote ∧ r'.after = r'.before :=
  PfC07.failed_or_declined_noop cfg s0 h0 evs r hr hfail r' hr' hsame

/-- a call that wrote returns nil, and it is the last attempt of its call: the caller leaves the
primary loop (idle, or mirroring). A call therefore writes at most once. -/
theorem wrote_ends_call (cfg : Cfg α) (s : Sys α) (c : Nat) (cl : Call α) (cid att idx : Nat) (inp : Option α)
    (hp : s.ph c = .holding cl cid att idx inp) (r : Rec α)
    (hl : (next cfg s (.step c)).log = r :: s.log) (hw : r.outcome = .wrote) :
    r.done = some true ∧ inflight ((next cfg s (.step c)).ph c) = none :=
  PfC07.wrote_ends_call cfg s c cl cid att idx inp hp r hl hw

/-! ### wrappers -/

/-- **wrappers_refine (prefix)**: `prefixedKVClient.CAS(key, f) = client.CAS(prefix ++ key, f)`, and the
key mapping is injective, so distinct user keys never alias in the backend. -/
theorem wrappers_refine_prefix (p k1 k2 : Key) (h : prefixKey p k1 = prefixKey p k2) : k1 = k2 :=
  prefixKey_inj p k1 k2 h

/-- hence the chain property holds for every *user* key of a prefixed client (any backend), counting
exactly the successful writes of calls made on that user key. -/
theorem wrappers_refine_prefix_chain (cfg : Cfg α) (s0 : Sys α) (h0 : Quiescent s0)
    (evs : List (Ev α)) (p uk : Key) :
    Chain (s0.pri.val (prefixKey p uk)) (successful (prefixKey p uk) (run cfg s0 evs).log)
      ((run cfg s0 evs).pri.val (prefixKey p uk)) :=
  chain_chrono cfg s0 h0 evs _

/-- **wrappers_refine (multi, mirroring)**: the steps of the mirror write touch neither the primary
store, nor the log of primary attempts, nor any other caller … -/
theorem wrappers_refine_mirror_frame (cfg : Cfg α) (s : Sys α) (c : Nat) (h : inMirror (s.ph c)) :
    (next cfg s (.step c)).pri = s.pri ∧ (next cfg s (.step c)).log = s.log ∧
    ∀ c', c' ≠ c → (next cfg s (.step c)).ph c' = s.ph c' :=
  mirror_step_frame cfg s c h

/-- … and conversely the primary loop never touches the secondary store. (`cas_chain_*` above already
quantify over runs that contain mirrored calls and mirror steps.) -/
theorem wrappers_refine_primary_frame (cfg : Cfg α) (s : Sys α) (ev : Ev α)
    (h : ∀ c, ev = .step c → ¬ inMirror (s.ph c)) : (next cfg s ev).sec = s.sec :=
  primary_step_sec cfg s ev h

/-- an undisturbed mirror write on a consul/etcd secondary stores the value the primary CAS wrote. -/
theorem wrappers_refine_mirror_copies (cfg : Cfg α) (s : Sys α) (c : Nat) (k : Key) (v : α)
    (hp : s.ph c = .mreading k v 0 0) (hk : s.sec.kind ≠ .ml) :
    (next cfg (next cfg s (.step c)) (.step c)).sec.val k = some v :=
  mirror_copies_value cfg s c k v hp hk

/-- **mirror targets** (`writeToSecondary`): whatever the client list and wherever the primary sits in it
— in particular after `setNewPrimaryClient` moved it away from position 0 at runtime — the mirror
write is never sent to the store the call used as primary … -/
theorem mirror_targets_exclude_primary (clients : List Nat) (primary : Nat) :
    primary ∉ mirrorTargets clients primary := by
  simp [mirrorTargets]

/-- … it is sent to every other client, and to nothing else. -/
theorem mirror_targets_exactly_others (clients : List Nat) (primary c : Nat) :
    c ∈ mirrorTargets clients primary ↔ (c ∈ clients ∧ c ≠ primary) := by
  simp [mirrorTargets]

/-- two clients, primary switched to the second one: the mirror goes to the first (old) store only;
"all clients but the first" would be the primary itself. -/
example : mirrorTargets [0, 1] 1 = [0] ∧ mirrorTargets [0, 1] 0 = [1] ∧ ([0, 1] : List Nat).tail = [1] := by decide

/-! ### memberlist

Since dskit commit "fix: memberlist KV CAS on a missing key is not atomic" `mergeValueForKey` tests
`cas && curr.Version != casVersion`, so the first write of a key is conditional like every other
write and the chain property holds without any guard. -/

/-- **ml_cas_chain**: on the memberlist store, for every interleaving (first write of a key included),
the successful writes on a key form a chain from the initial to the final value. -/
theorem ml_cas_chain (cfg : Cfg α) (s0 : Sys α) (h0 : Quiescent s0) (_hk : s0.pri.kind = .ml)
    (evs : List (Ev α)) (k : Key) :
    Chain (s0.pri.val k) (successful k (run cfg s0 evs).log) ((run cfg s0 evs).pri.val k) :=
  chain_chrono cfg s0 h0 evs k

/-- what a successful memberlist write leaves is the merge of `f`'s output into the value found. -/
theorem ml_wrote_leaves_merge (cfg : Cfg α) (s0 : Sys α) (h0 : Quiescent s0) (hk : s0.pri.kind = .ml)
    (evs : List (Ev α)) (r : Rec α) (hr : r ∈ (run cfg s0 evs).log) (hw : r.outcome = .wrote) :
    r.done = some true ∧ ∃ out, r.out = some out ∧ r.after = cfg.merge r.before out ∧ r.after ≠ none :=
  PfC07.ml_wrote_leaves_merge cfg s0 h0 hk evs r hr hw

/-- **ml_no_lost_update**: every successful memberlist write was applied to the value stored at that
moment, and for a function that only grows the value (`merge v (f v) = f v`) it leaves `f`'s output. -/
theorem ml_no_lost_update (cfg : Cfg α) (s0 : Sys α) (h0 : Quiescent s0) (hk : s0.pri.kind = .ml)
    (evs : List (Ev α)) (r : Rec α) (hr : r ∈ (run cfg s0 evs).log) (hw : r.outcome = .wrote) :
    r.inp = r.before ∧ ∀ out, r.out = some out → cfg.merge r.inp out = some out → r.after = some out :=
  PfC07.ml_no_lost_update cfg s0 h0 hk evs r hr hw

/-! #### history: before the repair the first write was not atomic (finding D4)

`condWriteMlOld` is the rule `casVersion > 0 && curr.Version != casVersion` the code had before the
repair. It is NOT part of the model of the current code; the witness below only records why the rule
was changed: two callers that both read the absent key (version 0, input `none`) both succeed, and
the second write lands on the value the first one left — which the current rule rejects. -/

def kx : Key := [107]
def oldAfterFirst : Store Val := (condWriteMlOld Val.merge (Store.empty .ml) kx 0 (Val.app 100 none)).1

theorem ml_first_write_not_atomic_history :
    (condWriteMlOld Val.merge (Store.empty .ml) kx 0 (Val.app 100 none)).2 = .wrote ∧
    oldAfterFirst.val kx = some ⟨0, [100]⟩ ∧
    (condWriteMlOld Val.merge oldAfterFirst kx 0 (Val.app 200 none)).2 = .wrote ∧
    (condWriteMlOld Val.merge oldAfterFirst kx 0 (Val.app 200 none)).1.val kx = some ⟨0, [100, 200]⟩ ∧
    (condWrite Val.merge oldAfterFirst kx 0 (Val.app 200 none)).2 = .conflict := by
  decide

/-! #### the same race under the current rule -/

def callApp (id : Nat) : Call Val := ⟨kx, fun _ inp => .write (Val.app id inp) true, false⟩
def mlCfg : Cfg Val := { budget := 10, sbudget := 10, merge := Val.merge }
def mlEmpty : Sys Val := Sys.init (Store.empty .ml) (Store.empty .consul)
/-- both callers read the absent key, then both try to write; caller 1 re-reads and writes again. -/
def mlRace : List (Ev Val) :=
  [.begin 0 (callApp 100), .step 0, .begin 1 (callApp 200), .step 1, .step 0, .step 1, .step 1, .step 1]

/-- the second caller conflicts, re-reads and writes on top of the first caller's value. -/
example : (run mlCfg mlEmpty mlRace).log.map (fun r => (r.caller, r.inp, r.outcome, r.after)) =
    [(1, some ⟨0, [100]⟩, .wrote, some ⟨0, [100, 200]⟩), (1, none, .conflict, some ⟨0, [100]⟩),
     (0, none, .wrote, some ⟨0, [100]⟩)] := by decide
example : Quiescent mlEmpty := quiescent_init _ _ (wf_empty _)

/-! ### non-vacuity: concrete runs that meet the hypotheses and exercise conflicts -/

def callInc (k : Key) (mirror : Bool) : Call Val := ⟨k, fun _ inp => .write (Val.inc inp) true, mirror⟩
def sys (b : Backend) : Sys Val := Sys.init (Store.empty b) (Store.empty .etcd)
/-- both callers read the absent key; caller 0 writes; caller 1 conflicts, re-reads and writes. -/
def race : List (Ev Val) :=
  [.begin 0 (callInc kx true), .step 0, .begin 1 (callInc kx false), .step 1, .step 0, .step 1, .step 1, .step 1,
   .step 0, .step 0]

example : Quiescent (sys .consul) := quiescent_init _ _ (wf_empty _)
example : (run mlCfg (sys .consul) race).log.map (fun r => (r.caller, r.inp, r.outcome, r.after)) =
    [(1, some ⟨1, []⟩, .wrote, some ⟨2, []⟩), (1, none, .conflict, some ⟨1, []⟩), (0, none, .wrote, some ⟨1, []⟩)] := by
  decide
example : (run mlCfg (sys .etcd) race).log.map (fun r => (r.caller, r.inp, r.outcome, r.after)) =
    [(1, some ⟨1, []⟩, .wrote, some ⟨2, []⟩), (1, none, .conflict, some ⟨1, []⟩), (0, none, .wrote, some ⟨1, []⟩)] := by
  decide
example : successful kx (run mlCfg (sys .consul) race).log = [(none, some ⟨1, []⟩), (some ⟨1, []⟩, some ⟨2, []⟩)] := by
  decide
/-- the mirrored value reached the secondary. -/
example : (run mlCfg (sys .consul) race).sec.val kx = some ⟨1, []⟩ := by decide
/-- memberlist with the key already present: a conflict, a re-read and a write on top. -/
def mlPresent : Sys Val := Sys.init ((Store.empty .ml).set kx ⟨⟨0, [1]⟩, 1⟩) (Store.empty .consul)
example : (run mlCfg mlPresent race).log.map (fun r => (r.caller, r.idx, r.outcome, r.after)) =
    [(1, 2, .wrote, some ⟨2, [1]⟩), (1, 1, .conflict, some ⟨1, [1]⟩), (0, 1, .wrote, some ⟨1, [1]⟩)] := by
  decide
/-- the harness functions only grow the value, e.g. -/
example : Val.merge (some ⟨2, [1, 5]⟩) (Val.inc (some ⟨2, [1, 5]⟩)) = some (Val.inc (some ⟨2, [1, 5]⟩)) ∧
    Val.merge (some ⟨2, [1, 5]⟩) (Val.app 3 (some ⟨2, [1, 5]⟩)) = some (Val.app 3 (some ⟨2, [1, 5]⟩)) ∧
    Val.merge none (Val.app 3 none) = some (Val.app 3 none) := by decide
/-- a failed and a declined call. -/
def callFail : Call Val := ⟨kx, fun _ _ => .fail true, false⟩
def callDecl : Call Val := ⟨kx, fun _ _ => .decline, false⟩
example : (run { budget := 2, sbudget := 10, merge := Val.merge } (sys .etcd) [.begin 0 callFail, .step 0, .step 0, .step 0, .step 0,
      .begin 1 callDecl, .step 1, .step 1]).log.map (fun r => (r.cid, r.outcome, r.done)) =
    [(1, .declined, some true), (0, .failed, some false), (0, .failed, none)] := by decide

end PC07
