import Model.C07
import Proofs.C07
/-!
# C07 — compare-and-swap is atomic on every KV backend (property theorems)

The run-level theorems quantify over **every** list of events `evs` (any number of callers, any
interleaving of their read and apply+conditional-write steps and of the store-level steps of the
mirror writes, any caller-supplied functions, any retry budget, any keys, any wrapper stack) that
satisfies `RunOK`:
* the run starts quiescent (nobody inside a CAS call) over a well-formed primary store,
* a memberlist primary is used with a Mergeable that honours its contract (`Lawful`: a merge that
  reports "no change" leaves the stored value as it was — memberlist merges in place),
* the primary store is not switched at runtime during the run (C07's quantifier has no runtime
  switch; `primary_switch_in_flight_witness` shows what happens otherwise).

Theorems about a single step (`…_step`) hold from an arbitrary state and are unfoldings of the model's
`commit`; they are stated because the run-level theorems talk about log records and these say
what a record is. Helper lemmas are in `Proofs/C07.lean`.
-/
namespace PC07
open C07 PfC07

variable {α : Type}

/-! ### the chain of successful calls -/

/-- **cas_chain** (consul, etcd, memberlist — one statement): for every interleaving, the successful
writes on a key of the primary store — in commit order, as (value `f` was applied to, value left) —
form a chain: the first was applied to the initial value, each next one to the value left by the
previous one, and the stored value at the end is what the last one left. -/
theorem cas_chain (cfg : Cfg α) (s0 : Sys α) (evs : List (Ev α)) (h : RunOK cfg s0 evs) (k : Key) :
    Chain (s0.pri.val k) (successful k (run cfg s0 evs).log) (((run cfg s0 evs).stores s0.primary).val k) :=
  chain_chrono cfg s0 evs h k

/-- **cas_chain_outputs** (consul, etcd): the same chain in terms of what the functions *returned*:
each successful call's output is the next successful call's input and the final value is the
last output — "the final value reflects exactly the successful calls". -/
theorem cas_chain_outputs (cfg : Cfg α) (s0 : Sys α) (evs : List (Ev α)) (h : RunOK cfg s0 evs)
    (hk : s0.pri.kind ≠ .ml) (k : Key) :
    Chain (s0.pri.val k) (successfulOut k (run cfg s0 evs).log) (((run cfg s0 evs).stores s0.primary).val k) := by
  rw [successfulOut_eq cfg s0 evs h hk k]; exact chain_chrono cfg s0 evs h k

/-- **ml_cas_chain_outputs** (memberlist): what a memberlist write leaves is the *merge* of `f`'s output
into the value found, so the chain of outputs needs the guard that the recorded successful calls
used functions that only grow the value (`merge inp out = (out, true)`); then it holds as above. -/
theorem ml_cas_chain_outputs (cfg : Cfg α) (s0 : Sys α) (evs : List (Ev α)) (h : RunOK cfg s0 evs)
    (hk : s0.pri.kind = .ml)
    (hgrow : ∀ r ∈ (run cfg s0 evs).log, r.outcome = .wrote → ∀ out, r.out = some out → cfg.merge r.inp out = (out, true))
    (k : Key) :
    Chain (s0.pri.val k) (successfulOut k (run cfg s0 evs).log) (((run cfg s0 evs).stores s0.primary).val k) := by
  rw [successfulOut_eq_of _ k (fun r hr hw => by
    obtain ⟨_, out, v, ho, _, _⟩ := PfC07.ml_wrote_leaves_merge cfg s0 evs h hk r hr hw
    rw [ho, (PfC07.ml_no_lost_update cfg s0 evs h hk r hr hw).2 out ho (hgrow r hr hw out ho)])]
  exact chain_chrono cfg s0 evs h k

/-- **no_lost_update** (every backend), per write: each successful write was applied to exactly the
value that was stored at the moment of the write. -/
theorem no_lost_update (cfg : Cfg α) (s0 : Sys α) (evs : List (Ev α)) (h : RunOK cfg s0 evs)
    (r : Rec α) (hr : r ∈ (run cfg s0 evs).log) (hw : r.outcome = .wrote) : r.inp = r.before :=
  wrote_input_current cfg s0 evs h r hr hw

/-- What a successful call leaves (consul, etcd) is exactly the value its function returned, and
the CAS call returns nil. -/
theorem wrote_leaves_output (cfg : Cfg α) (s0 : Sys α) (evs : List (Ev α)) (h : RunOK cfg s0 evs)
    (hk : s0.pri.kind ≠ .ml) (r : Rec α) (hr : r ∈ (run cfg s0 evs).log) (hw : r.outcome = .wrote) :
    r.done = some true ∧ ∃ out, r.out = some out ∧ r.after = some out :=
  PfC07.wrote_leaves_output cfg s0 evs h hk r hr hw

/-- memberlist: a successful write leaves the merge of `f`'s output into the value found … -/
theorem ml_wrote_leaves_merge (cfg : Cfg α) (s0 : Sys α) (evs : List (Ev α)) (h : RunOK cfg s0 evs)
    (hk : s0.pri.kind = .ml) (r : Rec α) (hr : r ∈ (run cfg s0 evs).log) (hw : r.outcome = .wrote) :
    r.done = some true ∧ ∃ out v, r.out = some out ∧ cfg.merge r.before out = (v, true) ∧ r.after = some v :=
  PfC07.ml_wrote_leaves_merge cfg s0 evs h hk r hr hw

/-- … which was the value `f` was applied to; for an only-growing function it is `f`'s output. -/
theorem ml_no_lost_update (cfg : Cfg α) (s0 : Sys α) (evs : List (Ev α)) (h : RunOK cfg s0 evs)
    (hk : s0.pri.kind = .ml) (r : Rec α) (hr : r ∈ (run cfg s0 evs).log) (hw : r.outcome = .wrote) :
    r.inp = r.before ∧ ∀ out, r.out = some out → cfg.merge r.inp out = (out, true) → r.after = some out :=
  PfC07.ml_no_lost_update cfg s0 evs h hk r hr hw

/-! ### what the result of a call means -/

/-- **no phantom success**: an attempt after which the CAS loop returns nil either wrote or its
function declined; an attempt after which it returns an error did not write. -/
theorem success_means_wrote_or_declined (cfg : Cfg α) (s0 : Sys α) (evs : List (Ev α)) (h : RunOK cfg s0 evs)
    (r : Rec α) (hr : r ∈ (run cfg s0 evs).log) :
    (r.done = some true ↔ (r.outcome = .wrote ∨ r.outcome = .declined)) ∧
    (r.done = some false → r.outcome ≠ .wrote) := by
  have hf := (run_facts cfg s0 evs h r hr).1
  refine ⟨⟨hf.success, fun ho => ?_⟩, fun hd hw => ?_⟩
  · rcases ho with hw | hdcl
    · exact (hf.wrote hw).1
    · exact hf.declined hdcl
  · have := (hf.wrote hw).1; rw [hd] at this; cases this

/-- **failed_or_declined_noop**: if a CAS call reported failure (its loop ended with an error) or its
function declined to write, then *no* attempt of that call wrote, and every attempt of that call
left the stored value exactly as it found it. -/
theorem failed_or_declined_noop (cfg : Cfg α) (s0 : Sys α) (evs : List (Ev α)) (h : RunOK cfg s0 evs)
    (r : Rec α) (hr : r ∈ (run cfg s0 evs).log) (hfail : r.done = some false ∨ r.outcome = .declined)
    (r' : Rec α) (hr' : r' ∈ (run cfg s0 evs).log) (hsame : r'.cid = r.cid) :
    r'.outcome ≠ .wrote ∧ r'.after = r'.before :=
  PfC07.failed_or_declined_noop cfg s0 evs h r hr hfail r' hr' hsame

/-- **non_write_steps_noop (single step)**: from any state in which no mirror loop is aimed at store `p`,
the value of a key in `p` changes only in a step that logs a successful write on that key by a
call whose primary is `p`; reads, failed or declined attempts, conflicts, "no change" merges,
mirror writes and runtime switches leave every key of `p` as it was. -/
theorem non_write_steps_noop_step (cfg : Cfg α) (s : Sys α) (p : Nat)
    (hl : (s.stores p).kind = .ml → Lawful cfg.merge) (hP : ∀ c, PhaseP p (s.ph c)) (ev : Ev α) (k : Key)
    (h : ((next cfg s ev).stores p).val k ≠ (s.stores p).val k) :
    ∃ r, (next cfg s ev).log = r :: s.log ∧ r.outcome = .wrote ∧ r.key = k ∧ r.store = p :=
  PfC07.non_write_steps_noop cfg s p hl hP ev k h

/-- (single step) the record of an attempt carries the value read as `inp`, and for a successful
attempt `out` is the caller's function applied to it. -/
theorem wrote_applies_f_step (cfg : Cfg α) (s : Sys α) (c p : Nat) (cl : Call α) (cid att idx : Nat) (inp : Option α)
    (hp : s.ph c = .holding p cl cid att idx inp) :
    ∃ r, (next cfg s (.step c)).log = r :: s.log ∧ r.inp = inp ∧ r.key = cl.key ∧ r.store = p ∧
      (r.outcome = .wrote → ∃ out retry, cl.f att inp = .write out retry ∧ r.out = some out) :=
  PfC07.wrote_applies_f cfg s c p cl cid att idx inp hp

/-- (single step) a successful write is the last attempt of its call: the CAS loop returns nil and
the caller leaves the primary loop (idle, or mirroring). A call therefore writes at most once. -/
theorem wrote_ends_call_step (cfg : Cfg α) (s : Sys α) (c p : Nat) (cl : Call α) (cid att idx : Nat) (inp : Option α)
    (hp : s.ph c = .holding p cl cid att idx inp) (r : Rec α)
    (hl : (next cfg s (.step c)).log = r :: s.log) (hw : r.outcome = .wrote) :
    r.done = some true ∧ inflight ((next cfg s (.step c)).ph c) = none :=
  PfC07.wrote_ends_call cfg s c p cl cid att idx inp hp r hl hw

/-- The kept token variable and consul's "an absent key accepts any index" are dead in every run:
a caller that holds a value while its key is absent read it as absent, with token 0. -/
theorem absent_read_holds_zero_token (cfg : Cfg α) (s0 : Sys α) (evs : List (Ev α)) (h : RunOK cfg s0 evs)
    (c q : Nat) (cl : Call α) (cid att idx : Nat) (inp : Option α)
    (hp : (run cfg s0 evs).ph c = .holding q cl cid att idx inp)
    (habs : ((run cfg s0 evs).stores s0.primary).ent cl.key = none) : q = s0.primary ∧ inp = none ∧ idx = 0 :=
  PfC07.absent_read_holds_zero_token cfg s0 evs h c q cl cid att idx inp hp habs

/-! ### wrappers: prefix, metrics, multi -/

/-- **wrappers_refine (keys)**: through any stack of wrappers the key mapping (`prefix ++ key` for each
prefix wrapper, identity for metrics and multi) is injective: distinct user keys never alias. -/
theorem wrappers_refine_keys_injective (ws : List Wrap) (k1 k2 : Key) (h : wrapKey ws k1 = wrapKey ws k2) : k1 = k2 :=
  wrapKey_inj ws k1 k2 h

/-- **wrappers_refine (metrics)**: the metrics wrapper is a pass-through — a run of user calls through a
stack that contains it is, state for state (stores, phases, log), the run through the stack
without it. -/
theorem wrappers_refine_metrics (cfg : Cfg α) (s : Sys α) (ws1 ws2 : List Wrap) (uevs : List (UEv α)) :
    run cfg s (uevs.map (wrapEv (ws1 ++ .metrics :: ws2))) = run cfg s (uevs.map (wrapEv (ws1 ++ ws2))) :=
  metrics_refines cfg s ws1 ws2 uevs

/-- **wrappers_refine (chain)**: user calls made through any wrapper stack (prefixes, metrics, multi with
or without mirroring) satisfy the chain property on every *user* key: the successful writes of
the calls made on that user key form a chain on the mapped key of the primary store. -/
theorem wrappers_refine_chain (cfg : Cfg α) (s0 : Sys α) (ws : List Wrap) (uevs : List (UEv α))
    (hq : Quiescent s0) (hl : s0.pri.kind = .ml → Lawful cfg.merge) (hns : ∀ e ∈ uevs, UNoSwitch e) (uk : Key) :
    Chain (s0.pri.val (wrapKey ws uk)) (successful (wrapKey ws uk) (run cfg s0 (uevs.map (wrapEv ws))).log)
      (((run cfg s0 (uevs.map (wrapEv ws))).stores s0.primary).val (wrapKey ws uk)) :=
  chain_chrono cfg s0 _ ⟨hq, hl, wrap_noSwitches ws uevs hns⟩ _

/-- **mirror targets** (`writeToSecondary`): the model's `MultiClient` starts, after a successful write
of a mirrored call whose primary is `p`, the loop over `mirrorTargets s.clients p` … -/
theorem mirror_loop_targets_step (cfg : Cfg α) (s : Sys α) (c p : Nat) (cl : Call α) (cid att idx : Nat) (inp : Option α)
    (hp : s.ph c = .holding p cl cid att idx inp) (hm : cl.mirror = true) (hb : 0 < cfg.sbudget) (r : Rec α)
    (hl : (next cfg s (.step c)).log = r :: s.log) (hw : r.outcome = .wrote) :
    ∃ out, r.out = some out ∧
      (next cfg s (.step c)).ph c =
        (match mirrorTargets s.clients p with
         | [] => .idle
         | t :: rest => .mreading t rest cl.key out 0 0) :=
  mirror_loop_targets cfg s c p cl cid att idx inp hp hm hb r hl hw

/-- … and those targets are exactly the clients other than `p`, wherever `p` sits in the list. -/
theorem mirror_targets_exactly_others (clients : List Nat) (p c : Nat) :
    c ∈ mirrorTargets clients p ↔ (c ∈ clients ∧ c ≠ p) :=
  mirrorTargets_mem clients p c

/-- Hence, in every run, no mirror loop is ever aimed at the primary store (callers in a primary
loop work on the primary, callers in a mirror loop on other stores only). -/
theorem mirror_never_targets_primary (cfg : Cfg α) (s0 : Sys α) (evs : List (Ev α)) (h : RunOK cfg s0 evs) (c : Nat) :
    PhaseP s0.primary ((run cfg s0 evs).ph c) :=
  PfC07.mirror_never_targets_primary cfg s0 evs h c

/-- (single step) a step of a mirror loop changes at most the store it is aimed at; the log of primary
attempts and the other callers are untouched. -/
theorem mirror_frame_step (cfg : Cfg α) (s : Sys α) (c : Nat) (h : inMirror (s.ph c)) :
    (next cfg s (.step c)).log = s.log ∧ (∀ c', c' ≠ c → (next cfg s (.step c)).ph c' = s.ph c') ∧
    ∀ i, (∀ t rest k v att idx, s.ph c ≠ .mreading t rest k v att idx) →
      (∀ rest k v att idx inp, s.ph c ≠ .mholding i rest k v att idx inp) →
      (next cfg s (.step c)).stores i = s.stores i :=
  mirror_step_frame cfg s c h

/-- (single step) `begin`, `switch` and the steps of a primary loop on another store leave store `i` alone. -/
theorem primary_frame_step (cfg : Cfg α) (s : Sys α) (ev : Ev α)
    (h : ∀ c, ev = .step c → ¬ inMirror (s.ph c)) (i : Nat)
    (hi : ∀ c q cl cid att idx inp, ev = .step c → s.ph c = .holding q cl cid att idx inp → q ≠ i) :
    (next cfg s ev).stores i = s.stores i :=
  primary_step_frame cfg s ev h i hi

/-- An **undisturbed** mirror write (its Get and its conditional write with nothing in between) on a
consul or etcd store leaves the value the primary CAS wrote. Under interleaving this is not so:
see `mirror_interleaved_witness`. -/
theorem mirror_copies_undisturbed (cfg : Cfg α) (s : Sys α) (c t : Nat) (rest : List Nat) (k : Key) (v : α)
    (hp : s.ph c = .mreading t rest k v 0 0) (hk : (s.stores t).kind ≠ .ml) :
    ((next cfg (next cfg s (.step c)) (.step c)).stores t).val k = some v :=
  PfC07.mirror_copies_undisturbed cfg s c t rest k v hp hk

/-! ### concrete data: witnesses and non-vacuity -/

def kx : Key := [107]
def cfgT : Cfg Val := { budget := 10, sbudget := 10, merge := Val.merge }              -- harness merge (counts touches)
def cfgL : Cfg Val := { budget := 10, sbudget := 10, merge := Val.mergeWith false }    -- lawful merge
def callInc (k : Key) (mirror : Bool) : Call Val := ⟨k, fun _ inp => .write (Val.inc inp) true, mirror⟩
def callApp (id : Nat) (mirror : Bool) : Call Val := ⟨kx, fun _ inp => .write (Val.app id inp) true, mirror⟩
/-- a mirroring MultiClient over a store of kind `b` (position 0, primary) and an etcd store (position 1). -/
def sys (b : Backend) : Sys Val := Sys.init2 (Store.empty b) (Store.empty .etcd) true
/-- both callers read the absent key; caller 0 writes; caller 1 conflicts, re-reads and writes; then
caller 0's mirror write (Get + conditional write on store 1). -/
def race : List (Ev Val) :=
  [.begin 0 (callInc kx true), .step 0, .begin 1 (callInc kx false), .step 1, .step 0, .step 1, .step 1, .step 1,
   .step 0, .step 0]

/-- `RunOK` is met by these runs, memberlist included. -/
example (b : Backend) : RunOK cfgL (sys b) race :=
  ⟨quiescent_init2 _ _ _ (wf_empty _), fun _ => lawful_mergeWith_false, by unfold NoSwitches; decide⟩

example : (run cfgL (sys .consul) race).log.map (fun r => (r.caller, r.inp, r.outcome, r.after)) =
    [(1, some ⟨1, [], 0⟩, .wrote, some ⟨2, [], 0⟩), (1, none, .conflict, some ⟨1, [], 0⟩),
     (0, none, .wrote, some ⟨1, [], 0⟩)] := by decide
example : (run cfgL (sys .ml) race).log.map (fun r => (r.caller, r.inp, r.outcome, r.after)) =
    [(1, some ⟨1, [], 0⟩, .wrote, some ⟨2, [], 0⟩), (1, none, .conflict, some ⟨1, [], 0⟩),
     (0, none, .wrote, some ⟨1, [], 0⟩)] := by decide
example : successfulOut kx (run cfgL (sys .etcd) race).log =
    [(none, some ⟨1, [], 0⟩), (some ⟨1, [], 0⟩, some ⟨2, [], 0⟩)] := by decide
/-- the mirrored value reached store 1. -/
example : ((run cfgL (sys .consul) race).stores 1).val kx = some ⟨1, [], 0⟩ := by decide

/-- a wrapper stack as `kv.createClient` builds it: metrics(prefix(multi(backend))). -/
example : (wrapCall [.metrics, .pfx [112, 47], .multi true] (⟨kx, fun _ inp => .write (Val.inc inp) true⟩ : UCall Val)).key = [112, 47, 107] ∧
    (wrapCall [.metrics, .pfx [112, 47], .multi true] (⟨kx, fun _ inp => .write (Val.inc inp) true⟩ : UCall Val)).mirror = true := by
  decide
/-- the guard of `ml_cas_chain_outputs` is met by the harness functions, e.g. -/
example : Val.mergeWith false (some ⟨2, [1, 5], 0⟩) (Val.inc (some ⟨2, [1, 5], 0⟩)) = (Val.inc (some ⟨2, [1, 5], 0⟩), true) ∧
    Val.mergeWith false (some ⟨2, [1, 5], 0⟩) (Val.app 3 (some ⟨2, [1, 5], 0⟩)) = (Val.app 3 (some ⟨2, [1, 5], 0⟩), true) ∧
    Val.mergeWith false none (Val.app 3 none) = (Val.app 3 none, true) := by decide

/-- a call that fails because its retries are exhausted by *conflicts* (budget 1, two racers):
`failed_or_declined_noop` applies to caller 1's call. -/
example : (run { cfgL with budget := 1 } (sys .etcd)
      [.begin 0 (callInc kx false), .step 0, .begin 1 (callInc kx false), .step 1, .step 0, .step 1]).log.map
      (fun r => (r.caller, r.outcome, r.done, r.after)) =
    [(1, .conflict, some false, some ⟨1, [], 0⟩), (0, .wrote, some true, some ⟨1, [], 0⟩)] := by decide

/-- a function that fails with retry until the budget is gone, and a declining one. -/
def callFail : Call Val := ⟨kx, fun _ _ => .fail true, false⟩
def callDecl : Call Val := ⟨kx, fun _ _ => .decline, false⟩
example : (run { cfgL with budget := 2 } (sys .etcd) [.begin 0 callFail, .step 0, .step 0, .step 0, .step 0,
      .begin 1 callDecl, .step 1, .step 1]).log.map (fun r => (r.cid, r.outcome, r.done)) =
    [(1, .declined, some true), (0, .failed, some false), (0, .failed, none)] := by decide

/-- **mirror_interleaved_witness**: mirror writes are not ordered like the primary writes. Caller 0 writes 1,
caller 1 writes 2 on the primary; caller 1's mirror write lands first, caller 0's second: the
secondary ends with the older value 1 while the primary holds 2. -/
theorem mirror_interleaved_witness :
    let s := run cfgL (sys .consul)
      [.begin 0 (callInc kx true), .step 0, .step 0, .begin 1 (callInc kx true), .step 1, .step 1,
       .step 1, .step 1, .step 0, .step 0]
    (s.stores 0).val kx = some ⟨2, [], 0⟩ ∧ (s.stores 1).val kx = some ⟨1, [], 0⟩ := by
  decide

/-- **ml_lawful_needed_witness**: the Mergeable contract is necessary for "a failed call leaves the stored
value unchanged" on memberlist. With the harness merge (which counts in place the merges that
report no change) a call whose function returns its input, and which therefore fails with "no
change detected", leaves a different stored object. -/
theorem ml_lawful_needed_witness :
    let s0 : Sys Val := Sys.init2 ((Store.empty .ml).set kx ⟨⟨3, [1], 0⟩, 1⟩) (Store.empty .consul) false
    let same : Call Val := ⟨kx, fun _ inp => .write (inp.getD Val.empty) false, false⟩
    (run cfgT s0 [.begin 0 same, .step 0, .step 0]).log.map (fun r => (r.outcome, r.done, r.before, r.after)) =
      [(.nochange, some false, some ⟨3, [1], 0⟩, some ⟨3, [1], 1⟩)] ∧
    ¬ Lawful Val.merge := by
  refine ⟨by decide, fun h => ?_⟩
  have := h ⟨0, [], 0⟩ ⟨0, [], 0⟩ ⟨0, [], 1⟩ (by decide)
  exact absurd this (by decide)

/-! #### history: before the repair the first write on memberlist was not atomic (finding D4)

`condWriteMlOld` is the rule `casVersion > 0 && curr.Version != casVersion` the code had before the
repair. It is NOT part of the model of the current code; the witness records why the rule was
changed: two callers that both read the absent key (version 0, input `none`) both succeed, and the
second write lands on the value the first one left — which the current rule rejects. -/

def oldAfterFirst : Store Val := (condWriteMlOld Val.merge (Store.empty .ml) kx 0 (Val.app 100 none)).1

theorem ml_first_write_not_atomic_history :
    (condWriteMlOld Val.merge (Store.empty .ml) kx 0 (Val.app 100 none)).2 = .wrote ∧
    oldAfterFirst.val kx = some ⟨0, [100], 0⟩ ∧
    (condWriteMlOld Val.merge oldAfterFirst kx 0 (Val.app 200 none)).2 = .wrote ∧
    (condWriteMlOld Val.merge oldAfterFirst kx 0 (Val.app 200 none)).1.val kx = some ⟨0, [100, 200], 0⟩ ∧
    (condWrite Val.merge oldAfterFirst kx 0 (Val.app 200 none)).2 = .conflict := by
  decide

/-- the same race under the current rule: the second caller conflicts, re-reads and writes on top. -/
example : (run cfgT (Sys.init2 (Store.empty .ml) (Store.empty .consul) false)
      [.begin 0 (callApp 100 false), .step 0, .begin 1 (callApp 200 false), .step 1, .step 0, .step 1, .step 1,
       .step 1]).log.map (fun r => (r.caller, r.inp, r.outcome, r.after)) =
    [(1, some ⟨0, [100], 0⟩, .wrote, some ⟨0, [100, 200], 0⟩), (1, none, .conflict, some ⟨0, [100], 0⟩),
     (0, none, .wrote, some ⟨0, [100], 0⟩)] := by decide

/-! #### observation (outside C07's quantifier): switching the primary while a mirrored call is in flight

`MultiClient.CAS` captures the primary when the call starts and `writeToSecondary` writes blindly to
every *other* client. If the primary is switched (runtime configuration) between a call's primary
CAS and its mirror write, that blind write goes to the NEW primary and overwrites what later calls
wrote there. This is the behaviour of the unpatched code (reproduced on the real code, see the
report); it needs a runtime switch, which C07 does not quantify over, so no theorem above and no
judge rule concerns it. -/

/-- **primary_switch_in_flight_witness**: caller 0 (mirrored, primary = store 0) appends 100 on store 0;
the primary is switched to store 1; caller 1 (primary = store 1) appends 200 on store 1 and
returns nil; caller 0's mirror write then replaces store 1's value by `{100}`: caller 1's
successful update is gone from the store that is now the primary. -/
def switchRun : Sys Val :=
  run cfgL (Sys.init2 (Store.empty .consul) (Store.empty .consul) true)
    [.begin 0 (callApp 100 true), .step 0, .step 0, .switch 1,
     .begin 1 (callApp 200 true), .step 1, .step 1, .step 0, .step 0]

theorem primary_switch_in_flight_witness :
    switchRun.primary = 1 ∧
    switchRun.log.map (fun r => (r.caller, r.store, r.outcome, r.done, r.after)) =
      [(1, 1, .wrote, some true, some ⟨0, [200], 0⟩), (0, 0, .wrote, some true, some ⟨0, [100], 0⟩)] ∧
    (switchRun.stores 1).val kx = some ⟨0, [100], 0⟩ :=
  ⟨by decide, by decide, by decide⟩

/-! #### observation (outside C07's quantifier): a Delete between two attempts of one etcd CAS call

`Ev` has no Delete, so in every run of the model the kept token variable is dead
(`absent_read_holds_zero_token`). The witness below shows, at store level with the model's own
`readIdx` / `condWrite` (the functions tied by the correspondence streams), what the kept variable does
once a Delete is allowed. Reproduced once on the real `etcd.Client.CAS` over its mock with a throw-away
test (the call returned nil, its function was applied to nil, the other call's value was gone); no
correspondence stream drives Delete during a run, so no judge rule concerns it. -/

def vA : Val := ⟨0, [1], 0⟩
def vC : Val := ⟨0, [3], 0⟩
def vA2 : Val := ⟨0, [2], 0⟩

/-- **etcd_kept_revision_after_delete_witness**: `etcd.Client.CAS` assigns `revision` only when the key
exists. A call whose first attempt read the key at version 1 (and lost: the key was deleted before its
write) finds the key absent at its second attempt and keeps `revision = 1` while `f` is applied to nil;
another call re-creates the key in between (version 1 again: etcd versions restart after a delete), so
the transaction `Version(key) = 1` succeeds: the call returns nil having applied `f` to nil, and the
other call's successful write `vC` is overwritten unseen. -/
theorem etcd_kept_revision_after_delete_witness :
    let s1 : Store Val := (Store.empty .etcd).set kx ⟨vA, 1⟩          -- key present at version 1
    let idx1 := readIdx s1 kx 0                                         -- attempt 1 reads: revision = 1
    let s2 : Store Val := Store.empty .etcd                             -- Delete(key)
    let idx2 := readIdx s2 kx idx1                                      -- attempt 2 reads the absent key
    let s3 := (condWrite Val.merge s2 kx 0 vC).1                        -- another call creates the key
    let w := condWrite Val.merge s3 kx idx2 vA2                         -- attempt 2's conditional write
    idx1 = 1 ∧ (condWrite Val.merge s2 kx idx1 vA2).2 = .conflict ∧     -- attempt 1's write conflicts
    idx2 = 1 ∧ s2.val kx = none ∧                                       -- revision kept, input nil
    (condWrite Val.merge s2 kx 0 vC).2 = .wrote ∧ s3.val kx = some vC ∧ s3.ver kx = 1 ∧
    w.2 = .wrote ∧ w.1.val kx = some vA2 := by
  decide

/-- the same history on the consul mock (ModifyIndex comes from a store-wide counter that a delete
does not reset) and on memberlist (the version is read afresh at every attempt): the second
attempt's write is rejected. -/
theorem consul_ml_kept_token_after_delete_safe :
    (let s2 : Store Val := { (Store.empty .consul : Store Val) with cur := 2 }
     let s3 := (condWrite Val.merge s2 kx 0 vC).1
     (condWrite Val.merge s3 kx (readIdx s2 kx 2) vA2).2 = .conflict) ∧
    (let s2 : Store Val := Store.empty .ml
     let s3 := (condWrite Val.merge s2 kx 0 vC).1
     readIdx s2 kx 1 = 0 ∧ (condWrite Val.merge s3 kx (readIdx s2 kx 1) vA2).2 = .conflict) := by
  decide

end PC07
