import Model.C08
import Generated.C08
import Proofs.C08
import Proofs.C08.World
import Proofs.C08.Loop
import Proofs.C08.Repair
/-!
# C08 — a lifecycler edits only its own ring entry and follows the state machine

Statements only; proofs are in `Proofs/C08.lean`. `step c l file din ev now gen fault` is one handler of
the lifecycler `c` (full `Lifecycler` or `BasicLifecycler` + standard delegates) run on the CAS input
`din`; `Sys` is one lifecycler against an arbitrary environment obeying the frame (which every other
lifecycler does, `other_lifecycler_is_environment`), so the schedule theorems hold for any number of
lifecyclers sharing the store, any interleaving, any clock that does not go backwards, any generator.
-/
namespace PC08
open Ring C08 PfC08

/-- the transition table read out of the running `Lifecycler.changeState` equals the model's -/
theorem generated_changeState_table :
    Generated.C08.changeStateTable =
      ([State.ACTIVE, .LEAVING, .PENDING, .JOINING, .LEFT].flatMap fun a =>
        [State.ACTIVE, .LEAVING, .PENDING, .JOINING, .LEFT].map fun b => (a.toNat, b.toNat, allowed a b)) := by
  decide

/-! ### 1. frame -/

/-- Whatever a handler writes (any lifecycler kind, any event, any remembered state, any store fault),
every entry other than its own is unchanged — except that `ClaimTokensFor from` empties `from`'s token
list, and a BasicLifecycler heartbeat with the auto-forget delegate removes entries whose heartbeat is
at least the forget period old. -/
theorem frame (c : Cfg) (l : Local) (file : File) (din : Option Desc) (ev : Event) (now : Int) (gen : Gen) (fault : Fault)
    (d' : Desc) (hwf : WF (din.getD [])) (h : (step c l file din ev now gen fault).out = .write d')
    (k : String) (hk : k ≠ c.id) :
    Desc.get? d' k = Desc.get? (din.getD []) k ∨
    (∃ frm e, ev = .claim frm ∧ c.kind = .LC ∧ k = frm ∧ Desc.get? (din.getD []) k = some e ∧
        Desc.get? d' k = some { e with tokens := [] }) ∨
    (∃ p e, ev = .heartbeat ∧ c.kind = .BLC ∧ c.forget = some p ∧ Desc.get? (din.getD []) k = some e ∧
        now - e.ts ≥ p ∧ Desc.get? d' k = none) :=
  PfC08.frame hwf h k hk

/-- ... and the descriptor stays a map (unique ids). -/
theorem writes_keep_wellformed (c : Cfg) (l : Local) (file : File) (din : Option Desc) (ev : Event) (now : Int) (gen : Gen)
    (fault : Fault) (hwf : WF (din.getD [])) :
    WF ((commit din (step c l file din ev now gen fault) fault).getD []) :=
  PfC08.step_wf hwf

/-- Hence a handler run by ANOTHER lifecycler is, for this one, an environment step: its entry is left
alone, removed (auto-forget / unregister never applies to others, so: auto-forget) or loses its tokens
(hand-over). -/
theorem other_lifecycler_is_environment (c : Cfg) (l : Local) (file : File) (din : Option Desc) (ev : Event) (now : Int)
    (gen : Gen) (fault : Fault) (hwf : WF (din.getD [])) (id : String) (hid : id ≠ c.id) :
    EnvOK id din (commit din (step c l file din ev now gen fault) fault) :=
  PfC08.frame_envOK hwf id hid

example : -- non-vacuity: a heartbeat of "a" in a ring that also holds "b" writes, and "b" is untouched
    let c : Cfg := { id := "a" }
    let d : Desc := [{ id := "b", ts := 5, tokens := [1] }]
    (step c { started := true, state := .ACTIVE } .absent (some d) .heartbeat 7 (fun _ _ => []) .none).out =
      .write [{ id := "a", ts := 7, state := .ACTIVE, regTs := 7 }, { id := "b", ts := 5, tokens := [1] }] := by
  decide

/-! ### 2.–4. state edges, heartbeat, registration time: every schedule of a full Lifecycler -/

/-- SCOPE of the schedule theorems below (`state_edges`, `heartbeat_monotone`, `registered_once`, `world_entry_evolution`,
`loop_entry_evolution`): full Lifecycler only (`hk`); the store ACCEPTS every write (`RunOK`/`LGood` demand `fault = .none`
— with a rejected commit the table is NOT kept, see `rejected_commit_breaks_table_witness`; faults are C09's subject);
a claim takes somebody ELSE's tokens; and
they compare two CONSECUTIVE versions that both contain the entry: the environment may delete the entry, after which
the chain starts afresh (new registration time, whatever state the lifecycler remembers) — the statements hold per
maximal interval of presence.

For every such schedule (own handlers in any order incl. restarts and kills, environment steps obeying the
frame, clock not going backwards) started from a process that has not run yet,
two consecutive versions of the own entry satisfy: the state is unchanged, moves along an edge of
`changeState`'s table {P→J, J→P, J→A, P→A, A→L}, or is the restart edge L→A. -/
theorem state_edges (c : Cfg) (hk : c.kind = .LC) (store : Option Desc) (file : File) (clock : Int)
    (hts : ∀ i, Desc.get? (store.getD []) c.id = some i → i.ts ≤ clock)
    (pre : List Act) (a : Act) (hr : RunOK c { store := store, file := file, clock := clock } (pre ++ [a])) (x y : Inst)
    (hx : Desc.get? ((Sys.run c { store := store, file := file, clock := clock } pre).store.getD []) c.id = some x)
    (hy : Desc.get? ((Sys.run c { store := store, file := file, clock := clock } (pre ++ [a])).store.getD []) c.id = some y) :
    x.state = y.state ∨ allowed x.state y.state = true ∨ (x.state = .LEAVING ∧ y.state = .ACTIVE) :=
  (PfC08.lc_run_pub hk (PfC08.sinv_init hts) pre a hr x y hx hy).1

/-- In the same schedules the heartbeat timestamp of the own entry never goes backwards ... -/
theorem heartbeat_monotone (c : Cfg) (hk : c.kind = .LC) (store : Option Desc) (file : File) (clock : Int)
    (hts : ∀ i, Desc.get? (store.getD []) c.id = some i → i.ts ≤ clock)
    (pre : List Act) (a : Act) (hr : RunOK c { store := store, file := file, clock := clock } (pre ++ [a])) (x y : Inst)
    (hx : Desc.get? ((Sys.run c { store := store, file := file, clock := clock } pre).store.getD []) c.id = some x)
    (hy : Desc.get? ((Sys.run c { store := store, file := file, clock := clock } (pre ++ [a])).store.getD []) c.id = some y) :
    x.ts ≤ y.ts :=
  (PfC08.lc_run_pub hk (PfC08.sinv_init hts) pre a hr x y hx hy).2.2

/-- ... and every heartbeat handler (either kind) whose write the store accepts publishes the current time
(so with period p > 0 consecutive heartbeats are p apart; the ticker itself is glue). -/
theorem heartbeat_refreshes (c : Cfg) (l : Local) (file : File) (din : Option Desc) (now : Int) (gen : Gen)
    (hs : l.started = true) :
    ∃ d' b, (step c l file din .heartbeat now gen .none).out = .write d' ∧ Desc.get? d' c.id = some b ∧ b.ts = now :=
  PfC08.heartbeat_refreshes hs

/-- ... and the heartbeat tick is SERVED in every control state in which the real code has a ticker case: full Lifecycler
running or stopping (except inside the observe-timer iteration between `verifyTokens` and `changeState(ACTIVE)`),
BasicLifecycler inside `waitStableTokens`, running, stopping. NOT modelled: while `autoJoin` sits in
`waitBeforeJoining` (can-join generators, up to the can-join timeout) the real loop serves no heartbeat; the ticker
periods themselves are only checked by the real-time glue stream. -/
theorem heartbeat_enabled (unregister : Bool) (c : Cfg) (ctl : Ctl) (l : Local) (file : File) (store : Option Desc) (now : Int) (gen : Gen)
    (h : match c.kind with
      | .LC => (ctl.phase = .running ∨ ctl.phase = .stopping) ∧ ctl.pending = false
      | .BLC => (ctl.phase = .starting ∧ ctl.observeArmed = true) ∨ ctl.phase = .running ∨ ctl.phase = .stopping) :
    loopNext unregister c ctl l file store .heartbeat now gen = some (.own .heartbeat now gen .none, ctl) :=
  PfC08.heartbeat_enabled unregister c ctl l file store now gen h

/-- The registration timestamp of the own entry is never changed once the entry exists. -/
theorem registered_once (c : Cfg) (hk : c.kind = .LC) (store : Option Desc) (file : File) (clock : Int)
    (hts : ∀ i, Desc.get? (store.getD []) c.id = some i → i.ts ≤ clock)
    (pre : List Act) (a : Act) (hr : RunOK c { store := store, file := file, clock := clock } (pre ++ [a])) (x y : Inst)
    (hx : Desc.get? ((Sys.run c { store := store, file := file, clock := clock } pre).store.getD []) c.id = some x)
    (hy : Desc.get? ((Sys.run c { store := store, file := file, clock := clock } (pre ++ [a])).store.getD []) c.id = some y) :
    y.regTs = x.regTs :=
  (PfC08.lc_run_pub hk (PfC08.sinv_init hts) pre a hr x y hx hy).2.1

example : -- non-vacuity: start, join, heartbeat, leave is a valid schedule that publishes P, A, A, L
    let c : Cfg := { id := "a", numTokens := 1 }
    let g : Gen := fun _ _ => [3]
    let acts := [Act.own (.init []) 1 g .none, .own .joinTimer 2 g .none, .own .heartbeat 3 g .none, .own (.changeState .LEAVING) 4 g .none]
    RunOK c { store := none } acts ∧
    ((Sys.run c { store := none } acts).store.getD []).map (fun i => (i.state, i.ts, i.regTs, i.tokens)) = [(.LEAVING, 4, 1, [3])] := by
  refine ⟨?_, by decide⟩
  simp only [RunOK, ActOK, Sys.next, and_true]
  refine ⟨⟨trivial, by decide, by intro f h; cases h⟩, ⟨trivial, by decide, by intro f h; cases h⟩, ⟨trivial, by decide, by intro f h; cases h⟩,
    ⟨trivial, by decide, by intro f h; cases h⟩⟩

/-- The same for n lifecyclers (any mix of kinds) sharing the store: in EVERY schedule of their handler runs
(interleaved in any order, with kills inside or between handlers, restarts, external changes that respect the
frame), started from a world in which no process has run yet, every step leaves the published entry of every
full Lifecycler on a legal state edge, with its registration time, and with a heartbeat that did not go back.
(`WRunOK`: the acting lifecycler's action is valid for it — store accepts the write, clock monotone, claims made
from somebody else. No assumption on the OTHER lifecyclers: that they are harmless is
`other_lifecycler_is_environment`.) -/
theorem world_entry_evolution (w0 : World) (hwf : WF (w0.store.getD [])) (hd : Distinct w0)
    (hfresh : ∀ (i : Nat) (nd : Node), w0.nodes[i]? = some nd → nd.l = {})
    (hts : ∀ (i : Nat) (nd : Node), w0.nodes[i]? = some nd → ∀ e, Desc.get? (w0.store.getD []) nd.cfg.id = some e → e.ts ≤ w0.clock)
    (acts : List WAct) (a : WAct) (hr : WRunOK w0 (acts ++ [a]))
    (i : Nat) (nd : Node) (hnd : (w0.run acts).nodes[i]? = some nd) (hk : nd.cfg.kind = .LC) (x y : Inst)
    (hx : Desc.get? ((w0.run acts).store.getD []) nd.cfg.id = some x)
    (hy : Desc.get? ((w0.run (acts ++ [a])).store.getD []) nd.cfg.id = some y) :
    (x.state = y.state ∨ allowed x.state y.state = true ∨ (x.state = .LEAVING ∧ y.state = .ACTIVE)) ∧
    y.regTs = x.regTs ∧ x.ts ≤ y.ts :=
  PfC08.world_pub (PfC08.winv_init hwf hd hfresh hts) acts a hr i nd hnd hk x y hx hy

/-! ### the service loops (select loops of `Lifecycler.loop/stopping`, `BasicLifecycler.starting/running/stopping`)

`C08.loopNext` says which handler a loop event (start, join timer, observe timer + its `activate` continuation,
heartbeat tick, actor-channel request, CheckReady, ctx.Done, shutdown finished, kill) runs in which control state;
`LSys` = n such loops + foreign writers on one ring. A loop event runs exactly one handler, so: -/

/-- every schedule of loop iterations IS a schedule of the handler-level world (same ring, same remembered selves), and
a valid loop schedule flattens into a valid world schedule. -/
theorem loop_refines_world (unreg : Nat → Bool) (s : LSys) (as : List LAct) :
    (lrun unreg s as).w = World.run s.w (lflatten unreg s as) ∧
    (LRunGood unreg s as → WRunOK s.w (lflatten unreg s as)) :=
  ⟨PfC08.lrun_w unreg as s, PfC08.lrunGood_flatten unreg as s⟩

/-- Hence, for EVERY schedule of loop iterations of n lifecyclers and foreign writers (clock monotone, claims of somebody else's tokens, foreign writers respecting the frame), started before any process has run: each iteration leaves
the published entry of every full Lifecycler on a legal state edge, with its registration time and a heartbeat that
did not go back (state_edges, registered_once, heartbeat_monotone lifted to the loops). -/
theorem loop_entry_evolution (unreg : Nat → Bool) (s0 : LSys) (hwf : WF (s0.w.store.getD [])) (hd : Distinct s0.w)
    (hfresh : ∀ (i : Nat) (nd : Node), s0.w.nodes[i]? = some nd → nd.l = {})
    (hts : ∀ (i : Nat) (nd : Node), s0.w.nodes[i]? = some nd → ∀ e, Desc.get? (s0.w.store.getD []) nd.cfg.id = some e → e.ts ≤ s0.w.clock)
    (pre : List LAct) (a : LAct) (hr : LRunGood unreg s0 (pre ++ [a])) (i : Nat) (nd : Node)
    (hnd : (lrun unreg s0 pre).w.nodes[i]? = some nd) (hk : nd.cfg.kind = .LC) (x y : Inst)
    (hx : Desc.get? ((lrun unreg s0 pre).w.store.getD []) nd.cfg.id = some x)
    (hy : Desc.get? ((lrun unreg s0 (pre ++ [a])).w.store.getD []) nd.cfg.id = some y) :
    (x.state = y.state ∨ allowed x.state y.state = true ∨ (x.state = .LEAVING ∧ y.state = .ACTIVE)) ∧
    y.regTs = x.regTs ∧ x.ts ≤ y.ts :=
  PfC08.loop_pub unreg (PfC08.winv_init hwf hd hfresh hts) pre a hr i nd hnd hk x y hx hy

/-- frame for one loop iteration (any event, any control state, either kind): every OTHER entry is left alone, removed
(auto-forget) or loses its tokens (hand-over) — `EnvOK`; the precise exceptions are those of `frame`. -/
theorem loop_frame (unreg : Nat → Bool) (s : LSys) (i : Nat) (ev : LEvent) (now : Int) (gen : Gen) (nd : Node)
    (hwf : WF (s.w.store.getD [])) (hnd : s.w.nodes[i]? = some nd) (k : String) (hk : k ≠ nd.cfg.id) :
    EnvOK k s.w.store (lstep unreg s (.loop i ev now gen)).w.store :=
  PfC08.loop_frame unreg s i ev now gen nd hwf hnd k hk

/-- A running lifecycler stays registered: along every valid loop schedule in which nobody removes OTHER instances'
entries (foreign writers keep them; a heartbeat with the auto-forget delegate finds none stale — `NoRemoval`), every
lifecycler whose service is Starting, Running or Stopping has its entry in the ring. -/
theorem running_stays_registered (unreg : Nat → Bool) (s : LSys) (as : List LAct) (hw : WInv s.w) (hI : RegInv s)
    (hr : LRunKeeps unreg s as) (i : Nat) (nd : Node) (hnd : (lrun unreg s as).w.nodes[i]? = some nd)
    (hal : Alive ((lrun unreg s as).ctl i).phase) :
    (Desc.get? ((lrun unreg s as).w.store.getD []) nd.cfg.id).isSome = true :=
  PfC08.lrun_registered unreg as s hw hI hr i nd hnd hal

/-- ... and a heartbeat, ChangeState or ChangeReadOnlyState of a registered instance republishes the tokens the ring
records (`PC09.heartbeat_keeps_ring_tokens` for the heartbeat): the own tokens in the ring only change through the
join timer, a failed verification, or a hand-over. Initially (nobody started) `RegInv` holds trivially: -/
theorem nobody_started_registered (s : LSys) (h : ∀ i, (s.ctl i).phase = .new) : RegInv s := by
  intro i nd _ hal
  rw [h i] at hal
  rcases hal with h1 | h1 | h1 <;> cases h1

/-- `ready_implies_active` for the loops, under the guards spelled out in its hypotheses — the store accepts the writes
(`LRunKeeps` ⊇ `LGood`), nobody removes other instances' entries (`NoRemoval`: no foreign removal, no auto-forget hit),
and the two invariants hold initially (they do when nobody has started: `nobody_started_registered`); without the
removal guard the statement is false (`ready_without_entry_witness`): in every valid loop schedule in which nobody removes other
instances' entries (so `ready_without_entry_witness` cannot arise), a `CheckReady` of a full Lifecycler whose service
is alive that answers ok for the first time finds the lifecycler ACTIVE and holding tokens. (`hR`, `hS` hold when nobody
has started: `nobody_started_registered`, and trivially for `StartedInv`.) -/
theorem ready_implies_active (unreg : Nat → Bool) (s : LSys) (as : List LAct) (hw : WInv s.w) (hR : RegInv s) (hS : StartedInv s)
    (hr : LRunKeeps unreg s as) (i : Nat) (nd : Node) (hnd : (lrun unreg s as).w.nodes[i]? = some nd)
    (hk : nd.cfg.kind = .LC) (hal : Alive ((lrun unreg s as).ctl i).phase) (now : Int) (getFails : Bool)
    (hnot : nd.l.ready = false) (h : (lcCheckReady nd.cfg nd.l (lrun unreg s as).w.store now getFails).2 = .ok) :
    nd.l.state = .ACTIVE ∧ nd.l.tokens ≠ [] :=
  PfC08.ready_active_loops unreg s as hw hR hS hr i nd hnd hk hal now getFails hnot h

example : -- non-vacuity of `ready_implies_active`: all hypotheses and `CheckReady = ok` hold together on a real run
    let nd : Node := { cfg := { id := "a", numTokens := 1 } }
    let s0 : LSys := { w := { store := none, nodes := [nd], clock := 1 } }
    let u : Nat → Bool := fun _ => true
    let g : Gen := fun _ _ => [3]
    let acts := [LAct.loop 0 (.start []) 2 g, .loop 0 .joinTimer 3 g]
    WInv s0.w ∧ RegInv s0 ∧ StartedInv s0 ∧ LRunKeeps u s0 acts ∧
    (∃ nd', (lrun u s0 acts).w.nodes[0]? = some nd' ∧ nd'.cfg.kind = .LC ∧ Alive ((lrun u s0 acts).ctl 0).phase ∧
      nd'.l.ready = false ∧ (lcCheckReady nd'.cfg nd'.l (lrun u s0 acts).w.store 4 false).2 = .ok ∧ nd'.l.state = .ACTIVE) := by
  intro nd s0 u g acts
  refine ⟨?_, ?_, ?_, ?_, ?_⟩
  · apply winv_init
    · exact List.Pairwise.nil
    · intro i j ndi ndj hi hj hij
      cases i <;> cases j <;> simp_all [s0]
    · intro i nd' h; cases i <;> simp [s0, nd] at h; subst h; rfl
    · intro i nd' h e he; simp [s0] at he; exact absurd he (by simp [Desc.get?])
  · exact nobody_started_registered s0 (fun _ => rfl)
  · intro i nd' _ hal; rcases hal with h | h | h <;> cases h
  · simp only [acts, LRunKeeps, LGood, NoRemoval]
    refine ⟨⟨by decide, ?_⟩, ?_, ⟨by decide, ?_⟩, ?_, trivial⟩
    · intro _ _ _ h; cases h
    · intro _ _ _ h; cases h
    · intro _ _ _ h; cases h
    · intro _ _ _ h; cases h
  · refine ⟨_, rfl, by decide, Or.inr (Or.inl (by decide)), by decide, by decide, by decide⟩

/-- Stopping, full Lifecycler: on `ctx.Done()` a running ACTIVE lifecycler leaves the loop and what it writes is its own
entry in state LEAVING with the ring's tokens. -/
theorem stop_publishes_leaving (unregister : Bool) (c : Cfg) (ctl : Ctl) (l : Local) (file : File) (store : Option Desc)
    (now : Int) (gen : Gen) (hk : c.kind = .LC) (hp : ctl.phase = .running) (hpend : ctl.pending = false)
    (hs : l.started = true) (ha : l.state = .ACTIVE) :
    loopNext unregister c ctl l file store .stop now gen =
      some (.own (.changeState .LEAVING) now gen .none, { ctl with phase := .stopping }) ∧
    ∃ b, (step c l file store (.changeState .LEAVING) now gen .none).out = .write (put (store.getD []) b) ∧
      b.id = c.id ∧ b.state = .LEAVING ∧ (∀ e, Desc.get? (store.getD []) c.id = some e → b.tokens = e.tokens) :=
  PfC08.lc_stop_leaving hk hp hpend hs ha

/-- Stopping a full Lifecycler that is NOT ACTIVE (PENDING, JOINING, already LEAVING): `changeState(LEAVING)` is refused (the
error is only logged), nothing is written and the lifecycler keeps its state through `stopping()`; its entry is then
removed or kept by `stop_done_per_config` — "removal possible from any of them on shutdown". -/
theorem stop_from_nonactive_keeps_state (unregister : Bool) (c : Cfg) (ctl : Ctl) (l : Local) (file : File) (store : Option Desc)
    (now : Int) (gen : Gen) (hk : c.kind = .LC) (hp : ctl.phase = .running) (hpend : ctl.pending = false)
    (hs : l.started = true) (ha : l.state ≠ .ACTIVE) :
    loopNext unregister c ctl l file store .stop now gen =
      some (.own (.changeState .LEAVING) now gen .none, { ctl with phase := .stopping }) ∧
    (step c l file store (.changeState .LEAVING) now gen .none).out = .noCas ∧
    (step c l file store (.changeState .LEAVING) now gen .none).l = l :=
  PfC08.lc_stop_nonactive hk hp hpend hs ha

/-- Stopping, BasicLifecycler with the LeaveOnStopping delegate: afterwards the registered entry is LEAVING, tokens and
registration time kept. -/
theorem basic_stop_publishes_leaving (unregister : Bool) (c : Cfg) (ctl : Ctl) (l : Local) (file : File) (d : Desc) (e : Inst)
    (now : Int) (gen : Gen) (hk : c.kind = .BLC) (hp : ctl.phase = .running) (hs : l.started = true)
    (he : Desc.get? d c.id = some e) :
    loopNext unregister c ctl l file (some d) .stop now gen =
      some (.own .stopDelegate now gen .none, { ctl with phase := .stopping }) ∧
    ∃ b, Desc.get? ((commit (some d) (step c l file (some d) .stopDelegate now gen .none) .none).getD []) c.id = some b ∧
      b.state = .LEAVING ∧ b.tokens = e.tokens ∧ b.regTs = e.regTs :=
  PfC08.blc_stop_leaving hk hp hs he

/-- End of shutdown, either kind: the service terminates; with unregister-on-shutdown it removes its OWN entry and
nothing else, otherwise it writes nothing (the entry stays, LEAVING). -/
theorem stop_done_per_config (unregister : Bool) (c : Cfg) (ctl : Ctl) (l : Local) (file : File) (d : Desc) (now : Int) (gen : Gen)
    (hp : ctl.phase = .stopping) (hs : l.started = true) :
    ∃ a, loopNext unregister c ctl l file (some d) .stopDone now gen = some (a, { phase := .terminated }) ∧
      (unregister = false → a = .crash) ∧
      (unregister = true → a = .own .unregister now gen .none ∧
        (step c l file (some d) .unregister now gen .none).out = .write (erase d c.id) ∧
        Desc.get? (erase d c.id) c.id = none ∧ ∀ k, k ≠ c.id → Desc.get? (erase d c.id) k = Desc.get? d k) :=
  PfC08.stopDone_per_config hp hs

example : -- non-vacuity: start, join timer, heartbeat, ctx.Done, shutdown finished of an unregistering lifecycler next to "b"
    let nd : Node := { cfg := { id := "a", numTokens := 1 } }
    let s0 : LSys := { w := { store := some [{ id := "b", ts := 1, tokens := [9] }], nodes := [nd], clock := 1 } }
    let g : Gen := fun _ _ => [3]
    let acts := [LAct.loop 0 (.start []) 2 g, .loop 0 .joinTimer 3 g, .loop 0 .heartbeat 4 g, .loop 0 .stop 5 g]
    ((lrun (fun _ => true) s0 acts).w.store.getD []).map (fun i => (i.id, i.state, i.ts, i.tokens)) =
      [("a", .LEAVING, 5, [3]), ("b", .ACTIVE, 1, [9])] ∧
    ((lrun (fun _ => true) s0 acts).ctl 0).phase = .stopping ∧
    ((lrun (fun _ => true) s0 (acts ++ [.loop 0 .stopDone 6 g])).w.store.getD []).map (·.id) = ["b"] := by
  decide

/-- BasicLifecycler (no transition table: `ChangeState` publishes what the caller asks for): every write
keeps the registration timestamp, does not move the heartbeat backwards (and not past `now`), and
changes the state only to the configured register state (registration), to the requested state
(`ChangeState`) or to LEAVING (the LeaveOnStopping delegate). -/
theorem basic_entry_evolution (c : Cfg) (l : Local) (file : File) (din : Option Desc) (ev : Event) (now : Int) (gen : Gen)
    (fault : Fault) (d' : Desc) (a b : Inst) (hk : c.kind = .BLC)
    (h : (step c l file din ev now gen fault).out = .write d')
    (ha : Desc.get? (din.getD []) c.id = some a) (hb : Desc.get? d' c.id = some b) :
    b.regTs = a.regTs ∧ (a.ts ≤ now → a.ts ≤ b.ts ∧ b.ts ≤ now) ∧
    (b.state = a.state ∨ (∃ shuf, ev = .init shuf ∧ b.state = c.registerState) ∨ ev = .changeState b.state ∨
      (ev = .stopDelegate ∧ b.state = .LEAVING)) :=
  PfC08.blc_step_pub hk h ha hb

/-- FINDING (witness): a BasicLifecycler whose delegate registers JOINING, restarted over the ACTIVE entry
its previous process left behind, publishes ACTIVE→JOINING — an edge that is neither in the table nor
one of the documented restart edges. -/
theorem basic_register_edge_witness :
    let c : Cfg := { kind := .BLC, id := "a", numTokens := 1, registerState := .JOINING }
    let d : Desc := [{ id := "a", ts := 5, state := .ACTIVE, tokens := [1], regTs := 2 }]
    (step c {} .absent (some d) (.init []) 9 (fun _ _ => []) .none).out =
      .write [{ id := "a", ts := 9, state := .JOINING, tokens := [1], regTs := 2 }] ∧
    ¬ (State.ACTIVE = State.JOINING ∨ allowed .ACTIVE .JOINING = true ∨ (State.ACTIVE = State.LEAVING ∧ State.JOINING = State.ACTIVE)) := by
  decide

/-- WITNESS for the hypothesis "the store accepts the writes": `changeState(ACTIVE)` whose commit is rejected leaves the
lifecycler ACTIVE while the ring still shows PENDING (`setState` precedes `updateConsul`); the `changeState(LEAVING)` of
shutdown is then accepted and publishes PENDING→LEAVING, an edge outside the table. -/
theorem rejected_commit_breaks_table_witness :
    let c : Cfg := { id := "a", numTokens := 1 }
    let l : Local := { started := true, state := .PENDING }
    let d : Desc := [{ id := "a", ts := 1, state := .PENDING }]
    let r1 := step c l .absent (some d) (.changeState .ACTIVE) 2 (fun _ _ => []) .failCommit
    let r2 := step c r1.l r1.file (commit (some d) r1 .failCommit) (.changeState .LEAVING) 3 (fun _ _ => []) .none
    commit (some d) r1 .failCommit = some d ∧ r1.l.state = .ACTIVE ∧
    r2.out = .write [{ id := "a", ts := 3, state := .LEAVING }] ∧ allowed .PENDING .LEAVING = false := by
  decide

/-- `ClaimTokensFor` of a lifecycler whose own entry is missing from the ring (fixed in /repo <commit>; no hypothesis about
it is needed any more in the schedule theorems): the entry is first added back with the remembered state, tokens, address
and zone and registered NOW, then the claim is applied to it. (Before the fix `Desc.ClaimTokens` edited Go's zero value:
the same input published `{a, addr "", zone "", ACTIVE, tokens [5], regTs 0}` — former `claim_without_own_entry_witness`.) -/
theorem claim_without_own_entry_reregisters :
    let c : Cfg := { id := "a", addr := "h:1", zone := "z", numTokens := 1 }
    let l : Local := { started := true, state := .JOINING, regTs := 5 }
    let d : Desc := [{ id := "old", state := .LEAVING, tokens := [5] }]
    (step c l .absent (some d) (.claim "old") 9 (fun _ _ => []) .none).out =
      .write [{ id := "a", addr := "h:1", zone := "z", ts := 9, state := .JOINING, tokens := [5], regTs := 9 },
              { id := "old", state := .LEAVING, tokens := [] }] := by
  decide

/-- first registration (own entry not in the ring), full Lifecycler: registered NOW; the tokens of the tokens file are
published and remembered as they are (sorted on load), ACTIVE at once iff there are at least `numTokens` of them,
PENDING otherwise (in particular without a file). -/
theorem first_registration (c : Cfg) (l : Local) (file : File) (din : Option Desc) (shuf : List Nat) (now : Int) (gen : Gen)
    (fault : Fault) (hk : c.kind = .LC) (hf : fault ≠ .failBefore) (habs : Desc.get? (din.getD []) c.id = none) :
    let r := step c l file din (.init shuf) now gen fault
    let ft := if c.hasFile then file.load.getD [] else []
    ∃ b, r.out = .write (put (din.getD []) b) ∧ b.id = c.id ∧ b.regTs = now ∧ b.ts = now ∧ b.tokens = ft ∧
      b.state = (if 0 < ft.length ∧ c.numTokens ≤ ft.length then .ACTIVE else .PENDING) ∧
      r.l.tokens = ft ∧ r.l.state = b.state ∧ r.l.regTs = now :=
  PfC08.lc_first_registration hk hf habs

example : -- non-vacuity: tokens file [9,4] (unsorted on disk), 2 tokens wanted: ACTIVE at once with [4,9]
    (step { id := "a", numTokens := 2, hasFile := true } {} (.tokens [9, 4]) none (.init []) 7 (fun _ _ => []) .none).out =
      .write [{ id := "a", ts := 7, state := .ACTIVE, tokens := [4, 9], regTs := 7 }] := by
  decide

/-- first registration, BasicLifecycler: registered now, in the configured register state. -/
theorem basic_first_registration (c : Cfg) (l : Local) (file : File) (din : Option Desc) (shuf : List Nat) (now : Int) (gen : Gen)
    (fault : Fault) (hk : c.kind = .BLC) (hf : fault ≠ .failBefore) (habs : Desc.get? (din.getD []) c.id = none) :
    ∃ b, (step c l file din (.init shuf) now gen fault).out = .write (put (din.getD []) b) ∧ b.id = c.id ∧ b.regTs = now ∧
      b.ts = now ∧ b.state = c.registerState :=
  PfC08.blc_first_registration hk hf habs

/-! ### 5. tokens at activation -/

/-- Join timer of a PENDING full lifecycler whose generator honours its contract: the entry is published
in the target state (ACTIVE, or JOINING when an observe period is configured) with exactly `numTokens`
strictly sorted (hence distinct) tokens; the tokens its ring entry already had are kept; every other
token was in NO instance's list in the ring it was chosen from; the remembered tokens are the published ones. -/
theorem activation_tokens (c : Cfg) (l : Local) (file : File) (din : Option Desc) (now : Int) (gen : Gen) (fault : Fault)
    (hk : c.kind = .LC) (hs : l.started = true) (hp : l.state = .PENDING) (hg : GenOK gen) (hf : fault ≠ .failBefore)
    (hnd : (tokensOf (din.getD []) c.id).Nodup) (hle : (tokensOf (din.getD []) c.id).length ≤ c.numTokens) :
    ∃ d' b, (step c l file din .joinTimer now gen fault).out = .write d' ∧ Desc.get? d' c.id = some b ∧
      b.state = (if c.observe then .JOINING else .ACTIVE) ∧
      (step c l file din .joinTimer now gen fault).l.state = b.state ∧
      (step c l file din .joinTimer now gen fault).l.tokens = b.tokens ∧
      b.tokens.length = c.numTokens ∧ b.tokens.Pairwise (· < ·) ∧
      (∀ t ∈ tokensOf (din.getD []) c.id, t ∈ b.tokens) ∧
      (∀ t ∈ b.tokens, t ∈ tokensOf (din.getD []) c.id ∨ ∀ i ∈ din.getD [], t ∉ i.tokens) :=
  PfC08.lc_join_tokens hk hs hp hg hf hnd hle

/-- `verifyTokens` finding the own entry in the ring with tokens different from the remembered ones (token conflict
resolution; a MISSING entry is re-registered with the remembered tokens instead, `PC09.reregisters_fresh_on_every_path`):
the ring's tokens of the own entry are kept, topped up to exactly `numTokens` strictly sorted tokens with tokens that are
in NO instance's list, published in the remembered state and remembered; the observe timer is re-armed (answer `no`). -/
theorem verify_regenerates_full_tokens (c : Cfg) (l : Local) (file : File) (din : Option Desc) (now : Int) (gen : Gen)
    (hk : c.kind = .LC) (hs : l.started = true) (hg : GenOK gen) (e0 : Inst) (hpres : Desc.get? (din.getD []) c.id = some e0)
    (hne : sortNat (tokensOf (din.getD []) c.id) ≠ sortNat l.tokens)
    (hnd : (tokensOf (din.getD []) c.id).Nodup) (hle : (tokensOf (din.getD []) c.id).length ≤ c.numTokens) :
    ∃ d' b, (step c l file din .verify now gen .none).out = .write d' ∧ Desc.get? d' c.id = some b ∧
      (step c l file din .verify now gen .none).ret = .no ∧
      b.state = l.state ∧ (step c l file din .verify now gen .none).l.tokens = b.tokens ∧
      b.tokens.length = c.numTokens ∧ b.tokens.Pairwise (· < ·) ∧
      (∀ t ∈ tokensOf (din.getD []) c.id, t ∈ b.tokens) ∧
      (∀ t ∈ b.tokens, t ∈ tokensOf (din.getD []) c.id ∨ ∀ i ∈ din.getD [], t ∉ i.tokens) :=
  PfC08.lc_verify_tokens hk hs hg hpres hne hnd hle

/-- Every write through `updateConsul` — heartbeat, `changeState` (in particular the JOINING→ACTIVE activation at the end of
the observe period) and the read-only toggle — republishes the tokens the ring records for the own entry, whatever the
store then does with the write. Hence the tokens at the moment of activation in observe mode are those of the join /
the last verification (`activation_tokens`, `verify_regenerates_full_tokens`) unless somebody else changed them. -/
theorem update_keeps_ring_tokens (c : Cfg) (l : Local) (file : File) (din : Option Desc) (ev : Event) (now : Int) (gen : Gen)
    (fault : Fault) (e b : Inst) (d' : Desc) (hk : c.kind = .LC)
    (hev : ev = .heartbeat ∨ (∃ s, ev = .changeState s) ∨ ∃ r, ev = .changeRO r)
    (he : Desc.get? (din.getD []) c.id = some e)
    (h : (step c l file din ev now gen fault).out = .write d') (hb : Desc.get? d' c.id = some b) :
    b.tokens = e.tokens :=
  PfC08.lc_update_keeps_ring_tokens hk hev he h hb

/-- BasicLifecycler registration with a generator honouring its contract: exactly `numTokens` strictly sorted tokens;
the inherited ones (from the ring entry OR the tokens file) are kept; every new token is neither inherited nor in
any instance's list. (Unguarded since /repo 31cf82d passes the kept tokens to the generator as taken. Before the
fix only `ringDesc.GetTokens()` was passed:
  c = {BLC, id "a", numTokens 2, hasFile}, file [5], ring empty, generator asked (1, taken = []) may answer [5]
  ⇒ published tokens [5,5] — former `basic_register_file_token_witness`.)
`hnd`/`hle`: the inherited list itself is duplicate-free and not longer than `numTokens` (it is kept verbatim). -/
theorem basic_activation_tokens (c : Cfg) (l : Local) (file : File) (din : Option Desc) (shuf : List Nat) (now : Int)
    (gen : Gen) (fault : Fault) (hk : c.kind = .BLC) (hg : GenOK gen) (hf : fault ≠ .failBefore)
    (hnd : (blcInherited c file (Desc.get? (din.getD []) c.id)).Nodup)
    (hle : (blcInherited c file (Desc.get? (din.getD []) c.id)).length ≤ c.numTokens) :
    ∃ d' b, (step c l file din (.init shuf) now gen fault).out = .write d' ∧ Desc.get? d' c.id = some b ∧
      b.state = c.registerState ∧ b.tokens.length = c.numTokens ∧ b.tokens.Pairwise (· < ·) ∧
      (∀ t ∈ blcInherited c file (Desc.get? (din.getD []) c.id), t ∈ b.tokens) ∧
      (∀ t ∈ b.tokens, t ∈ blcInherited c file (Desc.get? (din.getD []) c.id) ∨ ∀ i ∈ din.getD [], t ∉ i.tokens) :=
  PfC08.blc_register_tokens hk hg hf hnd hle

example : -- non-vacuity (the former witness input): the generator is now told that 5 is taken
    let c : Cfg := { kind := .BLC, id := "a", numTokens := 2, hasFile := true }
    let r := step c {} (.tokens [5]) none (.init []) 9 (fun _ _ => [7]) .none
    r.genReq = some (1, [5]) ∧
    r.out = .write [{ id := "a", ts := 9, state := .ACTIVE, tokens := [5, 7], regTs := 9 }] := by
  decide

/-! ### 6. readiness -/

/-- A `CheckReady` that answers ok for the first time implies: the lifecycler remembers at least one token,
the store answered, and the ring it saw contains — with `ReadinessCheckRingHealth` — only ACTIVE
members with a heartbeat younger than the timeout (and some tokens), — without it — the own entry,
ACTIVE and healthy. The answer latches. -/
theorem ready_implies_ring_condition (c : Cfg) (l : Local) (store : Option Desc) (now : Int) (getFails : Bool)
    (hnot : l.ready = false) (h : (lcCheckReady c l store now getFails).2 = .ok) :
    l.tokens ≠ [] ∧ getFails = false ∧ (lcCheckReady c l store now getFails).1.ready = true ∧
    ∃ d, store = some d ∧
      (c.readinessRing = true → (∀ i ∈ d, i.state = .ACTIVE ∧ now - i.ts < c.hbTimeout) ∧ ∃ i ∈ d, i.tokens ≠ []) ∧
      (c.readinessRing = false → ∃ i, Desc.get? d c.id = some i ∧ i.state = .ACTIVE ∧ now - i.ts < c.hbTimeout) := by
  have h1 := PfC08.ready_sound hnot h
  exact ⟨h1.1, h1.2.1, h1.2.2.2, PfC08.ringReady_spec h1.2.2.1⟩

theorem ready_latches (c : Cfg) (l : Local) (store : Option Desc) (now : Int) (getFails : Bool) (h : l.ready = true) :
    lcCheckReady c l store now getFails = (l, .ok) :=
  PfC08.ready_latch c l store now getFails h

/-
Full statement: `CheckReady = ok` ⇒ the lifecycler's own state is ACTIVE (FALSE in one corner, see
`ready_without_entry_witness`).
Proved part: whenever the own entry is in the ring the lifecycler saw (always the case without ring-health
checking, and in every schedule in which nobody removed it), the remembered state is ACTIVE.
-/
theorem ready_implies_active_partial (c : Cfg) (l : Local) (d : Desc) (now : Int) (getFails : Bool)
    (hI : LInv c l (some d)) (hs : l.started = true) (hnot : l.ready = false)
    (hpresent : (Desc.get? d c.id).isSome)
    (h : (lcCheckReady c l (some d) now getFails).2 = .ok) : l.state = .ACTIVE := by
  obtain ⟨i, hi⟩ := Option.isSome_iff_exists.mp hpresent
  have h1 := ready_implies_ring_condition c l (some d) now getFails hnot h
  obtain ⟨d0, hd0, hring, hself⟩ := h1.2.2.2
  cases hd0
  have hact : i.state = .ACTIVE := by
    cases hr : c.readinessRing with
    | true => exact ((hring hr).1 i (PfC08.get?_some_mem hi)).1
    | false =>
      obtain ⟨j, hj, hja, _⟩ := hself hr
      rw [hi] at hj; cases hj; exact hja
  have := (hI hs i hi).1
  rcases this with h2 | ⟨h2, _⟩
  · rw [← h2]; exact hact
  · rw [hact] at h2; cases h2

/-- OBSERVATION (witness): with ring-health checking, a lifecycler that is still JOINING locally, holds
tokens and whose entry is NOT in the ring (removed by somebody's auto-forget, or the key was lost)
reports ready as soon as all the OTHER members are ACTIVE and healthy. -/
theorem ready_without_entry_witness :
    let c : Cfg := { id := "a", numTokens := 1, readinessRing := true }
    let l : Local := { started := true, state := .JOINING, tokens := [3] }
    let d : Desc := [{ id := "b", ts := 100, state := .ACTIVE, tokens := [7] }]
    (lcCheckReady c l (some d) 100 false).2 = .ok := by
  decide

/-! ### 7. compare-and-swap retries -/

/-- **a CAS retry is the handler re-run on the fresh ring**: whatever the attempts on stale values decided or
generated, the outcome of an update is the handler applied to the LAST value read (any kind, any event). -/
theorem cas_retry_is_rerun (c : Cfg) (l : Local) (file : File) (ev : Event) (now : Int) (gen : Gen) (fault : Fault)
    (stale : List (Option Desc)) (fresh : Option Desc) :
    casRetry (fun d => step c l file d ev now gen fault) (stale ++ [fresh]) = some (step c l file fresh ev now gen fault) :=
  PfC08.casRetry_last _ stale fresh

/-- … so a BasicLifecycler registration that lost the compare-and-swap (another instance registered in between)
publishes tokens chosen against the FRESH ring: exactly `numTokens`, strictly sorted, the inherited ones kept, every new
one in nobody's list THERE; and every other entry of the fresh ring is written back unchanged. -/
theorem register_retry_avoids_fresh_tokens (c : Cfg) (l : Local) (file : File) (shuf : List Nat) (now : Int) (gen : Gen)
    (fault : Fault) (stale : List (Option Desc)) (fresh : Option Desc)
    (hk : c.kind = .BLC) (hg : GenOK gen) (hf : fault ≠ .failBefore) (hwf : WF (fresh.getD []))
    (hnd : (blcInherited c file (Desc.get? (fresh.getD []) c.id)).Nodup)
    (hle : (blcInherited c file (Desc.get? (fresh.getD []) c.id)).length ≤ c.numTokens) :
    ∃ r d' b, casRetry (fun d => step c l file d (.init shuf) now gen fault) (stale ++ [fresh]) = some r ∧
      r.out = .write d' ∧ Desc.get? d' c.id = some b ∧ b.state = c.registerState ∧
      b.tokens.length = c.numTokens ∧ b.tokens.Pairwise (· < ·) ∧
      (∀ t ∈ b.tokens, t ∈ blcInherited c file (Desc.get? (fresh.getD []) c.id) ∨ ∀ i ∈ fresh.getD [], t ∉ i.tokens) ∧
      (∀ k, k ≠ c.id → Desc.get? d' k = Desc.get? (fresh.getD []) k) := by
  obtain ⟨d', b, h1, h2, h3, h4, h5, _, h7⟩ := basic_activation_tokens c l file fresh shuf now gen fault hk hg hf hnd hle
  refine ⟨_, d', b, cas_retry_is_rerun c l file (.init shuf) now gen fault stale fresh, h1, h2, h3, h4, h5, h7, ?_⟩
  intro k hkk
  rcases frame c l file fresh (.init shuf) now gen fault d' hwf h1 k hkk with h | ⟨_, _, h, _⟩ | ⟨_, _, h, _⟩
  · exact h
  · cases h
  · cases h

/-- witness that the guarantee is about the LAST read: an update that publishes what it computed on the first read
(`casReuseFirst`, a seeded change of `registerInstance`) hands instance `a` the token another instance registered in
between, although the generator honours its contract. -/
theorem register_reuse_first_attempt_witness :
    let c : Cfg := { kind := .BLC, id := "a", numTokens := 1 }
    let gen : Gen := fun n taken => (List.range 8).filter (fun t => !taken.contains t) |>.take n.toNat
    let fresh : Desc := [{ id := "b", ts := 9, state := .ACTIVE, tokens := [0], regTs := 9 }]
    let f := fun d => step c {} .absent d (.init []) 9 gen .none
    (casReuseFirst f "a" [none, some fresh]).map (·.out) =
      some (.write [{ id := "a", ts := 9, state := .ACTIVE, tokens := [0], regTs := 9 }, { id := "b", ts := 9, state := .ACTIVE, tokens := [0], regTs := 9 }]) ∧
    (casRetry f [none, some fresh]).map (·.out) =
      some (.write [{ id := "a", ts := 9, state := .ACTIVE, tokens := [1], regTs := 9 }, { id := "b", ts := 9, state := .ACTIVE, tokens := [0], regTs := 9 }]) := by
  decide

/-! ### C08 ∘ C05: `verifyTokens` repairs a token clash and re-establishes the one-owner invariant

C05 leaves open (`PC05.winner_depends_on_delivery_order_witness`) that replicas resolve a clash differently and names
`verifyTokens` as the only repair. This is the repair step on the owner's side, composed with C05's invariant `C03.wf`
(unique ids, strictly sorted token lists, LEFT entries empty, one holder per token). -/

/-- A full Lifecycler runs `verifyTokens` on ANY ring `d` satisfying the C05 invariant in which its own entry `e0` no longer
holds the remembered tokens (it lost some to a clash) and holds at most `NumTokens`: the ring it publishes has the own entry
back at exactly `NumTokens` tokens, the surviving ones kept, none of them in ANY other entry's list (LEFT or not), every other
entry untouched, the remembered tokens are the published ones, and the published ring satisfies the C05 invariant again.
`hnl`: the remembered state is not LEFT (no handler ever sets it: `allowed` has no LEFT target). Any generator honouring its
contract, any clock, any ring size. -/
theorem verify_repairs_clash_restores_one_owner (c : Cfg) (l : Local) (file : File) (d : Desc) (now : Int) (gen : Gen)
    (hk : c.kind = .LC) (hs : l.started = true) (hg : GenOK gen) (hw : C03.wf d = true) (e0 : Inst)
    (hpres : Desc.get? d c.id = some e0) (hlost : sortNat e0.tokens ≠ sortNat l.tokens)
    (hle : e0.tokens.length ≤ c.numTokens) (hnl : l.state ≠ .LEFT) :
    ∃ d' b, (step c l file (some d) .verify now gen .none).out = .write d' ∧ Desc.get? d' c.id = some b ∧
      b.tokens.length = c.numTokens ∧ (∀ t ∈ e0.tokens, t ∈ b.tokens) ∧
      (∀ i ∈ d', i.id ≠ c.id → ∀ t ∈ b.tokens, t ∉ i.tokens) ∧
      (∀ k, k ≠ c.id → Desc.get? d' k = Desc.get? d k) ∧
      (step c l file (some d) .verify now gen .none).l.tokens = b.tokens ∧
      C03.wf d' = true := by
  obtain ⟨d', b, h1, h2, h3, h4, h5, h6, h7, h8⟩ :=
    PfC08.lc_verify_repairs (file := file) (now := now) hk hs hg ((PfC05.wf_iff d).mp hw) hpres hlost hle hnl
  exact ⟨d', b, h1, h2, h3, h4, h5, h6, h7, (PfC05.wf_iff d').mpr h8⟩

/-- the hypotheses are met by concrete data: "a" remembers [3,7], lost 7 to "b" in a clash; the repair publishes [1,3] -/
example :
    let c : Cfg := { kind := .LC, id := "a", numTokens := 2 }
    let l : Local := { started := true, state := .JOINING, tokens := [3, 7] }
    let d : Desc := [{ id := "a", ts := 5, state := .JOINING, tokens := [3] }, { id := "b", ts := 5, state := .ACTIVE, tokens := [0, 7] }]
    let gen : Gen := fun n taken => (List.range 8).filter (fun t => !taken.contains t) |>.take n.toNat
    C03.wf d = true ∧ sortNat [3] ≠ sortNat l.tokens ∧
    (step c l .absent (some d) .verify 9 gen .none).out =
      .write [{ id := "a", ts := 9, state := .JOINING, tokens := [1, 3] }, { id := "b", ts := 5, state := .ACTIVE, tokens := [0, 7] }] := by
  decide

end PC08
