import Model.C08
import Generated.C08
import Proofs.C08
import Proofs.C08.World
/-!
# C08 — a lifecycler edits only its own ring entry and follows the state machine

Statements only; proofs are in `Proofs/C08.lean`. `step c l file din ev now gen fault` is one handler of
the lifecycler `c` (full `Lifecycler` or `BasicLifecycler` + standard delegates) run on the CAS input
`din`; `Sys` is one lifecycler against an arbitrary environment obeying the frame (which every other
lifecycler does, `other_lifecycler_is_environment`), so the schedule theorems hold for any number of
lifecyclers sharing the store, any interleaving, any clock that does not go backwards, any generator.
-/
namespace PC08
open Ring C08 PfC08

/-- the transition table read out of the running `Lifecycler.changeState` equals the model's -/
theorem generated_changeState_table :
    Generated.C08.changeStateTable =
      ([State.ACTIVE, .LEAVING, .PENDING, .JOINING, .LEFT].flatMap fun a =>
        [State.ACTIVE, .LEAVING, .PENDING, .JOINING, .LEFT].map fun b => (a.toNat, b.toNat, allowed a b)) := by
  decide

/-! ### 1. frame -/

/-- Whatever a handler writes (any lifecycler kind, any event, any remembered state, any store fault),
every entry other than its own is unchanged — except that `ClaimTokensFor from` empties `from`'s token
list, and a BasicLifecycler heartbeat with the auto-forget delegate removes entries whose heartbeat is
at least the forget period old. -/
theorem frame (c : Cfg) (l : Local) (file : File) (din : Option Desc) (ev : Event) (now : Int) (gen : Gen) (fault : Fault)
    (d' : Desc) (hwf : WF (din.getD [])) (h : (step c l file din ev now gen fault).out = .write d')
    (k : String) (hk : k ≠ c.id) :
    Desc.get? d' k = Desc.get? (din.getD []) k ∨
    (∃ frm e, ev = .claim frm ∧ c.kind = .LC ∧ k = frm ∧ Desc.get? (din.getD []) k = some e ∧
        Desc.get? d' k = some { e with tokens := [] }) ∨
    (∃ p e, ev = .heartbeat ∧ c.kind = .BLC ∧ c.forget = some p ∧ Desc.get? (din.getD []) k = some e ∧
        now - e.ts ≥ p ∧ Desc.get? d' k = none) :=
  PfC08.frame hwf h k hk

/-- ... and the descriptor stays a map (unique ids). -/
theorem writes_keep_wellformed (c : Cfg) (l : Local) (file : File) (din : Option Desc) (ev : Event) (now : Int) (gen : Gen)
    (fault : Fault) (hwf : WF (din.getD [])) :
    WF ((commit din (step c l file din ev now gen fault) fault).getD []) :=
  PfC08.step_wf hwf

/-- Hence a handler run by ANOTHER lifecycler is, for this one, an environment step: its entry is left
alone, removed (auto-forget / unregister never applies to others, so: auto-forget) or loses its tokens
(hand-over). -/
theorem other_lifecycler_is_environment (c : Cfg) (l : Local) (file : File) (din : Option Desc) (ev : Event) (now : Int)
    (gen : Gen) (fault : Fault) (hwf : WF (din.getD [])) (id : String) (hid : id ≠ c.id) :
    EnvOK id din (commit din (step c l file din ev now gen fault) fault) :=
  PfC08.frame_envOK hwf id hid

example : -- non-vacuity: a heartbeat of "a" in a ring that also holds "b" writes, and "b" is untouched
    let c : Cfg := { id := "a" }
    let d : Desc := [{ id := "b", ts := 5, tokens := [1] }]
    (step c { started := true, state := .ACTIVE } .absent (some d) .heartbeat 7 (fun _ _ => []) .none).out =
      .write [{ id := "a", ts := 7, state := .ACTIVE, regTs := 7 }, { id := "b", ts := 5, tokens := [1] }] := by
  decide

/-! ### 2.–4. state edges, heartbeat, registration time: every schedule of a full Lifecycler -/

/-- For every schedule (own handlers in any order incl. restarts and kills, environment steps obeying the
frame, clock not going backwards, store accepting writes) started from a process that has not run yet,
two consecutive versions of the own entry satisfy: the state is unchanged, moves along an edge of
`changeState`'s table {P→J, J→P, J→A, P→A, A→L}, or is the restart edge L→A. -/
theorem state_edges (c : Cfg) (hk : c.kind = .LC) (store : Option Desc) (file : File) (clock : Int)
    (hts : ∀ i, Desc.get? (store.getD []) c.id = some i → i.ts ≤ clock)
    (pre : List Act) (a : Act) (hr : RunOK c { store := store, file := file, clock := clock } (pre ++ [a])) (x y : Inst)
    (hx : Desc.get? ((Sys.run c { store := store, file := file, clock := clock } pre).store.getD []) c.id = some x)
    (hy : Desc.get? ((Sys.run c { store := store, file := file, clock := clock } (pre ++ [a])).store.getD []) c.id = some y) :
    x.state = y.state ∨ allowed x.state y.state = true ∨ (x.state = .LEAVING ∧ y.state = .ACTIVE) :=
  (PfC08.lc_run_pub hk (PfC08.sinv_init hts) pre a hr x y hx hy).1

/-- In the same schedules the heartbeat timestamp of the own entry never goes backwards ... -/
theorem heartbeat_monotone (c : Cfg) (hk : c.kind = .LC) (store : Option Desc) (file : File) (clock : Int)
    (hts : ∀ i, Desc.get? (store.getD []) c.id = some i → i.ts ≤ clock)
    (pre : List Act) (a : Act) (hr : RunOK c { store := store, file := file, clock := clock } (pre ++ [a])) (x y : Inst)
    (hx : Desc.get? ((Sys.run c { store := store, file := file, clock := clock } pre).store.getD []) c.id = some x)
    (hy : Desc.get? ((Sys.run c { store := store, file := file, clock := clock } (pre ++ [a])).store.getD []) c.id = some y) :
    x.ts ≤ y.ts :=
  (PfC08.lc_run_pub hk (PfC08.sinv_init hts) pre a hr x y hx hy).2.2

/-- ... and every heartbeat handler (either kind) whose write the store accepts publishes the current time
(so with period p > 0 consecutive heartbeats are p apart; the ticker itself is glue). -/
theorem heartbeat_refreshes (c : Cfg) (l : Local) (file : File) (din : Option Desc) (now : Int) (gen : Gen)
    (hs : l.started = true) :
    ∃ d' b, (step c l file din .heartbeat now gen .none).out = .write d' ∧ Desc.get? d' c.id = some b ∧ b.ts = now :=
  PfC08.heartbeat_refreshes hs

/-- The registration timestamp of the own entry is never changed once the entry exists. -/
theorem registered_once (c : Cfg) (hk : c.kind = .LC) (store : Option Desc) (file : File) (clock : Int)
    (hts : ∀ i, Desc.get? (store.getD []) c.id = some i → i.ts ≤ clock)
    (pre : List Act) (a : Act) (hr : RunOK c { store := store, file := file, clock := clock } (pre ++ [a])) (x y : Inst)
    (hx : Desc.get? ((Sys.run c { store := store, file := file, clock := clock } pre).store.getD []) c.id = some x)
    (hy : Desc.get? ((Sys.run c { store := store, file := file, clock := clock } (pre ++ [a])).store.getD []) c.id = some y) :
    y.regTs = x.regTs :=
  (PfC08.lc_run_pub hk (PfC08.sinv_init hts) pre a hr x y hx hy).2.1

example : -- non-vacuity: start, join, heartbeat, leave is a valid schedule that publishes P, A, A, L
    let c : Cfg := { id := "a", numTokens := 1 }
    let g : Gen := fun _ _ => [3]
    let acts := [Act.own (.init []) 1 g .none, .own .joinTimer 2 g .none, .own .heartbeat 3 g .none, .own (.changeState .LEAVING) 4 g .none]
    RunOK c { store := none } acts ∧
    ((Sys.run c { store := none } acts).store.getD []).map (fun i => (i.state, i.ts, i.regTs, i.tokens)) = [(.LEAVING, 4, 1, [3])] := by
  refine ⟨?_, by decide⟩
  simp only [RunOK, ActOK, Sys.next, and_true]
  refine ⟨⟨trivial, by decide, by intro f h; cases h⟩, ⟨trivial, by decide, by intro f h; cases h⟩, ⟨trivial, by decide, by intro f h; cases h⟩,
    ⟨trivial, by decide, by intro f h; cases h⟩⟩

/-- The same for n lifecyclers (any mix of kinds) sharing the store: in EVERY schedule of their handler runs
(interleaved in any order, with kills inside or between handlers, restarts, external changes that respect the
frame), started from a world in which no process has run yet, every step leaves the published entry of every
full Lifecycler on a legal state edge, with its registration time, and with a heartbeat that did not go back.
(`WRunOK`: the acting lifecycler's action is valid for it — store accepts the write, clock monotone, claims made
by a registered instance from somebody else. No assumption on the OTHER lifecyclers: that they are harmless is
`other_lifecycler_is_environment`.) -/
theorem world_entry_evolution (w0 : World) (hwf : WF (w0.store.getD [])) (hd : Distinct w0)
    (hfresh : ∀ (i : Nat) (nd : Node), w0.nodes[i]? = some nd → nd.l = {})
    (hts : ∀ (i : Nat) (nd : Node), w0.nodes[i]? = some nd → ∀ e, Desc.get? (w0.store.getD []) nd.cfg.id = some e → e.ts ≤ w0.clock)
    (acts : List WAct) (a : WAct) (hr : WRunOK w0 (acts ++ [a]))
    (i : Nat) (nd : Node) (hnd : (w0.run acts).nodes[i]? = some nd) (hk : nd.cfg.kind = .LC) (x y : Inst)
    (hx : Desc.get? ((w0.run acts).store.getD []) nd.cfg.id = some x)
    (hy : Desc.get? ((w0.run (acts ++ [a])).store.getD []) nd.cfg.id = some y) :
    (x.state = y.state ∨ allowed x.state y.state = true ∨ (x.state = .LEAVING ∧ y.state = .ACTIVE)) ∧
    y.regTs = x.regTs ∧ x.ts ≤ y.ts :=
  PfC08.world_pub (PfC08.winv_init hwf hd hfresh hts) acts a hr i nd hnd hk x y hx hy

/-- BasicLifecycler (no transition table: `ChangeState` publishes what the caller asks for): every write
keeps the registration timestamp, does not move the heartbeat backwards (and not past `now`), and
changes the state only to the configured register state (registration), to the requested state
(`ChangeState`) or to LEAVING (the LeaveOnStopping delegate). -/
theorem basic_entry_evolution (c : Cfg) (l : Local) (file : File) (din : Option Desc) (ev : Event) (now : Int) (gen : Gen)
    (fault : Fault) (d' : Desc) (a b : Inst) (hk : c.kind = .BLC)
    (h : (step c l file din ev now gen fault).out = .write d')
    (ha : Desc.get? (din.getD []) c.id = some a) (hb : Desc.get? d' c.id = some b) :
    b.regTs = a.regTs ∧ (a.ts ≤ now → a.ts ≤ b.ts ∧ b.ts ≤ now) ∧
    (b.state = a.state ∨ (∃ shuf, ev = .init shuf ∧ b.state = c.registerState) ∨ ev = .changeState b.state ∨
      (ev = .stopDelegate ∧ b.state = .LEAVING)) :=
  PfC08.blc_step_pub hk h ha hb

/-- FINDING (witness): a BasicLifecycler whose delegate registers JOINING, restarted over the ACTIVE entry
its previous process left behind, publishes ACTIVE→JOINING — an edge that is neither in the table nor
one of the documented restart edges. -/
theorem basic_register_edge_witness :
    let c : Cfg := { kind := .BLC, id := "a", numTokens := 1, registerState := .JOINING }
    let d : Desc := [{ id := "a", ts := 5, state := .ACTIVE, tokens := [1], regTs := 2 }]
    (step c {} .absent (some d) (.init []) 9 (fun _ _ => []) .none).out =
      .write [{ id := "a", ts := 9, state := .JOINING, tokens := [1], regTs := 2 }] ∧
    ¬ (State.ACTIVE = State.JOINING ∨ allowed .ACTIVE .JOINING = true ∨ (State.ACTIVE = State.LEAVING ∧ State.JOINING = State.ACTIVE)) := by
  decide

/-! ### 5. tokens at activation -/

/-- Join timer of a PENDING full lifecycler whose generator honours its contract: the entry is published
in the target state (ACTIVE, or JOINING when an observe period is configured) with exactly `numTokens`
strictly sorted (hence distinct) tokens; the tokens its ring entry already had are kept; every other
token was in NO instance's list in the ring it was chosen from; the remembered tokens are the published ones. -/
theorem activation_tokens (c : Cfg) (l : Local) (file : File) (din : Option Desc) (now : Int) (gen : Gen) (fault : Fault)
    (hk : c.kind = .LC) (hs : l.started = true) (hp : l.state = .PENDING) (hg : GenOK gen) (hf : fault ≠ .failBefore)
    (hnd : (tokensOf (din.getD []) c.id).Nodup) (hle : (tokensOf (din.getD []) c.id).length ≤ c.numTokens) :
    ∃ d' b, (step c l file din .joinTimer now gen fault).out = .write d' ∧ Desc.get? d' c.id = some b ∧
      b.state = (if c.observe then .JOINING else .ACTIVE) ∧
      (step c l file din .joinTimer now gen fault).l.state = b.state ∧
      (step c l file din .joinTimer now gen fault).l.tokens = b.tokens ∧
      b.tokens.length = c.numTokens ∧ b.tokens.Pairwise (· < ·) ∧
      (∀ t ∈ tokensOf (din.getD []) c.id, t ∈ b.tokens) ∧
      (∀ t ∈ b.tokens, t ∈ tokensOf (din.getD []) c.id ∨ ∀ i ∈ din.getD [], t ∉ i.tokens) :=
  PfC08.lc_join_tokens hk hs hp hg hf hnd hle

/-- BasicLifecycler registration with a generator honouring its contract: exactly `numTokens` strictly sorted tokens;
the inherited ones (from the ring entry OR the tokens file) are kept; every new token is neither inherited nor in
any instance's list. (Unguarded since /repo 31cf82d passes the kept tokens to the generator as taken. Before the
fix only `ringDesc.GetTokens()` was passed:
  c = {BLC, id "a", numTokens 2, hasFile}, file [5], ring empty, generator asked (1, taken = []) may answer [5]
  ⇒ published tokens [5,5] — former `basic_register_file_token_witness`.)
`hnd`/`hle`: the inherited list itself is duplicate-free and not longer than `numTokens` (it is kept verbatim). -/
theorem basic_activation_tokens (c : Cfg) (l : Local) (file : File) (din : Option Desc) (shuf : List Nat) (now : Int)
    (gen : Gen) (fault : Fault) (hk : c.kind = .BLC) (hg : GenOK gen) (hf : fault ≠ .failBefore)
    (hnd : (blcInherited c file (Desc.get? (din.getD []) c.id)).Nodup)
    (hle : (blcInherited c file (Desc.get? (din.getD []) c.id)).length ≤ c.numTokens) :
    ∃ d' b, (step c l file din (.init shuf) now gen fault).out = .write d' ∧ Desc.get? d' c.id = some b ∧
      b.state = c.registerState ∧ b.tokens.length = c.numTokens ∧ b.tokens.Pairwise (· < ·) ∧
      (∀ t ∈ blcInherited c file (Desc.get? (din.getD []) c.id), t ∈ b.tokens) ∧
      (∀ t ∈ b.tokens, t ∈ blcInherited c file (Desc.get? (din.getD []) c.id) ∨ ∀ i ∈ din.getD [], t ∉ i.tokens) :=
  PfC08.blc_register_tokens hk hg hf hnd hle

example : -- non-vacuity (the former witness input): the generator is now told that 5 is taken
    let c : Cfg := { kind := .BLC, id := "a", numTokens := 2, hasFile := true }
    let r := step c {} (.tokens [5]) none (.init []) 9 (fun _ _ => [7]) .none
    r.genReq = some (1, [5]) ∧
    r.out = .write [{ id := "a", ts := 9, state := .ACTIVE, tokens := [5, 7], regTs := 9 }] := by
  decide

/-! ### 6. readiness -/

/-- A `CheckReady` that answers ok for the first time implies: the lifecycler remembers at least one token,
the store answered, and the ring it saw contains — with `ReadinessCheckRingHealth` — only ACTIVE
members with a heartbeat younger than the timeout (and some tokens), — without it — the own entry,
ACTIVE and healthy. The answer latches. -/
theorem ready_implies_ring_condition (c : Cfg) (l : Local) (store : Option Desc) (now : Int) (getFails : Bool)
    (hnot : l.ready = false) (h : (lcCheckReady c l store now getFails).2 = .ok) :
    l.tokens ≠ [] ∧ getFails = false ∧ (lcCheckReady c l store now getFails).1.ready = true ∧
    ∃ d, store = some d ∧
      (c.readinessRing = true → (∀ i ∈ d, i.state = .ACTIVE ∧ now - i.ts < c.hbTimeout) ∧ ∃ i ∈ d, i.tokens ≠ []) ∧
      (c.readinessRing = false → ∃ i, Desc.get? d c.id = some i ∧ i.state = .ACTIVE ∧ now - i.ts < c.hbTimeout) := by
  have h1 := PfC08.ready_sound hnot h
  exact ⟨h1.1, h1.2.1, h1.2.2.2, PfC08.ringReady_spec h1.2.2.1⟩

theorem ready_latches (c : Cfg) (l : Local) (store : Option Desc) (now : Int) (getFails : Bool) (h : l.ready = true) :
    lcCheckReady c l store now getFails = (l, .ok) :=
  PfC08.ready_latch c l store now getFails h

/-
Full statement: `CheckReady = ok` ⇒ the lifecycler's own state is ACTIVE (FALSE in one corner, see
`ready_without_entry_witness`).
Proved part: whenever the own entry is in the ring the lifecycler saw (always the case without ring-health
checking, and in every schedule in which nobody removed it), the remembered state is ACTIVE.
-/
theorem ready_implies_active_partial (c : Cfg) (l : Local) (d : Desc) (now : Int) (getFails : Bool)
    (hI : LInv c l (some d)) (hs : l.started = true) (hnot : l.ready = false)
    (hpresent : (Desc.get? d c.id).isSome)
    (h : (lcCheckReady c l (some d) now getFails).2 = .ok) : l.state = .ACTIVE := by
  obtain ⟨i, hi⟩ := Option.isSome_iff_exists.mp hpresent
  have h1 := ready_implies_ring_condition c l (some d) now getFails hnot h
  obtain ⟨d0, hd0, hring, hself⟩ := h1.2.2.2
  cases hd0
  have hact : i.state = .ACTIVE := by
    cases hr : c.readinessRing with
    | true => exact ((hring hr).1 i (PfC08.get?_some_mem hi)).1
    | false =>
      obtain ⟨j, hj, hja, _⟩ := hself hr
      rw [hi] at hj; cases hj; exact hja
  have := (hI hs i hi).1
  rcases this with h2 | ⟨h2, _⟩
  · rw [← h2]; exact hact
  · rw [hact] at h2; cases h2

/-- OBSERVATION (witness): with ring-health checking, a lifecycler that is still JOINING locally, holds
tokens and whose entry is NOT in the ring (removed by somebody's auto-forget, or the key was lost)
reports ready as soon as all the OTHER members are ACTIVE and healthy. -/
theorem ready_without_entry_witness :
    let c : Cfg := { id := "a", numTokens := 1, readinessRing := true }
    let l : Local := { started := true, state := .JOINING, tokens := [3] }
    let d : Desc := [{ id := "b", ts := 100, state := .ACTIVE, tokens := [7] }]
    (lcCheckReady c l (some d) 100 false).2 = .ok := by
  decide

end PC08
