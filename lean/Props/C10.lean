import Model.C10
import Proofs.C10
import Proofs.C10.Link
import Proofs.C10.Prov
import Proofs.C10.Spawner
/-!
# C10 — batched quorum writes: success only with quorum on every key, and always finish

Property theorems about the model of `ring/batch.go` (`Model/C10.lean`). Common hypotheses:

* `hg : GoodGets gets` — every replica set has a tolerance `0 ≤ MaxErrors < #replicas` (then
  `minSuccess ≥ 1` and `minSuccess + maxFailures = #replicas`). This is what `Ring.Get` returns:
  `PC02.goodGets_of_lookups` (lean/Props/C02.lean) DISCHARGES it for every list whose entries are `.err`
  or stem from a successful C01 lookup. It is necessary for an arbitrary `DoBatchRing`:
  `tolerance_hang_witness`, `empty_set_hang_witness`;
* `hp : prepare icount cancelAt gets = .ok p` — the sequential prefix did not return early (every
  early return, including the empty key list, is covered by `early_return_cleanup_once`,
  `early_return_why`, `empty_keys_return`);
* `hr : run (initSt p out) evs = some s` — `s` is reached by the schedule `evs`, an ARBITRARY
  interleaving of the atomic events of all goroutines, the cleanup goroutine, the end of the
  caller's context and the caller's `select`.

So every theorem holds for all replica sets, all outcome assignments `out`, all completion orders
and all micro-interleavings (no bound on keys, replicas or steps).

**Custom goroutine spawner (`o.Go`).** A spawner is a scheduling policy (`PfC10.Spawner`: events so
far, state, event ↦ may it happen now?) — running a closure inline, queueing it behind a bounded worker
pool, delaying it all only RESTRICT when `start k` / `cleanup` (and, inline, the caller's `select`)
happen. Section "the spawner" below makes the former comment a theorem: `spawner_run_is_run` (every
spawner-restricted run is a run of the model), `spawner_safe` (hence every safety theorem of this file
holds under every spawner), `spawner_liveness` (a spawner that eventually runs every submitted task —
`PfC10.Live` — can always complete: all goroutines finish and cleanup runs once), `standard_spawners_live`
(default, pool of w ≥ 1 workers, inline) and the witness of what `Live` excludes,
`spawner_waiter_first_pool1_witness` (seeded change C10-1: the only worker parked in the cleanup
closure's `wg.Wait()`). The model has no spawn loop: all goroutines are `idle` in `initSt` and `cancel`
is enabled at any time, so "the context ends between two hand-overs to `o.Go`" is the schedule
`start … cancel … start` (example below); the correspondence check drives it with spawners that cancel
the batch context inside their k-th `Go` call (modes `wrapx<k>`, `inlinex<k>`), besides the five plain
spawners (default, wrapping, inline, pools of 1 and 2 workers).
-/
namespace PC10
open C10 PfC10

variable {icount : Int} {ca : Option Nat} {gets : List GetRes} {p : Prep}
  {out : Nat → Outcome} {evs : List Ev} {s : St}

/-! ### signalling -/

/-- At most one send on `done`, at most one on `err`, never both. -/
theorem signals_exclusive (hg : GoodGets gets) (hp : prepare icount ca gets = .ok p)
    (hr : run (initSt p out) evs = some s) : s.nDone ≤ 1 ∧ s.nErr ≤ 1 ∧ s.nDone + s.nErr ≤ 1 :=
  signals_exclusive' (inv_of_run hg hp hr)

/-- Neither send ever blocks: a goroutine that is about to send finds its channel empty. -/
theorem sends_never_block (hg : GoodGets gets) (hp : prepare icount ca gets = .ok p)
    (hr : run (initSt p out) evs = some s) (k : Nat) (t : Thread) (hk : s.thr[k]? = some t) :
    (t.st = .sDone → s.done = 0) ∧ (t.st = .eSend → s.errc = none) ∧ (∀ e, t.st = .sSend e → s.errc = none) :=
  sends_enabled' (inv_of_run hg hp hr) hk

/-- A key that reached `minSuccess` never triggers the failure signal: neither error family can
exceed its tolerance and its `remaining` counter stays positive. -/
theorem quorum_key_never_fails (hg : GoodGets gets) (hp : prepare icount ca gets = .ok p)
    (hr : run (initSt p out) evs = some s) (i : Nat) (it : Item) (hit : s.items[i]? = some it)
    (hq : it.minSuccess ≤ it.succeeded) :
    it.failedClient ≤ it.maxFailures ∧ it.failedServer ≤ it.maxFailures ∧ 1 ≤ it.remaining :=
  reached_safe (inv_of_run hg hp hr) hit hq

/-- `done` was sent ⇒ at that moment every key has at least `minSuccess` successes. -/
theorem done_sound (hg : GoodGets gets) (hp : prepare icount ca gets = .ok p)
    (hr : run (initSt p out) evs = some s) (hd : 1 ≤ s.nDone) :
    ∀ (i : Nat) (it : Item), s.items[i]? = some it → it.minSuccess ≤ it.succeeded :=
  done_sound' (inv_of_run hg hp hr) hd

/-- When all callback goroutines have finished, exactly one of `done` / `err` was sent: `done` iff
every key reached its quorum, `err` iff some key ended without. (The key list is non-empty here: an
empty one returns before anything is spawned, `empty_keys_return`.) -/
theorem complete (hg : GoodGets gets) (hp : prepare icount ca gets = .ok p)
    (hr : run (initSt p out) evs = some s) (hf : ∀ t ∈ s.thr, t.st = .fin) :
    (s.nDone = 1 ∧ s.nErr = 0 ∧ ∀ (i : Nat) (it : Item), s.items[i]? = some it → it.minSuccess ≤ it.succeeded) ∨
    (s.nDone = 0 ∧ s.nErr = 1 ∧ ∃ (i : Nat) (it : Item), s.items[i]? = some it ∧ it.succeeded < it.minSuccess) :=
  complete' (inv_of_run hg hp hr) hf (items_ne_of_run hp hr)

/-- The value sent on `err` (hence any error `DoBatch` returns, `return_value_sound`) is never `nil`: it
is the error returned by a replica `a` OF A KEY THAT FAILED — key `i` is among the indexes `a` was called
with, `a`'s callback has returned an error, key `i`'s failure condition has fired (one family above the
tolerance, or its last replica counted) and key `i` has not reached, and never will reach, its quorum.
Also on the path that loads the error back from the tracker (`it.err.Load()`). -/
theorem err_provenance (hg : GoodGets gets) (hp : prepare icount ca gets = .ok p)
    (hr : run (initSt p out) evs = some s) (e : Option Nat) (he : s.sentErr = some e) :
    ∃ (a i : Nat) (it : Item), e = some a ∧ ReturnedErr s a ∧ i ∈ get p.calls a ∧ s.items[i]? = some it ∧
      (it.maxFailures < it.failedClient ∨ it.maxFailures < it.failedServer ∨ it.remaining ≤ 0) ∧
      it.succeeded < it.minSuccess :=
  err_provenance_key' hg hp hr e he

/-- As soon as the failures of one family exceed the tolerance of a key (or its last replica has been
counted without quorum): the failure signal has been sent; or the one goroutine that won
`rpcsFailed.Inc() == 1` is on the straight path (load,) send; or nobody has incremented `rpcsFailed`
yet and some goroutine is about to (the first one to do so wins). None of these steps can block
(`sends_never_block`, `no_deadlock`). -/
theorem early_failure (hg : GoodGets gets) (hp : prepare icount ca gets = .ok p)
    (hr : run (initSt p out) evs = some s) (i : Nat) (it : Item) (hit : s.items[i]? = some it)
    (h : it.maxFailures < it.failedClient ∨ it.maxFailures < it.failedServer ∨ it.remaining ≤ 0) :
    s.nErr = 1 ∨ (∃ t ∈ s.thr, sending t) ∨ (s.failed = 0 ∧ ∃ t ∈ s.thr, claiming t) :=
  early_failure' (inv_of_run hg hp hr) hit h

/-- At most one goroutine is ever on the sending path, and none once the signal is out
(`sendEC t = 1` iff `sending t`). -/
theorem sender_unique (hg : GoodGets gets) (hp : prepare icount ca gets = .ok p)
    (hr : run (initSt p out) evs = some s) : s.nErr + sumT sendEC s.thr ≤ 1 :=
  sending_unique' (inv_of_run hg hp hr)

/-- Conversely the failure signal is claimed only for a key that can never reach its quorum any more. -/
theorem failure_only_if_doomed (hg : GoodGets gets) (hp : prepare icount ca gets = .ok p)
    (hr : run (initSt p out) evs = some s) (h : 1 ≤ s.nErr) :
    ∃ (i : Nat) (it : Item), s.items[i]? = some it ∧ Doomed s i it ∧ ¬ it.minSuccess ≤ it.succeeded := by
  have hi := inv_of_run hg hp hr
  have := hi.e.cnt
  obtain ⟨i, it, hit, hd⟩ := hi.j (by omega)
  exact ⟨i, it, hit, hd, fun hq => reached_not_doomed hi hit hq hd⟩

/-! ### grouping of the keys by replica -/

/-- Each selected address appears exactly once in `instances`, and its index list is, in key order
and with multiplicity, the indexes of the keys whose replica set contains it. -/
theorem group_exact (sets : List (List Nat)) :
    ((group sets).map (·.1)).Nodup ∧
    (∀ a, a ∈ (group sets).map (·.1) ↔ ∃ s ∈ sets, a ∈ s) ∧
    (∀ a idx, (a, idx) ∈ group sets →
      idx = (List.range sets.length).flatMap (fun k => List.replicate ((sets.getD k []).count a) k)) :=
  group_exact' sets

/-- With duplicate-free replica sets: exactly the increasing indexes of the keys that replica serves. -/
theorem group_exact_nodup (sets : List (List Nat)) (hnd : ∀ s ∈ sets, s.Nodup) (a : Nat) (idx : List Nat)
    (h : (a, idx) ∈ group sets) :
    idx = (List.range sets.length).filter (fun k => decide (a ∈ sets.getD k [])) ∧ idx.Pairwise (· < ·) :=
  PfC10.group_exact_nodup sets hnd a idx h

/-- One goroutine per selected replica, called with exactly its index list. -/
theorem threads_are_groups (hp : prepare icount ca gets = .ok p) :
    (initSt p out).thr.map (fun t => (t.id, t.todo)) = p.calls ∧
    ∃ l : List (List Nat × Int), gets = l.map (fun q => GetRes.ok q.1 q.2) ∧ p.calls = group (l.map (·.1)) := by
  obtain ⟨l, h1, _, h3, _⟩ := prepare_ok hp
  refine ⟨?_, l, h1, h3⟩
  simp only [initSt, mkThreads, List.map_map]
  have : ((fun t : Thread => (t.id, t.todo)) ∘ fun x : Nat × List Nat => { id := x.1, out := out x.1, todo := x.2 }) = id := by
    funext x; rfl
  rw [this, List.map_id]

/-- Each selected replica's callback is invoked AT MOST ONCE in any schedule, exactly once as soon as
its goroutine has left the idle stage (in particular when it has finished), and with exactly its keys:
goroutine `k` is the one created for `p.calls[k] = (a, idx)` — address `a`, index list `idx`
(`group_exact`: one entry per selected address, the increasing indexes of the keys it serves). -/
theorem each_replica_called_once (hp : prepare icount ca gets = .ok p)
    (hr : run (initSt p out) evs = some s) (k a : Nat) (idx : List Nat) (hk : p.calls[k]? = some (a, idx)) :
    (initSt p out).thr[k]? = some { id := a, out := out a, todo := idx } ∧
    ∃ t, s.thr[k]? = some t ∧ t.id = a ∧ evs.count (.start k) ≤ 1 ∧
      (evs.count (.start k) = 1 ↔ t.st ≠ .idle) := by
  have h0 : (initSt p out).thr[k]? = some { id := a, out := out a, todo := idx } := by
    simp [initSt, mkThreads, hk]
  obtain ⟨t, h1, h2, h3⟩ := start_count evs _ s hr k _ h0
  have e0 : started ({ id := a, out := out a, todo := idx } : Thread) = 0 := rfl
  rw [e0] at h3
  refine ⟨h0, t, h1, h2, ?_, ?_⟩
  · by_cases hi : t.st = .idle <;> simp [started, hi] at h3 <;> omega
  · by_cases hi : t.st = .idle <;> simp [started, hi] at h3 <;> simp [hi, h3]

/-! ### cleanup -/

/-- Cleanup runs at most once, only after every callback goroutine has finished (wait-group counter
0 ⇔ all finished); and it is enabled exactly then. -/
theorem cleanup_once_after_all (hg : GoodGets gets) (hp : prepare icount ca gets = .ok p)
    (hr : run (initSt p out) evs = some s) :
    s.cleanup ≤ 1 ∧ (s.cleanup = 1 → ∀ t ∈ s.thr, t.st = .fin) ∧
    ((step s .cleanup).isSome = true ↔ (∀ t ∈ s.thr, t.st = .fin) ∧ s.cleanup = 0) := by
  obtain ⟨h1, h2, h3⟩ := cleanup_after_all' (inv_of_run hg hp hr)
  refine ⟨h1, h2, ?_⟩
  rw [← h3]
  simp only [step]
  constructor
  · intro h; split at h
    · assumption
    · simp at h
  · intro h; simp [h]

/-- Whenever the prefix returns early — for ALL inputs and at every `return` site of the modelled
prefix (`InstancesCount ≤ 0`, periodic context check, `Get` failure, last context check, empty key list)
— cleanup has run exactly once and no callback was invoked. (The counters are written at each site of
`Model.C10.keyLoop` / `prepareWith` as the Go code does it there; the oracle derives the expected trace
of early cases from them, so a site that forgot or doubled its `Cleanup()` breaks this theorem, and a
Go site that does breaks the correspondence.) -/
theorem early_return_cleanup_once (r : EarlyRet) (h : prepare icount ca gets = .error r) :
    r.cleanups = 1 ∧ r.calls = 0 :=
  prepare_early h

/-- ... and it returns early only for one of the four documented reasons. -/
theorem early_return_why (r : EarlyRet) (h : prepare icount ca gets = .error r) :
    (r.why = .noInstances ∧ icount ≤ 0) ∨ (r.why = .ctx ∧ ca.isSome = true) ∨ (r.why = .get ∧ GetRes.err ∈ gets) ∨
    (r.why = .emptyOk ∧ gets = []) :=
  prepare_early_why h

/-! ### returning -/

/-- The caller's `select` is enabled as soon as `done` or `err` holds a value or the context ended
(and only then). -/
theorem returns (s : St) (hret : s.ret = none) :
    (1 ≤ s.done → (step s .recvDone).isSome = true) ∧ (s.errc.isSome = true → (step s .recvErr).isSome = true) ∧
    (s.ctx = true → (step s .recvCtx).isSome = true) :=
  select_enabled' s hret

theorem returns_only_on_signal (s : St) :
    ((step s .recvDone).isSome = true → s.ret = none ∧ 1 ≤ s.done) ∧
    ((step s .recvErr).isSome = true → s.ret = none ∧ s.errc.isSome = true) ∧
    ((step s .recvCtx).isSome = true → s.ret = none ∧ s.ctx = true) :=
  recv_needs_signal s

/-- It returns once: after the `select` fired the return value never changes. -/
theorem returns_once (s s' : St) (evs' : List Ev) (r : Ret) (h : s.ret = some r) (hr : run s evs' = some s') :
    s'.ret = some r :=
  ret_stable_reach (reach_of_run hr) h

/-- What was returned was justified: `nil` ⇒ every key has its quorum of acknowledgements; an error
⇒ it is one a replica returned and some key can never reach its quorum. -/
theorem return_value_sound (hg : GoodGets gets) (hp : prepare icount ca gets = .ok p)
    (hr : run (initSt p out) evs = some s) :
    (s.ret = some .done → ∀ (i : Nat) (it : Item), s.items[i]? = some it → it.minSuccess ≤ it.succeeded) ∧
    (∀ e, s.ret = some (.err e) → (∃ a, e = some a ∧ ReturnedErr s a) ∧
      ∃ (i : Nat) (it : Item), s.items[i]? = some it ∧ Doomed s i it) :=
  ret_sound' (inv_of_run hg hp hr)

/-- Once all replica calls have returned and been recorded, the caller's `select` can fire — for
every key list the prefix lets through (FULL strength: no guard on the key list; the empty one is
`empty_keys_return`). -/
theorem returns_when_all_done (hg : GoodGets gets) (hp : prepare icount ca gets = .ok p)
    (hr : run (initSt p out) evs = some s) (hf : ∀ t ∈ s.thr, t.st = .fin)
    (hret : s.ret = none) : (step s .recvDone).isSome = true ∨ (step s .recvErr).isSome = true :=
  returns_when_all_done' (inv_of_run hg hp hr) hf (items_ne_of_run hp hr) hret

/-- An empty key list returns at once, after exactly one cleanup and without calling anyone (no `Get`
either): with the "no instances" error, with the context's error if it has already ended, and with
`nil` otherwise — whatever `InstancesCount` and the context are. -/
theorem empty_keys_return (icount : Int) (ca : Option Nat) :
    prepare icount ca [] =
      .error { why := if icount ≤ 0 then .noInstances else if cancelled ca 0 then .ctx else .emptyOk,
               gets := 0, cleanups := 1, calls := 0 } :=
  empty_prepare_now icount ca

/-- ALWAYS FINISHES, every key list (also the empty one), every schedule. Either the prefix returns at
once (exactly one cleanup, no call). Or, from EVERY state reached by any interleaving in which all
replica callbacks have returned (nothing is assumed about how far the goroutines got with `record`) or
the context has ended, and the caller has not returned yet: there is a continuation consisting only of
atomic actions of the goroutines (none of which can block) after which the caller's `select` is enabled.
With `no_deadlock` and `goroutines_terminate` (every schedule has finitely many goroutine events) this
is: under a fair scheduler the call returns. -/
theorem always_finishes (hg : GoodGets gets) :
    (∃ r, prepare icount ca gets = .error r ∧ r.cleanups = 1 ∧ r.calls = 0) ∨
    (∃ p, prepare icount ca gets = .ok p ∧ ∀ (out : Nat → Outcome) (evs : List Ev) (s : St),
      run (initSt p out) evs = some s → s.ret = none →
      ((∀ t ∈ s.thr, t.st ≠ .idle ∧ t.st ≠ .inCall) ∨ s.ctx = true) →
      ∃ (ticks : List Ev) (s' : St), (∀ e ∈ ticks, ∃ k, e = .tick k) ∧ run s ticks = some s' ∧
        ((step s' .recvDone).isSome = true ∨ (step s' .recvErr).isSome = true ∨ (step s' .recvCtx).isSome = true)) := by
  cases hp : prepare icount ca gets with
  | error r => exact .inl ⟨r, rfl, prepare_early hp⟩
  | ok p =>
    refine .inr ⟨p, rfl, ?_⟩
    intro out evs s hr hret hcase
    rcases hcase with hcb | hc
    · have hwf := wf_initSt hg hp out
      have hreach := reach_of_run hr
      obtain ⟨ticks, s', h1, h2, h3, h4, _⟩ := drain hwf _ s hreach (Nat.le_refl _) hcb
      have hr' : run (initSt p out) (evs ++ ticks) = some s' := by
        have : ∀ (l1 l2 : List Ev) (a b c : St), run a l1 = some b → run b l2 = some c → run a (l1 ++ l2) = some c := by
          intro l1
          induction l1 with
          | nil => intro l2 a b c h1 h2; simp [run] at h1; subst h1; simpa using h2
          | cons e es ih =>
            intro l2 a b c h1 h2
            simp only [run, List.cons_append] at h1 ⊢
            split at h1
            · rename_i a' he; exact ih l2 a' b c h1 h2
            · simp at h1
        exact this evs ticks _ s s' hr h2
      refine ⟨ticks, s', h1, h2, ?_⟩
      rcases returns_when_all_done' (inv_of_run hg hp hr') h3 (items_ne_of_run hp hr') (h4.trans hret) with h | h
      · exact .inl h
      · exact .inr (.inl h)
    · exact ⟨[], s, ⟨fun e he => absurd he (by simp), rfl, .inr (.inr ((select_enabled' s hret).2.2 hc))⟩⟩

/-- HISTORY — witness of defect D2 in the code before commit "fix: DoBatch with an empty key list never
returns" (`preparePreFix`): the empty key list reached the `select` with no goroutine that could ever
signal; under every schedule in which the context does not end, the caller has not returned and none
of the three branches is enabled. -/
theorem empty_keys_hang (h : 0 < icount) (evs : List Ev) (s : St) (hnc : Ev.cancel ∉ evs)
    (hr : run (initSt { items := [], calls := [], gets := 0 } out) evs = some s) :
    preparePreFix icount none [] = .ok { items := [], calls := [], gets := 0 } ∧
    s.ret = none ∧ (step s .recvDone) = none ∧ (step s .recvErr) = none ∧ (step s .recvCtx) = none := by
  obtain ⟨_, h2, h3, h4, h5⟩ := empty_hang evs _ s rfl rfl rfl rfl rfl hr hnc
  refine ⟨empty_prepare_prefix h none rfl, h5, ?_, ?_, ?_⟩
  · simp [step, h2]
  · simp [step, h3]
  · simp [step, h4]

/-- ... while cleanup did run in that situation (the cleanup goroutine passes `wg.Wait()` at once). -/
theorem empty_keys_cleanup_runs :
    (run (initSt { items := [], calls := [], gets := 0 } out) [.cleanup]).map (·.cleanup) = some 1 := by
  rfl

/-! ### link to C02 (quorum intersection) -/

/-- `DoBatch` reports success (or merely: `done` has been signalled) ⇒ for every key `i`, the replicas
that acknowledged it contain a set `A` with C02's `writeOk A W`, where `W` is the key's replication
set as returned by `Get` (`gets[i] = W` under an injective numbering `aid` of its instances). This is
the premise of C02's `quorum_intersect…` theorems. -/
theorem batch_success_implies_writeOk (hg : GoodGets gets) (hp : prepare icount ca gets = .ok p)
    (hr : run (initSt p out) evs = some s) (hd : s.ret = some .done ∨ 1 ≤ s.nDone)
    (i : Nat) (W : C01.RSet) (aid : Ring.Inst → Nat)
    (hinj : ∀ x ∈ W.instances, ∀ y ∈ W.instances, aid x = aid y → x = y) (hW : W.instances.Nodup)
    (hi : gets[i]? = some (.ok (W.instances.map aid) W.maxErrors)) :
    ∃ A : List Ring.Inst, C02.writeOk A W ∧ ∀ x ∈ A, Acked p s i (aid x) := by
  have hd' : 1 ≤ s.nDone := by
    rcases hd with h | h
    · have := (inv_of_run hg hp hr).d.retd h; omega
    · exact h
  exact batch_success_implies_writeOk' hg hp hr hd' i W aid hinj hW hi

/-! ### always finishes -/

/-- No goroutine is ever stuck: whatever the state, the next event of every unfinished goroutine
(start of the callback, its return, or its next atomic action) is enabled. -/
theorem no_deadlock (hg : GoodGets gets) (hp : prepare icount ca gets = .ok p)
    (hr : run (initSt p out) evs = some s) (k : Nat) (t : Thread) (hk : s.thr[k]? = some t) (hnf : t.st ≠ .fin) :
    ∃ ev, (ev = .start k ∨ ev = .ret k ∨ ev = .tick k) ∧ (step s ev).isSome = true :=
  no_deadlock' (inv_of_run hg hp hr) hk hnf

/-- ... and every schedule contains only finitely many goroutine events: at most the initial measure
(3 + 6·#indexes per goroutine). Together: all goroutines finish, hence cleanup runs. -/
theorem goroutines_terminate (s0 s : St) (evs : List Ev) (hr : run s0 evs = some s) :
    (evs.filter isThreadEv).length + sumT mu s.thr ≤ sumT mu s0.thr :=
  thread_events_bounded evs s0 s hr

/-! ### `GoodGets` is necessary (a `DoBatchRing` that is not a ring may violate it) -/

/-- WITNESS: a replica set whose tolerance is not smaller than its size (`MaxErrors = 1`, one replica,
so `minSuccess = 0`): the only replica acknowledges, every goroutine finishes, and neither `done` nor
`err` is ever signalled — `rpcsPending` is decremented only when `succeeded` EQUALS `minSuccess`. The
caller hangs until its context ends. (`Ring.Get` never returns such a set: `PC02.goodGets_of_lookups`.) -/
theorem tolerance_hang_witness :
    (prepare 1 none [.ok [0] 1]).toOption.bind (fun p =>
      (run (initSt p (fun _ => .ok)) [.start 0, .ret 0, .tick 0, .tick 0, .cleanup]).map fun s =>
        (s.thr.all (·.st == .fin), s.cleanup, s.ret, step s .recvDone, step s .recvErr)) =
      some (true, 1, none, none, none) := by decide

/-- WITNESS: an empty replica set (`minSuccess = 0`, nobody to call): no goroutine, no signal, hang. -/
theorem empty_set_hang_witness :
    (prepare 1 none [.ok [] 0]).toOption.bind (fun p =>
      (run (initSt p (fun _ => .ok)) [.cleanup]).map fun s =>
        (s.thr.length, s.cleanup, s.ret, step s .recvDone, step s .recvErr)) =
      some (0, 1, none, none, none) := by decide


/-! ### the spawner (`DoBatchOptions.Go`) -/

/-- **Every spawner-restricted run is a run of the model** (whatever the policy `sp`, whatever the
history it has seen). -/
theorem spawner_run_is_run (sp : Spawner) (hist : List Ev) (s0 : St)
    (hr : runSp sp hist s0 evs = some s) : run s0 evs = some s :=
  runSp_run sp evs hist s0 s hr

/-- Hence every property of all reachable states of the model (every safety theorem above is of this
form, with `s0 = initSt p out`) holds in every state reachable under any spawner. -/
theorem spawner_safe (sp : Spawner) (s0 : St) (P : St → Prop)
    (hsafe : ∀ evs s, run s0 evs = some s → P s) (hr : runSp sp [] s0 evs = some s) : P s :=
  hsafe evs s (runSp_run sp evs [] s0 s hr)

/-- e.g. `signals_exclusive` and `cleanup_once_after_all` under an arbitrary spawner. -/
theorem spawner_safe_instance (sp : Spawner) (hg : GoodGets gets) (hp : prepare icount ca gets = .ok p)
    (hr : runSp sp [] (initSt p out) evs = some s) :
    s.nDone + s.nErr ≤ 1 ∧ s.cleanup ≤ 1 ∧ (s.cleanup = 1 → ∀ t ∈ s.thr, t.st = .fin) := by
  have h := runSp_run sp evs [] _ s hr
  exact ⟨(signals_exclusive hg hp h).2.2, (cleanup_once_after_all hg hp h).1, (cleanup_once_after_all hg hp h).2.1⟩

/-- **Liveness needs, and only needs, a spawner that eventually runs every submitted task** (`Live`: it
never holds up a closure that is running, lets some queued closure begin whenever none is in progress,
and runs the cleanup closure once all calls finished). Under such a spawner every reachable state has
a continuation ALLOWED BY THE SPAWNER (goroutine events and `cleanup` only — no help from the
caller or its context) after which every goroutine has finished and `Cleanup()` has run exactly once. -/
theorem spawner_liveness {sp : Spawner} (hl : Live sp) (hg : GoodGets gets) (hp : prepare icount ca gets = .ok p)
    (hr : runSp sp [] (initSt p out) evs = some s) :
    ∃ evs' s', runSp sp [] (initSt p out) (evs ++ evs') = some s' ∧ (∀ t ∈ s'.thr, t.st = .fin) ∧
      s'.cleanup = 1 ∧ ∀ e ∈ evs', isThreadEv e = true ∨ e = .cleanup := by
  have hi := inv_of_run hg hp (runSp_run sp evs [] _ s hr)
  obtain ⟨evs', s', h1, h2, h3, h4⟩ := spawner_live hl (sumT mu s.thr + 1) evs s hi (by omega)
  exact ⟨evs', s', runSp_append sp evs [] evs' _ s s' hr (by simpa using h1), h2, h3, h4⟩

/-- the default spawner (`go f()`; its runs are exactly the model's), a queueing pool of `w ≥ 1` workers
and inline execution (one closure at a time, the caller's `select` only after the cleanup closure) are
`Live`. -/
theorem standard_spawners_live :
    Live spDefault ∧ (∀ w, 1 ≤ w → Live (spPool w)) ∧ Live spInline ∧
    (∀ (evs hist : List Ev) (s s' : St), run s evs = some s' → runSp spDefault hist s evs = some s') :=
  ⟨live_default, live_pool, live_inline, run_runSp_default⟩

/-- **WITNESS of what the hypothesis excludes** (seeded change C10-1: the cleanup waiter handed to
`o.Go` before the callbacks, pool of ONE worker — `spWaiterFirstPool1`: the worker is parked in
`wg.Wait()`, so no queued callback begins while `wg ≠ 0`). Under that policy no schedule whatsoever
starts a callback or runs cleanup — all goroutines stay queued, `wg` stays charged — and the policy
is not `Live`. (The caller can then only return through its context.) -/
theorem spawner_waiter_first_pool1_witness :
    (∀ (evs hist : List Ev) (a s : St), (∀ t ∈ a.thr, t.st = .idle) → a.wg ≠ 0 → a.cleanup = 0 →
      runSp spWaiterFirstPool1 hist a evs = some s → s.thr = a.thr ∧ s.wg = a.wg ∧ s.cleanup = 0) ∧
    ¬ Live spWaiterFirstPool1 :=
  ⟨waiter_first_pool1_stuck, waiter_first_pool1_not_live⟩

/-! ### non-vacuity: concrete data meets the hypotheses -/

/-- two keys over four replicas, tolerance 1 each -/
def exGets : List GetRes := [.ok [0, 1, 2] 1, .ok [1, 2, 3] 1]

example : GoodGets exGets := by
  intro g hg addrs me h
  simp only [exGets, List.mem_cons, List.mem_nil_iff, or_false] at hg
  rcases hg with rfl | rfl <;> cases h <;> decide

def exPrep : Prep := { items := [mkItem [0, 1, 2] 1, mkItem [1, 2, 3] 1],
                       calls := [(0, [0]), (1, [0, 1]), (2, [0, 1]), (3, [1])], gets := 2 }

example : prepare 4 none exGets = .ok exPrep := by decide

/-- the empty key list now returns `nil` at once -/
example : prepare 3 none [] = .error { why := .emptyOk, gets := 0, cleanups := 1, calls := 0 } := by decide

def exOut : Nat → Outcome := fun a => if a = 0 then .server else .ok

/-- replica 1 and 2 succeed on both keys: `done` is sent after 2 of 3 acknowledgements per key -/
def exSchedule : List Ev :=
  [.start 1, .start 2, .ret 1, .tick 1, .tick 1, .tick 1, .tick 1, .tick 1,
   .ret 2, .tick 2, .tick 2, .tick 2, .tick 2, .tick 2, .recvDone]

example : ((run (initSt exPrep exOut) exSchedule).map fun s => (s.nDone, s.nErr, s.ret)) = some (1, 0, some .done) := by
  decide

/-- a failing run: replicas 0 and 1 return server errors -/
def exOut2 : Nat → Outcome := fun a => if a ≤ 1 then .server else .ok

example : ((run (initSt exPrep exOut2)
    [.start 0, .start 1, .ret 0, .tick 0, .tick 0, .tick 0, .ret 1, .tick 1, .tick 1, .tick 1, .tick 1, .recvErr]).map
      fun s => (s.nDone, s.nErr, s.ret)) = some (0, 1, some (.err (some 1))) := by
  decide

/-- the hypotheses of the link theorem are satisfiable: three instances numbered by their timestamp -/
def exW : C01.RSet :=
  { instances := [{ id := "a", ts := 0 }, { id := "b", ts := 1 }, { id := "c", ts := 2 }], maxErrors := 1 }
def exAid : Ring.Inst → Nat := fun x => x.ts.toNat

example : (∀ x ∈ exW.instances, ∀ y ∈ exW.instances, exAid x = exAid y → x = y) ∧ exW.instances.Nodup ∧
    exGets[0]? = some (.ok (exW.instances.map exAid) exW.maxErrors) := by decide

/-- the historic D2 witness on concrete data: cleanup ran, then nothing could make the caller return -/
example : ((run (initSt { items := [], calls := [], gets := 0 } exOut) [.cleanup]).map
    fun s => (s.cleanup, step s .recvDone, step s .recvErr, step s .recvCtx)) = some (1, none, none, none) := by
  decide

/-- the spawner section on concrete data. Pool of one worker (unchanged code: waiter queued LAST): replica 0
is called and finishes before replica 1 begins; a second `start` while one closure is in progress is refused. -/
example : ((runSp (spPool 1) [] (initSt exPrep exOut) [.start 0, .ret 0, .tick 0, .tick 0, .tick 0, .tick 0, .start 1]).map
    fun s => s.thr.map (·.st)) = some [.fin, .inCall, .idle, .idle] := by decide
example : runSp (spPool 1) [] (initSt exPrep exOut) [.start 0, .start 1] = none := by decide
/-- inline: the caller cannot reach its `select` before the cleanup closure has run -/
example : runSp spInline [] (initSt exPrep exOut) [.cancel, .recvCtx] = none := by decide
/-- the waiter-first single-worker pool on the example: initial state meets the witness' hypotheses -/
example : (∀ t ∈ (initSt exPrep exOut).thr, t.st = .idle) ∧ (initSt exPrep exOut).wg ≠ 0 ∧ (initSt exPrep exOut).cleanup = 0 := by
  decide
/-- the caller's context ends BETWEEN two hand-overs to the spawner (`start 0`, `cancel`, `start 1` …): a
run of the model; the caller returns the context error while calls are still outstanding, cleanup comes
after the last of them. -/
example : ((run (initSt exPrep exOut) [.start 0, .cancel, .start 1, .recvCtx, .start 2, .start 3]).map
    fun s => (s.ret, s.cleanup, (step s .cleanup).isSome)) = some (some .ctx, 0, false) := by decide

end PC10
