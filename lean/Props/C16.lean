import Model.C16
import Model.C16Partition
import Model.C16Ctor
import Generated.C16
import Proofs.C16
/-!
# C16 — property theorems (statements only; proofs in `Proofs/C16*.lean`)

Generated tokens are unique, untaken, sorted; the spread-minimising generator is reproducible,
zone-congruent and (up to the side condition below) collision free.

Everything is unbounded: every recorded random stream, every requested count, every taken set,
every instance index `n`, every zone index `z < 8`.

The finite part - for ids 0..2000 x zones 0..7 and every prefix, (a) the side condition of
`instances_disjoint_cond` never fires (`State.degenerate = false`), (b) the ownership spread is
<= 1 % - is kernel-checked for ids 0..16 (`finite_table`: a reflective checker over the model, proved
sound once, evaluated by `decide +kernel` for zone 0 and carried to all zones by `zone_translation`).
For ids 7..2000 it is **not** proved: it is
executed on the model and on the implementation and cross-checked by the judge on every run (a
test, tags `modelSideCondFired=no`, `worstPrefixSpread`). What a registered ownership means is
proved for all ids (`own_is_sum`, `total_ownership`, `new_instance_share`).
-/
namespace PC16
open C16

/-! ### The regenerated constants equal the model's (re-proved on every run). -/

theorem generated_constants :
    Generated.C16.totalTokensCount = totalTokensCount ∧
    Generated.C16.optimalTokensPerInstance = optimalTokensPerInstance ∧
    Generated.C16.maxZonesCount = maxZonesCount := by decide

/-- `generateFirstInstanceTokens` of the running code, zones 0..7, equals the model's. -/
theorem generated_first_tokens :
    Generated.C16.firstInstanceTokenChunks.map List.flatten = (List.range 8).map firstInstanceTokens := by
  decide +kernel

/-! ### Random generator (`RandomTokenGenerator.GenerateTokens`) -/

/-- Whatever the random stream: if the call returns, the tokens are strictly increasing (sorted, no
duplicate), none is taken, each was drawn from the stream, and there are exactly as many as
requested (none for a non-positive request). -/
theorem random_gen_contract (stream : List Nat) (requested : Int) (taken ts : List Nat)
    (h : genRandom stream requested taken = .ok ts) :
    ts.Pairwise (· < ·) ∧ (∀ t ∈ ts, t ∉ taken ∧ t ∈ stream) ∧ ts.length = requested.toNat :=
  PfC16.genRandom_ok stream requested taken ts h

/-- ... and it does return whenever the stream contains that many distinct free values ("whenever
that many free tokens exist" - the rejection loop only stops drawing when it has found them). -/
theorem random_gen_total (stream : List Nat) (requested : Int) (taken free : List Nat)
    (hn : free.Nodup) (hf : ∀ x ∈ free, x ∈ stream ∧ x ∉ taken) (hk : requested.toNat ≤ free.length) :
    ∃ ts, genRandom stream requested taken = .ok ts :=
  PfC16.genRandom_total stream requested taken free hn hf hk

/-- non-vacuity: a dense space {5,6} with 5 drawn twice and 7 taken. -/
example : ∃ ts, genRandom [5, 7, 5, 6] 2 [7] = .ok ts ∧ ts.Pairwise (· < ·) ∧ ts.length = 2 := by
  obtain ⟨ts, h⟩ := random_gen_total [5, 7, 5, 6] 2 [7] [5, 6] (by decide) (by decide) (by decide)
  exact ⟨ts, h, (random_gen_contract _ _ _ _ h).1, (random_gen_contract _ _ _ _ h).2.2⟩

/-! ### The priority queues: the Go `Less` is a strict total order on distinct keys -/

theorem less_irrefl (o : Int) (k : Nat) : less o k o k = false := PfC16.less_irrefl o k

theorem less_asymm (oi oj : Int) (ki kj : Nat) (h : less oi ki oj kj = true) :
    less oj kj oi ki = false := PfC16.less_asymm h

theorem less_trans (a b c : Int) (ka kb kc : Nat) (h1 : less a ka b kb = true)
    (h2 : less b kb c kc = true) : less a ka c kc = true := PfC16.less_trans h1 h2

theorem less_total (a b : Int) (ka kb : Nat) (h : ka ≠ kb) :
    less a ka b kb = true ∨ less b kb a ka = true := PfC16.less_total h

/-- two items neither of which beats the other have the same ownership and the same key: with
distinct keys the maximum of a queue is unique, so the heap's array layout is unobservable. -/
theorem less_max_unique (a b : Int) (ka kb : Nat) (h1 : less a ka b kb = false)
    (h2 : less b kb a ka = false) : a = b ∧ ka = kb := PfC16.less_max_unique h1 h2

/-- the root of a queue (heap) is a maximum of all its items: nothing in the queue beats it.
(instance queue and token queues) -/
theorem pq_top_is_max :
    (∀ (k : Nat) (l r : Heap Inst) (x : Inst), PfC16.IsHeap instHi (.node k l x r) →
      ∀ y ∈ (Heap.node k l x r).toList, instHi y x = false) ∧
    (∀ (k : Nat) (l r : Heap TokItem) (t : TokItem), PfC16.IsHeap tokHi (.node k l t r) →
      ∀ y ∈ (Heap.node k l t r).toList, tokHi y t = false) :=
  ⟨fun _ _ _ _ h => PfC16.heap_root_max PfC16.instHi_sw h,
   fun _ _ _ _ h => PfC16.heap_root_max PfC16.tokHi_sw h⟩

/-- the queue operations keep queues well formed and neither lose nor invent items
(`heap.Push` = `Heap.push`; `heap.Pop` / `heap.Fix` = `Heap.merge` of the root's subtrees). -/
theorem pq_ops_wellformed :
    (∀ (x : Inst) (h : Heap Inst), PfC16.IsHeap instHi h → PfC16.IsHeap instHi (Heap.push instHi x h)) ∧
    (∀ (x : Inst) (h : Heap Inst), (Heap.push instHi x h).toList.Perm (x :: h.toList)) ∧
    (∀ (a b : Heap Inst), PfC16.IsHeap instHi a → PfC16.IsHeap instHi b → PfC16.IsHeap instHi (Heap.merge instHi a b)) ∧
    (∀ (a b : Heap Inst), (Heap.merge instHi a b).toList.Perm (a.toList ++ b.toList)) ∧
    (∀ (t : TokItem) (h : Heap TokItem), PfC16.IsHeap tokHi h → PfC16.IsHeap tokHi (Heap.push tokHi t h)) ∧
    (∀ (t : TokItem) (h : Heap TokItem), (Heap.push tokHi t h).toList.Perm (t :: h.toList)) ∧
    (∀ (a b : Heap TokItem), PfC16.IsHeap tokHi a → PfC16.IsHeap tokHi b → PfC16.IsHeap tokHi (Heap.merge tokHi a b)) ∧
    (∀ (a b : Heap TokItem), (Heap.merge tokHi a b).toList.Perm (a.toList ++ b.toList)) :=
  ⟨fun x h => PfC16.isHeap_push PfC16.instHi_sw x h, fun x h => PfC16.perm_push instHi x h,
   fun a b => PfC16.isHeap_merge PfC16.instHi_sw a b, fun a b => PfC16.perm_merge instHi a b,
   fun t h => PfC16.isHeap_push PfC16.tokHi_sw t h, fun t h => PfC16.perm_push tokHi t h,
   fun a b => PfC16.isHeap_merge PfC16.tokHi_sw a b, fun a b => PfC16.perm_merge tokHi a b⟩

/-- in every state the generator reaches, the instance queue and every token queue are heaps - so
"root" in the model is always "the maximum under `Less`", which is all the Go code observes. -/
theorem queues_wellformed (n z : Nat) (hz : z < maxZonesCount) (s : State) (h : genUpTo z n = .ok s) :
    PfC16.IsHeap instHi s.instQ ∧ ∀ x ∈ s.instQ.toList, PfC16.IsHeap tokHi x.tq :=
  PfC16.queues_wellformed hz h

/-- `pick` recurses with a bound (one more than the number of instances); the bound is never hit:
`Err.fuel` is not a possible outcome, so the bound does not change what the model computes. -/
theorem fuel_unreachable (n z : Nat) : genUpTo z n ≠ .error .fuel := PfC16.genUpTo_no_fuel n

/-!
#### Does generation succeed?  (every contract theorem below is conditional on `… = .ok _`)

Proved for **all** `n`: the generator never ends in `panic` (no nil token queue is dereferenced) nor
in `fuel`. Not proved for all `n`: that it does not end in `outOfDomain`, `cannotAdd` or
`cannotCalc` - these depend on the arithmetic of the run (`optimalTokenOwnership ≥ 8`, the largest
instance being large enough, `curr ≤ 2^32/(n+1)`). Totality is kernel-checked for `n ≤ 6`
(`generation_total_table`) and executed for ids up to 2000 (judge rule `generation-failed`).
-/

/-- all `n`, all zones: a nil token queue is never dereferenced. -/
theorem panic_unreachable (n z : Nat) : genUpTo z n ≠ .error .panic := PfC16.genUpTo_no_panic n

/-- totality in the kernel-checked range: for `z < 8`, `n ≤ 6` the 512 tokens of instance `n` exist
and are strictly increasing (no duplicate), and `GenerateTokens` returns for every non-negative
request and every taken set. -/
theorem generation_total_table (z n : Nat) (hz : z < maxZonesCount) (hn : n ≤ PfC16.tableN) :
    ∃ all, generateAllTokens n z = .ok all ∧ all.length = 512 ∧ all.Pairwise (· < ·) ∧
      ∀ (requested : Int) (taken : List Nat), 0 ≤ requested →
        ∃ ts, generateTokens n z requested taken = .ok ts := PfC16.generation_total_table hz hn

/-- the instance queue holds exactly the instances `0..n`, each once: its keys are distinct (the
token queues' keys are the tokens, distinct by `instances_disjoint_cond`). -/
theorem inst_keys_distinct (n z : Nat) (s : State) (h : genUpTo z n = .ok s) :
    (s.instQ.toList.map (·.id)).Perm (List.range (n + 1)) := PfC16.ids_genUpTo n s h

/-! ### Spread-minimising generator: a pure function of (instance index, zone index) -/

/-- *Reproducible, whoever computes them*: the map computed by the generator of instance `n`
restricted to `0..k` is the map computed by the generator of instance `k` (`k ≤ n`). -/
theorem prefix_determinism (n k z : Nat) (hk : k ≤ n) (m : List (List Nat))
    (h : tokensByInstanceID n z = .ok m) :
    tokensByInstanceID k z = .ok (m.take (k + 1)) := PfC16.prefix_determinism hk h

/-- ... in particular instance `k`'s own generator yields exactly the (sorted) tokens that the
generator of any later instance `n` attributes to `k`. -/
theorem all_tokens_agree (n k z : Nat) (hk : k ≤ n) (m : List (List Nat))
    (h : tokensByInstanceID n z = .ok m) :
    m.length = n + 1 ∧ ∃ row, m[k]? = some row ∧ generateAllTokens k z = .ok (sortTokens row) := by
  have hl := PfC16.tokens_length h
  have hk' : k < m.length := by omega
  refine ⟨hl, m[k], List.getElem?_eq_getElem hk', ?_⟩
  have := PfC16.all_tokens_agree hk h
  simpa [List.getD_eq_getElem?_getD, List.getElem?_eq_getElem hk'] using this

/-- *Count and zone congruence*: the map has an entry for each of the instances `0..n`, each entry
has 512 tokens, every token is a `uint32` congruent to the zone index modulo `maxZonesCount`. -/
theorem zone_congruence (n z : Nat) (hz : z < maxZonesCount) (m : List (List Nat))
    (h : tokensByInstanceID n z = .ok m) :
    m.length = n + 1 ∧
    ∀ l ∈ m, l.length = optimalTokensPerInstance ∧ ∀ t ∈ l, t % maxZonesCount = z ∧ t < totalTokensCount :=
  PfC16.zone_congruence hz h

/-- tokens of different zones never coincide (any two instance indexes). -/
theorem zones_disjoint (n1 n2 z1 z2 : Nat) (hz1 : z1 < maxZonesCount) (hz2 : z2 < maxZonesCount)
    (hne : z1 ≠ z2) (m1 m2 : List (List Nat)) (h1 : tokensByInstanceID n1 z1 = .ok m1)
    (h2 : tokensByInstanceID n2 z2 = .ok m2) : ∀ l1 ∈ m1, ∀ l2 ∈ m2, ∀ t ∈ l1, t ∉ l2 :=
  PfC16.zones_disjoint hz1 hz2 hne h1 h2

/-- the sorted 512 tokens of an instance (`≤` only: duplicates are excluded by `all_tokens_strict`,
under the side condition). -/
theorem all_tokens_contract (n z : Nat) (hz : z < maxZonesCount) (all : List Nat)
    (h : generateAllTokens n z = .ok all) :
    all.length = 512 ∧ all.Pairwise (· ≤ ·) ∧ ∀ t ∈ all, t % 8 = z ∧ t < 4294967296 :=
  PfC16.all_tokens_contract hz h

/-!
#### Tokens of different instances never coincide — conditional

Full statement (NOT proved; it is what the judge evaluates for ids 0..2000):
  `∀ n z, z < 8 → tokensByInstanceID n z = .ok m → m.flatten.Nodup`.
`calculateNewToken` may return the upper end of the range it splits (an existing token) when the
"wrap" branch is taken with `ownership = optimalTokenOwnership + 8`; the algorithm does not check
this. The model records it in the ghost flag `State.degenerate`. Proved, for all `n`:
uniqueness of all tokens of all instances `0..n` holds **iff** that never happened.
-/

/-- all tokens of all instances `0..n` of a zone are pairwise different iff no
`calculateNewToken` returned the upper end of its range. -/
theorem instances_disjoint_cond (n z : Nat) (hz : z < maxZonesCount) (s : State)
    (h : genUpTo z n = .ok s) : s.toks.flatten.Nodup ↔ s.degenerate = false :=
  PfC16.instances_disjoint_iff hz h

/-- the side condition, exactly: the new token lies in the range `(prev, token]` it splits, keeps
the residue modulo 8, and coincides with `token` iff the wrap branch is taken with
`ownership = optimalTokenOwnership + maxZonesCount`. -/
theorem side_condition_exact (t : TokItem) (opt n : Nat) (h : calcNewToken t opt = .ok n)
    (hp : t.prev < totalTokensCount) (ht : t.token < totalTokensCount) :
    PfC16.inArc t.prev t.token n ∧ n % 8 = t.prev % 8 ∧
    (n = t.token ↔ ((4294967288 + 4294967296 - t.prev) % 4294967296 < opt ∧ t.own = opt + 8)) :=
  ⟨PfC16.calc_inArc h hp ht, (PfC16.calc_cong h hp ht).1, PfC16.calc_degenerate_iff h hp ht⟩

/-- with the side condition not fired the sorted tokens of an instance are strictly increasing. -/
theorem all_tokens_strict (n z : Nat) (hz : z < maxZonesCount) (s : State) (hs : genUpTo z n = .ok s)
    (hd : s.degenerate = false) (all : List Nat) (h : generateAllTokens n z = .ok all) :
    all.Pairwise (· < ·) := PfC16.all_tokens_strict hz hs hd h

/-- *Share of the instance being added* (the provable part of the 1 % claim, all `n`): unless the
side condition fired, the instance added last registers an ownership within `-7 .. +8` keys of the
optimum `2^32/(n+1)`, and that number is the total length of the ranges of its 512 tokens.
(That the *other* instances stay within 1 % is evaluated by the judge for every prefix, not proved.) -/
theorem new_instance_share (i z : Nat) (hz : z < maxZonesCount) (s : State)
    (h : genUpTo z (i + 1) = .ok s) (hd : s.degenerate = false) :
    ∃ x ∈ s.instQ.toList, x.id = i + 1 ∧
      ((totalTokensCount / (i + 2) : Nat) : Int) - 7 ≤ x.own ∧
      x.own ≤ ((totalTokensCount / (i + 2) : Nat) : Int) + 8 ∧
      x.own = (PfC16.ownSum x.tq : Int) := PfC16.new_instance_share hz h hd

/-!
#### The finite table, kernel-checked for ids 0..`PfC16.tableN` (= 16), all 8 zones, every prefix

`PfC16.checkZone0 N` runs the model's generator for zone 0 and checks every intermediate state;
`Proofs/C16/T0.lean` evaluates it in the kernel (`decide +kernel`; ~1 GB and ~17 s of kernel time
per instance - which is what bounds N), `PfC16.checkZone0_sound` turns the result into a statement
for every `n ≤ N`, and the translation theorem `zone_translation` carries it from zone 0 to every
zone. Ids 7..2000 remain *executed and cross-checked* by the oracle/judge.
-/

/-- *Zones are translations of zone 0* (all `n`): if the zone-0 generator for instance `n` never
produces the token `maxTokenValue = 2^32 - 8` (the only way to reach one of the two corner cases in
which `calculateNewToken` treats zones differently), then for every zone `z < 8` the generator
yields exactly the zone-0 tokens shifted by `z` - same donors, same ranges, same ownerships. The
result for a zone therefore depends on nothing but (instance index, zone index). -/
theorem zone_translation (n z : Nat) (hz : z < maxZonesCount) (m0 : List (List Nat))
    (h0 : tokensByInstanceID n 0 = .ok m0) (habs : PfC16.maxTokenValue ∉ m0.flatten) :
    tokensByInstanceID n z = .ok (m0.map (fun l => l.map (· + z))) :=
  PfC16.zone_translation hz h0 habs

/-- for every zone `z < 8` and every `n ≤ 6`: the generator for instance `n` succeeds, the side
condition has not fired, all tokens of instances `0..n` are pairwise different, and every
instance's registered share is at least 99 % of every other's (spread ≤ 1 %) - for the prefix
`0..n`, hence for every prefix. -/
theorem finite_table (z n : Nat) (hz : z < maxZonesCount) (hn : n ≤ PfC16.tableN) :
    ∃ s, genUpTo z n = .ok s ∧ s.degenerate = false ∧ s.toks.flatten.Nodup ∧
      ∀ x ∈ s.instQ.toList, ∀ y ∈ s.instQ.toList, 99 * x.own ≤ 100 * y.own := by
  obtain ⟨s, hs, hd, hsp⟩ := PfC16.finite_table hz hn
  exact ⟨s, hs, hd, (PfC16.instances_disjoint_iff hz hs).mpr hd, hsp⟩

/-- ... and in that range every zone's tokens are the zone-0 tokens shifted by the zone index. -/
theorem finite_table_shift (z n : Nat) (hz : z < maxZonesCount) (hn : n ≤ PfC16.tableN) :
    ∃ m0, tokensByInstanceID n 0 = .ok m0 ∧
      tokensByInstanceID n z = .ok (m0.map (fun l => l.map (· + z))) :=
  PfC16.finite_table_shift hz hn

/-- what `Inst.own` means (all `n`): unless the side condition fired, the registered ownership of
every instance is the total length of the ranges `(prev, token]` of its tokens (these ranges are
pairwise disjoint, see `PfC16.ItemsInv`). -/
theorem own_is_sum (n z : Nat) (hz : z < maxZonesCount) (s : State) (h : genUpTo z n = .ok s)
    (hd : s.degenerate = false) : ∀ x ∈ s.instQ.toList, x.own = (PfC16.ownSum x.tq : Int) :=
  PfC16.own_is_sum hz n s h hd

/-- the ranges of all tokens of all instances are pairwise disjoint and no range contains another
item's token (so `prev` is the token's predecessor on the ring and `(prev, token]` is exactly the
set of keys that token owns) - all `n`, unless the side condition fired. -/
theorem ranges_exclusive (n z : Nat) (hz : z < maxZonesCount) (s : State) (h : genUpTo z n = .ok s)
    (hd : s.degenerate = false) :
    (PfC16.instItems s.instQ.toList).Pairwise (fun a b =>
      PfC16.arcDisj a b ∧ ¬ PfC16.inArc a.prev a.token b.token ∧ ¬ PfC16.inArc b.prev b.token a.token) :=
  PfC16.ranges_exclusive hz h hd

/-- the side-condition flag is monotone: not fired for `n` implies not fired for any prefix `k ≤ n`
(so a statement "for `n`" under the side condition is a statement for every prefix). -/
theorem side_condition_monotone (n k z : Nat) (hk : k ≤ n) (s s' : State) (h : genUpTo z n = .ok s)
    (hd : s.degenerate = false) (h' : genUpTo z k = .ok s') : s'.degenerate = false :=
  PfC16.genUpTo_deg_mono n s h hd k hk s' h'

/-- ... and the registered ownerships of the instances `0..n` always add up to the whole ring. -/
theorem total_ownership (n z : Nat) (hz : z < maxZonesCount) (s : State) (h : genUpTo z n = .ok s) :
    PfC16.isum (s.instQ.toList.map (·.own)) = totalTokensCount :=
  PfC16.total_ownership hz n s h

/-- non-vacuity of the hypotheses above: zone 3, instances 0..1. -/
example : ∃ s, genUpTo 3 1 = .ok s ∧ s.degenerate = false ∧ s.toks.flatten.Nodup ∧ s.toks.length = 2 := by
  have h := PfC16.small_z3
  cases hs : genUpTo 3 1 with
  | error e => rw [hs] at h; cases h
  | ok s =>
    rw [hs] at h
    simp only [Except.map, Except.ok.injEq] at h
    exact ⟨s, rfl, h, (instances_disjoint_cond 1 3 (by decide) s hs).mpr h, (PfC16.genUpTo_prefix 1 s hs).1⟩

/-- non-vacuity of `prefix_determinism`, `zone_congruence`, `zones_disjoint`: zones 3 and 7,
instances 0..1 (kernel-evaluated runs of the model). -/
example : ∃ m3 m7, tokensByInstanceID 1 3 = .ok m3 ∧ tokensByInstanceID 1 7 = .ok m7 ∧
    tokensByInstanceID 0 3 = .ok (m3.take 1) ∧ m3.length = 2 ∧
    (∀ l1 ∈ m3, ∀ l2 ∈ m7, ∀ t ∈ l1, t ∉ l2) := by
  have h3 := PfC16.small_z3
  have h7 := PfC16.small_z7
  cases hs3 : genUpTo 3 1 with
  | error e => rw [hs3] at h3; cases h3
  | ok s3 =>
    cases hs7 : genUpTo 7 1 with
    | error e => rw [hs7] at h7; cases h7
    | ok s7 =>
      have e3 : tokensByInstanceID 1 3 = .ok s3.toks := by unfold tokensByInstanceID; rw [hs3]; rfl
      have e7 : tokensByInstanceID 1 7 = .ok s7.toks := by unfold tokensByInstanceID; rw [hs7]; rfl
      exact ⟨s3.toks, s7.toks, e3, e7, prefix_determinism 1 0 3 (by decide) _ e3,
        (zone_congruence 1 3 (by decide) _ e3).1,
        zones_disjoint 1 1 3 7 (by decide) (by decide) (by decide) _ _ e3 e7⟩

/-- non-vacuity of the queue statements: a two-item token heap whose root beats the other item. -/
example : PfC16.IsHeap tokHi (.node 1 (.node 1 .nil ⟨16, 8⟩ .nil) ⟨8, 4294967288⟩ .nil) :=
  ⟨by decide, by decide, ⟨by decide, by decide, trivial, trivial⟩, trivial⟩

/-! ### `SpreadMinimizingTokenGenerator.GenerateTokens` and partitions -/

/-- `GenerateTokens(requested, taken)` returns the first `requested` of the instance's 512 sorted
tokens that are not taken: a sub-list of them (hence sorted), nothing taken, and
`min(requested, number of free tokens among the 512)` many. -/
theorem spread_gen_contract (n z : Nat) (requested : Int) (taken ts : List Nat)
    (h : generateTokens n z requested taken = .ok ts) :
    ∃ all, generateAllTokens n z = .ok all ∧ 0 ≤ requested ∧
      ts = (all.filter (fun t => !taken.contains t)).take requested.toNat ∧
      ts.Sublist all ∧ ts.Pairwise (· ≤ ·) ∧ (∀ t ∈ ts, t ∉ taken) ∧
      ts.length = min requested.toNat (all.filter (fun t => !taken.contains t)).length := by
  obtain ⟨all, ha, hr, he⟩ := PfC16.generateTokens_ok h
  have hsub : ts.Sublist all := by rw [he]; exact (List.take_sublist _ _).trans List.filter_sublist
  refine ⟨all, ha, hr, he, hsub, (PfC16.all_tokens_sorted ha).sublist hsub, ?_, ?_⟩
  · intro t ht
    rw [he] at ht
    have := (List.mem_filter.mp (List.mem_of_mem_take ht)).2
    intro hm
    rw [List.contains_iff_mem.mpr hm] at this
    cases this
  · rw [he, List.length_take]

/-- *No duplicate* needs the side condition (the theorem above only gives `≤`): if it has not
fired for instance `n`, the returned tokens are strictly increasing. (Unconditional for `n ≤ 6`:
`generation_total_table`.) -/
theorem spread_gen_contract_strict (n z : Nat) (hz : z < maxZonesCount) (s : State)
    (hs : genUpTo z n = .ok s) (hd : s.degenerate = false) (requested : Int) (taken ts : List Nat)
    (h : generateTokens n z requested taken = .ok ts) : ts.Pairwise (· < ·) := by
  obtain ⟨all, ha, _, _, hsub, _⟩ := spread_gen_contract n z requested taken ts h
  exact (all_tokens_strict n z hz s hs hd all ha).sublist hsub

/-- it returns for every non-negative request whenever the instance's tokens can be generated
(which is proved for `n ≤ 6`, `generation_total_table`, and executed beyond). -/
theorem spread_gen_total (n z : Nat) (requested : Int) (taken all : List Nat)
    (ha : generateAllTokens n z = .ok all) (hr : 0 ≤ requested) :
    ∃ ts, generateTokens n z requested taken = .ok ts := PfC16.generateTokens_total taken ha hr

/-- non-vacuity: instance 1 of zone 3, 5 tokens requested, an arbitrary taken set. -/
example : ∃ ts, generateTokens 1 3 5 [11, 19] = .ok ts ∧ ts.length ≤ 5 ∧ ∀ t ∈ ts, t ∉ [11, 19] := by
  have h3 := PfC16.small_z3
  cases hs3 : genUpTo 3 1 with
  | error e => rw [hs3] at h3; cases h3
  | ok s3 =>
    have ea : generateAllTokens 1 3 = .ok (sortTokens (s3.toks.getD 1 [])) := by
      unfold generateAllTokens tokensByInstanceID; rw [hs3]; rfl
    obtain ⟨ts, hts⟩ := spread_gen_total 1 3 5 [11, 19] _ ea (by decide)
    obtain ⟨all, _, _, _, _, _, hu, hl⟩ := spread_gen_contract 1 3 5 [11, 19] ts hts
    exact ⟨ts, hts, by rw [hl]; exact Nat.min_le_left _ _, hu⟩

/-- `AddPartition(id)` stores exactly the sorted (`≤`; strictly under the side condition, see
`all_tokens_strict`) 512 tokens of instance `id` in zone 0 ... -/
theorem partition_tokens (id : Nat) (ts : List Nat) (h : partitionTokens id = .ok ts) :
    generateAllTokens id 0 = .ok ts ∧ ts.length = 512 ∧ ts.Pairwise (· ≤ ·) := by
  have h0 := PfC16.partition_eq (by decide) h
  exact ⟨h0, (PfC16.all_tokens_contract (by decide) h0).1, (PfC16.all_tokens_contract (by decide) h0).2.1⟩

/-- ... and two partitions never share a token (same side condition, at the larger id). -/
theorem partitions_disjoint_cond (i j : Nat) (hij : i < j) (s : State) (hs : genUpTo 0 j = .ok s)
    (hd : s.degenerate = false) (a b : List Nat) (ha : partitionTokens i = .ok a)
    (hb : partitionTokens j = .ok b) : ∀ t ∈ a, t ∉ b := PfC16.partitions_disjoint hij hs hd ha hb

/-- non-vacuity: partitions 0 and 1. -/
example : ∃ s, genUpTo 0 1 = .ok s ∧ s.degenerate = false := by
  have h := PfC16.small_z0
  cases hs : genUpTo 0 1 with
  | error e => rw [hs] at h; cases h
  | ok s => rw [hs] at h; simp only [Except.map, Except.ok.injEq] at h; exact ⟨s, rfl, h⟩

/-! ### `PartitionRingDesc.AddPartition` on the descriptor model -/

/-- `AddPartition(id, state, now)` stores an entry whose tokens are a function of `id` alone - the
sorted 512 tokens of instance `id`, zone 0 - whatever the descriptor, the state and the clock;
every other partition and all owners are untouched. -/
theorem add_partition_tokens (d d' : C14.PDesc) (id : Int) (st : Nat) (now : Int)
    (h : addPartition d id st now = .ok d') :
    0 ≤ id ∧ ∃ ts, generateAllTokens id.toNat 0 = .ok ts ∧ ts.length = 512 ∧ ts.Pairwise (· ≤ ·) ∧
      d'.get? id = some { id := id, state := st, stateTs := now, tokens := ts } ∧
      (∀ j, j ≠ id → d'.get? j = d.get? j) ∧ d'.owners = d.owners := by
  obtain ⟨h0, ts, hts, h1, h2, h3⟩ := PfC16.addPartition_ok h
  obtain ⟨e, l, p⟩ := partition_tokens _ _ hts
  exact ⟨h0, ts, e, l, p, h1, h2, h3⟩

/-- hence two descriptors, states, clocks: same id, same tokens. -/
theorem add_partition_pure (d1 d2 d1' d2' : C14.PDesc) (id : Int) (s1 s2 : Nat) (n1 n2 : Int)
    (h1 : addPartition d1 id s1 n1 = .ok d1') (h2 : addPartition d2 id s2 n2 = .ok d2') :
    (d1'.get? id).map (·.tokens) = (d2'.get? id).map (·.tokens) := by
  obtain ⟨_, t1, e1, g1, _⟩ := PfC16.addPartition_ok h1
  obtain ⟨_, t2, e2, g2, _⟩ := PfC16.addPartition_ok h2
  rw [e1] at e2; cases e2
  rw [g1, g2]; rfl

/-- it succeeds for every non-negative id whose tokens can be generated (non-vacuity: id 1). -/
theorem add_partition_total (d : C14.PDesc) (id : Int) (st : Nat) (now : Int) (hid : 0 ≤ id)
    (ts : List Nat) (hts : partitionTokens id.toNat = .ok ts) :
    ∃ d', addPartition d id st now = .ok d' := PfC16.addPartition_total d st now hid hts

example : ∃ d', addPartition {} 1 2 1700000000 = .ok d' := by
  obtain ⟨s, hs, _⟩ := PfC16.finite_table (z := 0) (n := 1) (by decide) (by decide)
  have ea : generateAllTokens 1 0 = .ok (sortTokens (s.toks.getD 1 [])) := by
    unfold generateAllTokens tokensByInstanceID; rw [hs]; rfl
  obtain ⟨ts, hts⟩ := spread_gen_total 1 0 512 [] _ ea (by decide)
  exact add_partition_total {} 1 2 1700000000 (by decide) ts hts

/-! ### `NewSpreadMinimizingTokenGenerator`: only configured zones get a zone index -/

/-- if the constructor succeeds, the zone list has 1..8 entries, the instance's zone IS one of the
configured zones and the zone index is its position in the sorted list - a zone that is not
configured (misspelt, empty) is refused, wherever it would sort. -/
theorem ctor_zone_index (inst zone : String) (zones : List String) (n k : Nat)
    (h : newGenerator inst zone zones = .ok (n, k)) :
    0 < zones.length ∧ zones.length ≤ maxZonesCount ∧ (sortZones zones)[k]? = some zone ∧
      zone ∈ zones ∧ k < zones.length := PfC16.newGenerator_ok h

/-- the lookup on an already sorted list: found at its position / refused when absent, also when
the name sorts between two configured zones. -/
example : findZoneID "zone-b" ["zone-a", "zone-b", "zone-c"] = .ok 1 ∧
    findZoneID "zone-ab" ["zone-a", "zone-b", "zone-c"] = .error .zoneNotValid ∧
    findZoneID "" ["zone-a", "zone-b", "zone-c"] = .error .zoneNotValid := by
  refine ⟨?_, ?_, ?_⟩ <;> decide

end PC16
