import Model.C14
import Proofs.C14
/-!
# C14 — reported token ranges coincide with key ownership and tile the key space

Statements only; proofs live in `Proofs/C14.lean` and `Proofs/C14/*.lean`.

Vocabulary (`PfC14`): `covers tr k` — `k` lies in one of the closed `[start,end]` pairs of the flat
list; `IsSucc T k t` — `t` is the first token of `T` strictly after `k` on the circle (the smallest
token `> k`, else the smallest token); `WFP` / `WFR` — well-formed partition / instance ring (unique
ids, ascending per-owner token lists, one owner per token, tokens `≤ 2^32-1`); `Asc`/`SAsc` —
(strictly) ascending. Everything is quantified over ALL rings / keys `≤ 2^32-1`, so it includes key 0,
tokens 0, 1, 2^32-1 and the wrap-around.
-/
namespace PC14
open C14 Ring PfC14

/-! ### IncludesKey -/

/-- `TokenRanges.IncludesKey` is membership in the closed ranges, for every ascending even-length
range list (duplicates and degenerate `[x,x]` ranges included). -/
theorem includes_iff_interval (tr : List Nat) (k : Nat) (hs : Asc tr) (he : tr.length % 2 = 0) :
    includesKey tr k = true ↔ covers tr k :=
  includes_iff_covers tr k hs he

example : Asc [0, 0, 5, 5, 5, 9] ∧ [0, 0, 5, 5, 5, 9].length % 2 = 0 ∧ covers [0, 0, 5, 5, 5, 9] 5 := by decide

/-! ### Partitions -/

/-- `GetTokenRangesForPartition` succeeds on every well-formed ring and its ranges contain a key
exactly when the first ring token strictly after the key belongs to the partition. -/
theorem partition_ranges_exact (d : PDesc) (h : WFP d) (p : Part) (hp : p ∈ d.parts) :
    ∃ tr, rangesForPartition d p.id = .ok tr ∧ tr.length % 2 = 0 ∧ Asc tr ∧
      ∀ k, k ≤ maxU32 → (includesKey tr k = true ↔ ∃ t ∈ p.tokens, IsSucc d.ringTokens k t) :=
  rangesForPartition_exact d h p hp

/-- `ActivePartitionForKey` returns `pid` exactly when `pid` is an ACTIVE partition owning the first
token strictly after the key among the tokens of ACTIVE partitions (all sizes, all state mixes). -/
theorem partition_lookup_exact (d : PDesc) (h : WFP d) (k : Nat) (pid : Int) :
    activeFor d k = .ok pid ↔
      ∃ p ∈ d.parts, p.id = pid ∧ p.isActive = true ∧ ∃ t ∈ p.tokens, IsSucc (activeTokens d) k t :=
  activeFor_ok_iff d h k pid

/-- With all partitions ACTIVE the reported ranges coincide exactly with the lookup. -/
theorem partition_ranges_lookup (d : PDesc) (h : WFP d) (hall : ∀ p ∈ d.parts, p.isActive = true)
    (p : Part) (hp : p ∈ d.parts) :
    ∃ tr, rangesForPartition d p.id = .ok tr ∧
      ∀ k, k ≤ maxU32 → (includesKey tr k = true ↔ activeFor d k = .ok p.id) :=
  ranges_lookup_allActive d h hall p hp

/-- With partition states: `GetTokenRangesForPartition` ignores states (as documented); on the
ACTIVE-only sub-ring (`WithPartitions(active)`) its ranges coincide exactly with the lookup on the
full ring, for every ACTIVE partition. -/
theorem partition_ranges_active_subring (d : PDesc) (h : WFP d) (p : Part) (hp : p ∈ d.parts)
    (ha : p.isActive = true) :
    ∃ tr, rangesForPartition d.activeOnly p.id = .ok tr ∧
      ∀ k, k ≤ maxU32 → (includesKey tr k = true ↔ activeFor d k = .ok p.id) :=
  ranges_activeOnly_lookup d h p hp ha

/-- The ranges of all partitions tile the key space: every key lies in the ranges of exactly one
partition (no gap, no overlap). -/
theorem partition_tiling (d : PDesc) (h : WFP d) (hne : d.ringTokens ≠ []) (k : Nat) (hk : k ≤ maxU32) :
    ∃ p ∈ d.parts, (∃ tr, rangesForPartition d p.id = .ok tr ∧ includesKey tr k = true) ∧
      ∀ q ∈ d.parts, (∃ tr, rangesForPartition d q.id = .ok tr ∧ includesKey tr k = true) → q = p :=
  PfC14.partition_tiling d h hne k hk

/-- non-vacuity: a well-formed ring with tokens 0, 1 and 2^32-1, mixed states. -/
def pdEx : PDesc :=
  { parts := [{ id := 0, state := 2, tokens := [0, 4294967295] }, { id := 1, state := 3, tokens := [1] },
              { id := 7, state := 2, tokens := [2, 4294967293] }] }
example : WFP pdEx := ⟨by decide, by decide, by decide, by decide⟩

/-! ### Instances (zone-aware ring, replication factor = number of zones) -/

/-- The zone-restricted lookup (`Ring.Get` with one replica per zone) returns the instance exactly
when the first token of its zone strictly after the key is one of the instance's tokens. -/
theorem zoneOwner_is_lookup (d : Desc) (h : WFR d) (inst : Inst) (hi : inst ∈ d) (k : Nat) :
    lookupInZone d inst.zone k = some inst.id ↔ ∃ t ∈ inst.tokens, IsSucc (zoneToks d inst.zone) k t :=
  lookupInZone_iff d h inst hi k

/-- **Tie to C01's model of `Ring.Get`.** In a zone-aware ring whose instances all carry a zone, for an
operation under which no instance extends the replica set: the loop of `findInstancesForKey` returns
`C01.specWalked` (C01's `walk_eq_spec`), every member of it is the instance `lookupInZone` returns for
its zone, and — when the replication factor covers all zones (`rf = #zones` in particular) — conversely the
`lookupInZone` owner of every zone is a member. So "the lookup assigns the key to the instance" in the
theorems below IS membership in the replication set walked by `Ring.Get`. -/
theorem zone_lookup_is_ring_get (cfg : C01.Cfg) (op : C01.Op) (d : Desc) (hz : ZoneRing cfg op d) (hrf : 1 ≤ cfg.rf)
    (key : Nat) :
    C01.findInstancesForKey cfg d (C01.sortedTokens d) key op cfg.rf = .ok (C01.specWalked cfg op d key) ∧
    (∀ x ∈ C01.specWalked cfg op d key, lookupInZone d x.zone key = some x.id) ∧
    ((zonesOf d).length ≤ cfg.rf → ∀ inst ∈ d, lookupInZone d inst.zone key = some inst.id →
      inst ∈ C01.specWalked cfg op d key) :=
  ⟨PfC01.walk_eq_spec cfg d key op hz.wf hrf, fun x hx => walked_is_lookup cfg op d hz key x hx,
   fun hle inst hi hl => lookup_is_walked cfg op d hz hle key inst hi hl⟩

def dTie : Desc :=
  [{ id := "a", zone := "x", tokens := [0, 7] }, { id := "b", zone := "x", tokens := [1, 4294967295] },
   { id := "c", zone := "y", tokens := [3, 4294967294] }]
example : ZoneRing { rf := 2, zoneAware := true } C01.opWrite dTie := ⟨by decide, rfl, by decide, by decide⟩

/-- **THE HEADLINE, as one theorem.** On a `QuantRing cfg op now d` — ONE predicate: the descriptor is well-formed
(`WFR`), the ring is zone-aware with replication factor = number of zones, every instance is in a zone, every
zone holds a token, and every instance is healthy and non-extending for the operation — for every registered
instance `GetTokenRangesForInstance` returns an ascending list of closed ranges that contains a key EXACTLY
WHEN the instance is a member of the replication set `Ring.Get` returns for that key (C01's `get`: the walk of
`findInstancesForKey` followed by the health filter and quorum arithmetic, on the sorted token circle). -/
theorem ranges_iff_get (cfg : C01.Cfg) (op : C01.Op) (now : Int) (d : Desc) (q : QuantRing cfg op now d)
    (inst : Inst) (hi : inst ∈ d) :
    ∃ tr, rangesForInstance d cfg.zoneAware cfg.rf inst.id = .ok tr ∧ tr.length % 2 = 0 ∧ Asc tr ∧
      ∀ k, k ≤ maxU32 → (includesKey tr k = true ↔
        ∃ rs, C01.get cfg d (C01.sortedTokens d) k op now = .ok rs ∧ inst ∈ rs.instances) :=
  PfC14.ranges_iff_get cfg op now d q inst hi

/-- non-vacuity: a two-zone ring with tokens 0, 1, 2^32-1 meets every hypothesis (`Write`, all ACTIVE and fresh) -/
example : QuantRing { rf := 2, zoneAware := true } C01.opWrite 0 dTie := by
  refine ⟨⟨by decide, by decide, by decide, by decide⟩, rfl, by decide, by decide, ?_, by decide, by decide⟩
  intro z hz
  have : z = "x" ∨ z = "y" := by
    have : zonesOf dTie = ["x", "y"] := by decide
    rw [this] at hz; simpa using hz
  rcases this with rfl | rfl <;>
    simp [zoneTokens, tokenInsts, dTie, List.mergeSort, List.MergeSort.Internal.splitInTwo]

/-- `WFR` is stronger than C01's/C05's well-formedness (it adds ascending token lists and the 32-bit bound) -/
theorem wfr_implies_c01_wf (d : Desc) (h : WFR d) : C01.WFRing d := wfr_wfring h

/-- **ring-level zone tiling**: on a well-formed ring, in every zone that holds a token, every key is in the
ranges `GetTokenRangesForInstance` reports for exactly one instance of that zone (no gap, no overlap). -/
theorem instance_zone_tiling (d : Desc) (h : WFR d) (z : String) (hz : z ≠ "") (hne : zoneTokens d z ≠ [])
    (k : Nat) (hk : k ≤ maxU32) :
    ∃ inst ∈ d, inst.zone = z ∧
      (∃ tr, rangesForInstance d true (zonesOf d).length inst.id = .ok tr ∧ includesKey tr k = true) ∧
      ∀ j ∈ d, j.zone = z → (∃ tr, rangesForInstance d true (zonesOf d).length j.id = .ok tr ∧ includesKey tr k = true) →
        j = inst :=
  PfC14.instance_zone_tiling d h z hz hne k hk

/-! ### Beyond the quantified case: any operation, instances that extend the replica set

Token ranges ignore instance state and health; `Ring.Get` does not. `ZoneRingAny`: well-formed, zone-aware,
every instance in a zone (no assumption on states, health or the operation). `zoneHit op x y`: `y` is in
`x`'s zone and either does not extend the replica set under `op` or is `x` itself. (`rf ≠ #zones` needs no
statement: `GetTokenRangesForInstance` then returns the configuration error and claims nothing.) -/

/-- **zone members of the walk, any operation**: `x` is in C01's full zone-aware walk iff the first instance
met on the circle that is a `zoneHit` for `x` is `x`: a zone contributes its extending instances up to and
including its first non-extending one. -/
theorem walk_zone_members (cfg : C01.Cfg) (op : C01.Op) (d : Desc) (hz : ZoneRingAny cfg d) (key : Nat) (x : Inst) :
    x ∈ C01.Sfull cfg op d key ↔ ((C01.circle d key).map (·.2)).find? (zoneHit op x) = some x :=
  mem_Sfull_iff_gen cfg op d hz key x

/-- the token-range owner (the owner of the first zone token after the key) is always in the full walk … -/
theorem range_owner_always_walked (cfg : C01.Cfg) (op : C01.Op) (d : Desc) (hz : ZoneRingAny cfg d) (key : Nat) (x : Inst)
    (hx : x ∈ d) (hl : lookupInZone d x.zone key = some x.id) : x ∈ C01.Sfull cfg op d key :=
  lookup_owner_in_Sfull cfg op d hz key x hx hl

/-- … if it does not extend the replica set it is the only instance of its zone there (ranges and `Get`
agree on that zone, whatever the other zones look like) … -/
theorem get_agrees_with_ranges_when_owner_does_not_extend (cfg : C01.Cfg) (op : C01.Op) (d : Desc)
    (hz : ZoneRingAny cfg d) (key : Nat) (x : Inst) (hx : x ∈ d) (hl : lookupInZone d x.zone key = some x.id)
    (hne : C01.extendsOn op x.state = false) (y : Inst) (hy : y ∈ C01.Sfull cfg op d key) (hzy : y.zone = x.zone) :
    y = x :=
  nonextending_owner_sole cfg op d hz key x hx hl hne y hy hzy

/-- … and where the owner extends, the first non-extending instance of the zone is walked too, although the
key lies outside its token ranges: exactly there the two notions of ownership diverge. -/
theorem get_takes_next_instance_when_owner_extends (cfg : C01.Cfg) (op : C01.Op) (d : Desc) (hz : ZoneRingAny cfg d)
    (key : Nat) (y : Inst)
    (hfirst : ((C01.circle d key).map (·.2)).find? (fun z => z.zone == y.zone && !C01.extendsOn op z.state) = some y) :
    y ∈ C01.Sfull cfg op d key :=
  extending_owner_second_member cfg op d hz key y hfirst

/-- WITNESS of the divergence (by design, not a defect): zone a holds token 10 of `A` (LEAVING) and token 20 of
`B`, zone b token 15 of `C`; rf = 2. Key 5 is in `A`'s reported ranges and not in `B`'s, but `Get(5, Write)`
walks `A, C, B` and returns `{C, B}`: `A` extends the replica set and is not healthy for `Write`. -/
theorem ranges_vs_get_divergence_witness :
    ZoneRingAny cfgDiverge dDiverge ∧
    rangesForInstance dDiverge true 2 "A" = .ok [0, 9, 20, 4294967295] ∧ includesKey [0, 9, 20, 4294967295] 5 = true ∧
    rangesForInstance dDiverge true 2 "B" = .ok [10, 19] ∧ includesKey [10, 19] 5 = false ∧
    (C01.specWalked cfgDiverge C01.opWrite dDiverge 5).map (·.id) = ["A", "C", "B"] ∧
    (C01.specGet cfgDiverge C01.opWrite dDiverge 5 0).ok = true ∧
    (C01.specGet cfgDiverge C01.opWrite dDiverge 5 0).instances.map (·.id) = ["C", "B"] :=
  ⟨⟨by decide, rfl, by decide⟩, diverge_ranges_A, by decide, diverge_ranges_B, by decide, diverge_get.1, diverge_get.2.1, diverge_get.2.2⟩

/-! ### The `ErrInconsistentTokensInfo` returns

`rangesForInstanceIdx` / `buildLookupsIdx` are the functions over the ring's CACHED indexes
(`ringTokensByZone`, `ringInstanceByToken`; `ringTokens`, `partitionByToken`, the partition map) as explicit
arguments that may disagree — these variants CAN return the error. -/

/-- **exactly when** `GetTokenRangesForInstance` returns `ErrInconsistentTokensInfo`: the call passes the
configuration checks and some token of the zone's cached token list has no entry in the cached
token→instance index. -/
theorem ranges_inconsistent_iff_index_gap (walk : List (Nat × Bool) → List Nat) (d : Desc) (nz : Nat)
    (tbz : String → List Nat) (byTok : Nat → Option Inst) (za : Bool) (rf : Nat) (id : String) :
    rangesForInstanceIdx walk d nz tbz byTok za rf id = .error .inconsistent ↔
      ∃ inst, d.get? id = some inst ∧ inst.zone ≠ "" ∧ za = true ∧ rf = nz ∧ tbz inst.zone ≠ [] ∧
        ∃ t ∈ tbz inst.zone, byTok t = none :=
  rangesIdx_inconsistent_iff walk d nz tbz byTok za rf id

/-- the branch is reachable on the checked variant: an index that lacks token 7 -/
theorem ranges_inconsistent_witness :
    rangesForInstanceIdx instRangesOf [{ id := "a", zone := "z", tokens := [7] }] 1 (fun _ => [7]) (fun _ => none) true 1 "a"
      = .error .inconsistent := by decide

/-- **exactly when** `NewPartitionRing` returns `ErrInconsistentTokensInfo`: a ring token without an entry in
`partitionByToken`, or whose partition id is missing from the partition map. -/
theorem partition_ring_inconsistent_iff_index_gap (toks : List Nat) (byTok : Nat → Option Int)
    (getPart : Int → Option Part) :
    buildLookupsIdx toks byTok getPart = .error .inconsistent ↔
      ∃ t ∈ toks, byTok t = none ∨ ∃ pid, byTok t = some pid ∧ getPart pid = none :=
  buildLookupsIdx_inconsistent_iff toks byTok getPart

theorem partition_ring_inconsistent_witness :
    buildLookupsIdx [7] (fun _ => some 3) (fun _ => none) = .error .inconsistent := by decide

/-- COROLLARY for indexes that are all derived from ONE descriptor, as `setRingStateFromDesc` derives them (that
the cached fields of a long-lived client do stay in step with the descriptor is C13's subject; that every
reachable descriptor is well-formed is C05's): then no token of a zone list can lack an entry, for any
descriptor, configuration and instance id. True by construction of the derived indexes — a sanity statement
about the model's derivation, not additional coverage of the code. -/
theorem ranges_never_inconsistent (d : Desc) (za : Bool) (rf : Nat) (id : String) :
    rangesForInstance d za rf id ≠ .error .inconsistent ∧ rangesForInstance d za rf id ≠ .error .panic :=
  rangesForInstanceWith_consistent instRangesOf d za rf id

/-- On a well-formed ring (`C01.WFRing`: unique ids, no token registered twice — what C05 proves of every
reachable descriptor), zone-aware with `rf = #zones`, for a registered instance whose zone is set and holds
tokens, `GetTokenRangesForInstance` returns ranges: no error return is taken at all. -/
theorem ranges_total_on_wf (d : Desc) (hwf : C01.WFRing d) (inst : Inst) (hi : inst ∈ d)
    (hz : inst.zone ≠ "") (hne : zoneTokens d inst.zone ≠ []) :
    ∃ tr, rangesForInstance d true (zonesOf d).length inst.id = .ok tr :=
  rangesForInstance_ok_on_wf d hwf inst hi hz hne

example : C01.WFRing dTie ∧ zoneTokens dTie "x" ≠ [] := by
  refine ⟨by decide, ?_⟩
  simp [zoneTokens, tokenInsts, dTie, List.mergeSort, List.MergeSort.Internal.splitInTwo]

/-- the same COROLLARY for `NewPartitionRing`, which derives its three arguments from the one descriptor it is given
(again true by construction; the code-relevant statement is `partition_ring_inconsistent_iff_index_gap`) … -/
theorem partition_ring_never_inconsistent (d : PDesc) : ∃ l, buildLookups d = .ok l :=
  buildLookups_ok d

/-- … and on a well-formed one the slices it builds are the `(token, partition, active)` list that
`ActivePartitionForKey` walks; `GetTokenRangesForPartition` then never returns `ErrInconsistentTokensInfo`
for an existing partition, and `ActivePartitionForKey` has the single error "no active partition". -/
theorem partition_ranges_total_on_wf (d : PDesc) (h : WFP d) :
    buildLookups d = .ok (d.tokenParts.map fun x => (x.1, x.2.id, x.2.isActive)) ∧
    (∀ p ∈ d.parts, rangesForPartition d p.id ≠ .error .inconsistent ∧ rangesForPartition d p.id ≠ .error .panic) ∧
    (∀ k e, activeFor d k = .error e → e = .noActivePartition) :=
  ⟨buildLookups_eq d h, fun p hp => rangesForPartition_consistent d h p hp, fun k e he => activeFor_error_class d k e he⟩

/-- **`GetTokenRangesForInstance` is exact** on every well-formed zone-aware ring with `rf = #zones`:
it succeeds whenever the instance's zone holds a token, the reported list is ascending and of even length (the
hypotheses of `includes_iff_interval`), and the reported ranges contain a key exactly
when the lookup inside the instance's zone returns the instance — including key 0, tokens 0, 1,
2^32-1 and the wrap-around. -/
theorem instance_ranges_exact (d : Desc) (h : WFR d) (inst : Inst) (hi : inst ∈ d) (hz : inst.zone ≠ "")
    (hne : zoneTokens d inst.zone ≠ []) :
    ∃ tr, rangesForInstance d true (zonesOf d).length inst.id = .ok tr ∧ tr.length % 2 = 0 ∧ Asc tr ∧
      ∀ k, k ≤ maxU32 → (includesKey tr k = true ↔ lookupInZone d inst.zone k = some inst.id) :=
  rangesForInstance_exact_shape d h inst hi hz hne

/-- the same at the level of the walk: for EVERY strictly ascending zone token list with "mine" flags. -/
theorem instance_ranges_exact_walk (zt : List (Nat × Bool)) (hs : SAsc (zt.map (·.1)))
    (hb : ∀ p ∈ zt, p.1 ≤ maxU32) (k : Nat) (hk : k ≤ maxU32) :
    includesKey (instRangesOf zt) k = true ↔ ∃ t, IsSucc (zt.map (·.1)) k t ∧ (t, true) ∈ zt :=
  inst_exact zt hs hb k hk

/-- **zone tiling**: every key is in the ranges of exactly one instance of the zone (no gap, no overlap). -/
theorem zone_tiling (zt : List (Nat × String)) (hs : SAsc (zt.map (·.1))) (hb : ∀ p ∈ zt, p.1 ≤ maxU32)
    (hne : zt ≠ []) (k : Nat) (hk : k ≤ maxU32) :
    ∃ o, includesKey (instRangesOf (flagsFor zt o)) k = true ∧
      ∀ o', includesKey (instRangesOf (flagsFor zt o')) k = true → o' = o :=
  zone_tiling_cur zt hs hb hne k hk

/-- non-vacuity: a two-zone ring with tokens 0, 1, 2^32-1, and the layout that used to fail. -/
def dEx : Desc :=
  [{ id := "a", zone := "x", tokens := [0, 7] }, { id := "b", zone := "x", tokens := [1, 4294967295] },
   { id := "c", zone := "y", tokens := [3, 4294967294] }]
example : WFR dEx := ⟨by decide, by decide, by decide, by decide⟩
example : WFR dWitness := witness_wf
example : instRangesOf [(0, false), (1, true), (100, false)] = [0, 0] := by decide
example : SAsc ([(0, "a"), (1, "b"), (4294967295, "a")].map (·.1)) := by decide

/-! ### History of the fixed defect (commit 9068690)

Before the fix the walk used `rangeEnd == 0` as "no range end", which collides with the real range end
`1 - 1 = 0`. `instRangesOfOld` / `rangesForInstanceOld` are the definitions of that old walk; the
statements below are about them and remain true. `bad zt` is the exact class of zone layouts on which
the old walk was wrong: the zone holds token 0, the instance owns token 1, and the token following 1 on
the circle belongs to another instance. -/

/-- WITNESS: zone tokens `{0:B, 1:A, 100:B}`. The lookup assigns key 0 to `A`, but the old walk reported
no ranges for `A` and `[1, 2^32-1]` for `B`: key 0 was in nobody's ranges. The fixed walk reports `[0,0]`. -/
theorem old_walk_sentinel_witness :
    WFR dWitness ∧
    lookupInZone dWitness "z" 0 = some "A" ∧
    rangesForInstanceOld dWitness true 1 "A" = .ok [] ∧
    rangesForInstanceOld dWitness true 1 "B" = .ok [1, 4294967295] ∧
    includesKey [] 0 = false ∧ includesKey [1, 4294967295] 0 = false ∧
    bad (zoneFlags dWitness "z" "A") = true ∧
    rangesForInstance dWitness true 1 "A" = .ok [0, 0] := by
  refine ⟨witness_wf, witness_lookup, witness_ranges, witness_ranges_B, by decide, by decide, ?_, witness_ranges_new⟩
  rw [zoneFlags, witness_zoneTokens]; decide

/-- the old walk computed the same ranges as the fixed one unless the layout is `bad` … -/
theorem sentinel_agrees_unless_bad (zt : List (Nat × Bool)) (hs : SAsc (zt.map (·.1))) (hbad : bad zt = false) :
    instRangesOfOld zt = instRangesOf zt :=
  instRangesOfOld_eq zt hs hbad

/-- … and on EVERY `bad` layout (any size, any other tokens) it left key 0 uncovered although the lookup
assigns key 0 to the instance (token 1 is the first token after key 0 and the instance owns it). -/
theorem sentinel_gap_on_every_bad_layout (zt : List (Nat × Bool)) (hs : SAsc (zt.map (·.1))) (hbad : bad zt = true) :
    includesKey (instRangesOfOld zt) 0 = false ∧ IsSucc (zt.map (·.1)) 0 1 ∧ (1, true) ∈ zt :=
  bad_gap zt hs hbad

end PC14
