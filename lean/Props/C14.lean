import Model.C14
import Proofs.C14
/-!
# C14 — reported token ranges coincide with key ownership and tile the key space

Statements only; proofs live in `Proofs/C14.lean` and `Proofs/C14/*.lean`.

Vocabulary (`PfC14`): `covers tr k` — `k` lies in one of the closed `[start,end]` pairs of the flat
list; `IsSucc T k t` — `t` is the first token of `T` strictly after `k` on the circle (the smallest
token `> k`, else the smallest token); `WFP` / `WFR` — well-formed partition / instance ring (unique
ids, ascending per-owner token lists, one owner per token, tokens `≤ 2^32-1`); `Asc`/`SAsc` —
(strictly) ascending. Everything is quantified over ALL rings / keys `≤ 2^32-1`, so it includes key 0,
tokens 0, 1, 2^32-1 and the wrap-around.
-/
namespace PC14
open C14 Ring PfC14

/-! ### IncludesKey -/

/-- `TokenRanges.IncludesKey` is membership in the closed ranges, for every ascending even-length
range list (duplicates and degenerate `[x,x]` ranges included). -/
theorem includes_iff_interval (tr : List Nat) (k : Nat) (hs : Asc tr) (he : tr.length % 2 = 0) :
    includesKey tr k = true ↔ covers tr k :=
  includes_iff_covers tr k hs he

example : Asc [0, 0, 5, 5, 5, 9] ∧ [0, 0, 5, 5, 5, 9].length % 2 = 0 ∧ covers [0, 0, 5, 5, 5, 9] 5 := by decide

/-! ### Partitions -/

/-- `GetTokenRangesForPartition` succeeds on every well-formed ring and its ranges contain a key
exactly when the first ring token strictly after the key belongs to the partition. -/
theorem partition_ranges_exact (d : PDesc) (h : WFP d) (p : Part) (hp : p ∈ d.parts) :
    ∃ tr, rangesForPartition d p.id = .ok tr ∧ tr.length % 2 = 0 ∧ Asc tr ∧
      ∀ k, k ≤ maxU32 → (includesKey tr k = true ↔ ∃ t ∈ p.tokens, IsSucc d.ringTokens k t) :=
  rangesForPartition_exact d h p hp

/-- `ActivePartitionForKey` returns `pid` exactly when `pid` is an ACTIVE partition owning the first
token strictly after the key among the tokens of ACTIVE partitions (all sizes, all state mixes). -/
theorem partition_lookup_exact (d : PDesc) (h : WFP d) (k : Nat) (pid : Int) :
    activeFor d k = .ok pid ↔
      ∃ p ∈ d.parts, p.id = pid ∧ p.isActive = true ∧ ∃ t ∈ p.tokens, IsSucc (activeTokens d) k t :=
  activeFor_ok_iff d h k pid

/-- With all partitions ACTIVE the reported ranges coincide exactly with the lookup. -/
theorem partition_ranges_lookup (d : PDesc) (h : WFP d) (hall : ∀ p ∈ d.parts, p.isActive = true)
    (p : Part) (hp : p ∈ d.parts) :
    ∃ tr, rangesForPartition d p.id = .ok tr ∧
      ∀ k, k ≤ maxU32 → (includesKey tr k = true ↔ activeFor d k = .ok p.id) :=
  ranges_lookup_allActive d h hall p hp

/-- With partition states: `GetTokenRangesForPartition` ignores states (as documented); on the
ACTIVE-only sub-ring (`WithPartitions(active)`) its ranges coincide exactly with the lookup on the
full ring, for every ACTIVE partition. -/
theorem partition_ranges_active_subring (d : PDesc) (h : WFP d) (p : Part) (hp : p ∈ d.parts)
    (ha : p.isActive = true) :
    ∃ tr, rangesForPartition d.activeOnly p.id = .ok tr ∧
      ∀ k, k ≤ maxU32 → (includesKey tr k = true ↔ activeFor d k = .ok p.id) :=
  ranges_activeOnly_lookup d h p hp ha

/-- The ranges of all partitions tile the key space: every key lies in the ranges of exactly one
partition (no gap, no overlap). -/
theorem partition_tiling (d : PDesc) (h : WFP d) (hne : d.ringTokens ≠ []) (k : Nat) (hk : k ≤ maxU32) :
    ∃ p ∈ d.parts, (∃ tr, rangesForPartition d p.id = .ok tr ∧ includesKey tr k = true) ∧
      ∀ q ∈ d.parts, (∃ tr, rangesForPartition d q.id = .ok tr ∧ includesKey tr k = true) → q = p :=
  PfC14.partition_tiling d h hne k hk

/-- non-vacuity: a well-formed ring with tokens 0, 1 and 2^32-1, mixed states. -/
def pdEx : PDesc :=
  { parts := [{ id := 0, state := 2, tokens := [0, 4294967295] }, { id := 1, state := 3, tokens := [1] },
              { id := 7, state := 2, tokens := [2, 4294967293] }] }
example : WFP pdEx := ⟨by decide, by decide, by decide, by decide⟩

/-! ### Instances (zone-aware ring, replication factor = number of zones)

`instance_ranges_exact` — "for every well-formed ring the ranges contain `k` iff the lookup assigns
`k` to the instance" — is FALSE of the current code (witness below): `GetTokenRangesForInstance`
uses `rangeEnd == 0` as "no range end", which collides with the real range end `1 - 1 = 0`.
`bad zt` is the exact class of zone layouts on which that happens: the zone holds token 0, the
instance owns token 1, and the token following 1 on the circle belongs to another instance.

  theorem instance_ranges_exact (d) (h : WFR d) (inst ∈ d) (inst.zone ≠ "") (zone has tokens) :
      ∃ tr, rangesForInstance d true (zonesOf d).length inst.id = .ok tr ∧
        ∀ k ≤ maxU32, (includesKey tr k = true ↔ lookupInZone d inst.zone k = some inst.id)
-/

/-- WITNESS (defect): zone tokens `{0:B, 1:A, 100:B}`. The lookup assigns key 0 to `A`, but `A`'s
reported ranges are empty and `B`'s are `[1, 2^32-1]`: key 0 is in nobody's ranges. -/
theorem instance_ranges_sentinel_witness :
    WFR dWitness ∧
    lookupInZone dWitness "z" 0 = some "A" ∧
    rangesForInstance dWitness true 1 "A" = .ok [] ∧
    rangesForInstance dWitness true 1 "B" = .ok [1, 4294967295] ∧
    includesKey [] 0 = false ∧ includesKey [1, 4294967295] 0 = false ∧
    bad (zoneFlags dWitness "z" "A") = true := by
  refine ⟨witness_wf, witness_lookup, witness_ranges, witness_ranges_B, by decide, by decide, ?_⟩
  rw [zoneFlags, witness_zoneTokens]; decide

/-- PARTIAL (exact guard `bad … = false`): on every other layout the reported ranges contain a key
exactly when the lookup inside the instance's zone returns the instance. -/
theorem instance_ranges_exact_partial (d : Desc) (h : WFR d) (inst : Inst) (hi : inst ∈ d) (hz : inst.zone ≠ "")
    (hne : zoneTokens d inst.zone ≠ []) (hbad : bad (zoneFlags d inst.zone inst.id) = false) :
    ∃ tr, rangesForInstance d true (zonesOf d).length inst.id = .ok tr ∧
      ∀ k, k ≤ maxU32 → (includesKey tr k = true ↔ lookupInZone d inst.zone k = some inst.id) :=
  rangesForInstance_exact d h inst hi hz hne hbad

/-- The guard is EXACT: on every `bad` layout (any size, any other tokens) the lookup assigns key 0 to the
instance — token 1 is the first token after key 0 and the instance owns it — but the ranges reported by the
current code do not contain key 0. -/
theorem sentinel_gap_on_every_bad_layout (zt : List (Nat × Bool)) (hs : SAsc (zt.map (·.1))) (hbad : bad zt = true) :
    includesKey (instRangesOf zt) 0 = false ∧ IsSucc (zt.map (·.1)) 0 1 ∧ (1, true) ∈ zt :=
  bad_gap zt hs hbad

/-- non-vacuity: a two-zone ring with tokens 0, 1, 2^32-1 whose layouts are not `bad`. -/
def dEx : Desc :=
  [{ id := "a", zone := "x", tokens := [0, 1, 2] }, { id := "b", zone := "x", tokens := [7, 4294967295] },
   { id := "c", zone := "y", tokens := [3, 4294967294] }]
example : WFR dEx := ⟨by decide, by decide, by decide, by decide⟩
example : bad [(0, true), (1, true), (2, true), (7, false), (4294967295, false)] = false := by decide

/-- The zone-restricted lookup (`Ring.Get` with one replica per zone) returns the instance exactly
when the first token of its zone strictly after the key is one of the instance's tokens. -/
theorem zoneOwner_is_lookup (d : Desc) (h : WFR d) (inst : Inst) (hi : inst ∈ d) (k : Nat) :
    lookupInZone d inst.zone k = some inst.id ↔ ∃ t ∈ inst.tokens, IsSucc (zoneToks d inst.zone) k t :=
  lookupInZone_iff d h inst hi k

/-- The walk with an explicit "have a range end" flag instead of the sentinel (model of the
suggested fix) is exact on EVERY strictly ascending zone token list … -/
theorem instance_ranges_exact_fixed (zt : List (Nat × Bool)) (hs : SAsc (zt.map (·.1)))
    (hb : ∀ p ∈ zt, p.1 ≤ maxU32) (k : Nat) (hk : k ≤ maxU32) :
    includesKey (instRangesOfF zt) k = true ↔ ∃ t, IsSucc (zt.map (·.1)) k t ∧ (t, true) ∈ zt :=
  instF_exact zt hs hb k hk

/-- … hence `GetTokenRangesForInstance` with the suggested fix is exact on EVERY well-formed ring
(the full statement of the property for instances, about the model of the fixed code). -/
theorem instance_ranges_exact_after_fix (d : Desc) (h : WFR d) (inst : Inst) (hi : inst ∈ d) (hz : inst.zone ≠ "")
    (hne : zoneTokens d inst.zone ≠ []) :
    ∃ tr, rangesForInstanceF d true (zonesOf d).length inst.id = .ok tr ∧
      ∀ k, k ≤ maxU32 → (includesKey tr k = true ↔ lookupInZone d inst.zone k = some inst.id) :=
  rangesForInstanceF_exact d h inst hi hz hne

/-- … and the current code computes the same ranges unless the layout is `bad`. -/
theorem sentinel_agrees_unless_bad (zt : List (Nat × Bool)) (hs : SAsc (zt.map (·.1))) (hbad : bad zt = false) :
    instRangesOf zt = instRangesOfF zt :=
  instRangesOf_eq_F zt hs hbad

/-- Zone tiling for the fixed walk: every key is in the ranges of exactly one instance of the zone. -/
theorem zone_tiling_fixed (zt : List (Nat × String)) (hs : SAsc (zt.map (·.1))) (hb : ∀ p ∈ zt, p.1 ≤ maxU32)
    (hne : zt ≠ []) (k : Nat) (hk : k ≤ maxU32) :
    ∃ o, includesKey (instRangesOfF (flagsFor zt o)) k = true ∧
      ∀ o', includesKey (instRangesOfF (flagsFor zt o')) k = true → o' = o :=
  zone_tiling_F zt hs hb hne k hk

/-- PARTIAL zone tiling for the current code: holds when no instance of the zone has a `bad` layout
(false otherwise: the witness above leaves key 0 uncovered). -/
theorem zone_tiling_partial (zt : List (Nat × String)) (hs : SAsc (zt.map (·.1))) (hb : ∀ p ∈ zt, p.1 ≤ maxU32)
    (hne : zt ≠ []) (hbad : ∀ o, bad (flagsFor zt o) = false) (k : Nat) (hk : k ≤ maxU32) :
    ∃ o, includesKey (instRangesOf (flagsFor zt o)) k = true ∧
      ∀ o', includesKey (instRangesOf (flagsFor zt o')) k = true → o' = o :=
  zone_tiling_of_not_bad zt hs hb hne hbad k hk

example : SAsc ([(0, "a"), (2, "b"), (4294967295, "a")].map (·.1)) ∧
    ∀ o, bad (flagsFor [(0, "a"), (2, "b"), (4294967295, "a")] o) = false := by
  refine ⟨by decide, fun o => ?_⟩
  simp [flagsFor, bad]

end PC14
