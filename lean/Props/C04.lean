import Proofs.C04
import Proofs.C04.Part
import Proofs.C04.Retention
import Proofs.C04.Learn
import Proofs.C04.RetNode
/-!
# C04 — removed entries stay removed: tombstones block resurrection and are never shown

Model: the value-level merge of `Model/C03.lean` (`localCAS` branch included) and the node / cluster
model of `Model/C06.lean` (one global clock; events: CAS on any node, gossip, delivery of any message
in flight to any node at any later time and any number of times, full-state exchange, loss, restart,
clock tick). Provisos as in `Props/C06.lean`: coherent clash-free universe `U` closed under removal
(`TombClosed`), CAS functions write timestamps ≥ 1 and not above the clock (`GoodRun`), and the
tombstone is retained (`cfg.lit = 0`: the retention is not reached during the history) for the cluster
history theorems; `removal_forwarded_retention`, `learn_hides_retention` and `learn_keeps_while_retained`
hold for every retention `cfg.lit ≥ 0`.
Partition ring: entry-level rules and, on top of the partition-ring laws of `Proofs/C03P.lean`,
descriptor-level theorems (`WF` = unique ids, owner timestamps ≥ 1): deleted partitions / owners block
older entries, stay deleted along any sequence of merges, and a local update stamps a missing
partition with `now`. The node-level theorems are stated for ring descriptors; the partition ring at
node level is tied by the correspondence check and judged on the implementation.
-/
namespace PC04
open Ring C03 C06 PfC03 PfC06 PfC04

variable {U : String → Int → Bool → Inst}

/-- a tombstone `x@t` is not displaced by any incoming entry of `x` with timestamp ≤ `t` (same second
included: at equal timestamps the removal wins) -/
theorem tombstone_blocks (hU : Univ U) {s m : Desc} (hs : Drawn U s) (hm : Drawn U m) (x : String) (e : Inst)
    (he : get? s x = some e) (hleft : e.state = .LEFT) (hold : ∀ e', get? m x = some e' → e'.ts ≤ e.ts) :
    get? (mergeState s m) x = get? s x :=
  PfC04.tombstone_blocks hU hs hm x e he hleft hold

/-- a local update whose result lacks a live entry turns it into a tombstone with timestamp `now` and
no tokens, stores it and reports it in the change -/
theorem removal_stamp (hU : Univ U) (hT : TombClosed U) {now : Int} (hnow : now ≥ 1) {s out : Desc} (hs : Drawn U s)
    (ho : Drawn U out) (t : Inst) (ht : get? s t.id = some t) (hlive : t.state ≠ .LEFT) (hmiss : get? out t.id = none) :
    get? (C03.merge true now s out).state t.id = some { t with state := .LEFT, tokens := [], ts := now } ∧
    ∃ ch, (C03.merge true now s out).change = some ch ∧
      get? ch t.id = some { t with state := .LEFT, tokens := [], ts := now } :=
  PfC04.removal_stamp hU hT hnow hs ho t ht hlive hmiss

/-- through `KV.CAS` on a node: the tombstone is stamped with the node's clock, stored, and sits in
the queue of locally generated broadcasts (it is forwarded like any other change) -/
theorem removal_forwarded (hU : Univ U) (hT : TombClosed U) {cfg : Cfg} (hcfg : cfg.lit = 0) {clock : Int} (hclock : clock ≥ 1)
    (nowMs : Int) {nd : Node Desc} {key : String} {f : Option Desc → Option Desc} (hnd : GoodNode U clock nd)
    (hf : GoodFn U clock f) {c0 : Entry Desc} (hg : getE nd.store key = some c0) (out : Desc)
    (hout : f (some (removeTombstones none c0.val)) = some out) (t : Inst) (ht : get? c0.val t.id = some t)
    (hlive : t.state ≠ .LEFT) (hmiss : get? out t.id = none) :
    get? (sval (cas cfg clock nowMs nd key f).1.store key) t.id = some (tomb t clock) ∧
    ∃ b ∈ (cas cfg clock nowMs nd key f).1.localQ, b.key = key ∧ get? b.change t.id = some (tomb t clock) :=
  cas_removal_any hU hT (by omega) hclock nowMs hnd hf hg out hout t ht hlive hmiss  -- corollary of removal_forwarded_retention

/-- in every reachable state no stored or in-flight entry carries a timestamp above the clock: so
every message produced before a removal at clock `t` carries timestamps ≤ `t` = the tombstone's -/
theorem inflight_le_clock (hU : Univ U) (hT : TombClosed U) {cfg : Cfg} (hcfg : cfg.lit = 0) (n : Nat) {clock : Int}
    (hclock : clock ≥ 1) (evs : List (Event Desc)) (hevs : GoodRun U cfg (initC n clock) evs) :
    ∀ m ∈ (runC cfg (initC n clock) evs).net, ∀ e ∈ m.val, e.ts ≤ (runC cfg (initC n clock) evs).clock :=
  fun m hm => ((inv_run hU hT hcfg (inv_init n hclock) evs hevs).net m hm).1.2

/-- **no resurrection, over unbounded histories**: once node `i` holds the tombstone `x@t`, after ANY
further events (deliveries of any message in any order any number of times, full-state exchanges,
local updates, loss, clock ticks, restarts of OTHER nodes; no restart of node `i` itself) `x` is either still a tombstone
there or carries a timestamp > `t` (i.e. it was written after the removal) -/
theorem hist_no_resurrection (hU : Univ U) (hT : TombClosed U) {cfg : Cfg} (hcfg : cfg.lit = 0) (es : List (Event Desc))
    {c : Cluster Desc} (hinv : Inv U c) (hes : GoodRun U cfg c es) (i : Nat) (hnr : ∀ e ∈ es, notRestartOf i e) (key x : String)
    (e : Inst) (he : get? (nval c i key) x = some e) (hleft : e.state = .LEFT) (e' : Inst)
    (he' : get? (nval (runC cfg c es) i key) x = some e') : e'.state = .LEFT ∨ e'.ts > e.ts :=
  no_resurrection hU hT hcfg es hinv hes i hnr key x e he hleft e' he'

/-! ### every replica that learns of the removal stops showing the entry, and forwards the tombstone -/

/-- **learns ⇒ hides** (node level): a gossip message carrying the tombstone `x@t` reaches a node whose entry
for `x`, if any, is not newer (same second included; also when the node has no value for the key at all —
the first-value path): afterwards no reader of that node (`KV.Get`, CAS input) is shown `x` -/
theorem learn_hides (hU : Univ U) {cfg : Cfg} (hcfg : cfg.lit = 0) {clock : Int} (now : Int) {nd : Node Desc} {m : Msg Desc}
    (hnd : GoodNode U clock nd) (hm : GoodMsg U clock m) (hk : m.key ≠ "") (x : String) (e : Inst)
    (he : get? m.val x = some e) (hleft : e.state = .LEFT)
    (hold : ∀ cur, get? (sval nd.store m.key) x = some cur → cur.ts ≤ e.ts) :
    ∀ v, ((notifyMsg cfg now nd m).get m.key).1 = some v → ∀ y ∈ v, y.id ≠ x :=
  PfC04.learn_hides_any hU (by omega) now hnd hm hk x e he hleft hold  -- corollary of learn_hides_retention

/-- **learns ⇒ forwards**: if the tombstone is news to the receiving node (its entry for `x` is strictly older
in the (timestamp, tombstone) order, or it has none) the node queues a broadcast carrying the tombstone;
together with `removal_forwarded` (originating node) tombstones travel like any other change -/
theorem deliver_tombstone_requeued (hU : Univ U) {cfg : Cfg} (hcfg : cfg.lit = 0) {clock : Int} (now : Int) {nd : Node Desc}
    {m : Msg Desc} (hnd : GoodNode U clock nd) (hm : GoodMsg U clock m) (x : String) (e : Inst)
    (he : get? m.val x = some e) (hnew : rkO (get? (sval nd.store m.key) x) < rk e) :
    ∃ b ∈ (deliver cfg now nd m).gossipQ, b.key = m.key ∧ get? b.change x = some e :=
  PfC04.deliver_tombstone_requeued hU hcfg now hnd hm x e he hnew

-- non-vacuity (evaluation): node holds a@9 and b@9; the tombstone a@10 arrives: readers see only b, and the
-- tombstone is queued for further gossip; a node WITHOUT the key (first value) stores and queues it too
example :
    let nd : Node Desc := { store := [("r", { val := [{ id := "a", ts := 9 }, { id := "b", ts := 9 }], version := 1 })] }
    let m : Msg Desc := { key := "r", val := [{ id := "a", ts := 10, state := .LEFT }] }
    ((deliver {} 10 nd m).get "r").1 = some [{ id := "b", ts := 9 }] ∧
    (deliver {} 10 nd m).gossipQ.map (·.change) = [[{ id := "a", ts := 10, state := .LEFT }]] ∧
    ((deliver {} 10 ({} : Node Desc) m).get "r").1 = some [] ∧
    (deliver {} 10 ({} : Node Desc) m).gossipQ.map (·.change) = [[{ id := "a", ts := 10, state := .LEFT }]] := by decide

/-! ### the same with an ARBITRARY retention (`LeftIngestersTimeout = cfg.lit ≥ 0`), proviso measured on the receiving node's clock

`removal_forwarded` / `learn_hides` above are the `lit = 0` corollaries of these. -/

/-- **removal_forwarded, any retention**: the tombstone created by a local update carries the node's clock, so no retention
(≥ 1 s) collects it at creation: stored, stamped with the clock and queued for gossip whatever `LeftIngestersTimeout` is -/
theorem removal_forwarded_retention (hU : Univ U) (hT : TombClosed U) {cfg : Cfg} (hlit : cfg.lit ≥ 0) {clock : Int} (hclock : clock ≥ 1)
    (nowMs : Int) {nd : Node Desc} {key : String} {f : Option Desc → Option Desc} (hnd : GoodNode U clock nd)
    (hf : GoodFn U clock f) {c0 : Entry Desc} (hg : getE nd.store key = some c0) (out : Desc)
    (hout : f (some (removeTombstones none c0.val)) = some out) (t : Inst) (ht : get? c0.val t.id = some t)
    (hlive : t.state ≠ .LEFT) (hmiss : get? out t.id = none) :
    get? (sval (cas cfg clock nowMs nd key f).1.store key) t.id = some (tomb t clock) ∧
    ∃ b ∈ (cas cfg clock nowMs nd key f).1.localQ, b.key = key ∧ get? b.change t.id = some (tomb t clock) :=
  cas_removal_any hU hT hlit hclock nowMs hnd hf hg out hout t ht hlive hmiss

/-- **learns ⇒ hides, any retention** (no retention proviso needed): whether the receiving node keeps the tombstone or
collects it at once (older than the retention on its clock), no reader of that node is shown `x` afterwards -/
theorem learn_hides_retention (hU : Univ U) {cfg : Cfg} (hlit : cfg.lit ≥ 0) {clock : Int} (now : Int) {nd : Node Desc} {m : Msg Desc}
    (hnd : GoodNode U clock nd) (hm : GoodMsg U clock m) (hk : m.key ≠ "") (x : String) (e : Inst)
    (he : get? m.val x = some e) (hleft : e.state = .LEFT)
    (hold : ∀ cur, get? (sval nd.store m.key) x = some cur → cur.ts ≤ e.ts) :
    ∀ v, ((notifyMsg cfg now nd m).get m.key).1 = some v → ∀ y ∈ v, y.id ≠ x :=
  PfC04.learn_hides_any hU hlit now hnd hm hk x e he hleft hold

/-- **learns ⇒ keeps while retained**: with retention `lit > 0` a node that receives the tombstone `x@t` stores nothing but
a tombstone for `x`, and stores the tombstone `x@t` whenever `t` is not older than the retention on the RECEIVING node's
clock (`t ≥ now + 1 − lit`, i.e. not `t ≤ now − lit`): discarded only once older than the retention -/
theorem learn_keeps_while_retained (hU : Univ U) {cfg : Cfg} (hlit : cfg.lit > 0) {clock : Int} (now : Int) {nd : Node Desc}
    {m : Msg Desc} (hnd : GoodNode U clock nd) (hm : GoodMsg U clock m) (x : String) (e : Inst)
    (he : get? m.val x = some e) (hleft : e.state = .LEFT)
    (hold : ∀ cur, get? (sval nd.store m.key) x = some cur → cur.ts ≤ e.ts) :
    (∀ z, get? (sval (deliver cfg now nd m).store m.key) x = some z → z.state = .LEFT) ∧
    (e.ts ≥ now + 1 - cfg.lit →
      ∃ z, get? (sval (deliver cfg now nd m).store m.key) x = some z ∧ z.state = .LEFT ∧ z.ts = e.ts) :=
  (stored_after_tombstone hU hlit now hnd hm x e he hleft hold).2

-- non-vacuity (evaluation), retention 5 s: the tombstone a@10 arrives at clock 12 (retained: kept, hidden) and at clock 100
-- (older than the retention on the receiver's clock: collected at once, still hidden)
example :
    let nd : Node Desc := { store := [("r", { val := [{ id := "a", ts := 9 }, { id := "b", ts := 9 }], version := 1 })] }
    let m : Msg Desc := { key := "r", val := [{ id := "a", ts := 10, state := .LEFT }] }
    ((deliver { lit := 5 } 12 nd m).get "r").1 = some [{ id := "b", ts := 9 }] ∧
    sval (deliver { lit := 5 } 12 nd m).store "r" = [{ id := "a", ts := 10, state := .LEFT }, { id := "b", ts := 9 }] ∧
    ((deliver { lit := 5 } 100 nd m).get "r").1 = some [{ id := "b", ts := 9 }] ∧
    sval (deliver { lit := 5 } 100 nd m).store "r" = [{ id := "b", ts := 9 }] := by decide

/-! ### readers and watchers never see a tombstone

`Node.get` (the model of `KV.get`: clone + `RemoveTombstones(time.Time{})`) strips every tombstone by
construction — that the real `Get` / `WatchKey` / `WatchPrefix` do so is what the correspondence run
checks; the definitional unfoldings (`strip_mem`, `gc_mem`, `localState_carries`, `pstrip_mem`) are model
sanity lemmas in `Proofs/C04.lean`, not property theorems. -/

/-- `Get` / the input of a CAS function never contains a tombstone (any node, any state) -/
theorem reader_never_sees (nd : Node Desc) (key : String) (v : Desc) (h : (nd.get key).1 = some v) :
    ∀ e ∈ v, e.state ≠ .LEFT := node_get_no_tomb nd key v h

/-- in EVERY state reachable from the initial cluster — any configuration (retention on or off), any schedule
of any events, no proviso on the workloads — no watcher function has been called with a value containing a
tombstone (`w.last` = the values the callbacks were last called with, per key) -/
theorem watchers_never_see_tombstones (cfg : Cfg) (n : Nat) (clock : Int) (evs : List (Event Desc)) :
    ∀ nd ∈ (runC cfg (initC n clock) evs).nodes, ∀ w ∈ nd.watchers, ∀ k v, (k, v) ∈ w.last → ∀ e ∈ v, e.state ≠ .LEFT :=
  PfC04.watchers_never_see_tombstones cfg n clock evs

/-! ### histories in which the retention IS reached (`LeftIngestersTimeout = lit > 0`, tombstones collected)

`deliverVal lit now s m` is what a node stores after merging message value `m` at clock `now`
(`retention_deliver_is_deliverVal` ties it to the node model's `deliver`). Readers never see a tombstone
whatever the retention (`reader_never_sees`, `watcher_never_sees` have no retention hypothesis). -/

/-- the node model stores exactly `deliverVal` on the gossip path with a positive retention -/
theorem retention_deliver_is_deliverVal (hU : Univ U) {cfg : Cfg} (hlit : cfg.lit > 0) (now : Int) {nd : Node Desc} {m : Msg Desc}
    {c : Entry Desc} (hg : getE nd.store m.key = some c) (hc : Drawn U c.val) (hcd : c.deleted = false)
    (hm : Drawn U m.val) (hmd : m.deleted = false) :
    sval (deliver cfg now nd m).store m.key = deliverVal cfg.lit now c.val m.val :=
  deliver_sval_gc hU hlit now hg hc hcd hm hmd

/-- with any retention: a message whose entry for `x` is not newer than the tombstone never makes `x`
visible — afterwards `x` is that tombstone or has been collected — and the tombstone is kept while retained -/
theorem tombstone_blocks_retention (hU : Univ U) (lit now : Int) {s m : Desc} (hs : Drawn U s) (hm : Drawn U m) (x : String)
    (e : Inst) (he : get? s x = some e) (hleft : e.state = .LEFT) (hold : ∀ e', get? m x = some e' → e'.ts ≤ e.ts) :
    (∀ e', get? (deliverVal lit now s m) x = some e' → e' = e) ∧
    (e.ts ≥ now + 1 - lit → get? (deliverVal lit now s m) x = some e) :=
  PfC04.tombstone_blocks_retention hU lit now hs hm x e he hleft hold

/-- **no resurrection when the retention is reached** — value level: unbounded DELIVERY sequences (gossip
messages and full-state pairs, any order, any multiplicity) to ONE replica's value of one key, at
non-decreasing clocks, with collection along the way (no local CAS of that node, no key-level Delete in
between; the cluster-level invariant is proved for `lit = 0` only: `hist_no_resurrection`). Proviso `NoStale` = "no in-flight message older than the retention":
a delivered live entry of `x` that predates the removal (`ts ≤ t`) has a timestamp `> now − lit` when it
is delivered (`Cfg.limit`: Go collects `ts ≤ floor(now) − lit`). Then `x` never becomes visible with a timestamp `≤ t`. (After the tombstone was collected,
at some clock `> t + lit`, every entry produced before the removal IS older than the retention: the
proviso then says such messages are no longer in flight.) -/
theorem hist_no_resurrection_retention (hU : Univ U) {lit t : Int} (x : String) (ds : List (Int × Desc)) {clock : Int} {s : Desc}
    (hs : Drawn U s) (e0 : Inst) (he0 : get? s x = some e0) (hleft : e0.state = .LEFT) (hts : e0.ts = t)
    (hclk : List.Pairwise (· ≤ ·) (clock :: ds.map (·.1))) (hds : ∀ p ∈ ds, Drawn U p.2 ∧ NoStale lit t x p.1 p.2) :
    ∀ e, get? (deliverSeq lit s ds) x = some e → e.state = .LEFT ∨ e.ts > t :=
  no_resurrection_retention hU x ds hs (removed_of_tombstone x clock e0 he0 hleft hts) hclk hds

/-- the first-value path with retention: a node without a value for the key stores the message's value minus
the tombstones already older than the retention -/
theorem retention_first_value {cfg : Cfg} (hlit : cfg.lit > 0) (now : Int) {nd : Node Desc} {m : Msg Desc}
    (hg : getE nd.store m.key = none) (hmd : m.deleted = false) :
    sval (deliver cfg now nd m).store m.key = removeTombstones (some (now + 1 - cfg.lit)) m.val :=
  deliver_sval_gc_first hlit now hg hmd

/-- **discarded only once older than the retention**: if a delivery makes the tombstone `x@t` vanish from the
stored value, then `t ≤ now − lit` (otherwise it can only be replaced by a newer entry of `x`) -/
theorem collected_only_when_old (hU : Univ U) (lit now : Int) {s m : Desc} (hs : Drawn U s) (hm : Drawn U m) (x : String)
    (e : Inst) (he : get? s x = some e) (hleft : e.state = .LEFT) (hgone : get? (deliverVal lit now s m) x = none) :
    e.ts < now + 1 - lit :=
  PfC04.collected_only_when_old hU lit now hs hm x e he hleft hgone

/-- the proviso is needed (witness, retention 2 s): the tombstone `a@5` is collected at clock 100 by an
unrelated change; the heartbeat `a@4`, produced before the removal and far older than the retention,
then makes `a` visible again -/
theorem stale_message_resurrects_after_collection :
    let s : Desc := [{ id := "a", ts := 5, state := .LEFT }]
    let s1 := deliverVal 2 100 s [{ id := "b", ts := 99 }]
    let s2 := deliverVal 2 100 s1 [{ id := "a", ts := 4 }]
    get? s1 "a" = none ∧ get? s2 "a" = some { id := "a", ts := 4 } := by decide

-- non-vacuity: retained tombstone, same-second heartbeat delivered twice with an unrelated change in between
example : deliverSeq 300 [{ id := "a", ts := 10, state := .LEFT }]
    [(11, [{ id := "a", ts := 10 }]), (12, [{ id := "b", ts := 12 }]), (400, [{ id := "a", ts := 10 }])] =
    [{ id := "a", ts := 10, state := .LEFT }, { id := "b", ts := 12 }] := by decide

/-! ### partition ring: the per-entry acceptance rules of `PartitionRingDesc.mergeWithTime` (`mergePart`, `ownerAccept`) -/
open C03P in
theorem partition_tombstone_blocks (t o : Part) (ht : t.state = partDeleted) (h1 : o.stateTs ≤ t.stateTs)
    (h2 : o.lockedTs ≤ t.lockedTs) : mergePart (some t) o = none := mergePart_tomb_blocks t o ht h1 h2

open C03P in
theorem owner_tombstone_blocks (t o : Owner) (ht : t.state = ownerDeleted) (h : o.ts ≤ t.ts) :
    ownerAccept (some t) o = false := ownerAccept_tomb_blocks t o ht h

/-! ### partition ring, descriptor level -/
open C03P in
/-- a deleted partition keeps its state (deleted, same timestamp) against any incoming descriptor whose
entry for it is not newer — same second included -/
theorem partition_tombstone_blocks_desc (a b : PDesc) (hb : PfC03P.WF b) (k : Int) (t : Part)
    (ht : getP a.parts k = some t) (hdel : t.state = partDeleted) (hold : ∀ o, getP b.parts k = some o → o.stateTs ≤ t.stateTs) :
    ∃ p, getP (C03P.mergeState a b).parts k = some p ∧ p.state = partDeleted ∧ p.stateTs = t.stateTs :=
  part_tombstone_blocks a b hb k t ht hdel hold

open C03P in
theorem owner_tombstone_blocks_desc (a b : PDesc) (ha : PfC03P.WF a) (hb : PfC03P.WF b) (k : String) (t : Owner)
    (ht : getO a.owners k = some t) (hdel : t.state = ownerDeleted) (hold : ∀ o, getO b.owners k = some o → o.ts ≤ t.ts) :
    getO (C03P.mergeState a b).owners k = some t :=
  PfC04.owner_tombstone_blocks_desc a b ha hb k t ht hdel hold

open C03P in
/-- along ANY sequence of merged descriptors a deleted partition stays deleted or carries a newer state timestamp -/
theorem partition_no_resurrection (s : PDesc) (l : List PDesc) (hl : ∀ d ∈ l, PfC03P.WF d) (k : Int) (t : Part)
    (ht : getP s.parts k = some t) (hdel : t.state = partDeleted) :
    ∃ p, getP (l.foldl C03P.mergeState s).parts k = some p ∧ (p.state = partDeleted ∨ p.stateTs > t.stateTs) :=
  part_no_resurrection s l hl k t ht hdel

open C03P in
theorem owner_no_resurrection (s : PDesc) (l : List PDesc) (hs : PfC03P.WF s) (hl : ∀ d ∈ l, PfC03P.WF d) (k : String) (t : Owner)
    (ht : getO s.owners k = some t) (hdel : t.state = ownerDeleted) (p : Owner)
    (hp : getO (l.foldl C03P.mergeState s).owners k = some p) : p.state = ownerDeleted ∨ p.ts > t.ts :=
  PfC04.owner_no_resurrection s l hs hl k t ht hdel p hp

open C03P in
/-- a partition missing from a local update's result is stored as deleted with state timestamp `now` -/
theorem partition_removal_stamp_desc (now : Int) (a b : PDesc) (ha : (a.parts.map Part.id).Nodup) (hb : PfC03P.WF b) (t : Part)
    (ht : getP a.parts t.id = some t) (hlive : t.state ≠ partDeleted) (hmiss : getP b.parts t.id = none) :
    getP (C03P.merge true now a b).state.parts t.id = some { t with state := partDeleted, stateTs := now } :=
  part_removal_stamp now a b ha hb t ht hlive hmiss

open C03P in
/-- … and reported in the change of that local update (so it is forwarded) -/
theorem partition_removal_reported (now : Int) (a b : PDesc) (ha : (a.parts.map Part.id).Nodup) (hb : PfC03P.WF b) (t : Part)
    (ht : getP a.parts t.id = some t) (hlive : t.state ≠ partDeleted) (hmiss : getP b.parts t.id = none) :
    ∃ ch, (C03P.merge true now a b).change = some ch ∧
      getP ch.parts t.id = some { t with state := partDeleted, stateTs := now } :=
  part_removal_in_change now a b ha hb t ht hlive hmiss

open C03P in
/-- an owner missing from a local update's result is stored as deleted with timestamp `now` -/
theorem owner_removal_stamp_desc (now : Int) (a b : PDesc) (ha : PfC03P.WF a) (hb : PfC03P.WF b) (t : Owner)
    (ht : getO a.owners t.id = some t) (hlive : t.state ≠ ownerDeleted) (hmiss : getO b.owners t.id = none) :
    getO (C03P.merge true now a b).state.owners t.id = some { t with state := ownerDeleted, ts := now } :=
  owner_removal_stamp_desc' now a b ha hb t ht hlive hmiss

-- non-vacuity: partition 1 (active@9) removed at 10; the in-flight entry active@10 does not bring it back
example : (C03P.mergeState (C03P.merge true 10 { parts := [{ id := 1, tokens := [5], state := 2, stateTs := 9 }] } {}).state
    { parts := [{ id := 1, tokens := [5], state := 2, stateTs := 10 }] }).parts =
    [{ id := 1, tokens := [5], state := C03P.partDeleted, stateTs := 10 }] := by decide

/-! ### Outside the theorems: key-level `Delete` + `cleanupObsoleteEntries` (witness)
`KV.Delete` marks a key deleted; after `ObsoleteEntriesTimeout` the obsolete-entries ticker removes the key from
the store — with every tombstone its value held. A delayed message produced before the removal is then stored
verbatim by the first-value path: the entry is visible again. (`Event.delete` / `Event.cleanup` exist in the
model and in the correspondence run; they are excluded from the theorems by `GoodEv`.) -/
theorem cleanup_forgets_tombstones_witness :
    let cfg : Cfg := { obs := -1 }
    let nd0 : Node Desc := { store := [("r", { val := [{ id := "a", ts := 5, state := .LEFT }], version := 2 })] }
    let nd1 := cleanupObsolete cfg 10000 (C06.delete cfg 10 9000 nd0 "r")
    let nd2 := deliver cfg 10 nd1 { key := "r", val := [{ id := "a", ts := 4 }] }
    nd1.store = [] ∧ (nd2.get "r").1 = some [{ id := "a", ts := 4 }] := by decide

/-! ### Why the clock proviso is needed (witness, checked by evaluation)
A heartbeat stamped ABOVE the remover's clock (writer's clock ahead) survives the removal: the
tombstone gets the remover's `now`, which is older. -/
theorem skewed_clock_resurrects :
    get? (mergeState (C03.merge true 5 [{ id := "a", ts := 4 }] []).state [{ id := "a", ts := 7 }]) "a" =
      some { id := "a", ts := 7 } := by decide

/-! ### Non-vacuity (the concrete universe and history of `Props/C06.lean` are reused by value) -/

def U2 (id : String) (ts : Int) (l : Bool) : Inst :=
  { id := id, ts := ts, state := if l then .LEFT else .ACTIVE, tokens := if l then [] else if id = "a" then [1, 5] else [] }

-- same second: heartbeat `a@10` in flight, removal at clock 10: the tombstone `a@10 LEFT` wins on arrival
example : get? (mergeState (C03.merge true 10 [U2 "a" 9 false] []).state [U2 "a" 10 false]) "a" = some (U2 "a" 10 true) := by
  decide
-- the removal stamped the tombstone with the clock and reported it
example : (C03.merge true 10 [U2 "a" 9 false] []).change = some [U2 "a" 10 true] := by decide
-- and readers do not see it
example : removeTombstones none (C03.merge true 10 [U2 "a" 9 false] []).state = [] := by decide

end PC04
