import Model.C02
import Proofs.C02
import Props.C10
import Props.C11
/-!
# C02 — every successful quorum write shares a replica with every successful quorum read

For a fixed ring content `d` and key: `W = Ring.Get(key, opW)` at clock `now` (C01's model) and
`R = Ring.GetReplicationSetForOperation(opR)` at clock `now'` (`C02.getAll`) — the two lookups read the
clock independently, `now` and `now'` are unrelated. `writeOk A W`, `readOkFlat B R`, `readOkZones Zs R`
are the success criteria of the executors (DoBatch: `len − MaxErrors` acks; defaultResultTracker:
`len − MaxErrors` answers; zoneAwareResultTracker: all instances of `zones − MaxUnavailableZones` zones).

Scope of the statements.
* operations: any read operation `opR`; the flat theorem any `opW`; the zone theorems any `NonExtending opW`
  (`Write`, `WriteNoExtend`, `Reporting`: `nonExtending_builtin`). The property's case is `Write` × `Read`.
* token circles: `toks`, `toks'` are universally quantified and need not agree.
* descriptor: `quorum_intersect_*` are stated for every LIST of instance records. A Go `map[string]InstanceDesc`
  has pairwise distinct ids by construction, so only lists with distinct ids are ring contents; for those,
  records and instances coincide. On a list with a repeated id two records of one id would count as two
  acknowledgements (`getAll_dup_witness`) — that part of the generality says nothing about dskit. The
  statements about real rings are the `_wf` theorems below (hypothesis `WFRing d`); they are the headline.
* zone-aware case: every instance must carry a zone. This is NECESSARY: `intersect_needs_zones_set`.
-/
namespace PC02
open Common Ring C01 C02

/-- witness ring of `intersect_needs_zones_set`: two instances without a zone -/
def nz3 : Desc := [ { id := "a", tokens := [10], zone := "z1" }, { id := "b", tokens := [20] }, { id := "c", tokens := [30] } ]

/-- `Write`, `WriteNoExtend` and `Reporting` are write-type operations in the sense of `NonExtending`;
`Read` is not (it accepts PENDING and extends on it). -/
theorem nonExtending_builtin :
    NonExtending opWrite ∧ NonExtending opWriteNoExtend ∧ NonExtending opReporting ∧ ¬ NonExtending opRead := by
  refine ⟨PfC02.nonExtending_builtin.1, PfC02.nonExtending_builtin.2.1, PfC02.nonExtending_builtin.2.2, ?_⟩
  intro h; exact absurd (h .PENDING (by decide)) (by decide)

/-- Zone-awareness off: any acknowledging set of a successful quorum write of `key` and any answering
set of a successful ring-wide quorum read have an instance in common — all rings, keys, RF, states,
heartbeat ages, operations, and independent clocks for the two lookups (a replica whose heartbeat
expires between the write and the read is covered). Pure counting: `|A| ≥ RF/2+1`,
`|B| ≥ max(N,RF) − RF/2`, both inside the `N` registered instances. -/
theorem quorum_intersect_flat (cfg : Cfg) (d : Desc) (toks toks' : List Nat) (key : Nat) (now now' : Int)
    (opW opR : Op) (W : RSet) (R : RSetAll) (A B : List Inst) (hza : cfg.zoneAware = false)
    (hW : get cfg d toks key opW now = .ok W) (hR : getAll cfg d toks' opR now' = .ok R)
    (hA : writeOk A W) (hB : readOkFlat B R) : ∃ i, i ∈ A ∧ i ∈ B :=
  PfC02.quorum_intersect_flat cfg d toks toks' key now now' opW opR W R A B hza hW hR hA hB

/-- Zone-awareness on, every instance carrying a zone: some acknowledging replica belongs to the read
replication set and lies in one of the zones that answered completely — for any number of zones (fewer,
equal or more than RF), independent clocks. (Acks lie in ≥ RF/2+1 distinct zones; at most
min(zones,RF)/2 zones are not covered by the read; a zone the read covers returned ALL its registered
instances, healthy at the read's own clock.) -/
theorem quorum_intersect_zones (cfg : Cfg) (d : Desc) (toks toks' : List Nat) (key : Nat) (now now' : Int)
    (opW opR : Op) (hne : NonExtending opW)
    (W : RSet) (R : RSetAll) (A : List Inst) (Zs : List String) (hza : cfg.zoneAware = true)
    (hz : ∀ i ∈ d, i.zone ≠ "")
    (hW : get cfg d toks key opW now = .ok W) (hR : getAll cfg d toks' opR now' = .ok R)
    (hA : writeOk A W) (hZ : readOkZones Zs R) :
    ∃ i, i ∈ A ∧ i ∈ R.instances ∧ i.zone ∈ Zs :=
  PfC02.quorum_intersect_zones cfg d toks toks' key now now' opW opR hne W R A Zs hza hz hW hR hA hZ

/-- Zone-aware read set executed by the PLAIN tracker: `ReplicationSet.Do` picks `zoneAwareResultTracker`
only when `MaxUnavailableZones > 0`; a zone-aware set whose slack is used up (or with ≤ 1 zone) runs on
`defaultResultTracker` with `MaxErrors = 0`, i.e. the success criterion is `readOkFlat`. -/
theorem quorum_intersect_zones_all (cfg : Cfg) (d : Desc) (toks toks' : List Nat) (key : Nat) (now now' : Int)
    (opW opR : Op) (hne : NonExtending opW)
    (W : RSet) (R : RSetAll) (A B : List Inst) (hza : cfg.zoneAware = true)
    (hz : ∀ i ∈ d, i.zone ≠ "")
    (hW : get cfg d toks key opW now = .ok W) (hR : getAll cfg d toks' opR now' = .ok R)
    (hA : writeOk A W) (hB : readOkFlat B R) : ∃ i, i ∈ A ∧ i ∈ B :=
  PfC02.quorum_intersect_zones_all cfg d toks toks' key now now' opW opR hne W R A B hza hz hW hR hA hB

/-- The hypothesis "every instance carries a zone" of the zone-aware theorems is necessary — and the ring
client does not enforce it (zones come from the KV store): zone-aware, RF 3, `{a: "z1", b: "", c: ""}`.
The write of key 5 succeeds on {a,b,c} tolerating 1 error; the read sees 2 zones ("z1", "") and tolerates 1
unavailable zone. Acknowledgements {b, c} and the answering zone "z1" (= {a}) are DISJOINT: instances
with the empty zone are exempt from the one-per-zone rule, so two acks can sit in one "zone". The property
fails on such a ring; its quantifier excludes it ("every instance carrying a zone when zone-awareness is on"). -/
theorem intersect_needs_zones_set :
    get { rf := 3, zoneAware := true } nz3 (getTokens nz3) 5 opWrite 0 = .ok { instances := nz3, maxErrors := 1 } ∧
    getAll { rf := 3, zoneAware := true } nz3 (getTokens nz3) opRead 0
      = .ok { instances := nz3, maxErrors := 0, maxUnavailableZones := 1, zoneAware := true } ∧
    WFRing nz3 ∧ writeOk (nz3.drop 1) { instances := nz3, maxErrors := 1 } ∧
    readOkZones ["z1"] { instances := nz3, maxErrors := 0, maxUnavailableZones := 1, zoneAware := true } ∧
    ¬ ∃ i, i ∈ nz3.drop 1 ∧ i.zone ∈ ["z1"] := by
  refine ⟨by decide, by decide, by decide, ?_, ?_, by decide⟩
  · exact ⟨by decide, by decide, by decide⟩
  · exact ⟨by decide, by decide, by decide⟩

/-- The ingredient of the zone argument, for every token circle: the instances a zone-aware lookup
walks are registered instances and its non-extending members lie in pairwise distinct zones. -/
theorem write_acks_distinct_zones (cfg : Cfg) (d : Desc) (zones : List String) (op : Op)
    (hza : cfg.zoneAware = true) (hz : ∀ i ∈ d, i.zone ≠ "") (L : List Nat) (st : WalkSt) (out : List Inst)
    (h : walk cfg d zones 1 op L st = .ok out) :
    ((out.filter (fun i => !extendsOn op i.state)).map (·.zone)).Nodup ∧ (∀ i ∈ out, i ∈ d) :=
  let r := PfC02.walk_zone_facts cfg d zones op hza hz L st out h
  ⟨r.1, r.2.2⟩

/-! ### End to end: the executors' success reports, composed with the intersection theorems

`PC10.batch_success_implies_writeOk` (a `DoBatch` that reports success was acknowledged, for every key,
by a `writeOk` set) and `PC11.quorum_success_implies_readOk` (a `DoUntilQuorum` that returns results was
answered by a `readOkFlat` set / by `readOkZones` zones) feed the two theorems above. The runs are
arbitrary interleavings of the executors' micro-step models (C10, C11), so the statement covers every
outcome assignment, completion order and cancellation point of both calls. -/

/-- Not zone-aware: if `DoBatch` reports success for a batch containing `key` (its replication set is
`W`, instances numbered injectively by `aid`) and a ring-wide `DoUntilQuorum` read over `R` returns the
results `rs`, then some instance both acknowledged the write of `key` and is among the instances whose
results the read returned. -/
theorem write_read_share_replica_flat (cfg : Cfg) (d : Desc) (toks toks' : List Nat) (key : Nat) (now now' : Int)
    (opW opR : Op) (W : RSet) (R : RSetAll) (hza : cfg.zoneAware = false)
    (hW : get cfg d toks key opW now = .ok W) (hR : getAll cfg d toks' opR now' = .ok R)
    -- the write: any run of the DoBatch model that has signalled success
    {icount : Int} {ca : Option Nat} {gets : List C10.GetRes} {p : C10.Prep} {out : Nat → C10.Outcome}
    {wevs : List C10.Ev} {ws : C10.St}
    (hg : PfC10.GoodGets gets) (hp : C10.prepare icount ca gets = .ok p)
    (hwr : C10.run (C10.initSt p out) wevs = some ws) (hd : ws.ret = some .done ∨ 1 ≤ ws.nDone)
    (i : Nat) (aid : Inst → Nat)
    (hinj : ∀ x ∈ W.instances, ∀ y ∈ W.instances, aid x = aid y → x = y) (hnd : W.instances.Nodup)
    (hi : gets[i]? = some (.ok (W.instances.map aid) W.maxErrors))
    -- the read: any run of the DoUntilQuorum model that returned results
    {c : C11.Cfg} {order : List Nat} {pre : Bool} {revs : List C11.Ev} {rst : C11.St} {zid : String → Nat}
    (hc : PfC11.Corresponds c R zid) (hrr : C11.run c (C11.init c order pre) revs = some rst)
    (hzm : c.zoneMode = false) {rs : List Nat} (hm : rst.main = .retOk rs) :
    ∃ x, x ∈ W.instances ∧ PfC10.Acked p ws i (aid x) ∧ x ∈ PfC11.answered R rs := by
  obtain ⟨A, hA, hack⟩ := PC10.batch_success_implies_writeOk hg hp hwr hd i W aid hinj hnd hi
  have hB := (PC11.quorum_success_implies_readOk hc hrr hm).1 hzm
  obtain ⟨x, hxA, hxB⟩ := quorum_intersect_flat cfg d toks toks' key now now' opW opR W R A _ hza hW hR hA hB
  exact ⟨x, hA.2.1 x hxA, hack x hxA, hxB⟩

/-- Zone-aware: under the same premises with a zone-aware read, some instance acknowledged the write of
`key` and its result is among those the read returned (it lies in a zone that answered completely). -/
theorem write_read_share_replica_zones (cfg : Cfg) (d : Desc) (toks toks' : List Nat) (key : Nat) (now now' : Int)
    (opW opR : Op) (W : RSet) (R : RSetAll) (hza : cfg.zoneAware = true) (hz : ∀ i ∈ d, i.zone ≠ "") (hne : NonExtending opW)
    (hW : get cfg d toks key opW now = .ok W) (hR : getAll cfg d toks' opR now' = .ok R)
    {icount : Int} {ca : Option Nat} {gets : List C10.GetRes} {p : C10.Prep} {out : Nat → C10.Outcome}
    {wevs : List C10.Ev} {ws : C10.St}
    (hg : PfC10.GoodGets gets) (hp : C10.prepare icount ca gets = .ok p)
    (hwr : C10.run (C10.initSt p out) wevs = some ws) (hd : ws.ret = some .done ∨ 1 ≤ ws.nDone)
    (i : Nat) (aid : Inst → Nat)
    (hinj : ∀ x ∈ W.instances, ∀ y ∈ W.instances, aid x = aid y → x = y) (hnd : W.instances.Nodup)
    (hi : gets[i]? = some (.ok (W.instances.map aid) W.maxErrors))
    {c : C11.Cfg} {order : List Nat} {pre : Bool} {revs : List C11.Ev} {rst : C11.St} {zid : String → Nat}
    (hc : PfC11.Corresponds c R zid) (hrr : C11.run c (C11.init c order pre) revs = some rst)
    (hzm : c.zoneMode = true) {rs : List Nat} (hm : rst.main = .retOk rs) :
    ∃ x, x ∈ W.instances ∧ PfC10.Acked p ws i (aid x) ∧ x ∈ PfC11.answered R rs := by
  obtain ⟨A, hA, hack⟩ := PC10.batch_success_implies_writeOk hg hp hwr hd i W aid hinj hnd hi
  obtain ⟨hZ, hall, _⟩ := (PC11.quorum_success_implies_readOk hc hrr hm).2 hzm
  obtain ⟨x, hxA, hxR, hxZ⟩ := quorum_intersect_zones cfg d toks toks' key now now' opW opR hne W R A _ hza hz hW hR hA hZ
  exact ⟨x, hA.2.1 x hxA, hack x hxA, hall _ hxZ x hxR rfl⟩


/-! ### What a successful `GetReplicationSetForOperation` guarantees (used by C11) -/

/-- The returned instances are registered instances; they are pairwise distinct whenever the ids of the
descriptor are (the C05 invariant); the tolerances are in range. -/
theorem getAll_ok_facts (cfg : Cfg) (d : Desc) (toks : List Nat) (op : Op) (now : Int) (R : RSetAll)
    (h : getAll cfg d toks op now = .ok R) :
    (∀ i ∈ R.instances, i ∈ d) ∧ ((d.map (·.id)).Nodup → R.instances.Nodup) ∧ R.zoneAware = cfg.zoneAware ∧
    (cfg.zoneAware = true → R.maxErrors = 0) ∧
    (cfg.zoneAware = false → R.maxUnavailableZones = 0 ∧ (1 ≤ cfg.rf → R.maxErrors < R.instances.length)) :=
  let f := PfC02.getAll_ok_facts cfg d toks op now R h
  ⟨PfC02.getAll_mem cfg d toks op now R h, fun hid => PfC02.getAll_nodup cfg d toks op now R hid h, f.2.1, f.2.2.1, f.2.2.2⟩

/-- Distinctness of the READ set does need distinct ids: a descriptor listing the same entry twice
yields a successful read set with a repeated instance (the write lookup of the same descriptor does
not: `PC01.get_ok_nodup` needs no well-formedness). -/
theorem getAll_dup_witness :
    getAll { rf := 1, zoneAware := false } [{ id := "x", tokens := [5] }, { id := "x", tokens := [5] }] [5, 5] opRead 0
      = .ok { instances := [{ id := "x", tokens := [5] }, { id := "x", tokens := [5] }], maxErrors := 0,
              maxUnavailableZones := 0, zoneAware := false } ∧
    ¬ ([{ id := "x", tokens := [5] }, { id := "x", tokens := [5] }] : List Inst).Nodup := by
  refine ⟨by decide, by decide⟩

/-- Every entry handed to `DoBatch` that stems from a lookup (`.err`, or the result of a successful
`Get` under some numbering of its instances) satisfies C10's `GoodGets`. -/
theorem goodGets_of_lookups (gets : List C10.GetRes)
    (h : ∀ g ∈ gets, g = .err ∨ ∃ (cfg : Cfg) (d : Desc) (toks : List Nat) (key : Nat) (op : Op) (now : Int) (W : RSet)
        (aid : Inst → Nat), get cfg d toks key op now = .ok W ∧ g = .ok (W.instances.map aid) W.maxErrors) :
    PfC10.GoodGets gets := by
  intro g hg addrs me hgm
  rcases h g hg with rfl | ⟨cfg, d, toks, key, op, now, W, aid, hW, rfl⟩
  · cases hgm
  · cases hgm
    have := (PfC01.get_ok_facts cfg d toks key op now W hW).2.2.1
    simp only [List.length_map]
    exact ⟨by omega, by omega⟩

/-! ### End to end, from a well-formed descriptor

The same two theorems with the distinctness premises discharged: `W.instances.Nodup` holds for every
successful `Get` (`PC01.get_ok_nodup` = `PfC01.get_ok_facts`), `R.instances.Nodup` (a field of `PfC11.Corresponds`) follows from
the distinct ids of a well-formed descriptor (`getAll_ok_facts`). -/

theorem write_read_share_replica_flat_wf (cfg : Cfg) (d : Desc) (toks toks' : List Nat) (key : Nat) (now now' : Int)
    (opW opR : Op) (W : RSet) (R : RSetAll) (hwf : WFRing d) (hza : cfg.zoneAware = false)
    (hW : get cfg d toks key opW now = .ok W) (hR : getAll cfg d toks' opR now' = .ok R)
    {icount : Int} {ca : Option Nat} {gets : List C10.GetRes} {p : C10.Prep} {out : Nat → C10.Outcome}
    {wevs : List C10.Ev} {ws : C10.St}
    (hg : PfC10.GoodGets gets) (hp : C10.prepare icount ca gets = .ok p)
    (hwr : C10.run (C10.initSt p out) wevs = some ws) (hd : ws.ret = some .done ∨ 1 ≤ ws.nDone)
    (i : Nat) (aid : Inst → Nat)
    (hinj : ∀ x ∈ W.instances, ∀ y ∈ W.instances, aid x = aid y → x = y)
    (hi : gets[i]? = some (.ok (W.instances.map aid) W.maxErrors))
    {c : C11.Cfg} {order : List Nat} {pre : Bool} {revs : List C11.Ev} {rst : C11.St} {zid : String → Nat}
    (hzinj : ∀ x ∈ R.instances, ∀ y ∈ R.instances, zid x.zone = zid y.zone → x.zone = y.zone)
    (hzones : c.zones = R.instances.map (fun x => zid x.zone)) (hme : c.maxErrors = R.maxErrors)
    (hmu : c.maxUnavail = R.maxUnavailableZones)
    (hrr : C11.run c (C11.init c order pre) revs = some rst)
    (hzm : c.zoneMode = false) {rs : List Nat} (hm : rst.main = .retOk rs) :
    ∃ x, x ∈ W.instances ∧ PfC10.Acked p ws i (aid x) ∧ x ∈ PfC11.answered R rs :=
  write_read_share_replica_flat cfg d toks toks' key now now' opW opR W R hza hW hR hg hp hwr hd i aid hinj
    (PfC01.get_ok_facts cfg d toks key opW now W hW).2.1 hi
    ⟨(getAll_ok_facts cfg d toks' opR now' R hR).2.1 hwf.1, hzinj, hzones, hme, hmu⟩ hrr hzm hm

theorem write_read_share_replica_zones_wf (cfg : Cfg) (d : Desc) (toks toks' : List Nat) (key : Nat) (now now' : Int)
    (opW opR : Op) (W : RSet) (R : RSetAll) (hwf : WFRing d) (hza : cfg.zoneAware = true) (hz : ∀ i ∈ d, i.zone ≠ "") (hne : NonExtending opW)
    (hW : get cfg d toks key opW now = .ok W) (hR : getAll cfg d toks' opR now' = .ok R)
    {icount : Int} {ca : Option Nat} {gets : List C10.GetRes} {p : C10.Prep} {out : Nat → C10.Outcome}
    {wevs : List C10.Ev} {ws : C10.St}
    (hg : PfC10.GoodGets gets) (hp : C10.prepare icount ca gets = .ok p)
    (hwr : C10.run (C10.initSt p out) wevs = some ws) (hd : ws.ret = some .done ∨ 1 ≤ ws.nDone)
    (i : Nat) (aid : Inst → Nat)
    (hinj : ∀ x ∈ W.instances, ∀ y ∈ W.instances, aid x = aid y → x = y)
    (hi : gets[i]? = some (.ok (W.instances.map aid) W.maxErrors))
    {c : C11.Cfg} {order : List Nat} {pre : Bool} {revs : List C11.Ev} {rst : C11.St} {zid : String → Nat}
    (hzinj : ∀ x ∈ R.instances, ∀ y ∈ R.instances, zid x.zone = zid y.zone → x.zone = y.zone)
    (hzones : c.zones = R.instances.map (fun x => zid x.zone)) (hme : c.maxErrors = R.maxErrors)
    (hmu : c.maxUnavail = R.maxUnavailableZones)
    (hrr : C11.run c (C11.init c order pre) revs = some rst)
    (hzm : c.zoneMode = true) {rs : List Nat} (hm : rst.main = .retOk rs) :
    ∃ x, x ∈ W.instances ∧ PfC10.Acked p ws i (aid x) ∧ x ∈ PfC11.answered R rs :=
  write_read_share_replica_zones cfg d toks toks' key now now' opW opR W R hza hz hne hW hR hg hp hwr hd i aid hinj
    (PfC01.get_ok_facts cfg d toks key opW now W hW).2.1 hi
    ⟨(getAll_ok_facts cfg d toks' opR now' R hR).2.1 hwf.1, hzinj, hzones, hme, hmu⟩ hrr hzm hm

/-! ### The arithmetic is tight (regression witnesses, not part of the claim) -/

def r3 : Desc := [ { id := "a", tokens := [10], zone := "z1" }, { id := "b", tokens := [20], zone := "z2" },
                   { id := "c", tokens := [30], zone := "z3" } ]
def flat3 : Cfg := { rf := 3, zoneAware := false }
def za3 : Cfg := { rf := 3, zoneAware := true }

/-- RF 3, three healthy instances: the write tolerates 1 error, the read 1. Had the read tolerated one
more, the acknowledging set {a, b} and the answering set {c} would be disjoint. -/
theorem intersect_needs_majority :
    get flat3 r3 (getTokens r3.reverse) 5 opWrite 0 = .ok { instances := r3, maxErrors := 1 } ∧
    getAll flat3 r3 (getTokens r3.reverse) opRead 0 = .ok { instances := r3, maxErrors := 1, maxUnavailableZones := 0, zoneAware := false } ∧
    writeOk (r3.take 2) { instances := r3, maxErrors := 1 } ∧
    readOkFlat (r3.drop 2) { instances := r3, maxErrors := 2, maxUnavailableZones := 0, zoneAware := false } ∧
    ¬ ∃ i, i ∈ r3.take 2 ∧ i ∈ r3.drop 2 := by
  refine ⟨by decide, by decide, ?_, ?_, by decide⟩
  · exact ⟨by decide, by decide, by decide⟩
  · exact ⟨by decide, by decide, by decide⟩

/-- Zone-aware counterpart: three zones, RF 3 — the read may miss 1 zone; missing 2 zones ({z3} answers)
would be disjoint from the acks {a, b}. -/
theorem intersect_needs_majority_zones :
    getAll za3 r3 (getTokens r3.reverse) opRead 0 = .ok { instances := r3, maxErrors := 0, maxUnavailableZones := 1, zoneAware := true } ∧
    readOkZones ["z3"] { instances := r3, maxErrors := 0, maxUnavailableZones := 2, zoneAware := true } ∧
    ¬ ∃ i, i ∈ r3.take 2 ∧ i.zone ∈ ["z3"] := by
  refine ⟨by decide, ?_, by decide⟩
  exact ⟨by decide, by decide, by decide⟩

/-! ### Non-vacuity: the hypotheses are met by concrete non-trivial data -/

-- flat: minimal acks {a, b} against minimal answers {b, c}
example : writeOk (r3.take 2) { instances := r3, maxErrors := 1 } := ⟨by decide, by decide, by decide⟩
example : readOkFlat (r3.drop 1) { instances := r3, maxErrors := 1, maxUnavailableZones := 0, zoneAware := false } :=
  ⟨by decide, by decide, by decide⟩
-- zone-aware: the write of key 5 succeeds with one tolerated error; zones {z2, z3} answering is a successful read
example : get za3 r3 (sortedTokens r3) 5 opWrite 0 = .ok { instances := r3, maxErrors := 1 } := by decide
example : readOkZones ["z2", "z3"] { instances := r3, maxErrors := 0, maxUnavailableZones := 1, zoneAware := true } :=
  ⟨by decide, by decide, by decide⟩
example : ∀ i ∈ r3, i.zone ≠ "" := by decide
-- a ring with a failing zone: 4 zones, RF 3, one stale instance: its whole zone is dropped from the read set
def r4 : Desc := r3 ++ [ { id := "d", tokens := [40], zone := "z4", ts := -100000 }, { id := "e", tokens := [50], zone := "z4" } ]
example : (getAll za3 r4 (sortedTokens r4) opRead 0).toOption.map (fun r => (r.instances.map (·.id), r.maxUnavailableZones))
    = some (["a", "b", "c"], 0) := by decide

/-! ### Non-vacuity of the end-to-end theorems: one concrete ring, one concrete `DoBatch` schedule, one
concrete `DoUntilQuorum` schedule meet ALL premises of `write_read_share_replica_flat_wf` / `_zones_wf` -/

/-- three ACTIVE instances in three zones, numbered 0,1,2 by their heartbeat second (`PC10.exAid`) -/
def e3 : Desc := [ { id := "a", ts := 0, tokens := [10], zone := "z0" }, { id := "b", ts := 1, tokens := [20], zone := "z1" },
                   { id := "c", ts := 2, tokens := [30], zone := "z2" } ]
def eW : RSet := { instances := e3, maxErrors := 1 }
def eRflat : RSetAll := { instances := e3, maxErrors := 1, maxUnavailableZones := 0, zoneAware := false }
def eRzone : RSetAll := { instances := e3, maxErrors := 0, maxUnavailableZones := 1, zoneAware := true }
def eZid (z : String) : Nat := if z = "z0" then 0 else if z = "z1" then 1 else 2
def eCflat : C11.Cfg := { zones := [0, 1, 2], maxErrors := 1, maxUnavail := 0, zoneAware := false, minimize := false,
                          hedging := false, hasTerm := false, cancelAll := true }
def eCzone : C11.Cfg := { zones := [0, 1, 2], maxErrors := 0, maxUnavail := 1, zoneAware := true, minimize := false,
                          hedging := false, hasTerm := false, cancelAll := true }
/-- all three requests start; instances 1 and 2 answer, which is a quorum; instance 0 never answers -/
def eRevs : List C11.Ev := [.begin 0, .begin 1, .begin 2, .finish 1 .ok, .recv, .finish 2 .ok, .recv]

set_option linter.defProp false   -- helper facts of the example below, deliberately not counted as obligations

def eGood : PfC10.GoodGets PC10.exGets := by
  intro g hg addrs me h
  simp only [PC10.exGets, List.mem_cons, List.mem_nil_iff, or_false] at hg
  rcases hg with rfl | rfl <;> cases h <;> decide

def eWrite : ∃ ws, C10.run (C10.initSt PC10.exPrep PC10.exOut) PC10.exSchedule = some ws ∧ ws.ret = some .done := by
  have h : ((C10.run (C10.initSt PC10.exPrep PC10.exOut) PC10.exSchedule).map fun s => s.ret) = some (some .done) := by decide
  cases hr : C10.run (C10.initSt PC10.exPrep PC10.exOut) PC10.exSchedule with
  | none => rw [hr] at h; cases h
  | some ws => rw [hr] at h; exact ⟨ws, rfl, by simpa using h⟩

def eRead (c : C11.Cfg) (hc : c = eCflat ∨ c = eCzone) :
    ∃ rst, C11.run c (C11.init c [] false) eRevs = some rst ∧ rst.main = .retOk [1, 2] := by
  have h : ((C11.run c (C11.init c [] false) eRevs).map fun s => s.main) = some (.retOk [1, 2]) := by
    rcases hc with rfl | rfl <;> decide +kernel
  cases hr : C11.run c (C11.init c [] false) eRevs with
  | none => rw [hr] at h; cases h
  | some rst => rw [hr] at h; exact ⟨rst, rfl, by simpa using h⟩

/-- flat: key 5 is written through `DoBatch` (key 0 of `PC10.exGets`; replicas 1 = b and 2 = c acknowledge,
replica 0 = a fails), the ring is read through `DoUntilQuorum` (b and c answer): they share a replica. -/
example : ∃ ws rst x, C10.run (C10.initSt PC10.exPrep PC10.exOut) PC10.exSchedule = some ws ∧
    C11.run eCflat (C11.init eCflat [] false) eRevs = some rst ∧
    x ∈ eW.instances ∧ PfC10.Acked PC10.exPrep ws 0 (PC10.exAid x) ∧ x ∈ PfC11.answered eRflat [1, 2] := by
  obtain ⟨ws, hws, hret⟩ := eWrite
  obtain ⟨rst, hrst, hmain⟩ := eRead eCflat (Or.inl rfl)
  obtain ⟨x, h1, h2, h3⟩ := write_read_share_replica_flat_wf { rf := 3, zoneAware := false } e3 (sortedTokens e3)
    (sortedTokens e3) 5 2 2 opWrite opRead eW eRflat (by decide) rfl (by decide) (by decide) eGood
    (show C10.prepare 4 none PC10.exGets = .ok PC10.exPrep by decide) hws (Or.inl hret) 0 PC10.exAid (by decide) (by decide)
    (zid := eZid) (by decide) (by decide) rfl rfl hrst (by decide) hmain
  exact ⟨ws, rst, x, hws, hrst, h1, h2, h3⟩

/-- zone-aware: same write, the read may miss one zone (z0 never answers) -/
example : ∃ ws rst x, C10.run (C10.initSt PC10.exPrep PC10.exOut) PC10.exSchedule = some ws ∧
    C11.run eCzone (C11.init eCzone [] false) eRevs = some rst ∧
    x ∈ eW.instances ∧ PfC10.Acked PC10.exPrep ws 0 (PC10.exAid x) ∧ x ∈ PfC11.answered eRzone [1, 2] := by
  obtain ⟨ws, hws, hret⟩ := eWrite
  obtain ⟨rst, hrst, hmain⟩ := eRead eCzone (Or.inr rfl)
  obtain ⟨x, h1, h2, h3⟩ := write_read_share_replica_zones_wf { rf := 3, zoneAware := true } e3 (sortedTokens e3)
    (sortedTokens e3) 5 2 2 opWrite opRead eW eRzone (by decide) rfl (by decide) PfC02.nonExtending_builtin.1 (by decide) (by decide) eGood
    (show C10.prepare 4 none PC10.exGets = .ok PC10.exPrep by decide) hws (Or.inl hret) 0 PC10.exAid (by decide) (by decide)
    (zid := eZid) (by decide) (by decide) rfl rfl hrst (by decide) hmain
  exact ⟨ws, rst, x, hws, hrst, h1, h2, h3⟩

/-! ### Second fully instantiated run: extended write set, a failing zone on the read side, two clocks,
`MaxUnavailableZones = 0`

Zone-aware, RF 3, four instances: `b` (zone z1) is JOINING. The write of key 5 at clock 3 walks a, b
(extends the set), c, e and returns the healthy {a, c, e} with NO tolerated error. The read at clock 4 finds
`b` unhealthy for `Read`, drops the whole zone z1 and returns {a, e} with `MaxUnavailableZones = 0`
(all slack consumed). `DoBatch`: replicas 0 (a), 2 (c), 3 (e) all acknowledge. `DoUntilQuorum`: both
instances of the read set answer. -/

def x4 : Desc := [ { id := "a", ts := 0, tokens := [10], zone := "z0" }, { id := "b", ts := 1, tokens := [20], zone := "z1", state := .JOINING },
                   { id := "c", ts := 2, tokens := [30], zone := "z1" }, { id := "e", ts := 3, tokens := [40], zone := "z2" } ]
def xW : RSet := { instances := [x4[0], x4[2], x4[3]], maxErrors := 0 }
def xR : RSetAll := { instances := [x4[0], x4[3]], maxErrors := 0, maxUnavailableZones := 0, zoneAware := true }
def xGets : List C10.GetRes := [.ok [0, 2, 3] 0]
def xPrep : C10.Prep := { items := [C10.mkItem [0, 2, 3] 0], calls := [(0, [0]), (2, [0]), (3, [0])], gets := 1 }
def xSched : List C10.Ev :=
  [.start 0, .start 1, .start 2, .ret 0, .tick 0, .tick 0, .tick 0, .ret 1, .tick 1, .tick 1, .tick 1,
   .ret 2, .tick 2, .tick 2, .tick 2, .recvDone]
def xC : C11.Cfg := { zones := [0, 2], maxErrors := 0, maxUnavail := 0, zoneAware := true, minimize := false,
                      hedging := false, hasTerm := false, cancelAll := true }
def xRevs : List C11.Ev := [.begin 0, .begin 1, .finish 0 .ok, .recv, .finish 1 .ok, .recv]

-- the extended walked set, the two lookups at different clocks, through the loser-tree token circle
example : (specWalked { rf := 3, zoneAware := true } opWrite x4 5).map (·.id) = ["a", "b", "c", "e"] := by decide
example : get { rf := 3, zoneAware := true } x4 (getTokens x4) 5 opWrite 3 = .ok xW := by decide
example : getAll { rf := 3, zoneAware := true } x4 (getTokens x4) opRead 4 = .ok xR := by decide

example : ∃ ws rst x, C10.run (C10.initSt xPrep (fun _ => .ok)) xSched = some ws ∧
    C11.run xC (C11.init xC [] false) xRevs = some rst ∧
    x ∈ xW.instances ∧ PfC10.Acked xPrep ws 0 (PC10.exAid x) ∧ x ∈ PfC11.answered xR [0, 1] := by
  have hw : ∃ ws, C10.run (C10.initSt xPrep (fun _ => .ok)) xSched = some ws ∧ ws.ret = some .done := by
    have h : ((C10.run (C10.initSt xPrep (fun _ => .ok)) xSched).map fun s => s.ret) = some (some .done) := by decide
    cases hr : C10.run (C10.initSt xPrep (fun _ => .ok)) xSched with
    | none => rw [hr] at h; cases h
    | some ws => rw [hr] at h; exact ⟨ws, rfl, by simpa using h⟩
  have hr : ∃ rst, C11.run xC (C11.init xC [] false) xRevs = some rst ∧ rst.main = .retOk [0, 1] := by
    have h : ((C11.run xC (C11.init xC [] false) xRevs).map fun s => s.main) = some (.retOk [0, 1]) := by decide +kernel
    cases hr : C11.run xC (C11.init xC [] false) xRevs with
    | none => rw [hr] at h; cases h
    | some rst => rw [hr] at h; exact ⟨rst, rfl, by simpa using h⟩
  obtain ⟨ws, hws, hret⟩ := hw
  obtain ⟨rst, hrst, hmain⟩ := hr
  have hg : PfC10.GoodGets xGets := goodGets_of_lookups xGets (by
    intro g hg
    simp only [xGets, List.mem_cons, List.mem_nil_iff, or_false] at hg
    subst hg
    exact Or.inr ⟨{ rf := 3, zoneAware := true }, x4, getTokens x4, 5, opWrite, 3, xW, PC10.exAid, by decide, by decide⟩)
  obtain ⟨x, h1, h2, h3⟩ := write_read_share_replica_zones_wf { rf := 3, zoneAware := true } x4 (getTokens x4)
    (getTokens x4) 5 3 4 opWrite opRead xW xR (by decide) rfl (by decide) PfC02.nonExtending_builtin.1 (by decide) (by decide) hg
    (show C10.prepare 4 none xGets = .ok xPrep by decide) hws (Or.inl hret) 0 PC10.exAid (by decide) (by decide)
    (zid := fun z => if z = "z0" then 0 else 2) (by decide) (by decide) rfl rfl hrst (by decide) hmain
  exact ⟨ws, rst, x, hws, hrst, h1, h2, h3⟩

-- the same read set run by `ReplicationSet.Do` (plain tracker, MaxErrors 0): B must be all of it
example : readOkFlat xR.instances xR := ⟨by decide, by decide, by decide⟩
-- WriteNoExtend is covered by the same theorems
example : get { rf := 3, zoneAware := true } x4 (getTokens x4) 5 opWriteNoExtend 3
    = .ok { instances := [x4[0], x4[3]], maxErrors := 0 } := by decide

end PC02
