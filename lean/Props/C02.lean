import Model.C02
import Proofs.C02
import Props.C10
import Props.C11
/-!
# C02 — every successful quorum write shares a replica with every successful quorum read

For a fixed ring content `d`, key and `now`: `W = Ring.Get(key, Write)` (C01's model) and
`R = Ring.GetReplicationSetForOperation(Read)` (`C02.getAll`). `writeOk A W`, `readOkFlat B R`,
`readOkZones Zs R` are the success criteria of the executors (DoBatch: `len − MaxErrors` acks;
defaultResultTracker: `len − MaxErrors` answers; zoneAwareResultTracker: all instances of
`zones − MaxUnavailableZones` zones).

Both theorems hold for EVERY token circle handed to the two lookups (`toks`, `toks'` are universally
quantified and need not even agree): they use only that the walk returns registered instances and, when
zone-aware, non-extending instances in pairwise distinct zones. In particular they are not affected by
the C01 finding about token 2^32-1, and they need no well-formedness of the descriptor.
-/
namespace PC02
open Common Ring C01 C02

/-- Zone-awareness off: any acknowledging set of a successful quorum write of `key` and any answering
set of a successful ring-wide quorum read have an instance in common — all rings, keys, RF, states and
heartbeat ages. (`|A| ≥ RF/2+1`, `|B| ≥ max(N,RF) − RF/2`, both inside the `N` registered instances.) -/
theorem quorum_intersect_flat (cfg : Cfg) (d : Desc) (toks toks' : List Nat) (key : Nat) (now : Int)
    (W : RSet) (R : RSetAll) (A B : List Inst) (hza : cfg.zoneAware = false)
    (hW : get cfg d toks key opWrite now = .ok W) (hR : getAll cfg d toks' opRead now = .ok R)
    (hA : writeOk A W) (hB : readOkFlat B R) : ∃ i, i ∈ A ∧ i ∈ B :=
  PfC02.quorum_intersect_flat cfg d toks toks' key now W R A B hza hW hR hA hB

/-- Zone-awareness on, every instance carrying a zone: some acknowledging replica belongs to the read
replication set and lies in one of the zones that answered completely — for any number of zones (fewer,
equal or more than RF). (Acks lie in ≥ RF/2+1 distinct zones; at most min(zones,RF)/2 zones are not
covered by the read.) -/
theorem quorum_intersect_zones (cfg : Cfg) (d : Desc) (toks toks' : List Nat) (key : Nat) (now : Int)
    (W : RSet) (R : RSetAll) (A : List Inst) (Zs : List String) (hza : cfg.zoneAware = true)
    (hz : ∀ i ∈ d, i.zone ≠ "")
    (hW : get cfg d toks key opWrite now = .ok W) (hR : getAll cfg d toks' opRead now = .ok R)
    (hA : writeOk A W) (hZ : readOkZones Zs R) :
    ∃ i, i ∈ A ∧ i ∈ R.instances ∧ i.zone ∈ Zs :=
  PfC02.quorum_intersect_zones cfg d toks toks' key now W R A Zs hza hz hW hR hA hZ

/-- The ingredient of the zone argument, for every token circle: the instances a zone-aware lookup
walks are registered instances and its non-extending members lie in pairwise distinct zones. -/
theorem write_acks_distinct_zones (cfg : Cfg) (d : Desc) (zones : List String) (op : Op)
    (hza : cfg.zoneAware = true) (hz : ∀ i ∈ d, i.zone ≠ "") (L : List Nat) (st : WalkSt) (out : List Inst)
    (h : walk cfg d zones 1 op L st = .ok out) :
    ((out.filter (fun i => !extendsOn op i.state)).map (·.zone)).Nodup ∧ (∀ i ∈ out, i ∈ d) :=
  let r := PfC02.walk_zone_facts cfg d zones op hza hz L st out h
  ⟨r.1, r.2.2⟩

/-! ### End to end: the executors' success reports, composed with the intersection theorems

`PC10.batch_success_implies_writeOk` (a `DoBatch` that reports success was acknowledged, for every key,
by a `writeOk` set) and `PC11.quorum_success_implies_readOk` (a `DoUntilQuorum` that returns results was
answered by a `readOkFlat` set / by `readOkZones` zones) feed the two theorems above. The runs are
arbitrary interleavings of the executors' micro-step models (C10, C11), so the statement covers every
outcome assignment, completion order and cancellation point of both calls. -/

/-- Not zone-aware: if `DoBatch` reports success for a batch containing `key` (its replication set is
`W`, instances numbered injectively by `aid`) and a ring-wide `DoUntilQuorum` read over `R` returns the
results `rs`, then some instance both acknowledged the write of `key` and is among the instances whose
results the read returned. -/
theorem write_read_share_replica_flat (cfg : Cfg) (d : Desc) (toks toks' : List Nat) (key : Nat) (now : Int)
    (W : RSet) (R : RSetAll) (hza : cfg.zoneAware = false)
    (hW : get cfg d toks key opWrite now = .ok W) (hR : getAll cfg d toks' opRead now = .ok R)
    -- the write: any run of the DoBatch model that has signalled success
    {icount : Int} {ca : Option Nat} {gets : List C10.GetRes} {p : C10.Prep} {out : Nat → C10.Outcome}
    {wevs : List C10.Ev} {ws : C10.St}
    (hg : PfC10.GoodGets gets) (hp : C10.prepare icount ca gets = .ok p)
    (hwr : C10.run (C10.initSt p out) wevs = some ws) (hd : ws.ret = some .done ∨ 1 ≤ ws.nDone)
    (i : Nat) (aid : Inst → Nat)
    (hinj : ∀ x ∈ W.instances, ∀ y ∈ W.instances, aid x = aid y → x = y) (hnd : W.instances.Nodup)
    (hi : gets[i]? = some (.ok (W.instances.map aid) W.maxErrors))
    -- the read: any run of the DoUntilQuorum model that returned results
    {c : C11.Cfg} {order : List Nat} {pre : Bool} {revs : List C11.Ev} {rst : C11.St} {zid : String → Nat}
    (hc : PfC11.Corresponds c R zid) (hrr : C11.run c (C11.init c order pre) revs = some rst)
    (hzm : c.zoneMode = false) {rs : List Nat} (hm : rst.main = .retOk rs) :
    ∃ x, x ∈ W.instances ∧ PfC10.Acked p ws i (aid x) ∧ x ∈ PfC11.answered R rs := by
  obtain ⟨A, hA, hack⟩ := PC10.batch_success_implies_writeOk hg hp hwr hd i W aid hinj hnd hi
  have hB := (PC11.quorum_success_implies_readOk hc hrr hm).1 hzm
  obtain ⟨x, hxA, hxB⟩ := quorum_intersect_flat cfg d toks toks' key now W R A _ hza hW hR hA hB
  exact ⟨x, hA.2.1 x hxA, hack x hxA, hxB⟩

/-- Zone-aware: under the same premises with a zone-aware read, some instance acknowledged the write of
`key` and its result is among those the read returned (it lies in a zone that answered completely). -/
theorem write_read_share_replica_zones (cfg : Cfg) (d : Desc) (toks toks' : List Nat) (key : Nat) (now : Int)
    (W : RSet) (R : RSetAll) (hza : cfg.zoneAware = true) (hz : ∀ i ∈ d, i.zone ≠ "")
    (hW : get cfg d toks key opWrite now = .ok W) (hR : getAll cfg d toks' opRead now = .ok R)
    {icount : Int} {ca : Option Nat} {gets : List C10.GetRes} {p : C10.Prep} {out : Nat → C10.Outcome}
    {wevs : List C10.Ev} {ws : C10.St}
    (hg : PfC10.GoodGets gets) (hp : C10.prepare icount ca gets = .ok p)
    (hwr : C10.run (C10.initSt p out) wevs = some ws) (hd : ws.ret = some .done ∨ 1 ≤ ws.nDone)
    (i : Nat) (aid : Inst → Nat)
    (hinj : ∀ x ∈ W.instances, ∀ y ∈ W.instances, aid x = aid y → x = y) (hnd : W.instances.Nodup)
    (hi : gets[i]? = some (.ok (W.instances.map aid) W.maxErrors))
    {c : C11.Cfg} {order : List Nat} {pre : Bool} {revs : List C11.Ev} {rst : C11.St} {zid : String → Nat}
    (hc : PfC11.Corresponds c R zid) (hrr : C11.run c (C11.init c order pre) revs = some rst)
    (hzm : c.zoneMode = true) {rs : List Nat} (hm : rst.main = .retOk rs) :
    ∃ x, x ∈ W.instances ∧ PfC10.Acked p ws i (aid x) ∧ x ∈ PfC11.answered R rs := by
  obtain ⟨A, hA, hack⟩ := PC10.batch_success_implies_writeOk hg hp hwr hd i W aid hinj hnd hi
  obtain ⟨hZ, hall, _⟩ := (PC11.quorum_success_implies_readOk hc hrr hm).2 hzm
  obtain ⟨x, hxA, hxR, hxZ⟩ := quorum_intersect_zones cfg d toks toks' key now W R A _ hza hz hW hR hA hZ
  exact ⟨x, hA.2.1 x hxA, hack x hxA, hall _ hxZ x hxR rfl⟩


/-! ### The arithmetic is tight (regression witnesses, not part of the claim) -/

def r3 : Desc := [ { id := "a", tokens := [10], zone := "z1" }, { id := "b", tokens := [20], zone := "z2" },
                   { id := "c", tokens := [30], zone := "z3" } ]
def flat3 : Cfg := { rf := 3, zoneAware := false }
def za3 : Cfg := { rf := 3, zoneAware := true }

/-- RF 3, three healthy instances: the write tolerates 1 error, the read 1. Had the read tolerated one
more, the acknowledging set {a, b} and the answering set {c} would be disjoint. -/
theorem intersect_needs_majority :
    get flat3 r3 (sortedTokens r3) 5 opWrite 0 = .ok { instances := r3, maxErrors := 1 } ∧
    getAll flat3 r3 (sortedTokens r3) opRead 0 = .ok { instances := r3, maxErrors := 1, maxUnavailableZones := 0, zoneAware := false } ∧
    writeOk (r3.take 2) { instances := r3, maxErrors := 1 } ∧
    readOkFlat (r3.drop 2) { instances := r3, maxErrors := 2, maxUnavailableZones := 0, zoneAware := false } ∧
    ¬ ∃ i, i ∈ r3.take 2 ∧ i ∈ r3.drop 2 := by
  refine ⟨by decide, by decide, ?_, ?_, by decide⟩
  · exact ⟨by decide, by decide, by decide⟩
  · exact ⟨by decide, by decide, by decide⟩

/-- Zone-aware counterpart: three zones, RF 3 — the read may miss 1 zone; missing 2 zones ({z3} answers)
would be disjoint from the acks {a, b}. -/
theorem intersect_needs_majority_zones :
    getAll za3 r3 (sortedTokens r3) opRead 0 = .ok { instances := r3, maxErrors := 0, maxUnavailableZones := 1, zoneAware := true } ∧
    readOkZones ["z3"] { instances := r3, maxErrors := 0, maxUnavailableZones := 2, zoneAware := true } ∧
    ¬ ∃ i, i ∈ r3.take 2 ∧ i.zone ∈ ["z3"] := by
  refine ⟨by decide, ?_, by decide⟩
  exact ⟨by decide, by decide, by decide⟩

/-! ### Non-vacuity: the hypotheses are met by concrete non-trivial data -/

-- flat: minimal acks {a, b} against minimal answers {b, c}
example : writeOk (r3.take 2) { instances := r3, maxErrors := 1 } := ⟨by decide, by decide, by decide⟩
example : readOkFlat (r3.drop 1) { instances := r3, maxErrors := 1, maxUnavailableZones := 0, zoneAware := false } :=
  ⟨by decide, by decide, by decide⟩
-- zone-aware: the write of key 5 succeeds with one tolerated error; zones {z2, z3} answering is a successful read
example : get za3 r3 (sortedTokens r3) 5 opWrite 0 = .ok { instances := r3, maxErrors := 1 } := by decide
example : readOkZones ["z2", "z3"] { instances := r3, maxErrors := 0, maxUnavailableZones := 1, zoneAware := true } :=
  ⟨by decide, by decide, by decide⟩
example : ∀ i ∈ r3, i.zone ≠ "" := by decide
-- a ring with a failing zone: 4 zones, RF 3, one stale instance: its whole zone is dropped from the read set
def r4 : Desc := r3 ++ [ { id := "d", tokens := [40], zone := "z4", ts := -100000 }, { id := "e", tokens := [50], zone := "z4" } ]
example : (getAll za3 r4 (sortedTokens r4) opRead 0).toOption.map (fun r => (r.instances.map (·.id), r.maxUnavailableZones))
    = some (["a", "b", "c"], 0) := by decide

end PC02
