import Model.C01
import Model.C01Spec
import Generated.C01
import Proofs.C01
/-!
# C01 — key lookup = consistent-hash replica set + exact quorum slack

Model: `Model/C01.lean` (reads like `ring.go` / `util.go` / `replication_strategy.go` / `loser.go`).
Specification: `Model/C01Spec.lean` (`circle`, `D`, `Sfull`, `specWalked`, `specGet`; written from the
property text, no reference to the loop).

Every theorem quantifies over ALL descriptors (any number of instances, tokens, zones, states,
heartbeats, token-less instances), all keys, every operation mask (hence the four built-in ones),
every replication factor ≥ 1, zone-awareness on and off.

FINDING (proved below, reproduced on the real code by the correspondence run): the ring does not always
walk the sorted token list. `Desc.GetTokens` merges the per-instance token lists with
`loser.New(lists, math.MaxUint32)`, whose sentinel equals the largest legal token; an instance whose only
token is 2^32-1 loses it when a token-less instance follows it in Go's map iteration order. Theorems
about `Get` therefore carry the guard `getTokens order = sortedTokens d` and are named `…_partial`.
-/
namespace PC01
open Common Ring C01

/-! ### The regenerated Operation tables equal the model's (re-proved on every run). -/

/-- the four `Operation` bitmaps read from the running code are the model's. -/
theorem ops_table :
    Generated.C01.opWrite = opWrite ∧ Generated.C01.opWriteNoExtend = opWriteNoExtend ∧
    Generated.C01.opRead = opRead ∧ Generated.C01.opReporting = opReporting := by decide

/-- `IsInstanceInStateHealthy` / `ShouldExtendReplicaSetOnState` evaluated by the running code on
all four operations × five states equal the model's predicates; enum values and the sentinel too. -/
theorem ops_predicates_table :
    Generated.C01.healthyTable = [opWrite, opWriteNoExtend, opRead, opReporting].map (fun op => allStates.map (healthyState op)) ∧
    Generated.C01.extendTable = [opWrite, opWriteNoExtend, opRead, opReporting].map (fun op => allStates.map (extendsOn op)) ∧
    Generated.C01.stateValues = allStates.map State.toNat ∧ Generated.C01.maxToken = maxToken := by decide

/-! ### Successor search -/

/-- On a strictly sorted token list `searchToken` is the index of the first token strictly greater
than the key, and 0 (wrap-around) if there is none — for every key, including key = token,
key = 2^32-1 and key below the first token. -/
theorem searchToken_spec (tokens : List Nat) (key : Nat) (hs : tokens.Pairwise (· < ·)) :
    searchToken tokens key =
      (match tokens.findIdx? (fun t => decide (key < t)) with | some j => j | none => 0) :=
  PfC01.searchToken_index tokens key hs

/-- Equivalently: the circle read from `searchToken` on is "tokens > key ascending, then tokens ≤ key
ascending". -/
theorem searchToken_rot (tokens : List Nat) (key : Nat) (hs : tokens.Pairwise (· < ·)) :
    rot tokens (searchToken tokens key) =
      tokens.filter (fun t => decide (key < t)) ++ tokens.filter (fun t => decide (t ≤ key)) :=
  PfC01.rot_searchToken tokens key hs

theorem searchToken_lt (tokens : List Nat) (key : Nat) (h : tokens ≠ []) :
    searchToken tokens key < tokens.length :=
  PfC01.searchToken_lt tokens key h

/-! ### The walk -/

/-- The loop of `findInstancesForKey`, started at `searchToken` on the sorted token circle of a
well-formed ring, returns exactly the declarative walked set: the first `rf` distinct non-extending
instances clockwise from the first token > key (at most one non-extending instance per non-empty zone
when zone-awareness is on), with every extending instance met on the way. The three early exits
(`distinct ≥ min(len(Ingesters), replicaSetSize)`, `canStopLooking`, one full turn) cut nothing. -/
theorem walk_eq_spec (cfg : Cfg) (d : Desc) (key : Nat) (op : Op) (hwf : WFRing d) (hrf : 1 ≤ cfg.rf) :
    findInstancesForKey cfg d (sortedTokens d) key op cfg.rf = .ok (specWalked cfg op d key) :=
  PfC01.walk_eq_spec cfg d key op hwf hrf

/-- On a well-formed ring the lookup never reports `ErrInconsistentTokensInfo` and never panics. -/
theorem walk_no_inconsistent (cfg : Cfg) (d : Desc) (key : Nat) (op : Op) (now : Int) (hwf : WFRing d)
    (hrf : 1 ≤ cfg.rf) :
    get cfg d (sortedTokens d) key op now ≠ .error .inconsistentTokens ∧
    get cfg d (sortedTokens d) key op now ≠ .error .panic :=
  PfC01.walk_no_inconsistent cfg d key op now hwf hrf

/-! ### Health filter and majority arithmetic -/

/-- `Filter` fails precisely when fewer than `max rf n / 2 + 1` of the `n` walked instances are
healthy; otherwise it returns exactly the healthy ones (in order) and tolerates exactly
`healthy − (max rf n / 2 + 1)` errors. -/
theorem filter_exact (cfg : Cfg) (op : Op) (now : Int) (rf : Nat) (l : List Inst) :
    filter cfg op now rf l =
      (if (l.filter (isHealthy op cfg.hbTimeout now)).length < majority rf l.length then .error .tooManyUnhealthy
       else .ok { instances := l.filter (isHealthy op cfg.hbTimeout now),
                  maxErrors := (l.filter (isHealthy op cfg.hbTimeout now)).length - majority rf l.length }) :=
  PfC01.filter_exact cfg op now rf l

/-! ### The lookup -/

/-
FULL STATEMENT (false on the current code, see `get_eq_spec_fails_on_max_token`):

theorem get_eq_spec (cfg d order key op now) (hwf : WFRing d) (hrf : 1 ≤ cfg.rf) (hperm : order.Perm d) :
    ((specGet cfg op d key now).ok = true → get cfg d (getTokens order) key op now = .ok ⟨spec.instances, spec.maxErrors⟩) ∧
    ((specGet cfg op d key now).ok = false → get … = .error .emptyRing ∨ get … = .error .tooManyUnhealthy)

Proved part: the same statement under the exact guard that the loser-tree merge returned the sorted
union of the instance token lists (`getTokens order = sortedTokens d`).
-/

/-- `Ring.Get` = the specification: it fails precisely when fewer than a majority of the walked set
(or of the replication factor, if larger) is healthy, otherwise returns exactly the healthy members of
the walked set and tolerates exactly healthy − majority errors. Guard: the token circle built by
`GetTokens` under the realised map order is the sorted token list. -/
theorem get_eq_spec_partial (cfg : Cfg) (d order : Desc) (key : Nat) (op : Op) (now : Int) (hwf : WFRing d)
    (hrf : 1 ≤ cfg.rf) (hmerge : getTokens order = sortedTokens d) :
    ((specGet cfg op d key now).ok = true →
      get cfg d (getTokens order) key op now
        = .ok { instances := (specGet cfg op d key now).instances, maxErrors := (specGet cfg op d key now).maxErrors }) ∧
    ((specGet cfg op d key now).ok = false →
      get cfg d (getTokens order) key op now = .error .emptyRing ∨
      get cfg d (getTokens order) key op now = .error .tooManyUnhealthy) :=
  PfC01.get_eq_spec_guarded cfg d order key op now hwf hrf hmerge

/-- The same with the circle given directly as the sorted token list. -/
theorem get_eq_spec_sorted (cfg : Cfg) (d : Desc) (key : Nat) (op : Op) (now : Int) (hwf : WFRing d) (hrf : 1 ≤ cfg.rf) :
    ((specGet cfg op d key now).ok = true →
      get cfg d (sortedTokens d) key op now
        = .ok { instances := (specGet cfg op d key now).instances, maxErrors := (specGet cfg op d key now).maxErrors }) ∧
    ((specGet cfg op d key now).ok = false →
      get cfg d (sortedTokens d) key op now = .error .emptyRing ∨
      get cfg d (sortedTokens d) key op now = .error .tooManyUnhealthy) :=
  PfC01.get_eq_spec cfg d key op now hwf hrf

/-- `GetWithOptions(WithReplicationFactor(n))` under the default strategy: any per-call factor not
exceeding the configured one behaves exactly like `Get`; a larger one is rejected. -/
theorem getWith_percall (cfg : Cfg) (d : Desc) (toks : List Nat) (key : Nat) (op : Op) (now : Int) (rfCall : Int) :
    getWith cfg d toks key op now rfCall =
      (if toks.length = 0 then .error .emptyRing
       else if rfCall > cfg.rf then .error .rfTooLarge
       else get cfg d toks key op now) :=
  PfC01.getWith_percall cfg d toks key op now rfCall

/-! ### The finding: token 2^32-1 can vanish from the token circle -/

def witA : Inst := { id := "i0", tokens := [4294967295] }
def witB : Inst := { id := "i1" }

/-- `MergeTokens([[4294967295], []]) = []`: the exhausted list (value = sentinel `math.MaxUint32`) beats
the live list whose head equals the sentinel in `initialize`/`playGame`. -/
theorem loser_drops_max_token :
    loserMerge [[4294967295], []] = [] ∧ loserMerge [[], [4294967295]] = [4294967295] ∧
    loserMerge [[5, 9], [4294967295], []] = [5, 9] := by decide

/-- The token circle of the well-formed ring `{i0: [2^32-1], i1: []}` depends on the map order. -/
theorem getTokens_order_dependent :
    WFRing [witA, witB] ∧ getTokens [witA, witB] = [] ∧ getTokens [witB, witA] = [4294967295] ∧
    sortedTokens [witA, witB] = [4294967295] := by decide

/-- Negation of the full `get_eq_spec`: on that ring (RF 1, Write, both instances ACTIVE and healthy)
the specification returns `{i0}` with no error tolerance, the lookup fails with `ErrEmptyRing`. -/
theorem get_eq_spec_fails_on_max_token :
    WFRing [witA, witB] ∧ [witA, witB].Perm [witA, witB] ∧
    specGet { rf := 1, zoneAware := false } opWrite [witA, witB] 0 0 = { ok := true, instances := [witA], maxErrors := 0 } ∧
    get { rf := 1, zoneAware := false } [witA, witB] (getTokens [witA, witB]) 0 opWrite 0 = .error .emptyRing := by
  refine ⟨by decide, List.Perm.refl _, by decide, by decide⟩

/-! ### "Consequently": locality of membership changes -/

/-- Specification level, full strength (no guard, no well-formedness needed): removing an instance that
is not in the walked set of a key leaves that walked set — hence the whole specified result — unchanged. -/
theorem walked_local_remove (cfg : Cfg) (op : Op) (d : Desc) (key : Nat) (now : Int) (xid : String)
    (hx : ∀ y ∈ specWalked cfg op d key, y.id ≠ xid) :
    specWalked cfg op (d.filter (PfC01.keepNot xid)) key = specWalked cfg op d key ∧
    specGet cfg op (d.filter (PfC01.keepNot xid)) key now = specGet cfg op d key now :=
  ⟨PfC01.specWalked_remove cfg op d key xid hx, PfC01.specGet_remove cfg op d key now xid hx⟩

/-
FULL STATEMENTS: as below with `getTokens order` / `getTokens order'` (any map orders of the two
descriptors) instead of the sorted token lists. False for the same reason as `get_eq_spec`.
-/

/-- Removing an instance changes the lookup only of keys for which it was a replica (zone-awareness on
or off). Guard: both token circles are the sorted token lists. -/
theorem lookup_local_remove_partial (cfg : Cfg) (d : Desc) (key : Nat) (op : Op) (now : Int) (xid : String)
    (hwf : WFRing d) (hrf : 1 ≤ cfg.rf) (hx : ∀ y ∈ specWalked cfg op d key, y.id ≠ xid) :
    (get cfg (d.filter (PfC01.keepNot xid)) (sortedTokens (d.filter (PfC01.keepNot xid))) key op now).toOption
      = (get cfg d (sortedTokens d) key op now).toOption :=
  PfC01.lookup_local_remove cfg d key op now xid hwf hrf hx

/-- Registering an instance (at any position of the descriptor) changes the lookup only of keys for
which it becomes a replica. Same guard. -/
theorem lookup_local_add_partial (cfg : Cfg) (d₁ d₂ : Desc) (x : Inst) (key : Nat) (op : Op) (now : Int)
    (hwf : WFRing (d₁ ++ x :: d₂)) (hrf : 1 ≤ cfg.rf)
    (hx : ∀ y ∈ specWalked cfg op (d₁ ++ x :: d₂) key, y.id ≠ x.id) :
    (get cfg (d₁ ++ x :: d₂) (sortedTokens (d₁ ++ x :: d₂)) key op now).toOption
      = (get cfg (d₁ ++ d₂) (sortedTokens (d₁ ++ d₂)) key op now).toOption :=
  PfC01.lookup_local_add cfg d₁ d₂ x key op now hwf hrf hx

/-! ### Non-vacuity -/

/-- 4 instances, 2 zones, one JOINING: a well-formed ring whose Write lookup yields an extended set. -/
def ring4 : Desc :=
  [ { id := "a", tokens := [10, 50], zone := "z1" },
    { id := "b", tokens := [20], zone := "z2", state := .JOINING },
    { id := "c", tokens := [30], zone := "z2" },
    { id := "d", tokens := [40, 4294967295], zone := "z1" } ]
def cfg2 : Cfg := { rf := 2, zoneAware := true }

example : WFRing ring4 := by decide
example : (sortedTokens ring4).Pairwise (· < ·) := by decide
example : getTokens ring4 = sortedTokens ring4 := by decide          -- the guard is satisfiable
example : (specWalked cfg2 opWrite ring4 5).map (·.id) = ["a", "b", "c"] := by decide   -- extended by JOINING b
example : (get cfg2 ring4 (getTokens ring4) 5 opWrite 0).toOption.map (fun r => (r.instances.map (·.id), r.maxErrors))
    = some (["a", "c"], 0) := by decide
-- "d" is not a replica of key 5: removing it does not change the lookup; "c" is: removing it does
example : ∀ y ∈ specWalked cfg2 opWrite ring4 5, y.id ≠ "d" := by decide
example : (get cfg2 (ring4.filter (PfC01.keepNot "c")) (sortedTokens (ring4.filter (PfC01.keepNot "c"))) 5 opWrite 0).toOption
    ≠ (get cfg2 ring4 (sortedTokens ring4) 5 opWrite 0).toOption := by decide
-- a failing lookup: RF 4 but only two healthy ACTIVE instances in distinct zones
example : (specGet { rf := 4, zoneAware := true } opWrite ring4 5 0).ok = false := by decide
example : searchToken [10, 20, 30] 20 = 2 ∧ searchToken [10, 20, 30] 30 = 0 ∧ searchToken [10, 20, 30] 4294967295 = 0 := by decide

end PC01
