import Model.C01
import Model.C01Spec
import Generated.C01
import Proofs.C01
/-!
# C01 — key lookup = consistent-hash replica set + exact quorum slack

Model: `Model/C01.lean` (reads like `ring.go` / `util.go` / `replication_strategy.go` / `loser.go`).
Specification: `Model/C01Spec.lean` (`circle`, `D`, `Sfull`, `specWalked`, `specGet`; written from the
property text, no reference to the loop).

Every theorem quantifies over ALL descriptors (any number of instances, tokens, zones, states,
heartbeats, token-less instances), all keys, every operation mask (hence the four built-in ones),
every replication factor ≥ 1, zone-awareness on and off.

The token circle the ring walks is `Desc.GetTokens()` = `loser.New(lists, math.MaxUint32)` drained, with
the lists in Go's map iteration order. `merge_tokens_sorted` proves the loser tree (fixed `playGame`,
/repo a6b17a3) correct for every order and for values equal to the sentinel 2^32-1, so the theorems
about `Get` hold for EVERY `getTokens order`, `order` any permutation of the descriptor. The only
hypotheses are the C05 well-formedness (`WFRing`), tokens being uint32 values (`TokensU32`) and RF ≥ 1.
-/
namespace PC01
open Common Ring C01

/-! ### The regenerated Operation tables equal the model's (re-proved on every run). -/

/-- the four `Operation` bitmaps read from the running code are the model's. -/
theorem ops_table :
    Generated.C01.opWrite = opWrite ∧ Generated.C01.opWriteNoExtend = opWriteNoExtend ∧
    Generated.C01.opRead = opRead ∧ Generated.C01.opReporting = opReporting := by decide

/-- `IsInstanceInStateHealthy` / `ShouldExtendReplicaSetOnState` evaluated by the running code on
all four operations × five states equal the model's predicates; enum values and the sentinel too. -/
theorem ops_predicates_table :
    Generated.C01.healthyTable = [opWrite, opWriteNoExtend, opRead, opReporting].map (fun op => allStates.map (healthyState op)) ∧
    Generated.C01.extendTable = [opWrite, opWriteNoExtend, opRead, opReporting].map (fun op => allStates.map (extendsOn op)) ∧
    Generated.C01.stateValues = allStates.map State.toNat ∧ Generated.C01.maxToken = maxToken := by decide

/-! ### Successor search -/

/-- On a strictly sorted token list `searchToken` is the index of the first token strictly greater
than the key, and 0 (wrap-around) if there is none — for every key, including key = token,
key = 2^32-1 and key below the first token. -/
theorem searchToken_spec (tokens : List Nat) (key : Nat) (hs : tokens.Pairwise (· < ·)) :
    searchToken tokens key =
      (match tokens.findIdx? (fun t => decide (key < t)) with | some j => j | none => 0) :=
  PfC01.searchToken_index tokens key hs

/-- Equivalently: the circle read from `searchToken` on is "tokens > key ascending, then tokens ≤ key
ascending". -/
theorem searchToken_rot (tokens : List Nat) (key : Nat) (hs : tokens.Pairwise (· < ·)) :
    rot tokens (searchToken tokens key) =
      tokens.filter (fun t => decide (key < t)) ++ tokens.filter (fun t => decide (t ≤ key)) :=
  PfC01.rot_searchToken tokens key hs

theorem searchToken_lt (tokens : List Nat) (key : Nat) (h : tokens ≠ []) :
    searchToken tokens key < tokens.length :=
  PfC01.searchToken_lt tokens key h

/-! ### The walk -/

/-- The loop of `findInstancesForKey`, started at `searchToken` on the sorted token circle of a
well-formed ring, returns exactly the declarative walked set: the first `rf` distinct non-extending
instances clockwise from the first token > key (at most one non-extending instance per non-empty zone
when zone-awareness is on), with every extending instance met on the way. The three early exits
(`distinct ≥ min(len(Ingesters), replicaSetSize)`, `canStopLooking`, one full turn) cut nothing. -/
theorem walk_eq_spec (cfg : Cfg) (d : Desc) (key : Nat) (op : Op) (hwf : WFRing d) (hrf : 1 ≤ cfg.rf) :
    findInstancesForKey cfg d (sortedTokens d) key op cfg.rf = .ok (specWalked cfg op d key) :=
  PfC01.walk_eq_spec cfg d key op hwf hrf

/-- On a well-formed ring the lookup never reports `ErrInconsistentTokensInfo` and never panics. -/
theorem walk_no_inconsistent (cfg : Cfg) (d : Desc) (key : Nat) (op : Op) (now : Int) (hwf : WFRing d)
    (hrf : 1 ≤ cfg.rf) :
    get cfg d (sortedTokens d) key op now ≠ .error .inconsistentTokens ∧
    get cfg d (sortedTokens d) key op now ≠ .error .panic :=
  PfC01.walk_no_inconsistent cfg d key op now hwf hrf

/-! ### Health filter and majority arithmetic -/

/-- `Filter` fails precisely when fewer than `max rf n / 2 + 1` of the `n` walked instances are
healthy; otherwise it returns exactly the healthy ones (in order) and tolerates exactly
`healthy − (max rf n / 2 + 1)` errors. -/
theorem filter_exact (cfg : Cfg) (op : Op) (now : Int) (rf : Nat) (l : List Inst) :
    filter cfg op now rf l =
      (if (l.filter (isHealthy op cfg.hbTimeout now)).length < majority rf l.length then .error .tooManyUnhealthy
       else .ok { instances := l.filter (isHealthy op cfg.hbTimeout now),
                  maxErrors := (l.filter (isHealthy op cfg.hbTimeout now)).length - majority rf l.length }) :=
  PfC01.filter_exact cfg op now rf l

/-! ### The token circle -/

/-- `ring.MergeTokens` (loser tree) is the sorted merge: for lists that are each sorted with values
≤ 2^32-1 — values equal to the sentinel, empty lists and every order of the lists included — the result
is the ascending list of all elements (sorted, and a permutation of the concatenation). -/
theorem merge_tokens_sorted (lists : List (List Nat)) (hs : ∀ l ∈ lists, l.Pairwise (· ≤ ·))
    (hM : ∀ l ∈ lists, ∀ x ∈ l, x ≤ maxToken) :
    loserMerge lists = sortNat lists.flatten ∧
    (loserMerge lists).Pairwise (· ≤ ·) ∧ (loserMerge lists).Perm lists.flatten := by
  have h := PfC01.loserMerge_spec lists hs hM
  exact ⟨h, h ▸ PfC01.sortNat_sorted _, h ▸ PfC01.sortNat_perm _⟩

/-- `Desc.GetTokens()` is the ascending list of all registered tokens, for every map iteration order. -/
theorem getTokens_sorted (d order : Desc) (hperm : order.Perm d) (hu : TokensU32 d) :
    getTokens order = sortedTokens d :=
  PfC01.getTokens_eq_sorted d order hperm hu

/-! ### The lookup -/

/-- `Ring.Get` = the specification, for every ring content, key, operation and map iteration order: it
fails precisely when fewer than a majority of the walked set (or of the replication factor, if larger)
is healthy — with `ErrEmptyRing` if the ring has no token at all and the quorum error otherwise, never an
internal inconsistency — and otherwise
returns exactly the healthy members of the walked set and tolerates exactly healthy − majority errors. -/
theorem get_eq_spec (cfg : Cfg) (d order : Desc) (key : Nat) (op : Op) (now : Int) (hwf : WFRing d)
    (hu : TokensU32 d) (hrf : 1 ≤ cfg.rf) (hperm : order.Perm d) :
    ((specGet cfg op d key now).ok = true →
      get cfg d (getTokens order) key op now
        = .ok { instances := (specGet cfg op d key now).instances, maxErrors := (specGet cfg op d key now).maxErrors }) ∧
    ((specGet cfg op d key now).ok = false →
      get cfg d (getTokens order) key op now
        = .error (if sortedTokens d = [] then .emptyRing else .tooManyUnhealthy)) :=
  ⟨(PfC01.get_eq_spec_full cfg d order key op now hwf hu hrf hperm).1,
   PfC01.get_fail_kind_full cfg d order key op now hwf hu hrf hperm⟩

/-- Which error: the lookup reports `ErrEmptyRing` exactly when no instance owns a token
(Go: `len(r.ringTokens) == 0`); every other failure is the quorum error of `Filter`. -/
theorem get_emptyRing_iff (cfg : Cfg) (d order : Desc) (key : Nat) (op : Op) (now : Int) (hwf : WFRing d)
    (hu : TokensU32 d) (hrf : 1 ≤ cfg.rf) (hperm : order.Perm d) :
    get cfg d (getTokens order) key op now = .error .emptyRing ↔ sortedTokens d = [] :=
  PfC01.get_emptyRing_iff_full cfg d order key op now hwf hu hrf hperm

/-- The same with the circle given directly as the sorted token list. -/
theorem get_eq_spec_sorted (cfg : Cfg) (d : Desc) (key : Nat) (op : Op) (now : Int) (hwf : WFRing d) (hrf : 1 ≤ cfg.rf) :
    ((specGet cfg op d key now).ok = true →
      get cfg d (sortedTokens d) key op now
        = .ok { instances := (specGet cfg op d key now).instances, maxErrors := (specGet cfg op d key now).maxErrors }) ∧
    ((specGet cfg op d key now).ok = false →
      get cfg d (sortedTokens d) key op now
        = .error (if sortedTokens d = [] then .emptyRing else .tooManyUnhealthy)) :=
  ⟨(PfC01.get_eq_spec cfg d key op now hwf hrf).1, PfC01.get_fail_kind cfg d key op now hwf hrf⟩

/-- `GetWithOptions(WithReplicationFactor(n))` under the default strategy: any per-call factor not
exceeding the configured one behaves exactly like `Get`; a larger one is rejected. -/
theorem getWith_percall (cfg : Cfg) (d : Desc) (toks : List Nat) (key : Nat) (op : Op) (now : Int) (rfCall : Int) :
    getWith cfg d toks key op now rfCall =
      (if toks.length = 0 then .error .emptyRing
       else if rfCall > cfg.rf then .error .rfTooLarge
       else get cfg d toks key op now) :=
  PfC01.getWith_percall cfg d toks key op now rfCall

/-! ### What a successful lookup guarantees to its callers (used by C02, C10, C11)

These need NO well-formedness hypothesis, and that is sound for real rings for two separate reasons:
* ids: a ring content is a Go `map[string]InstanceDesc` whose keys are the ids, so ids are pairwise
  distinct by construction; the statements below simply do not use it (the loop itself refuses an id it
  has already taken, `distinctHosts`). A `Desc` LIST with a repeated id is not a ring content; what the
  theorems say about such a list is a fact about the model only.
* tokens: when two instances claim one token, the real index (`getTokensInfo`) keeps whichever entry Go's
  map iteration visits last, which `tokenInfo` (first entry in list order) does not reproduce. Therefore the
  facts are proved for EVERY token→owner index (`get_ok_any_index`, about `getWithO`, which is `getWith`
  with the index as a parameter: `getWithO_is_getWith`); the three theorems about `get` are its
  instance `owner = tokenInfo d`. They hold for every token circle handed to the lookup as well. -/

/-- `getWithO … (tokenInfo d)` is `getWith` (and `get` is `getWith` at the configured RF). -/
theorem getWithO_is_getWith (cfg : Cfg) (d : Desc) (toks : List Nat) (key : Nat) (op : Op) (now rfCall : Int) :
    getWithO cfg d (tokenInfo d) toks key op now rfCall = getWith cfg d toks key op now rfCall :=
  PfC01.getWithO_tokenInfo cfg d toks key op now rfCall

/-- Whatever token→owner index the ring holds (any function `owner`), whatever the token circle and the
per-call replication factor: a successful lookup returns instances with pairwise distinct ids (hence
pairwise distinct instances), a tolerance `MaxErrors < len(Instances)`, and only instances the index
points to — so, if the index points into the descriptor, only registered instances. -/
theorem get_ok_any_index (cfg : Cfg) (d : Desc) (owner : Nat → Option Inst) (toks : List Nat) (key : Nat) (op : Op)
    (now rfCall : Int) (W : RSet) (h : getWithO cfg d owner toks key op now rfCall = .ok W) :
    (W.instances.map (·.id)).Nodup ∧ W.instances.Nodup ∧ W.maxErrors < W.instances.length ∧
    (∀ i ∈ W.instances, ∃ t, owner t = some i) ∧
    ((∀ t i, owner t = some i → i ∈ d) → ∀ i ∈ W.instances, i ∈ d) :=
  let f := PfC01.getWithO_ok_facts cfg d owner toks key op now rfCall W h
  ⟨f.1, f.2.1, f.2.2.1, f.2.2.2, fun hown i hi => let ⟨t, ht⟩ := f.2.2.2 i hi; hown t i ht⟩

/-- (a) the returned instances are pairwise distinct — even their ids are. -/
theorem get_ok_nodup (cfg : Cfg) (d : Desc) (toks : List Nat) (key : Nat) (op : Op) (now : Int) (W : RSet)
    (h : get cfg d toks key op now = .ok W) : W.instances.Nodup ∧ (W.instances.map (·.id)).Nodup :=
  let f := PfC01.get_ok_facts cfg d toks key op now W h
  ⟨f.2.1, f.1⟩

/-- (b) the error tolerance is in range: `0 ≤ MaxErrors < len(Instances)` (C10's `GoodGets`). -/
theorem get_ok_tolerance (cfg : Cfg) (d : Desc) (toks : List Nat) (key : Nat) (op : Op) (now : Int) (W : RSet)
    (h : get cfg d toks key op now = .ok W) :
    0 ≤ W.maxErrors ∧ W.maxErrors < W.instances.length ∧
    (0 : Int) ≤ (W.maxErrors : Int) ∧ (W.maxErrors : Int) < (W.instances.length : Int) := by
  have f := (PfC01.get_ok_facts cfg d toks key op now W h).2.2.1
  exact ⟨Nat.zero_le _, f, by omega, by omega⟩

/-- (c) every returned instance is a registered instance of the descriptor. -/
theorem get_ok_members (cfg : Cfg) (d : Desc) (toks : List Nat) (key : Nat) (op : Op) (now : Int) (W : RSet)
    (h : get cfg d toks key op now = .ok W) : ∀ i ∈ W.instances, i ∈ d :=
  (PfC01.get_ok_facts cfg d toks key op now W h).2.2.2

/-! ### Heartbeat health at nanosecond resolution

`InstanceDesc.IsHeartbeatHealthy` computes `now.Sub(time.Unix(ts, 0)) <= timeout`. The model's functions
take `now` as a whole number of seconds (C13 and C02 share that signature); `isHealthyAt` is the exact
predicate for a clock of `sec` s + `nanos` ns, and it coincides with the integer-second predicate at the
clock ROUNDED UP — because timestamps and timeouts are whole seconds. This is why the correspondence
run writes `now = 1` (= ceil) for lookups made at a non-zero sub-second offset of second 0. -/

theorem isHealthyAt_eq_ceil (op : Op) (timeout sec : Int) (nanos : Nat) (i : Inst) (hn : nanos < 1000000000) :
    isHealthyAt op timeout sec nanos i = isHealthy op timeout (ceilNow sec nanos) i :=
  PfC01.isHealthyAt_eq_ceil op timeout sec nanos i hn

/-- `filter_exact` restated with the nanosecond-exact health predicate. -/
theorem filter_exact_subsecond (cfg : Cfg) (op : Op) (sec : Int) (nanos : Nat) (rf : Nat) (l : List Inst)
    (hn : nanos < 1000000000) :
    filter cfg op (ceilNow sec nanos) rf l =
      (if (l.filter (isHealthyAt op cfg.hbTimeout sec nanos)).length < majority rf l.length then .error .tooManyUnhealthy
       else .ok { instances := l.filter (isHealthyAt op cfg.hbTimeout sec nanos),
                  maxErrors := (l.filter (isHealthyAt op cfg.hbTimeout sec nanos)).length - majority rf l.length }) :=
  PfC01.filter_exact_subsecond cfg op sec nanos rf l hn

/-! ### `cfg.ExcludedZones`

`Ring.updateRingState` deletes the instances of the excluded zones from the descriptor BEFORE indexing it;
everything above then applies to the remaining descriptor `excludeZones ex d` (the correspondence run
configures excluded zones on a share of the rings and compares with the model on `excludeZones ex d`). -/

/-- the served descriptor of a well-formed content is well formed, holds no instance of an excluded
zone and every other instance — so `get_eq_spec` describes the lookups of a ring with excluded zones. -/
theorem excluded_zones_served (ex : List String) (d : Desc) (hwf : WFRing d) (hu : TokensU32 d) :
    WFRing (excludeZones ex d) ∧ TokensU32 (excludeZones ex d) ∧
    ∀ i, i ∈ excludeZones ex d ↔ i ∈ d ∧ i.zone ∉ ex := by
  refine ⟨PfC01.wf_filter _ d hwf, PfC01.tokensU32_filter _ d hu, ?_⟩
  intro i
  simp [excludeZones, List.mem_filter]

/-! ### History: the pre-fix finding (fixed in /repo by a6b17a3) -/

/-
Before a6b17a3 `loser.playGame` was `if a.value < b.value`, and the following were THEOREMS about the
model of that code (proved by `decide`, reproduced on the real code by the correspondence run):
  loser_drops_max_token          : loserMerge [[4294967295], []] = [] ∧ loserMerge [[], [4294967295]] = [4294967295]
                                   ∧ loserMerge [[5, 9], [4294967295], []] = [5, 9]
  getTokens_order_dependent      : the token circle of the well-formed ring {i0: [2^32-1], i1: []} depended on map order
  get_eq_spec_fails_on_max_token : on that ring (RF 1, Write) specGet = {i0}, Get = ErrEmptyRing
They are false for the fixed model (`merge_tokens_sorted`; see also the examples at the end of this file).
-/

/-! ### "Consequently": locality of membership changes -/

/-- Specification level, full strength (no guard, no well-formedness needed): removing an instance that
is not in the walked set of a key leaves that walked set — hence the whole specified result — unchanged. -/
theorem walked_local_remove (cfg : Cfg) (op : Op) (d : Desc) (key : Nat) (now : Int) (xid : String)
    (hx : ∀ y ∈ specWalked cfg op d key, y.id ≠ xid) :
    specWalked cfg op (d.filter (PfC01.keepNot xid)) key = specWalked cfg op d key ∧
    specGet cfg op (d.filter (PfC01.keepNot xid)) key now = specGet cfg op d key now :=
  ⟨PfC01.specWalked_remove cfg op d key xid hx, PfC01.specGet_remove cfg op d key now xid hx⟩

/-- Removing an instance changes the lookup only of keys for which it was a replica — zone-awareness on or
off, for every map iteration order of the ring before and after. "Replica of `key`" is read in the
stronger sense: member of the WALKED set `specWalked` (healthy or not, extending or not), a superset of
the returned replica set; so an instance that is walked but filtered out as unhealthy still counts as a
replica here (removing it can change `MaxErrors`). The results are compared up to the error kind
(`toOption`). The converse (removing a walked instance may change the result) is only exhibited by an
`example` below, as the property says "only". -/
theorem lookup_local_remove (cfg : Cfg) (d order order' : Desc) (key : Nat) (op : Op) (now : Int) (xid : String)
    (hwf : WFRing d) (hu : TokensU32 d) (hrf : 1 ≤ cfg.rf) (hperm : order.Perm d)
    (hperm' : order'.Perm (d.filter (PfC01.keepNot xid))) (hx : ∀ y ∈ specWalked cfg op d key, y.id ≠ xid) :
    (get cfg (d.filter (PfC01.keepNot xid)) (getTokens order') key op now).toOption
      = (get cfg d (getTokens order) key op now).toOption :=
  PfC01.lookup_local_remove_full cfg d order order' key op now xid hwf hu hrf hperm hperm' hx

/-- Registering an instance (at any position of the descriptor) changes the lookup only of keys for
which it becomes a replica (= member of the walked set of the NEW ring, healthy or not). -/
theorem lookup_local_add (cfg : Cfg) (d₁ d₂ order order' : Desc) (x : Inst) (key : Nat) (op : Op) (now : Int)
    (hwf : WFRing (d₁ ++ x :: d₂)) (hu : TokensU32 (d₁ ++ x :: d₂)) (hrf : 1 ≤ cfg.rf)
    (hperm : order.Perm (d₁ ++ x :: d₂)) (hperm' : order'.Perm (d₁ ++ d₂))
    (hx : ∀ y ∈ specWalked cfg op (d₁ ++ x :: d₂) key, y.id ≠ x.id) :
    (get cfg (d₁ ++ x :: d₂) (getTokens order) key op now).toOption
      = (get cfg (d₁ ++ d₂) (getTokens order') key op now).toOption :=
  PfC01.lookup_local_add_full cfg d₁ d₂ order order' x key op now hwf hu hrf hperm hperm' hx

/-! ### Non-vacuity -/

/-- 4 instances, 2 zones, one JOINING: a well-formed ring whose Write lookup yields an extended set. -/
def ring4 : Desc :=
  [ { id := "a", tokens := [10, 50], zone := "z1" },
    { id := "b", tokens := [20], zone := "z2", state := .JOINING },
    { id := "c", tokens := [30], zone := "z2" },
    { id := "d", tokens := [40, 4294967295], zone := "z1" } ]
def cfg2 : Cfg := { rf := 2, zoneAware := true }

example : WFRing ring4 ∧ TokensU32 ring4 ∧ ring4.reverse.Perm ring4 := ⟨by decide, by decide, List.reverse_perm _⟩
example : (sortedTokens ring4).Pairwise (· < ·) := by decide
example : getTokens ring4.reverse = sortedTokens ring4 := by decide
-- the pre-fix witness ring {i0: [2^32-1], i1: []} is well formed and now looked up correctly in both map orders
example : WFRing [{ id := "i0", tokens := [4294967295] }, { id := "i1" }] ∧ TokensU32 [{ id := "i0", tokens := [4294967295] }, { id := "i1" }] := ⟨by decide, by decide⟩
example : getTokens [{ id := "i0", tokens := [4294967295] }, { id := "i1" }] = [4294967295] ∧
    getTokens [{ id := "i1" }, { id := "i0", tokens := [4294967295] }] = [4294967295] := by decide
-- the pre-fix witnesses now merge correctly
example : loserMerge [[4294967295], []] = [4294967295] ∧ loserMerge [[5, 9], [4294967295], []] = [5, 9, 4294967295] := by decide
example : (specWalked cfg2 opWrite ring4 5).map (·.id) = ["a", "b", "c"] := by decide   -- extended by JOINING b
example : (get cfg2 ring4 (getTokens ring4) 5 opWrite 0).toOption.map (fun r => (r.instances.map (·.id), r.maxErrors))
    = some (["a", "c"], 0) := by decide
-- "d" is not a replica of key 5: removing it does not change the lookup; "c" is: removing it does
example : ∀ y ∈ specWalked cfg2 opWrite ring4 5, y.id ≠ "d" := by decide
example : (get cfg2 (ring4.filter (PfC01.keepNot "c")) (sortedTokens (ring4.filter (PfC01.keepNot "c"))) 5 opWrite 0).toOption
    ≠ (get cfg2 ring4 (sortedTokens ring4) 5 opWrite 0).toOption := by decide
-- a failing lookup: RF 4 but only two healthy ACTIVE instances in distinct zones
example : (specGet { rf := 4, zoneAware := true } opWrite ring4 5 0).ok = false := by decide
example : searchToken [10, 20, 30] 20 = 2 ∧ searchToken [10, 20, 30] 30 = 0 ∧ searchToken [10, 20, 30] 4294967295 = 0 := by decide

-- heartbeat one timeout old, clock 300 ms into the second: age 60.3 s > 60 s -> unhealthy; exactly on the second: healthy
example : isHealthyAt opWrite 60 0 300000000 { id := "x", ts := -60 } = false ∧ isHealthyAt opWrite 60 0 0 { id := "x", ts := -60 } = true ∧
    isHealthyAt opWrite 60 0 300000000 { id := "x", ts := -59 } = true := by decide
-- model-level only (a Go map cannot hold it): on a LIST with a duplicated entry the lookup still returns distinct instances
example : (get { rf := 1, zoneAware := false } [{ id := "x", tokens := [5] }, { id := "x", tokens := [5] }] [5, 5] 0 opWrite 0).toOption.map
    (fun r => r.instances.length) = some 1 := by decide

-- an instance listing its tokens out of ascending order ("Tokens may not be sorted for an older version"): the ring is
-- well formed, `GetTokens` sorts each list before merging, and the lookup is the specified one
example : WFRing [{ id := "i1", tokens := [700, 100, 300] }, { id := "i2", tokens := [200, 400] }] ∧
    getTokens [{ id := "i1", tokens := [700, 100, 300] }, { id := "i2", tokens := [200, 400] }] = [100, 200, 300, 400, 700] ∧
    (get { rf := 1, zoneAware := false } [{ id := "i1", tokens := [700, 100, 300] }, { id := "i2", tokens := [200, 400] }]
      (getTokens [{ id := "i2", tokens := [200, 400] }, { id := "i1", tokens := [700, 100, 300] }]) 0 opWrite 0).toOption.map
        (fun r => r.instances.map (·.id)) = some ["i1"] := by decide

end PC01
