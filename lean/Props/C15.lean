import Model.C15
import Generated.C15
import Proofs.C15
import Proofs.C15.Loop
import Proofs.C15.Audit
import Proofs.C15.Clock
import Proofs.C15.Cas
/-!
# C15 — keys route to the next ACTIVE partition; partition states follow legal edges

Statements only; proofs in `Proofs/C15.lean` (state machine, replication sets) and
`Proofs/C14/Route.lean`, `Proofs/C14/Desc.lean` (routing).

Vocabulary: `IsSucc T k t` — `t` is the first token of `T` strictly after `k` on the circle;
`activeTokens d` — tokens of the ACTIVE partitions; `WFP` — well-formed partition ring;
`step d op = .ok (some d')` — the store update `op` (any editor or lifecycler operation, with its clock
reading and configuration as parameters) turns ring `d` into `d'` (`none`/error = nothing is written);
`StepOK d d'` — every partition of `d'` kept the state of the partition with its id in `d`, or moved
along pending→active|inactive, active↔inactive from an UNLOCKED partition, or is new and PENDING.
-/
namespace PC15
open C14 C15 PfC14 PfC15

/-! ### the transition table and enum values read from the running code equal the model's -/

theorem generated_transition_table :
    Generated.C15.allowedTable =
      (List.range 5).flatMap fun f => (List.range 5).map fun t => (f, t, allowed f t) := by decide

theorem generated_state_values :
    Generated.C15.statePending = sPending ∧ Generated.C15.stateActive = sActive ∧
    Generated.C15.stateInactive = sInactive ∧ Generated.C15.stateDeleted = sDeleted ∧
    Generated.C15.ownerActive = oActive := by decide

/-- the table is exactly the four edges of the property text -/
theorem table_is_edges (a b : Nat) : allowed a b = true ↔ Edge a b := allowed_iff_edge a b

/-! ### routing -/

/-- `ActivePartitionForKey` returns `pid` exactly when `pid` is an ACTIVE partition owning the first
token strictly after the key among the tokens of ACTIVE partitions — any number of partitions, any state
mix, any key (boundaries and wrap-around included). -/
theorem route_exact (d : PDesc) (h : WFP d) (k : Nat) (pid : Int) :
    activeFor d k = .ok pid ↔
      ∃ p ∈ d.parts, p.id = pid ∧ p.isActive = true ∧ ∃ t ∈ p.tokens, IsSucc (activeTokens d) k t :=
  activeFor_ok_iff d h k pid

/-- an error is returned exactly when no ACTIVE partition holds a token -/
theorem route_error (d : PDesc) (k : Nat) :
    activeFor d k = .error .noActivePartition ↔ activeTokens d = [] :=
  activeFor_error_iff d k

def pdEx : PDesc :=
  { parts := [{ id := 0, state := 3, tokens := [0, 4294967295] }, { id := 1, state := 2, tokens := [1] },
              { id := 5, state := 1, tokens := [2, 7] }] }
example : WFP pdEx := ⟨by decide, by decide, by decide, by decide⟩

/-- `GetKeysByPartition`: on success every key index `0 … len-1` occurs exactly once in the groups (their
flattening `flat g` is a permutation of the indexes paired with partitions) and each index sits under the
partition its key routes to. -/
theorem keysByPartition_groups (d : PDesc) (keys : List Nat) (g : List (Int × List Nat))
    (h : keysByPartition d keys = .ok g) :
    ∃ routed : List (Int × Nat), (flat g).Perm routed ∧ routed.map (·.2) = List.range keys.length ∧
      ∀ x ∈ routed, ∃ k, keys[x.2]? = some k ∧ activeFor d k = .ok x.1 :=
  PfC15.keysByPartition_groups d keys g h

example : keysByPartition pdEx [5, 0, 1] = .ok [(1, [0, 1, 2])] := by
  simp [keysByPartition, pdEx, PDesc.tokenParts, List.mergeSort, List.MergeSort.Internal.splitInTwo, Part.isActive]
  decide

/-- `GetKeysByPartition` fails exactly when no partition is ACTIVE, or keys are given and no ACTIVE partition
holds a token (an ACTIVE token-less partition passes the count test and fails in the lookup); … -/
theorem keysByPartition_error (d : PDesc) (keys : List Nat) :
    (∃ e, keysByPartition d keys = .error e) ↔
      (d.parts.filter (·.isActive) = [] ∨ (keys ≠ [] ∧ activeTokens d = [])) :=
  keysByPartition_error_iff d keys

/-- … and then with "no active partition", never with an internal error. -/
theorem keysByPartition_error_is_noActive (d : PDesc) (keys : List Nat) (e : C14.Err)
    (h : keysByPartition d keys = .error e) : e = .noActivePartition :=
  keysByPartition_error_class d keys e h

/-- witness for the second disjunct: one ACTIVE partition without tokens -/
example : keysByPartition { parts := [{ id := 1, state := sActive, tokens := [] }] } [5] = .error .noActivePartition ∧
    keysByPartition { parts := [{ id := 1, state := sActive, tokens := [] }] } [] = .ok [] := by
  constructor <;> simp [keysByPartition, Part.isActive, PDesc.tokenParts, List.mergeSort, groupStep, activeForOf, sActive,
    List.zipIdx, searchToken, lowerBound, bind, Except.bind, pure, Except.pure]

/-! ### state machine -/

/-- **state edges + lock**: whatever an editor or a lifecycler writes — manual change, lock, owner
registration/removal, partition creation, both reconcile handlers, shutdown; any configuration, any clock
reading — respects the state machine and never changes the state of a locked partition. -/
theorem state_edges (d d' : PDesc) (op : Op) (h : step d op = .ok (some d')) : StepOK d d' :=
  step_stepOK d d' op h

/-- hence every version written along any history (any order, any number of lifecyclers: a history is a
list of `Op`s, each carrying its own lifecycler configuration). -/
theorem state_edges_history (d : PDesc) (ops : List Op) :
    ∀ i, i < ops.length → StepOK ((ops.take i).foldl C15.apply d) ((ops.take (i + 1)).foldl C15.apply d) := by
  intro i hi
  rw [List.take_add_one, List.foldl_append]
  have : ops[i]?.toList = [ops[i]] := by simp [List.getElem?_eq_getElem hi]
  rw [this]
  exact history_stepOK _ _

example : step { parts := [{ id := 1, state := sPending, tokens := [5] }] } (.change 1 sActive 10) =
    .ok (some { parts := [{ id := 1, state := sActive, stateTs := 10, tokens := [5] }] }) := by decide
example : step { parts := [{ id := 1, state := sPending, locked := true, tokens := [5] }] } (.change 1 sActive 10) =
    .error .locked := by decide

/-- **promotion guard**: `reconcileOwnedPartition` writes only the switch PENDING → ACTIVE of its own
partition, only if it is unlocked and at least `waitCount` owners were registered (updated) strictly before
`now - waitDuration` (seconds). -/
theorem promotion_guard (d d' : PDesc) (c : Cfg) (now : Int) (h : reconcileOwned d c now = .ok (some d')) :
    ∃ p, d.get? c.pid = some p ∧ p.state = sPending ∧ p.locked = false ∧
      ownersCountUpdatedBefore d c.pid (now - c.waitDur) ≥ c.waitCount ∧
      d' = { d with parts := setPart { p with state := sActive, stateTs := now } d.parts } :=
  reconcileOwned_guard d d' c now h

/-- the converse: when the guard holds — PENDING, unlocked, at least `waitCount` owners updated strictly before
`now - waitDuration` — `reconcileOwnedPartition` DOES write the switch to ACTIVE stamped `now`. -/
theorem promotion_happens (d : PDesc) (c : Cfg) (now : Int) (p : Part) (hp : d.get? c.pid = some p)
    (hst : p.state = sPending) (hl : p.locked = false)
    (hcnt : ownersCountUpdatedBefore d c.pid (now - c.waitDur) ≥ c.waitCount) :
    reconcileOwned d c now =
      .ok (some { d with parts := setPart { p with state := sActive, stateTs := now } d.parts }) :=
  reconcileOwned_promotes d c now p hp hst hl hcnt

/-- only `SetPartitionStateChangeLock` changes a lock, and nothing changes tokens: after any other store update
every partition has the lock flag, lock timestamp and tokens of the old partition with its id, or is new
(PENDING and unlocked). -/
theorem only_lock_changes_lock (d d' : PDesc) (op : Op) (h : step d op = .ok (some d'))
    (hop : ∀ pid l now, op ≠ .lock pid l now) :
    ∀ q ∈ d'.parts, (∃ p ∈ d.parts, p.id = q.id ∧ q.locked = p.locked ∧ q.lockedTs = p.lockedTs ∧ q.tokens = p.tokens) ∨
      ((∀ p ∈ d.parts, p.id ≠ q.id) ∧ q.locked = false ∧ q.state = sPending) :=
  non_lock_ops_keep_lock d d' op h hop

/-- no other automatic handler (creation, registration, the other reconcile half, shutdown, lock,
owner removal) changes the state of any partition. -/
theorem only_change_and_reconcile_switch_states (d d' : PDesc) (op : Op) (h : step d op = .ok (some d'))
    (hop : (∀ pid to now, op ≠ .change pid to now) ∧ (∀ c now, op ≠ .reconcileOwned c now)) :
    ∀ q ∈ d'.parts, (∃ p ∈ d.parts, p.id = q.id ∧ q.state = p.state) ∨
      ((∀ p ∈ d.parts, p.id ≠ q.id) ∧ q.state = sPending) :=
  other_ops_keep_states d d' op h hop

def cfgEx : Cfg := { pid := 1, inst := "a", waitCount := 1, waitDur := 5 }
def ringEx (ownerTs : Int) (st : Nat) (stateTs : Int) : PDesc :=
  { parts := [{ id := 1, state := st, stateTs := stateTs, tokens := [5] }], owners := [{ id := "a", partition := 1, updatedTs := ownerTs }] }
example : reconcileOwned (ringEx 4 sPending 0) cfgEx 10 = .ok (some (ringEx 4 sActive 10)) := by decide
/-- boundary: an owner registered exactly `waitDuration` ago does not count yet (strict `<` on seconds). -/
example : reconcileOwned (ringEx 5 sPending 0) cfgEx 10 = .ok none := by decide

/-- **deletion guard**: `reconcileOtherPartitions` removes a partition only if the delay is configured
(`> 0`), it is not the lifecycler's own partition, it has been INACTIVE since strictly before
`now - delay`, and it has no owners; owners and all other partitions are untouched. -/
theorem deletion_guard (d d' : PDesc) (c : Cfg) (now : Int) (h : reconcileOthers d c now = .ok (some d')) :
    d'.owners = d.owners ∧ (∀ q ∈ d'.parts, q ∈ d.parts) ∧
    ∀ p ∈ d.parts, p ∉ d'.parts →
      c.deleteAfter > 0 ∧ p.id ≠ c.pid ∧ p.state = sInactive ∧ p.stateTs < now - c.deleteAfter ∧ ownersCount d p.id = 0 :=
  reconcileOthers_guard d d' c now h

/-- nothing else ever removes a partition … -/
theorem only_reconcile_deletes (d d' : PDesc) (op : Op) (h : step d op = .ok (some d'))
    (hop : ∀ c now, op ≠ .reconcileOthers c now) : ∀ p ∈ d.parts, ∃ q ∈ d'.parts, q.id = p.id :=
  only_reconcileOthers_deletes d d' op h hop

/-- … and shutdown removes only the lifecycler's own owner entry. -/
theorem stopping_removes_only_own_owner (d d' : PDesc) (c : Cfg) (rm : Bool) (h : C15.stopping d c rm = .ok (some d')) :
    d'.parts = d.parts ∧ d'.owners = d.owners.filter (·.id != c.ownerID) :=
  stopping_spec d d' c rm h

def cfgDel : Cfg := { pid := 2, inst := "a", deleteAfter := 5 }
def ringDel (stateTs : Int) : PDesc :=
  { parts := [{ id := 1, state := sInactive, stateTs := stateTs, tokens := [5] }, { id := 2, tokens := [6] }] }
example : reconcileOthers (ringDel 4) cfgDel 10 = .ok (some { parts := [{ id := 2, tokens := [6] }] }) := by decide
/-- boundary: inactive for exactly the delay is not yet deleted (strict `<`). -/
example : reconcileOthers (ringDel 5) cfgDel 10 = .ok none := by decide

/-! ### the service loop (`starting`, the `select` loop of `running`, `stopping`)

`Sys` = the shared ring + the service phase of every lifecycler; an `Act` is a service start (starting + the
reconcile on entering `running`), one iteration of a lifecycler's select loop (`Event`: ticker, a
`ChangePartitionState` received on the actor channel, `ctx.Done()` followed by `stopping`) or an editor call;
`actOps` = the store updates (`Op`s) the implementation performs for it; `sysRun` = a whole schedule. -/

/-- **legal edges on every loop run**: whatever the state of the system, the store updates of one act — applied
one after the other, as the loop does — each respect the state machine (legal edge, not while locked, new
partitions PENDING). Holding for every state it holds along every schedule of any number of lifecyclers. -/
theorem loop_state_edges (ls : List Loop) (s : Sys) (a : Act) :
    (sysStep ls s a).ring = (actOps ls s a).foldl C15.apply s.ring ∧
    ∀ i, i < (actOps ls s a).length →
      StepOK (((actOps ls s a).take i).foldl C15.apply s.ring) (((actOps ls s a).take (i + 1)).foldl C15.apply s.ring) :=
  sysStep_edges ls s a

/-- an update keeps every owner entry it does not explicitly register (`create`/`wait` of that id) or remove
(`stopping` with owner removal of that id, `RemoveMultiPartitionOwner` of that id): ticks, actor requests,
state changes, locks and other lifecyclers never lose somebody's registration. -/
theorem untouched_owner_survives (ops : List Op) (d : PDesc) (o : Owner) (ho : o ∈ d.owners)
    (hn : ∀ op ∈ ops, ¬ touches op o.id) : o ∈ (ops.foldl C15.apply d).owners :=
  foldl_keeps_owner ops d o ho hn

/-- **registrations are never lost**: start from any system in which no loop is running yet; along every
schedule of service starts, loop iterations (ticks, actor requests, stops) of lifecyclers with pairwise
different owner ids and editor calls that do not remove the owner of a running lifecycler, every lifecycler
whose loop is running is registered as an ACTIVE owner of its partition. -/
theorem loop_keeps_registrations (ls : List Loop) (hd : DistinctOwners ls) (s : Sys) (hnew : ∀ i, s.phase i ≠ .running)
    (as : List Act) (hg : GoodRun ls s as) : RunningRegistered ls (sysRun ls s as) :=
  sysRun_registered ls hd as s (fun i _ _ h => absurd h (hnew i)) hg

/-- a successful `starting` (create-and-register or wait-and-register) registers the lifecycler -/
theorem starting_registers (l : Loop) (d : PDesc) (tokens : List Nat) (now : Int) (r : Option PDesc)
    (h : step d (l.startOp tokens now) = .ok r) : Registered l (C15.apply d (l.startOp tokens now)) :=
  start_registers l d tokens now r h

/-- `waitPartitionAndRegisterOwner` polls for the partition with plain reads and then registers in a CAS that
does NOT re-check: whatever the ring looks like when that CAS runs, it succeeds and registers the owner. -/
theorem wait_cas_is_unconditional (l : Loop) (d : PDesc) (now : Int) :
    (∃ r, step d (.wait l.cfg now) = .ok r) ∧ Registered l (C15.apply d (.wait l.cfg now)) :=
  wait_registers_unconditionally l d now

def waiter : Loop := { cfg := { pid := 1, inst := "w" }, createOnStartup := false }
def deleter : Loop := { cfg := { pid := 2, inst := "x", deleteAfter := 5 } }
def raceRing : PDesc :=
  { parts := [{ id := 1, state := sInactive, stateTs := 0, tokens := [5] }, { id := 2, tokens := [6] }],
    owners := [{ id := "x", partition := 2 }] }
/-- WITNESS (time-of-check/time-of-use, as in the code): the waiter polls and sees partition 1; another
lifecycler's tick deletes it (inactive long enough, no owners — the deletion guard holds); the waiter's
registration CAS then leaves an owner registered for a partition that no longer exists. No clause of C15
forbids this end state; the model has to allow it because the code does (confirmed by the `C15.cas` poll-race
stream). -/
theorem wait_registers_for_deleted_partition_witness :
    (sysRun [waiter, deleter] { ring := raceRing, phase := fun i => if i = 1 then .running else .new }
      [.poll 0, .event 1 (.tick 100 100), .start 0 [] 101 (102, 102)]).ring =
    { parts := [{ id := 2, tokens := [6] }],
      owners := [{ id := "w", partition := 1, updatedTs := 101 }, { id := "x", partition := 2 }] } := by decide

def loopEx : Loop := { cfg := { pid := 1, inst := "a", waitCount := 0 } }
example : (sysRun [loopEx] { ring := {}, phase := fun _ => .new }
      [.start 0 [5] 10 (11, 11), .event 0 (.actor sInactive 12), .event 0 (.tick 13 13)]).ring =
    { parts := [{ id := 1, state := sInactive, stateTs := 12, tokens := [5] }], owners := [{ id := "a", partition := 1, updatedTs := 10 }] } := by
  decide
example : DistinctOwners [loopEx] := by
  intro i j li lj hi hj _
  cases i <;> cases j <;> simp_all
/-- non-vacuity with two lifecyclers: distinct owner ids, and a schedule with an editor call that is `GoodRun` -/
example : DistinctOwners [waiter, deleter] := by
  intro i j li lj hi hj h
  match i, j with
  | 0, 0 => rfl
  | 1, 1 => rfl
  | 0, 1 => simp [waiter, deleter] at hi hj; subst hi; subst hj; simp [Cfg.ownerID] at h
  | 1, 0 => simp [waiter, deleter] at hi hj; subst hi; subst hj; simp [Cfg.ownerID] at h
  | i + 2, _ => simp [waiter, deleter] at hi
  | 0, j + 2 => simp [waiter, deleter] at hj
  | 1, j + 2 => simp [waiter, deleter] at hj
example : GoodRun [waiter, deleter] { ring := raceRing, phase := fun _ => .new }
    [.start 1 [] 1 (2, 2), .editor (.lock 1 true 3), .poll 0, .start 0 [] 4 (5, 5), .event 1 .stop] := by
  simp [GoodRun, GoodAct, isEditorOp, touches]

/-! ### CAS retries

Every `Op` is the function handed to `kv.Client.CAS`; when another actor writes between the function's run and
the store's compare, the store runs the function again on the fresh ring and discards the earlier attempt. For
`waitPartitionAndRegisterOwner` that function is only the unconditional registration (`Op.wait`): its existence
check is a plain read made BEFORE the CAS (`pollSees`, `Act.poll`) and is not repeated — see
`wait_cas_is_unconditional` and the witness above. Scope: stores that update by CAS on the whole ring (consul,
etcd, the in-memory mock); the memberlist store merges concurrent versions with `PartitionRingDesc.Merge`
(tombstones, newest-timestamp-wins), which is property C03's subject and not modelled here. -/

/-- **a CAS retry is the handler re-run on the fresh state**: whatever the attempts on stale values decided,
the outcome of the update is the handler applied to the last value read … -/
theorem cas_retry_is_rerun (op : Op) (stale : List PDesc) (fresh : PDesc) :
    casOutcome (fun d => step d op) (stale ++ [fresh]) = some (step fresh op) :=
  casOutcome_last _ stale fresh

/-- … so the deletion guard holds of the ring the write is applied to (the partition still has to be inactive
long enough and without owners THERE), however many retries there were, … -/
theorem cas_retry_deletion_guard (c : Cfg) (now : Int) (stale : List PDesc) (fresh d' : PDesc)
    (h : casOutcome (fun d => step d (.reconcileOthers c now)) (stale ++ [fresh]) = some (.ok (some d'))) :
    d'.owners = fresh.owners ∧ (∀ q ∈ d'.parts, q ∈ fresh.parts) ∧
    ∀ p ∈ fresh.parts, p ∉ d'.parts →
      c.deleteAfter > 0 ∧ p.id ≠ c.pid ∧ p.state = sInactive ∧ p.stateTs < now - c.deleteAfter ∧ ownersCount fresh p.id = 0 := by
  rw [cas_retry_is_rerun] at h
  exact reconcileOthers_guard fresh d' c now (by simpa [step] using h)

/-- … and so does the promotion guard. -/
theorem cas_retry_promotion_guard (c : Cfg) (now : Int) (stale : List PDesc) (fresh d' : PDesc)
    (h : casOutcome (fun d => step d (.reconcileOwned c now)) (stale ++ [fresh]) = some (.ok (some d'))) :
    ∃ p, fresh.get? c.pid = some p ∧ p.state = sPending ∧ p.locked = false ∧
      ownersCountUpdatedBefore fresh c.pid (now - c.waitDur) ≥ c.waitCount ∧
      d' = { fresh with parts := setPart { p with state := sActive, stateTs := now } fresh.parts } := by
  rw [cas_retry_is_rerun] at h
  exact reconcileOwned_guard fresh d' c now (by simpa [step] using h)


/-! ### the store as a versioned cell: every interleaving of other actors' writes with a CAS call (`Model/C15Cas.lean`) -/

/-- **a committed CAS is the closure's decision on the value it commits against**, for EVERY closure, attempt budget
and schedule of foreign writes between reads and compares: the written value is what the closure answered on a cell
`fresh` reached through other actors' updates only, and it becomes the very next version after `fresh`. -/
theorem cas_commit_is_decision_on_committed_value (f : PDesc → Except C15.Err (Option PDesc)) (fuel : Nat) (s s' : Cell)
    (sched : List (List Op)) (d' : PDesc) (h : casRun f fuel s sched = (s', .done (.ok (some d')))) :
    ∃ fresh, Foreign s fresh ∧ f fresh.val = .ok (some d') ∧ s' = { val := d', ver := fresh.ver + 1 } :=
  casRun_commit f fuel s s' sched d' h

/-- a CAS call that ends without a write (closure error, "not changed", attempts exhausted) leaves the cell exactly
as the other actors made it. -/
theorem cas_without_write_leaves_foreign_state (f : PDesc → Except C15.Err (Option PDesc)) (fuel : Nat) (s s' : Cell)
    (sched : List (List Op)) (r : CasRes) (h : casRun f fuel s sched = (s', r))
    (hr : ∀ d', r ≠ .done (.ok (some d'))) : Foreign s s' :=
  casRun_nowrite f fuel s s' sched r h hr

/-- **deletion guard under every interleaving**: whatever other actors write while `reconcileOtherPartitions` is
inside its CAS, the partitions it removes are inactive long enough, owner-less and not its own ON THE RING IT COMMITS
AGAINST (version `fresh.ver`, the commit being `fresh.ver + 1`). -/
theorem cas_interleaved_deletion_guard (c : Cfg) (now : Int) (fuel : Nat) (s s' : Cell) (sched : List (List Op)) (d' : PDesc)
    (h : casRun (fun d => step d (.reconcileOthers c now)) fuel s sched = (s', .done (.ok (some d')))) :
    ∃ fresh, Foreign s fresh ∧ s' = { val := d', ver := fresh.ver + 1 } ∧
      d'.owners = fresh.val.owners ∧ (∀ q ∈ d'.parts, q ∈ fresh.val.parts) ∧
      ∀ p ∈ fresh.val.parts, p ∉ d'.parts →
        c.deleteAfter > 0 ∧ p.id ≠ c.pid ∧ p.state = sInactive ∧ p.stateTs < now - c.deleteAfter ∧
        ownersCount fresh.val p.id = 0 := by
  obtain ⟨fresh, h1, h2, h3⟩ := casRun_commit _ fuel s s' sched d' h
  exact ⟨fresh, h1, h3, reconcileOthers_guard fresh.val d' c now (by simpa [step] using h2)⟩

/-- **promotion guard under every interleaving** (also: never while locked, only PENDING → ACTIVE). -/
theorem cas_interleaved_promotion_guard (c : Cfg) (now : Int) (fuel : Nat) (s s' : Cell) (sched : List (List Op)) (d' : PDesc)
    (h : casRun (fun d => step d (.reconcileOwned c now)) fuel s sched = (s', .done (.ok (some d')))) :
    ∃ fresh, Foreign s fresh ∧ s' = { val := d', ver := fresh.ver + 1 } ∧
      ∃ p, fresh.val.get? c.pid = some p ∧ p.state = sPending ∧ p.locked = false ∧
        ownersCountUpdatedBefore fresh.val c.pid (now - c.waitDur) ≥ c.waitCount ∧
        d' = { fresh.val with parts := setPart { p with state := sActive, stateTs := now } fresh.val.parts } := by
  obtain ⟨fresh, h1, h2, h3⟩ := casRun_commit _ fuel s s' sched d' h
  exact ⟨fresh, h1, h3, reconcileOwned_guard fresh.val d' c now (by simpa [step] using h2)⟩

/-- **state edges / registration under every interleaving**: for ANY operation, the version a CAS call commits is one
`step` of that operation from the version right before it — so `state_edges`, `only_lock_changes_lock`,
`only_reconcile_deletes`, `stopping_removes_only_own_owner` apply to the pair (`fresh.val`, committed value). -/
theorem cas_interleaved_commit_is_step (op : Op) (fuel : Nat) (s s' : Cell) (sched : List (List Op)) (d' : PDesc)
    (h : casRun (fun d => step d op) fuel s sched = (s', .done (.ok (some d')))) :
    ∃ fresh, Foreign s fresh ∧ step fresh.val op = .ok (some d') ∧ s' = { val := d', ver := fresh.ver + 1 } :=
  casRun_commit _ fuel s s' sched d' h

/-- non-vacuity: the deletion decided on the first read (partition 1 inactive since 0, no owners) is NOT carried out
when an owner registers for it during the attempt; the retry commits nothing and the cell holds the foreign write. -/
example :
    let d0 : PDesc := { parts := [{ id := 1, state := sInactive, stateTs := 0, tokens := [5] }, { id := 2, state := sActive, stateTs := 0, tokens := [9] }] }
    let a : Cfg := { pid := 2, inst := "a", deleteAfter := 5 }
    let b : Cfg := { pid := 1, inst := "b" }
    (step d0 (.reconcileOthers a 100)).toOption.bind id ≠ none ∧
    (casRun (fun d => step d (.reconcileOthers a 100)) 10 ⟨d0, 0⟩ [[.wait b 50]]).2 = .done (.ok none) ∧
    (casRun (fun d => step d (.reconcileOthers a 100)) 10 ⟨d0, 0⟩ [[.wait b 50]]).1.val.parts.length = 2 ∧
    ((casRun (fun d => step d (.reconcileOthers a 100)) 10 ⟨d0, 0⟩ [[]]).1).val.parts.length = 1 := by decide

/-! ### clocks with a sub-second part -/

/-- the handlers compare whole seconds only: under a clock with a sub-second part (ms) and whole-second delays they are
the handlers under that clock's `Unix()` second. -/
theorem subsecond_clock_is_unix_second (d : PDesc) (c : Cfg) (nowMs : Int) :
    reconcileOthersMs d c nowMs = reconcileOthers d c (unixSec nowMs) ∧
    reconcileOwnedMs d c nowMs = reconcileOwned d c (unixSec nowMs) :=
  ⟨reconcileOthersMs_eq d c nowMs, reconcileOwnedMs_eq d c nowMs⟩

/-- **deleted only when inactive LONGER than the delay, at sub-second resolution**: the stored state timestamp is the
instant of the change truncated to the second; whatever instant `setAtMs` within (or before) that second the state was
really set at, at the handler's clock `nowMs` strictly more than the delay has passed. (`StateTimestamp < since.Unix()`
gives this; comparing the truncated timestamp with the un-truncated `since` would not.) -/
theorem deletion_guard_subsecond (d d' : PDesc) (c : Cfg) (nowMs : Int) (h : reconcileOthersMs d c nowMs = .ok (some d')) :
    d'.owners = d.owners ∧ (∀ q ∈ d'.parts, q ∈ d.parts) ∧
    ∀ p ∈ d.parts, p ∉ d'.parts →
      c.deleteAfter > 0 ∧ p.id ≠ c.pid ∧ p.state = sInactive ∧ ownersCount d p.id = 0 ∧
      ∀ setAtMs : Int, setAtMs < (p.stateTs + 1) * 1000 → nowMs - setAtMs > c.deleteAfter * 1000 :=
  reconcileOthersMs_guard d d' c nowMs h

/-- non-vacuity / boundary: state set in second 10, delay 5 s: at 15.999 s nothing is deleted, at 16.000 s it is. -/
example :
    let d0 : PDesc := { parts := [{ id := 1, state := sInactive, stateTs := 10, tokens := [5] }] }
    let a : Cfg := { pid := 2, inst := "a", deleteAfter := 5 }
    reconcileOthersMs d0 a 15999 = .ok none ∧ reconcileOthersMs d0 a 16000 = .ok (some { parts := [] }) := by decide

/-! ### replication sets -/

/-- **per-partition replication set** (`GetReplicationSetsForOperation`): exactly the partition's
registered owners that exist in the instance ring and are healthy for the operation; it is never empty,
and the call fails with "too many unhealthy instances" exactly when there is no such owner. -/
theorem replsets_exact (d : PDesc) (insts : Ring.Desc) (hs : List Bool) (t now : Int) (pid : Int) :
    (∀ ids mu, replSetFor d insts hs t now pid = .ok (ids, mu) →
      ids ≠ [] ∧ ∀ x, x ∈ ids ↔ ∃ o ∈ d.owners, o.partition = pid ∧ ∃ i, insts.get? o.id = some i ∧
        isHealthy hs t now i = true ∧ i.id = x) ∧
    (replSetFor d insts hs t now pid = .error .tooManyUnhealthy ↔
      ¬ ∃ o ∈ d.owners, o.partition = pid ∧ ∃ i, insts.get? o.id = some i ∧ isHealthy hs t now i = true) :=
  replSetFor_exact d insts hs t now pid

/-- **all partitions** (`GetReplicationSetsForOperation`): one set per partition (any state), each the set of
`replsets_exact`; "empty ring" exactly when there is no partition, "too many unhealthy instances" exactly
when some partition has no healthy registered owner. (`Forall2` = pointwise on two lists of equal length.) -/
theorem replsets_all (d : PDesc) (insts : Ring.Desc) (hs : List Bool) (t now : Int) :
    (∀ sets, replSets d insts hs t now = .ok sets ↔
      d.parts ≠ [] ∧ Forall2 (fun p s => replSetFor d insts hs t now p.id = .ok s) d.parts sets) ∧
    (replSets d insts hs t now = .error .emptyRing ↔ d.parts = []) ∧
    (replSets d insts hs t now = .error .tooManyUnhealthy ↔
      d.parts ≠ [] ∧ ∃ p ∈ d.parts, replSetFor d insts hs t now p.id = .error .tooManyUnhealthy) :=
  replSets_all d insts hs t now

/-- the healthy registered owners the multi-partition variant chooses from: `(instance id, instance)` for
every registered owner of the partition (owner id without its `/partition` suffix) that exists in the
instance ring and is healthy for the operation. -/
theorem multi_healthy_owners (d : PDesc) (insts : Ring.Desc) (hs : List Bool) (t now : Int) (pid : Int)
    (c : String × Ring.Inst) :
    c ∈ multiFound d insts hs t now pid ↔
      ∃ o ∈ d.owners, o.partition = pid ∧ c.1 = stripSuffix o.id ∧ insts.get? c.1 = some c.2 ∧
        isHealthy hs t now c.2 = true :=
  mem_multiFound d insts hs t now pid c

/-- **multi-partition variant** (`GetReplicationSetForPartitionAndOperation`): on success the set has
exactly one member per zone of the healthy registered owners (in first-appearance order of the zones);
each member is a healthy registered owner in that zone, is non-read-only whenever its zone has a
non-read-only healthy owner, no healthy owner of its zone and read-only class has a higher numeric id
suffix, and every healthy owner of its zone listed AFTER it is strictly worse (read-only against non-read-only, or a
strictly lower suffix) — i.e. ties go to the later owner, exactly the loop of
`highestPreferablyNonReadOnlyFromEachZone`, which determines the member uniquely; `MaxUnavailableZones = #zones - 1`. -/
theorem multi_replset_exact (d : PDesc) (insts : Ring.Desc) (hs : List Bool) (t now : Int) (pid : Int)
    (ids : List String) (mu : Nat) (h : multiReplSet d insts hs t now pid = .ok (ids, mu)) :
    let found := multiFound d insts hs t now pid
    let zones := uniqueZones (found.map (·.2))
    mu = zones.length - 1 ∧
    ∃ picks : List (String × Ring.Inst), ids = picks.map (·.2.id) ∧
      Forall2 (fun z c => c ∈ found ∧ c.2.zone = z ∧
        (∀ x ∈ found, x.2.zone = z → c.2.ro = true → x.2.ro = true) ∧
        (∀ x ∈ found, x.2.zone = z → x.2.ro = c.2.ro → idxLt (indexFromSuffix c.1) (indexFromSuffix x.1) = false) ∧
        (∃ A B, found = A ++ c :: B ∧ ∀ x ∈ B, x.2.zone = z →
          (x.2.ro = true ∧ c.2.ro = false) ∨ (x.2.ro = c.2.ro ∧ idxLt (indexFromSuffix x.1) (indexFromSuffix c.1) = true)))
        zones picks :=
  multiReplSet_exact d insts hs t now pid ids mu h

/-- … and it requires at least one: "empty ring" exactly when the partition has no registered owner, "too
many unhealthy instances" exactly when owners are registered but none is healthy. -/
theorem multi_replset_errors (d : PDesc) (insts : Ring.Desc) (hs : List Bool) (t now : Int) (pid : Int) :
    (multiReplSet d insts hs t now pid = .error .emptyRing ↔ ¬ ∃ o ∈ d.owners, o.partition = pid) ∧
    (multiReplSet d insts hs t now pid = .error .tooManyUnhealthy ↔
      (∃ o ∈ d.owners, o.partition = pid) ∧ multiFound d insts hs t now pid = []) :=
  multiReplSet_errors d insts hs t now pid

/-- non-vacuity of the per-zone pick: the non-read-only owner wins over a read-only one. -/
example : pickHighest "a" [("x", { id := "x", zone := "a", ro := true }), ("y", { id := "y", zone := "a" }),
    ("z", { id := "z", zone := "b" })] = some ("y", { id := "y", zone := "a" }) := by decide

end PC15
