import Model.C09
import Proofs.C09
/-!
# C09 — a lifecycler recovers its identity after a crash at any point or KV faults

The machines are C08's. A crash between two handlers is `Act.crash`, a crash inside a handler (before or
after the commit of its CAS) is `Act.crashIn`; both only drop the remembered self. Whatever a dead
process left behind is therefore "some ring content + some tokens file", and the restart theorems
below quantify over ALL ring contents and files (= every write boundary of every scenario, not a sample).
The schedule theorems of C08 (`PC08.state_edges`, `heartbeat_monotone`, `registered_once`) hold for schedules
containing crashes and restarts, so the registration time survives every crash.
-/
namespace PC09
open Ring C08 C09 PfC08 PfC09

/-! ### restart resumes from the ring entry (full Lifecycler) -/

/-- died while JOINING: the restarted process remembers PENDING (and no tokens), keeps the registration time,
and writes the ring back UNCHANGED (the entry keeps showing JOINING until the next write — initRing edits a copy). -/
theorem restart_died_joining (c : Cfg) (file : File) (d : Desc) (e : Inst) (shuf : List Nat) (now : Int) (gen : Gen)
    (fault : Fault) (l : Local) (hk : c.kind = .LC) (hf : fault ≠ .failBefore) (he : Desc.get? d c.id = some e)
    (hj : e.state = .JOINING) :
    let r := step c l file (some d) (.init shuf) now gen fault
    r.l.started = true ∧ r.l.state = .PENDING ∧ r.l.tokens = [] ∧ r.l.regTs = e.regTs ∧ r.out = .write d ∧ r.file = file :=
  PfC09.init_died_joining hk hf he hj l

/-- died while LEAVING: the restarted process is ACTIVE at once, publishes ACTIVE with the old registration time
and the adjusted token list ... -/
theorem restart_died_leaving (c : Cfg) (file : File) (d : Desc) (e : Inst) (shuf : List Nat) (now : Int) (gen : Gen)
    (fault : Fault) (l : Local) (hk : c.kind = .LC) (hf : fault ≠ .failBefore) (he : Desc.get? d c.id = some e)
    (hl : e.state = .LEAVING) :
    let r := step c l file (some d) (.init shuf) now gen fault
    r.l.started = true ∧ r.l.state = .ACTIVE ∧ r.l.regTs = e.regTs ∧ r.l.tokens = (lcAdjust c d e shuf gen).1 ∧
    ∃ b, r.out = .write (put d b) ∧ b.id = c.id ∧ b.state = .ACTIVE ∧ b.regTs = e.regTs ∧
      b.tokens = (lcAdjust c d e shuf gen).1 ∧ b.ts = now :=
  PfC09.init_died_leaving hk hf he hl l

/-- ... which has exactly `numTokens` tokens; with not more than `numTokens` old tokens all of them are kept, the list is
strictly sorted and every added token was in nobody's list; with more, a subset is kept. -/
theorem restart_died_leaving_tokens (c : Cfg) (d : Desc) (e : Inst) (shuf : List Nat) (gen : Gen)
    (he : Desc.get? d c.id = some e) (hl : e.state = .LEAVING) (hg : GenOK gen) (hsorted : e.tokens.Pairwise (· < ·)) :
    let toks := (lcAdjust c d e shuf gen).1
    toks.length = c.numTokens ∧
    (e.tokens.length ≤ c.numTokens → toks.Pairwise (· < ·) ∧ (∀ t ∈ e.tokens, t ∈ toks) ∧
        ∀ t ∈ toks, t ∈ e.tokens ∨ ∀ i ∈ d, t ∉ i.tokens) ∧
    (c.numTokens ≤ e.tokens.length → ∀ t ∈ toks, t ∈ e.tokens) :=
  PfC09.lcAdjust_leaving he hl hg hsorted

/-- died in any other state: state, tokens and registration time are taken from the ring entry and what is
written back (only address/zone may differ) carries the same state, tokens and registration time. -/
theorem restart_keeps_entry (c : Cfg) (file : File) (d : Desc) (e : Inst) (shuf : List Nat) (now : Int) (gen : Gen)
    (fault : Fault) (l : Local) (hk : c.kind = .LC) (hf : fault ≠ .failBefore) (he : Desc.get? d c.id = some e)
    (hj : e.state ≠ .JOINING) (hl : e.state ≠ .LEAVING) :
    let r := step c l file (some d) (.init shuf) now gen fault
    r.l.started = true ∧ r.l.state = e.state ∧ r.l.tokens = e.tokens ∧ r.l.regTs = e.regTs ∧
    ∀ d' b, r.out = .write d' → Desc.get? d' c.id = some b → b.state = e.state ∧ b.tokens = e.tokens ∧ b.regTs = e.regTs :=
  PfC09.init_resumes_other hk hf he hj hl l

/-- Whatever the dead process left in the ring (no entry, or an entry in ANY state the consul ring can hold) and
in the tokens file, the restart procedure `initRing; join timer; observe; changeState(ACTIVE)` ends with the
lifecycler ACTIVE and its entry published ACTIVE. (Token count / non-collision of the join: `PC08.activation_tokens`
with the ring as found; registration time: `PC08.registered_once`, whose schedules include crashes.) -/
theorem restart_reaches_active (c : Cfg) (hk : c.kind = .LC) (store : Option Desc) (file : File) (clock now : Int)
    (shuf : List Nat) (gen : Gen) (hclk : clock ≤ now)
    (hts : ∀ i, Desc.get? (store.getD []) c.id = some i → i.ts ≤ clock)
    (hst : ∀ e, Desc.get? (store.getD []) c.id = some e → e.state ≠ .LEFT) :
    let s := Sys.run c { store := store, l := {}, file := file, clock := clock } (restartLC shuf now gen)
    s.l.state = .ACTIVE ∧ ∃ b, Desc.get? (s.store.getD []) c.id = some b ∧ b.state = .ACTIVE :=
  PfC09.restart_reaches_active hk hclk hts hst

/-- BasicLifecycler: whatever ring content and tokens file the dead process left, `starting()` (register, observe,
OnRingInstanceTokens) followed by the owner's `ChangeState(ACTIVE)` ends with the instance registered ACTIVE, the
remembered entry equal to the published one, and the registration time of the old entry (if there was one) kept.
(Tokens: `PC08.basic_activation_tokens_partial`.) -/
theorem basic_restart_reaches_active (c : Cfg) (hk : c.kind = .BLC) (store : Option Desc) (file : File) (clock now : Int) (gen : Gen) :
    let s := Sys.run c { store := store, l := {}, file := file, clock := clock } (restartBLC now gen)
    ∃ b, s.l.cur = some b ∧ b.state = .ACTIVE ∧ Desc.get? (s.store.getD []) c.id = some b ∧
      ∀ e, Desc.get? (store.getD []) c.id = some e → b.regTs = e.regTs :=
  PfC09.blc_restart_reaches_active hk

example : -- non-vacuity: died JOINING with 1 of 2 tokens; restart keeps token 4, adds one, ends ACTIVE, registered at 2
    let c : Cfg := { id := "a", numTokens := 2, observe := true }
    let d : Desc := [{ id := "a", ts := 5, state := .JOINING, tokens := [4], regTs := 2 }, { id := "b", ts := 5, tokens := [9] }]
    let s := Sys.run c { store := some d, clock := 6 } (restartLC [] 8 (fun _ _ => [7]))
    s.l.state = .ACTIVE ∧ (s.store.getD []).map (fun i => (i.id, i.state, i.tokens, i.regTs)) =
      [("a", .ACTIVE, [4, 7], 2), ("b", .ACTIVE, [9], 0)] := by
  decide

/-- no collision after restart: the tokens a (re)joining lifecycler adds are in no instance's list in the ring it
joined from (restated from `PC08.activation_tokens`; the generator contract is the hypothesis `GenOK`). -/
theorem no_collision_after_restart (c : Cfg) (l : Local) (file : File) (din : Option Desc) (now : Int) (gen : Gen)
    (hk : c.kind = .LC) (hs : l.started = true) (hp : l.state = .PENDING) (hg : GenOK gen)
    (hnd : (tokensOf (din.getD []) c.id).Nodup) (hle : (tokensOf (din.getD []) c.id).length ≤ c.numTokens) :
    ∃ d' b, (step c l file din .joinTimer now gen .none).out = .write d' ∧ Desc.get? d' c.id = some b ∧
      b.tokens.length = c.numTokens ∧
      ∀ t ∈ b.tokens, t ∈ tokensOf (din.getD []) c.id ∨ ∀ i ∈ din.getD [], t ∉ i.tokens := by
  obtain ⟨d', b, h1, h2, _, _, _, h6, _, _, h9⟩ := PfC08.lc_join_tokens (file := file) (now := now) (fault := .none) hk hs hp hg (by decide) hnd hle
  exact ⟨d', b, h1, h2, h6, h9⟩

/-! ### the store loses the ring or rejects calls -/

/-- key wiped / entry removed while running: the next heartbeat the store accepts re-inserts the remembered
state and tokens with registration time = now (and remembers that time). -/
theorem reregisters_after_wipe (c : Cfg) (l : Local) (file : File) (din : Option Desc) (now : Int) (gen : Gen)
    (hk : c.kind = .LC) (hs : l.started = true) (habs : Desc.get? (din.getD []) c.id = none) :
    let r := step c l file din .heartbeat now gen .none
    ∃ b, r.out = .write (put (din.getD []) b) ∧ b.id = c.id ∧ b.state = l.state ∧ b.tokens = l.tokens ∧ b.regTs = now ∧
      b.ts = now ∧ b.ro = l.ro ∧ r.l = { l with regTs := now } :=
  PfC09.lc_reregisters hk hs habs

theorem basic_reregisters_after_wipe (c : Cfg) (l : Local) (file : File) (din : Option Desc) (now : Int) (gen : Gen)
    (hk : c.kind = .BLC) (hs : l.started = true) (habs : Desc.get? (din.getD []) c.id = none) :
    let r := step c l file din .heartbeat now gen .none
    ∃ d' b, r.out = .write d' ∧ Desc.get? d' c.id = some b ∧ b.state = blcState l ∧ b.tokens = blcTokens l ∧
      b.regTs = now ∧ b.ts = now ∧ r.l.cur = some b :=
  PfC09.blc_reregisters hk hs habs

/-- while calls are rejected, heartbeats change neither the store nor the remembered state, tokens or file. -/
theorem heartbeat_under_faults (c : Cfg) (l : Local) (file : File) (din : Option Desc) (now : Int) (gen : Gen) :
    (let r := step c l file din .heartbeat now gen .failBefore
     r.l = l ∧ r.file = file ∧ commit din r .failBefore = din) ∧
    (let r := step c l file din .heartbeat now gen .failCommit
     r.l.state = l.state ∧ r.l.tokens = l.tokens ∧ r.l.cur = l.cur ∧ r.file = file ∧ commit din r .failCommit = din) :=
  ⟨PfC09.heartbeat_rejected_is_noop, PfC09.heartbeat_commit_rejected⟩

/-- A heartbeat (either kind, whatever the store then does with the write) that finds the own entry in the ring
publishes the tokens the RING records — not the remembered ones. Hence a restarted lifecycler that has not yet
loaded its tokens (died JOINING) does not wipe them by heartbeating before the join timer, and a LEAVING
instance whose tokens another instance has claimed does not write them back. -/
theorem heartbeat_keeps_ring_tokens (c : Cfg) (l : Local) (file : File) (din : Option Desc) (now : Int) (gen : Gen)
    (fault : Fault) (e b : Inst) (d' : Desc) (he : Desc.get? (din.getD []) c.id = some e)
    (h : (step c l file din .heartbeat now gen fault).out = .write d') (hb : Desc.get? d' c.id = some b) :
    b.tokens = e.tokens :=
  (PfC09.heartbeat_keeps_ring_tokens he h hb).1

/-- `Lifecycler.changeState` remembers the requested state before it writes: whether the store accepts the write,
rejects the call or rejects the commit, the lifecycler is in the new state afterwards (tokens untouched) and
EVERY later heartbeat the store accepts publishes that state. So a rejected JOINING→ACTIVE write at the end of the
observe period is repaired by the next heartbeat (ACTIVE is reached), and a rejected ACTIVE→LEAVING write at
shutdown by the next heartbeat of `stopping()`. -/
theorem state_survives_rejected_write (c : Cfg) (l : Local) (file : File) (din : Option Desc) (s : State) (now : Int)
    (gen : Gen) (fault : Fault) (hk : c.kind = .LC) (hs : l.started = true) (hal : allowed l.state s = true) :
    let r := step c l file din (.changeState s) now gen fault
    r.l.state = s ∧ r.l.started = true ∧ r.l.tokens = l.tokens ∧
    ∀ (din' : Option Desc) (now' : Int) (gen' : Gen), ∃ d' b,
      (step c r.l r.file din' .heartbeat now' gen' .none).out = .write d' ∧ Desc.get? d' c.id = some b ∧ b.state = s :=
  PfC09.state_survives_rejected_write hk hs hal

example : -- non-vacuity: JOINING→ACTIVE rejected, the ring still shows JOINING, the next heartbeat publishes ACTIVE with the ring's tokens
    let c : Cfg := { id := "a", numTokens := 1, observe := true }
    let l : Local := { started := true, state := .JOINING, tokens := [4] }
    let d : Desc := [{ id := "a", ts := 5, state := .JOINING, tokens := [4] }]
    let r := step c l .absent (some d) (.changeState .ACTIVE) 6 (fun _ _ => []) .failCommit
    commit (some d) r .failCommit = some d ∧
    (step c r.l r.file (some d) .heartbeat 7 (fun _ _ => []) .none).out = .write [{ id := "a", ts := 7, state := .ACTIVE, tokens := [4] }] := by
  decide

/-- `ClaimTokensFor` whose CAS fails — the store rejects the call, the ring is empty, or the commit is rejected —
claims nothing and forgets nothing: remembered tokens and tokens file are as before, the store is unchanged.
(Fixed in /repo 392dd5f. Before the fix the closure called `setTokens(nil)` on a failed CAS:
  c = {id "a", numTokens 2, hasFile}, l.tokens = [3,8], file [3,8], ring a:[3,8] old(LEAVING):[5], claim "old" rejected
  ⇒ l.tokens = [], file = [] while the ring still held [3,8] — former `claim_under_fault_forgets_tokens_witness`.) -/
theorem claim_under_fault_keeps_tokens (c : Cfg) (l : Local) (file : File) (din : Option Desc) (frm : String) (now : Int)
    (gen : Gen) (fault : Fault) (hk : c.kind = .LC) (hs : l.started = true) (hfail : fault ≠ .none ∨ din = none) :
    let r := step c l file din (.claim frm) now gen fault
    r.l = l ∧ r.file = file ∧ commit din r fault = din ∧ r.ret = .ok :=
  PfC09.claim_failed_keeps hk hs hfail

example : -- non-vacuity (the former witness input): nothing is forgotten
    let c : Cfg := { id := "a", numTokens := 2, hasFile := true }
    let l : Local := { started := true, state := .ACTIVE, tokens := [3, 8] }
    let d : Desc := [{ id := "a", state := .ACTIVE, tokens := [3, 8] }, { id := "old", state := .LEAVING, tokens := [5] }]
    let r := step c l (.tokens [3, 8]) (some d) (.claim "old") 9 (fun _ _ => []) .failBefore
    r.l.tokens = [3, 8] ∧ r.file = .tokens [3, 8] ∧ commit (some d) r .failBefore = some d := by
  decide

/-- Start-up under a read outage. With a token generator that has a can-join check `autoJoin` first runs
`waitBeforeJoining`; if the first `k` reads fail (or find no ring, or `CanJoin` refuses) and the next one works — `k`
below the can-join timeout — it makes exactly `k + 1` attempts and then the join timer does exactly what it does
without any outage: the entry is published in the target state with `numTokens` strictly sorted tokens, which are also
the remembered ones. (Without a can-join check the store is never read. Together with `restart_reaches_active` /
`PC08.activation_tokens`: any finite number of failed reads followed by working reads ends ACTIVE with NumTokens tokens.) -/
theorem join_survives_read_outage (c : Cfg) (l : Local) (file : File) (store : Option Desc) (now : Int) (gen : Gen)
    (canJoin : Bool) (budget k : Nat) (reads : Nat → Read)
    (hk : c.kind = .LC) (hs : l.started = true) (hp : l.state = .PENDING) (hg : GenOK gen)
    (hnd : (tokensOf (store.getD []) c.id).Nodup) (hle : (tokensOf (store.getD []) c.id).length ≤ c.numTokens)
    (hkb : k < budget) (hfail : ∀ j, j < k → reads j ≠ .ok) (hok : reads k = .ok) :
    let r := joinTimerWithReads c l file store now gen canJoin budget reads
    r.2 = (if canJoin then k + 1 else 0) ∧
    r.1 = step c l file store .joinTimer now gen .none ∧
    ∃ d' b, r.1.out = .write d' ∧ Desc.get? d' c.id = some b ∧
      b.state = (if c.observe then .JOINING else .ACTIVE) ∧ b.tokens.length = c.numTokens ∧
      b.tokens.Pairwise (· < ·) ∧ r.1.l.tokens = b.tokens := by
  intro r
  have hw := PfC09.waitAttempts_outage reads k budget 0 hkb (by simpa using hfail) (by simpa using hok)
  refine ⟨?_, rfl, ?_⟩
  · cases canJoin <;> simp [r, joinTimerWithReads, hs, hp, hw]
  · obtain ⟨d', b, h1, h2, h3, _, h5, h6, h7, _, _⟩ :=
      PfC08.lc_join_tokens (file := file) (now := now) (fault := .none) hk hs hp hg (by decide) hnd hle
    exact ⟨d', b, h1, h2, h3, h6, h7, h5⟩

example : -- non-vacuity: two failed reads, then the ring is readable: 3 attempts, ACTIVE with 2 tokens
    let c : Cfg := { id := "a", numTokens := 2 }
    let l : Local := { started := true }
    let r := joinTimerWithReads c l .absent (some [{ id := "a", state := .PENDING }]) 5 (fun _ _ => [3, 8]) true 300
      (fun j => if j < 2 then .fail else .ok)
    r.2 = 3 ∧ r.1.out = .write [{ id := "a", ts := 5, state := .ACTIVE, tokens := [3, 8] }] := by
  decide

/-! ### tokens file -/

/-- `StoreToFile` interrupted after any of its file-system operations (or in the middle of the write): the
tokens file is the complete old or the complete new list; run to the end it is the new list and the
temporary file is gone. `LoadTokensFromFile` only ever reads the tokens file itself. -/
theorem tokens_file_atomic (fs : FS) (t : List Nat) (k : Nat) (midWrite : Bool) :
    ((crashedStore fs t k midWrite).main = fs.main ∨ (crashedStore fs t k midWrite).main = .tokens t) ∧
    (3 ≤ k → (crashedStore fs t k false).main = .tokens t ∧ (crashedStore fs t k false).tmp = .absent) ∧
    (crashedStore fs t k midWrite).load = (crashedStore fs t k midWrite).main.load :=
  ⟨PfC09.file_atomic fs t k midWrite, PfC09.file_complete fs t k, rfl⟩

/-- ... and when the write itself FAILS after a partial write (disk full, quota) `StoreToFile` returns the error
without renaming: the tokens file still holds the complete old list (the partial temporary file is left behind);
when nothing fails it holds the complete new list and no temporary file remains. -/
theorem tokens_file_failed_write_keeps_old (fs : FS) (t : List Nat) :
    ((storeResult fs t true).1.main = fs.main ∧ (storeResult fs t true).2 = true) ∧
    ((storeResult fs t false).1.main = .tokens t ∧ (storeResult fs t false).1.tmp = .absent ∧ (storeResult fs t false).2 = false) :=
  PfC09.store_result fs t

end PC09
