import Model.C09
import Proofs.C09
/-!
# C09 — a lifecycler recovers its identity after a crash at any point or KV faults

The machines are C08's. A crash between two handlers is `Act.crash`, a crash inside a handler (before or
after the commit of its CAS) is `Act.crashIn`; both only drop the remembered self. Whatever a dead
process left behind is therefore "some ring content + some tokens file", and the restart theorems
below quantify over ALL ring contents and files (= every write boundary of every scenario, not a sample).
The schedule theorems of C08 (`PC08.state_edges`, `heartbeat_monotone`, `registered_once`) hold for schedules
containing CRASHES and restarts (not store faults: they assume an accepting store, see
`PC08.rejected_commit_breaks_table_witness`), so the registration time survives every crash.
-/
namespace PC09
open Ring C08 C09 PfC08 PfC09

/-! ### restart resumes from the ring entry (full Lifecycler) -/

/-- died while JOINING: the restarted process remembers PENDING (and no tokens), keeps the registration time,
and writes the ring back UNCHANGED (the entry keeps showing JOINING until the next write — initRing edits a copy). -/
theorem restart_died_joining (c : Cfg) (file : File) (d : Desc) (e : Inst) (shuf : List Nat) (now : Int) (gen : Gen)
    (fault : Fault) (l : Local) (hk : c.kind = .LC) (hf : fault ≠ .failBefore) (he : Desc.get? d c.id = some e)
    (hj : e.state = .JOINING) :
    let r := step c l file (some d) (.init shuf) now gen fault
    r.l.started = true ∧ r.l.state = .PENDING ∧ r.l.tokens = [] ∧ r.l.regTs = e.regTs ∧ r.out = .write d ∧ r.file = file :=
  PfC09.init_died_joining hk hf he hj l

/-- died while LEAVING: the restarted process is ACTIVE at once, publishes ACTIVE with the old registration time
and the adjusted token list ... -/
theorem restart_died_leaving (c : Cfg) (file : File) (d : Desc) (e : Inst) (shuf : List Nat) (now : Int) (gen : Gen)
    (fault : Fault) (l : Local) (hk : c.kind = .LC) (hf : fault ≠ .failBefore) (he : Desc.get? d c.id = some e)
    (hl : e.state = .LEAVING) :
    let r := step c l file (some d) (.init shuf) now gen fault
    r.l.started = true ∧ r.l.state = .ACTIVE ∧ r.l.regTs = e.regTs ∧ r.l.tokens = (lcAdjust c d e shuf gen).1 ∧
    ∃ b, r.out = .write (put d b) ∧ b.id = c.id ∧ b.state = .ACTIVE ∧ b.regTs = e.regTs ∧
      b.tokens = (lcAdjust c d e shuf gen).1 ∧ b.ts = now :=
  PfC09.init_died_leaving hk hf he hl l

/-- ... which has exactly `numTokens` tokens; with not more than `numTokens` old tokens all of them are kept, the list is
strictly sorted and every added token was in nobody's list; with more, a subset is kept. -/
theorem restart_died_leaving_tokens (c : Cfg) (d : Desc) (e : Inst) (shuf : List Nat) (gen : Gen)
    (he : Desc.get? d c.id = some e) (hl : e.state = .LEAVING) (hg : GenOK gen) (hsorted : e.tokens.Pairwise (· < ·)) :
    let toks := (lcAdjust c d e shuf gen).1
    toks.length = c.numTokens ∧
    (e.tokens.length ≤ c.numTokens → toks.Pairwise (· < ·) ∧ (∀ t ∈ e.tokens, t ∈ toks) ∧
        ∀ t ∈ toks, t ∈ e.tokens ∨ ∀ i ∈ d, t ∉ i.tokens) ∧
    (c.numTokens ≤ e.tokens.length → ∀ t ∈ toks, t ∈ e.tokens) :=
  PfC09.lcAdjust_leaving he hl hg hsorted

/-- died in any other state: state, tokens and registration time are taken from the ring entry and what is
written back (only address/zone may differ) carries the same state, tokens and registration time. -/
theorem restart_keeps_entry (c : Cfg) (file : File) (d : Desc) (e : Inst) (shuf : List Nat) (now : Int) (gen : Gen)
    (fault : Fault) (l : Local) (hk : c.kind = .LC) (hf : fault ≠ .failBefore) (he : Desc.get? d c.id = some e)
    (hj : e.state ≠ .JOINING) (hl : e.state ≠ .LEAVING) :
    let r := step c l file (some d) (.init shuf) now gen fault
    r.l.started = true ∧ r.l.state = e.state ∧ r.l.tokens = e.tokens ∧ r.l.regTs = e.regTs ∧
    ∀ d' b, r.out = .write d' → Desc.get? d' c.id = some b → b.state = e.state ∧ b.tokens = e.tokens ∧ b.regTs = e.regTs :=
  PfC09.init_resumes_other hk hf he hj hl l

/-- Whatever the dead process left in the ring (no entry, or an entry in ANY state the consul ring can hold) and in the
tokens file — the quantifier is over the START state — the UNDISTURBED restart procedure `restartLC` = `initRing; join
timer; verifyTokens; changeState(ACTIVE)` (one fixed list: accepting store, nobody else writing in between, all at one
clock reading; the final `changeState(ACTIVE)` is refused when the lifecycler already is ACTIVE) ends with the lifecycler
ACTIVE and its entry published ACTIVE. Schedules with interleaved writers and heartbeats: the loop theorems of C08
(`PC08.loop_entry_evolution`, `running_stays_registered`); token count / non-collision: `restart_join_full_tokens`,
`restart_died_leaving_tokens`; registration time: `PC08.registered_once`, whose schedules include crashes. -/
theorem restart_reaches_active (c : Cfg) (hk : c.kind = .LC) (store : Option Desc) (file : File) (clock now : Int)
    (shuf : List Nat) (gen : Gen) (hclk : clock ≤ now)
    (hts : ∀ i, Desc.get? (store.getD []) c.id = some i → i.ts ≤ clock)
    (hst : ∀ e, Desc.get? (store.getD []) c.id = some e → e.state ≠ .LEFT) :
    let s := Sys.run c { store := store, l := {}, file := file, clock := clock } (restartLC shuf now gen)
    s.l.state = .ACTIVE ∧ ∃ b, Desc.get? (s.store.getD []) c.id = some b ∧ b.state = .ACTIVE :=
  PfC09.restart_reaches_active hk hclk hts hst

/-- BasicLifecycler, undisturbed restart `restartBLC` = register, verifyTokens, OnRingInstanceTokens, the OWNER's
`ChangeState(ACTIVE)`: that the instance ends ACTIVE is by the last step; the content is that the remembered entry equals
the published one and that the registration time of the old entry (if there was one) is kept throughout.
(Tokens: `PC08.basic_activation_tokens`.) -/
theorem basic_restart_reaches_active (c : Cfg) (hk : c.kind = .BLC) (store : Option Desc) (file : File) (clock now : Int) (gen : Gen) :
    let s := Sys.run c { store := store, l := {}, file := file, clock := clock } (restartBLC now gen)
    ∃ b, s.l.cur = some b ∧ b.state = .ACTIVE ∧ Desc.get? (s.store.getD []) c.id = some b ∧
      ∀ e, Desc.get? (store.getD []) c.id = some e → b.regTs = e.regTs :=
  PfC09.blc_restart_reaches_active hk

example : -- non-vacuity: died JOINING with 1 of 2 tokens; restart keeps token 4, adds one, ends ACTIVE, registered at 2
    let c : Cfg := { id := "a", numTokens := 2, observe := true }
    let d : Desc := [{ id := "a", ts := 5, state := .JOINING, tokens := [4], regTs := 2 }, { id := "b", ts := 5, tokens := [9] }]
    let s := Sys.run c { store := some d, clock := 6 } (restartLC [] 8 (fun _ _ => [7]))
    s.l.state = .ACTIVE ∧ (s.store.getD []).map (fun i => (i.id, i.state, i.tokens, i.regTs)) =
      [("a", .ACTIVE, [4, 7], 2), ("b", .ACTIVE, [9], 0)] := by
  decide

/-- Restart over an entry left PENDING or JOINING with a well-formed token list (strictly sorted, at most `numTokens` —
what the lifecycler itself ever publishes): after `initRing` and the join timer the entry carries the OLD registration
time and exactly `numTokens` strictly sorted tokens, the old ones among them, every new one in NO instance's list
("keeps its tokens … full token count without colliding"; the hypotheses of `PC08.activation_tokens` are discharged here
from the entry). For an entry left LEAVING: `restart_died_leaving_tokens`; left ACTIVE: `restart_keeps_entry`. -/
theorem restart_join_full_tokens (c : Cfg) (file : File) (d : Desc) (e : Inst) (shuf : List Nat) (now : Int) (gen : Gen) (l : Local)
    (hk : c.kind = .LC) (he : Desc.get? d c.id = some e) (hst : e.state = .JOINING ∨ e.state = .PENDING)
    (hg : GenOK gen) (hsorted : e.tokens.Pairwise (· < ·)) (hle : e.tokens.length ≤ c.numTokens) :
    let r1 := step c l file (some d) (.init shuf) now gen .none
    let st1 := commit (some d) r1 .none
    let r2 := step c r1.l r1.file st1 .joinTimer now gen .none
    ∃ d' b, r2.out = .write d' ∧ Desc.get? d' c.id = some b ∧ b.regTs = e.regTs ∧
      b.tokens.length = c.numTokens ∧ b.tokens.Pairwise (· < ·) ∧ (∀ t ∈ e.tokens, t ∈ b.tokens) ∧ r2.l.tokens = b.tokens ∧
      (∀ t ∈ b.tokens, t ∈ e.tokens ∨ ∀ i ∈ st1.getD [], t ∉ i.tokens) :=
  PfC09.restart_join_tokens l hk he hst hg hsorted hle

/-- Restart from the tokens file with no ring entry (the dead process had unregistered, or the ring was lost): registered
now; the file's tokens are published as they are, ACTIVE at once iff the file holds at least `numTokens` tokens. -/
theorem restart_from_tokens_file (c : Cfg) (l : Local) (file : File) (din : Option Desc) (shuf : List Nat) (now : Int) (gen : Gen)
    (hk : c.kind = .LC) (habs : Desc.get? (din.getD []) c.id = none) :
    let r := step c l file din (.init shuf) now gen .none
    let ft := if c.hasFile then file.load.getD [] else []
    ∃ b, r.out = .write (put (din.getD []) b) ∧ b.id = c.id ∧ b.regTs = now ∧ b.ts = now ∧ b.tokens = ft ∧
      b.state = (if 0 < ft.length ∧ c.numTokens ≤ ft.length then .ACTIVE else .PENDING) ∧
      r.l.tokens = ft ∧ r.l.state = b.state ∧ r.l.regTs = now :=
  PfC08.lc_first_registration hk (by decide) habs

/-! ### the store loses the ring or rejects calls -/

/-- key wiped / entry removed while running: the next heartbeat the store accepts re-inserts the remembered
state and tokens with registration time = now (and remembers that time). -/
theorem reregisters_after_wipe (c : Cfg) (l : Local) (file : File) (din : Option Desc) (now : Int) (gen : Gen)
    (hk : c.kind = .LC) (hs : l.started = true) (habs : Desc.get? (din.getD []) c.id = none) :
    let r := step c l file din .heartbeat now gen .none
    ∃ b, r.out = .write (put (din.getD []) b) ∧ b.id = c.id ∧ b.state = l.state ∧ b.tokens = l.tokens ∧ b.regTs = now ∧
      b.ts = now ∧ b.ro = l.ro ∧ r.l = { l with regTs := now } :=
  PfC09.lc_reregisters hk hs habs

theorem basic_reregisters_after_wipe (c : Cfg) (l : Local) (file : File) (din : Option Desc) (now : Int) (gen : Gen)
    (hk : c.kind = .BLC) (hs : l.started = true) (habs : Desc.get? (din.getD []) c.id = none) :
    let r := step c l file din .heartbeat now gen .none
    ∃ d' b, r.out = .write d' ∧ Desc.get? d' c.id = some b ∧ b.state = blcState l ∧ b.tokens = blcTokens l ∧
      b.regTs = now ∧ b.ts = now ∧ r.l.cur = some b :=
  PfC09.blc_reregisters hk hs habs

/-- The same fresh re-registration happens through every other path that ends in `updateConsul`: an accepted
`changeState` and a read-only toggle that find the entry missing. -/
theorem state_change_reregisters_fresh (c : Cfg) (l : Local) (file : File) (din : Option Desc) (ev : Event) (now : Int) (gen : Gen)
    (hk : c.kind = .LC) (hs : l.started = true) (habs : Desc.get? (din.getD []) c.id = none)
    (hev : (∃ s, ev = .changeState s ∧ allowed l.state s = true) ∨ (∃ r, ev = .changeRO r ∧ l.ro ≠ r)) :
    ∃ b, (step c l file din ev now gen .none).out = .write (put (din.getD []) b) ∧ b.id = c.id ∧ b.tokens = l.tokens ∧
      b.regTs = now ∧ b.ts = now ∧ (step c l file din ev now gen .none).l.regTs = now :=
  PfC09.lc_update_reregisters hk hs habs hev

/-- BasicLifecycler: EVERY handler that goes through `updateInstance` — heartbeat, `verifyTokens`, ChangeState,
ChangeReadOnlyState, the stopping delegate — and finds the entry missing re-inserts it registered NOW. -/
theorem basic_reregisters_fresh_any_handler (c : Cfg) (l : Local) (file : File) (din : Option Desc) (ev : Event) (now : Int)
    (gen : Gen) (d' : Desc) (b : Inst) (hk : c.kind = .BLC) (hs : l.started = true)
    (habs : Desc.get? (din.getD []) c.id = none)
    (hev : ev = .heartbeat ∨ ev = .verify ∨ (∃ s, ev = .changeState s) ∨ (∃ r, ev = .changeRO r) ∨ ev = .stopDelegate)
    (h : (step c l file din ev now gen .none).out = .write d') (hb : Desc.get? d' c.id = some b) : b.regTs = now :=
  PfC09.blc_any_reregisters_fresh hk hs habs hev h hb

/-- Re-registration is fresh on EVERY path (full Lifecycler; fixed in /repo <commit>): whichever handler is the first to write
while the own entry is missing from the ring — heartbeat, observe timer (`verifyTokens`), join timer (`autoJoin`), an
accepted `changeState`, a read-only toggle, `ClaimTokensFor` from somebody else — the entry it publishes carries
registration time = now, the configured address and zone, and the lifecycler remembers that time; heartbeat, observe
timer and read-only toggle publish the remembered tokens and state, the claim the remembered state.
(Before the fix only `updateConsul` did this. Pre-fix model/code behaviour, kept for the record — inputs of the former
`reregister_by_verify_witness`, `reregister_by_join_witness`, `reregister_by_claim_witness`:
  verify  c={id a, numTokens 2, observe}, l={JOINING, tokens [3,8], regTs 5}, ring lost, now 9, generator [1,2]
          ⇒ pre-fix write {a, JOINING, tokens [1,2], regTs 5};
  join    l={PENDING, regTs 5}, ring lost, now 9 ⇒ pre-fix write {a, ACTIVE, tokens [4], regTs 5};
  claim   l={ACTIVE, tokens [3], regTs 5}, ring {old LEAVING [7]}, now 9
          ⇒ pre-fix write {a, addr "", ACTIVE, tokens [7], regTs 0}, next heartbeat regTs 5.) -/
theorem reregisters_fresh_on_every_path (c : Cfg) (l : Local) (file : File) (din : Option Desc) (ev : Event) (now : Int) (gen : Gen)
    (d' : Desc) (hk : c.kind = .LC) (hs : l.started = true) (habs : Desc.get? (din.getD []) c.id = none)
    (hev : ev = .heartbeat ∨ ev = .verify ∨ ev = .joinTimer ∨ (∃ s, ev = .changeState s) ∨ (∃ r, ev = .changeRO r) ∨
      ∃ frm, ev = .claim frm ∧ frm ≠ c.id)
    (h : (step c l file din ev now gen .none).out = .write d') :
    ∃ b, Desc.get? d' c.id = some b ∧ b.regTs = now ∧ b.addr = c.addr ∧ b.zone = c.zone ∧
      (step c l file din ev now gen .none).l.regTs = now ∧
      (ev = .heartbeat ∨ ev = .verify ∨ (∃ r, ev = .changeRO r) → b.tokens = l.tokens ∧ b.state = l.state) ∧
      ((∃ frm, ev = .claim frm) → b.state = l.state) :=
  PfC09.lc_any_reregisters_fresh hk hs habs hev h

example : -- non-vacuity (the three former witness inputs, now fresh): observe timer, join timer, claim after the ring was lost
    let cv : Cfg := { id := "a", numTokens := 2, observe := true }
    (step cv { started := true, state := .JOINING, tokens := [3, 8], regTs := 5 } .absent none .verify 9 (fun _ _ => [1, 2]) .none).out =
      .write [{ id := "a", ts := 9, state := .JOINING, tokens := [3, 8], regTs := 9 }] ∧
    (step { id := "a", numTokens := 1 } { started := true, state := .PENDING, regTs := 5 } .absent none .joinTimer 9 (fun _ _ => [4]) .none).out =
      .write [{ id := "a", ts := 9, state := .ACTIVE, tokens := [4], regTs := 9 }] ∧
    (step { id := "a", addr := "h:1", numTokens := 1 } { started := true, state := .ACTIVE, tokens := [3], regTs := 5 } .absent
        (some [{ id := "old", state := .LEAVING, tokens := [7] }]) (.claim "old") 9 (fun _ _ => []) .none).out =
      .write [{ id := "a", addr := "h:1", ts := 9, state := .ACTIVE, tokens := [7], regTs := 9 }, { id := "old", state := .LEAVING }] := by
  decide

/-- while calls are rejected, heartbeats change neither the store nor the remembered state, tokens or file. (Registration
time: a heartbeat whose COMMIT is rejected after it found the entry missing has already set the remembered registration
time to `now`; the next accepted heartbeat sets it again, `reregisters_after_wipe`.) -/
theorem heartbeat_under_faults (c : Cfg) (l : Local) (file : File) (din : Option Desc) (now : Int) (gen : Gen) :
    (let r := step c l file din .heartbeat now gen .failBefore
     r.l = l ∧ r.file = file ∧ commit din r .failBefore = din) ∧
    (let r := step c l file din .heartbeat now gen .failCommit
     r.l.state = l.state ∧ r.l.tokens = l.tokens ∧ r.l.cur = l.cur ∧ r.file = file ∧ commit din r .failCommit = din) :=
  ⟨PfC09.heartbeat_rejected_is_noop, PfC09.heartbeat_commit_rejected⟩

/-- A heartbeat (either kind, whatever the store then does with the write) that finds the own entry in the ring
publishes the tokens the RING records — not the remembered ones. Hence a restarted lifecycler that has not yet
loaded its tokens (died JOINING) does not wipe them by heartbeating before the join timer, and a LEAVING
instance whose tokens another instance has claimed does not write them back. -/
theorem heartbeat_keeps_ring_tokens (c : Cfg) (l : Local) (file : File) (din : Option Desc) (now : Int) (gen : Gen)
    (fault : Fault) (e b : Inst) (d' : Desc) (he : Desc.get? (din.getD []) c.id = some e)
    (h : (step c l file din .heartbeat now gen fault).out = .write d') (hb : Desc.get? d' c.id = some b) :
    b.tokens = e.tokens :=
  (PfC09.heartbeat_keeps_ring_tokens he h hb).1

/-- `Lifecycler.changeState` remembers the requested state before it writes: whether the store accepts the write,
rejects the call or rejects the commit, the lifecycler is in the new state afterwards (tokens untouched) and
EVERY later heartbeat the store accepts publishes that state. So a rejected JOINING→ACTIVE write at the end of the
observe period is repaired by the next heartbeat (ACTIVE is reached), and a rejected ACTIVE→LEAVING write at
shutdown by the next heartbeat of `stopping()`. -/
theorem state_survives_rejected_write (c : Cfg) (l : Local) (file : File) (din : Option Desc) (s : State) (now : Int)
    (gen : Gen) (fault : Fault) (hk : c.kind = .LC) (hs : l.started = true) (hal : allowed l.state s = true) :
    let r := step c l file din (.changeState s) now gen fault
    r.l.state = s ∧ r.l.started = true ∧ r.l.tokens = l.tokens ∧
    ∀ (din' : Option Desc) (now' : Int) (gen' : Gen), ∃ d' b,
      (step c r.l r.file din' .heartbeat now' gen' .none).out = .write d' ∧ Desc.get? d' c.id = some b ∧ b.state = s :=
  PfC09.state_survives_rejected_write hk hs hal

example : -- non-vacuity: JOINING→ACTIVE rejected, the ring still shows JOINING, the next heartbeat publishes ACTIVE with the ring's tokens
    let c : Cfg := { id := "a", numTokens := 1, observe := true }
    let l : Local := { started := true, state := .JOINING, tokens := [4] }
    let d : Desc := [{ id := "a", ts := 5, state := .JOINING, tokens := [4] }]
    let r := step c l .absent (some d) (.changeState .ACTIVE) 6 (fun _ _ => []) .failCommit
    commit (some d) r .failCommit = some d ∧
    (step c r.l r.file (some d) .heartbeat 7 (fun _ _ => []) .none).out = .write [{ id := "a", ts := 7, state := .ACTIVE, tokens := [4] }] := by
  decide

/-- `ClaimTokensFor` whose CAS fails — the store rejects the call, the ring is empty, or the commit is rejected —
claims nothing and forgets nothing: remembered state, tokens, read-only state and tokens file are as before, the store is
unchanged (only the remembered registration time may already be refreshed when a COMMIT is rejected after the callback
found the own entry missing).
(Fixed in /repo 392dd5f. Before the fix the closure called `setTokens(nil)` on a failed CAS:
  c = {id "a", numTokens 2, hasFile}, l.tokens = [3,8], file [3,8], ring a:[3,8] old(LEAVING):[5], claim "old" rejected
  ⇒ l.tokens = [], file = [] while the ring still held [3,8] — former `claim_under_fault_forgets_tokens_witness`.) -/
theorem claim_under_fault_keeps_tokens (c : Cfg) (l : Local) (file : File) (din : Option Desc) (frm : String) (now : Int)
    (gen : Gen) (fault : Fault) (hk : c.kind = .LC) (hs : l.started = true) (hfail : fault ≠ .none ∨ din = none) :
    let r := step c l file din (.claim frm) now gen fault
    r.l.tokens = l.tokens ∧ r.l.state = l.state ∧ r.l.ro = l.ro ∧ r.l.started = true ∧ r.file = file ∧
    commit din r fault = din ∧ r.ret = .ok ∧ (fault = .failBefore ∨ din = none → r.l = l) :=
  PfC09.claim_failed_keeps hk hs hfail

example : -- non-vacuity (the former witness input): nothing is forgotten
    let c : Cfg := { id := "a", numTokens := 2, hasFile := true }
    let l : Local := { started := true, state := .ACTIVE, tokens := [3, 8] }
    let d : Desc := [{ id := "a", state := .ACTIVE, tokens := [3, 8] }, { id := "old", state := .LEAVING, tokens := [5] }]
    let r := step c l (.tokens [3, 8]) (some d) (.claim "old") 9 (fun _ _ => []) .failBefore
    r.l.tokens = [3, 8] ∧ r.file = .tokens [3, 8] ∧ commit (some d) r .failBefore = some d := by
  decide

/-- Start-up under a read outage. With a token generator that has a can-join check `autoJoin` first runs
`waitBeforeJoining`: if the first `k` reads fail (or find no ring, or `CanJoin` refuses) and the next one works — `k`
below the can-join timeout — `waitAttempts` makes exactly `k + 1` attempts; without a can-join check the store is never
read. The model gives the outage NO other effect BY CONSTRUCTION (`joinTimerWithReads` runs the ordinary join-timer
handler afterwards, at the same `now`, on the same store — the error is swallowed in the code; that meanwhile real
seconds pass and no heartbeat is served is not modelled), so the second half is `PC08.activation_tokens` for that
handler: target state, `numTokens` strictly sorted tokens, equal to the remembered ones. The tie is the real-time
`C09.startup` stream. -/
theorem join_survives_read_outage (c : Cfg) (l : Local) (file : File) (store : Option Desc) (now : Int) (gen : Gen)
    (canJoin : Bool) (budget k : Nat) (reads : Nat → Read)
    (hk : c.kind = .LC) (hs : l.started = true) (hp : l.state = .PENDING) (hg : GenOK gen)
    (hnd : (tokensOf (store.getD []) c.id).Nodup) (hle : (tokensOf (store.getD []) c.id).length ≤ c.numTokens)
    (hkb : k < budget) (hfail : ∀ j, j < k → reads j ≠ .ok) (hok : reads k = .ok) :
    let r := joinTimerWithReads c l file store now gen canJoin budget reads
    r.2 = (if canJoin then k + 1 else 0) ∧
    ∃ d' b, r.1.out = .write d' ∧ Desc.get? d' c.id = some b ∧
      b.state = (if c.observe then .JOINING else .ACTIVE) ∧ b.tokens.length = c.numTokens ∧
      b.tokens.Pairwise (· < ·) ∧ r.1.l.tokens = b.tokens := by
  intro r
  have hw := PfC09.waitAttempts_outage reads k budget 0 hkb (by simpa using hfail) (by simpa using hok)
  refine ⟨?_, ?_⟩
  · cases canJoin <;> simp [r, joinTimerWithReads, hs, hp, hw]
  · obtain ⟨d', b, h1, h2, h3, _, h5, h6, h7, _, _⟩ :=
      PfC08.lc_join_tokens (file := file) (now := now) (fault := .none) hk hs hp hg (by decide) hnd hle
    exact ⟨d', b, h1, h2, h3, h6, h7, h5⟩

example : -- non-vacuity: two failed reads, then the ring is readable: 3 attempts, ACTIVE with 2 tokens
    let c : Cfg := { id := "a", numTokens := 2 }
    let l : Local := { started := true }
    let r := joinTimerWithReads c l .absent (some [{ id := "a", state := .PENDING }]) 5 (fun _ _ => [3, 8]) true 300
      (fun j => if j < 2 then .fail else .ok)
    r.2 = 3 ∧ r.1.out = .write [{ id := "a", ts := 5, state := .ACTIVE, tokens := [3, 8] }] := by
  decide

/-! ### tokens file -/

/-- `StoreToFile` (create temporary file, write, rename) interrupted by a PROCESS crash after any of its file-system
operations, or in the middle of the write: the tokens file is the complete old or the complete new list; run to the end
it is the new list and the temporary file is gone. (That `LoadTokensFromFile` reads only the tokens file itself, never
the temporary one, is how `FS.load` is defined — a reading of tokens.go, not a theorem. A failing `f.Close()` and a
machine crash without fsync before the rename are outside this model.) -/
theorem tokens_file_atomic (fs : FS) (t : List Nat) (k : Nat) (midWrite : Bool) :
    ((crashedStore fs t k midWrite).main = fs.main ∨ (crashedStore fs t k midWrite).main = .tokens t) ∧
    (3 ≤ k → (crashedStore fs t k false).main = .tokens t ∧ (crashedStore fs t k false).tmp = .absent) :=
  ⟨PfC09.file_atomic fs t k midWrite, PfC09.file_complete fs t k⟩

/-- ... and when the write itself FAILS after a partial write (disk full, quota) `StoreToFile` returns the error
without renaming: the tokens file still holds the complete old list (the partial temporary file is left behind);
when nothing fails it holds the complete new list and no temporary file remains. -/
theorem tokens_file_failed_write_keeps_old (fs : FS) (t : List Nat) :
    ((storeResult fs t true).1.main = fs.main ∧ (storeResult fs t true).2 = true) ∧
    ((storeResult fs t false).1.main = .tokens t ∧ (storeResult fs t false).1.tmp = .absent ∧ (storeResult fs t false).2 = false) :=
  PfC09.store_result fs t

end PC09
