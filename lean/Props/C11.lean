import Model.C11
import Model.C02
import Proofs.C11
/-!
# C11 — quorum reads return only quorum-backed results and release everything else

Property theorems about the transition system of `Model/C11.lean` (helper lemmas live in
`Proofs/C11/*.lean`). Unless said otherwise every theorem quantifies over

* every configuration `c` (any number of instances, any zone layout, any `MaxErrors` /
  `MaxUnavailableZones`, zone awareness, minimisation, hedging, terminal-error predicate, both
  `DoUntilQuorum` variants),
* every release order `order` (`rand.Perm` / the zone sorter), `pre` (caller's context already done),
* every **schedule** `evs : List Ev`: any interleaving of callbacks returning any result
  (`finish`), the caller cancelling, hedging ticks, the main loop's `recv` / `ctxDone`, instance
  goroutines starting or giving up, and the drain goroutine,

and speaks about every state `s` with `run c (init c order pre) evs = some s`.

State logs used in the statements: `s.started` (calls of `f`, in order), `s.cleaned` (calls of
`cleanupFunc`), `s.fin` (callbacks that returned, with their result), `s.doneErr` (failures counted
by the tracker), `s.ctx i` (context of instance `i` is cancelled), `s.main` (running / returned).
-/
namespace PC11
open C11

variable {c : Cfg} {order : List Nat} {pre : Bool} {evs : List Ev} {s : St}

/-! ### each instance is called at most once -/

/-- `f` is called at most once per instance, and only for instances of the set. -/
theorem called_at_most_once (hr : run c (init c order pre) evs = some s) :
    s.started.Nodup ∧ ∀ i, i ∈ s.started → i < c.n :=
  PfC11.called_at_most_once hr

/-! ### results: only from successful calls, only once the criterion holds -/

/-- A returned list has no duplicates; each element is an instance whose callback returned
success, whose result the main loop received, and which was not handed to cleanup. -/
theorem returns_only_successes (hr : run c (init c order pre) evs = some s) {rs} (hm : s.main = .retOk rs) :
    rs.Nodup ∧ ∀ i, i ∈ rs → i < c.n ∧ (i, Res.ok) ∈ s.fin ∧ s.phase i = .consumed ∧ i ∉ s.cleaned :=
  PfC11.returns_only_successes hr hm

/-- Not zone-aware: a list is returned only when it holds results of all but the tolerated number
of instances. -/
theorem returns_quorum_flat (hr : run c (init c order pre) evs = some s) (hz : c.zoneMode = false) {rs}
    (hm : s.main = .retOk rs) : rs.length + c.maxErrors ≥ c.n :=
  PfC11.returns_quorum_flat hr hz hm

/-- Zone-aware: the returned list contains *every* instance of all but the tolerated number of
zones (`zoneIn c rs z`: all instances of zone `z` are in `rs`), and nothing else: every returned
result belongs to a zone that is completely contained in the returned list (hence, by
`returns_only_successes`, to a zone all of whose instances succeeded — none failed or outstanding). -/
theorem returns_quorum_zone (hr : run c (init c order pre) evs = some s) (hz : c.zoneMode = true) {rs}
    (hm : s.main = .retOk rs) :
    (c.zoneList.filter (PfC11.zoneIn c rs)).length + c.maxUnavail ≥ c.zoneList.length ∧
    ∀ i, i ∈ rs → PfC11.zoneIn c rs (c.zoneOf i) = true :=
  PfC11.returns_quorum_zone hr hz hm

/-! ### errors: exactly when due -/

/-- An error is returned only for one of these reasons, and it is the error belonging to the reason:
1. invalid configuration;
2. the caller's context is done (the cancellation is returned);
3. the failure count exceeds the tolerance (`failed`; in observables: `failed_means`,
   `counters_match_history`) — the error returned is the one that tipped the count, i.e. that of the
   last counted failure `i`: its callback's error, or a cancellation-class error if `i`'s `awaitStart`
   failed;
4. a callback returned an error for which `IsTerminalError` holds — that error is returned;
5. `IsTerminalError` holds for the (cancellation-class) error posted by a goroutine whose `awaitStart`
   failed (`abT i`: the predicate's answer for instance `i`'s `awaitStart` error, given by the event
   `abort i true`). Go applies the predicate to every non-nil error it receives, so does the model
   (`isTerminal`); `error_cause_abort_terminal_witness` shows this reason is needed. -/
theorem error_has_cause (hr : run c (init c order pre) evs = some s) {e} (hm : s.main = .retErr e) :
    (e = .invalid ∧ c.invalid = true) ∨
    (e = .cancelled ∧ s.parentCanc = true) ∨
    (failed c s = true ∧ ∃ i, s.doneErr.getLast? = some i ∧ (e = .inst i ∨ e = .cancelled)) ∨
    (∃ i, e = .inst i ∧ c.hasTerm = true ∧ (i, Res.term) ∈ s.fin) ∨
    (e = .cancelled ∧ c.hasTerm = true ∧ ∃ i, s.abT i = true) :=
  PfC11.error_has_cause hr hm

/-- zones 0,0,1; one zone may be unavailable; a terminal-error predicate is set. -/
def abCfg : Cfg :=
  { zones := [0, 0, 1], maxErrors := 0, maxUnavail := 1, zoneAware := true, minimize := false, hedging := false
    hasTerm := true, cancelAll := false }

/-- **Reason 5 is needed**: instance 0 fails with a non-terminal error (one failed zone is tolerated);
that cancels the context of its zone-mate 1, which has not left `awaitStart` yet and now posts the
cancellation cause; the predicate classifies that error as terminal (`abort 1 true`): the call returns
a cancellation-class error although the tolerance is not exceeded (`failed = false`), the caller did
not cancel and the only callback that returned is that of instance 0 (the only one started). -/
theorem error_cause_abort_terminal_witness :
    (run abCfg (init abCfg [] false) [.begin 0, .finish 0 .err, .recv, .abort 1 true, .recv]).map
      (fun s => (s.main, failed abCfg s || s.parentCanc, s.fin.map (·.1), s.started)) =
    some (.retErr .cancelled, false, [0], [0]) := by decide +kernel

/-- `failed` means: more than `MaxErrors` distinct instances (resp. instances in more than
`MaxUnavailableZones` zones) delivered a non-successful result that the main loop counted. -/
theorem failed_means (hr : run c (init c order pre) evs = some s) (hf : failed c s = true) :
    s.doneErr.Nodup ∧ (∀ i, i ∈ s.doneErr → i < c.n ∧ (i, Res.ok) ∉ s.fin ∧ s.phase i = .consumed) ∧
    (c.zoneMode = false → s.doneErr.length > c.maxErrors) ∧
    (c.zoneMode = true →
      (c.zoneList.filter fun z => decide (0 < s.doneErr.countP fun j => decide (c.zoneOf j = z))).length > c.maxUnavail) :=
  PfC11.failed_means hr hf

/-- Conversely the main loop never keeps running once it is due to return: while it runs, neither
the success criterion nor the failure criterion holds for what it has received, and nothing has
been cleaned up yet. (A terminal error and a done context make it return at the very `recv` /
`ctxDone` step, see `terminal_error_returns`, `cancel_returns`.) -/
theorem running_means_undecided (hr : run c (init c order pre) evs = some s) (hm : s.main = .running) :
    succeeded c s = false ∧ failed c s = false ∧ s.cleaned = [] :=
  PfC11.loop_invariant hr hm

/-- The tracker's counters count the history: `nSucc` / `waiting` are determined by the successes the
main loop received (`resMap`: exactly the callbacks that returned success and whose result was
received, while running), `nErr` / `fails` by the failures it counted (`doneErr`: distinct instances
with a non-successful result that was received). So `succeeded` / `failed` above are statements about
what was received. -/
theorem counters_match_history (hr : run c (init c order pre) evs = some s) :
    (c.zoneMode = false → s.nSucc = s.resMap.length ∧ s.nErr = s.doneErr.length) ∧
    (c.zoneMode = true → ∀ z, s.waiting z = (List.range c.n).countP (PfC11.waitingPred c s.resMap s.doneErr z) ∧
        s.fails z = s.doneErr.countP (fun j => decide (c.zoneOf j = z))) ∧
    (∀ i, i ∈ s.resMap → i < c.n ∧ (i, Res.ok) ∈ s.fin) ∧
    (s.main = .running → ∀ i, i ∈ s.resMap ↔ ((i, Res.ok) ∈ s.fin ∧ s.phase i = .consumed)) ∧
    s.resMap.Nodup ∧ s.doneErr.Nodup ∧
    (∀ i, i ∈ s.doneErr → i < c.n ∧ (i, Res.ok) ∉ s.fin ∧ s.phase i = .consumed) :=
  PfC11.counters_match_history hr

/-- `running_means_undecided` in observables: while the loop runs it has counted at most the tolerated
failures and received fewer successes than a quorum (not zone-aware: instances; zone-aware: zones
with a counted failure, resp. zones none of whose instances is outstanding or failed). Together with
`error_has_cause` (3): the error is returned exactly at the `recv` that tips the count. -/
theorem running_means_undecided_obs (hr : run c (init c order pre) evs = some s) (hm : s.main = .running) :
    (c.zoneMode = false → s.doneErr.length ≤ c.maxErrors ∧ s.resMap.length + c.maxErrors < c.n) ∧
    (c.zoneMode = true →
      (c.zoneList.filter fun z => decide (0 < s.doneErr.countP fun j => decide (c.zoneOf j = z))).length ≤ c.maxUnavail ∧
      (c.zoneList.filter fun z => (List.range c.n).countP (PfC11.waitingPred c s.resMap s.doneErr z) == 0 &&
          s.doneErr.countP (fun j => decide (c.zoneOf j = z)) == 0).length + c.maxUnavail < c.zoneList.length) :=
  PfC11.running_means_undecided_obs hr hm

/-- (`…_returns`: one-step lemmas about any state `s` — the `recv` / `ctxDone` case is ENABLED and taking
it returns the error. That the scheduler eventually takes an enabled case of the main loop's `select`
is Go's, not proved here; see `level_note`.)

Receiving a terminal error makes the function return that error at once. -/
theorem terminal_error_returns (s : St) (i : Nat) (rest : List (Nat × Res)) (hm : s.main = .running)
    (hch : s.chan = (i, .term) :: rest) (ht : c.hasTerm = true) :
    ∃ s', step c s .recv = some s' ∧ s'.main = .retErr (.inst i) ∧ ∀ j, s'.ctx j = true :=
  PfC11.terminal_error_returns c s i rest hm hch ht

/-- Receiving the error of a failed `awaitStart` which the predicate classifies as terminal makes the
function return that cancellation-class error at once, whatever the tolerance. -/
theorem terminal_abort_returns (s : St) (i : Nat) (rest : List (Nat × Res)) (hm : s.main = .running)
    (hch : s.chan = (i, .aborted) :: rest) (ht : c.hasTerm = true) (ha : s.abT i = true) :
    ∃ s', step c s .recv = some s' ∧ s'.main = .retErr .cancelled ∧ ∀ j, s'.ctx j = true :=
  PfC11.terminal_abort_returns c s i rest hm hch ht ha

/-- a done caller context is a ready case of the main loop's `select`, and taking it returns `cancelled`. -/
theorem cancel_returns (s : St) (hm : s.main = .running) (hp : s.parentCanc = true) :
    ∃ s', step c s .ctxDone = some s' ∧ s'.main = .retErr .cancelled :=
  PfC11.cancel_returns c s hm hp

/-! ### cleanup exactly once -/

/-- At any time: no result is cleaned up twice, only successful results are cleaned up, and never
one that is returned. -/
theorem cleanup_safe (hr : run c (init c order pre) evs = some s) :
    s.cleaned.Nodup ∧ ∀ i, i ∈ s.cleaned → (i, Res.ok) ∈ s.fin ∧ i ∉ results s :=
  PfC11.cleanup_safe hr

/-- When everything is over (`final`: the function returned, every instance goroutine posted and
the drain goroutine emptied the channel — which happens under the fairness assumption that every
started callback returns, see `no_goroutine_stuck`), every successful result is either returned or
was handed to the cleanup callback exactly once. -/
theorem cleanup_exactly_once (hr : run c (init c order pre) evs = some s) (hfin : final c s = true) :
    ∀ i, i < c.n → (i, Res.ok) ∈ s.fin →
      ((i ∈ results s ∧ i ∉ s.cleaned) ∨ (i ∉ results s ∧ s.cleaned.count i = 1)) :=
  PfC11.cleanup_exactly_once hr hfin

/-! ### contexts of unused calls are cancelled -/

/-- From the moment the function returns, the context of every instance whose result is not
returned is cancelled (all of them after an error). -/
theorem unused_contexts_cancelled (hr : run c (init c order pre) evs = some s) :
    (∀ rs, s.main = .retOk rs → ∀ i, i < c.n → i ∉ rs → s.ctx i = true) ∧
    (∀ e, s.main = .retErr e → e ≠ .invalid → ∀ i, s.ctx i = true) :=
  PfC11.unused_contexts_cancelled hr

/-- Hence no instance goroutine stays blocked in `awaitStart` after the return (on each of the exit
paths: quorum, tolerance exceeded / terminal error, caller's context done, invalid configuration):
its context is cancelled, so `abort` is enabled and the drain goroutine will get its result. -/
theorem no_goroutine_stuck (hr : run c (init c order pre) evs = some s) (hm : s.main ≠ .running) :
    ∀ i, i < c.n → s.phase i = .waiting → s.ctx i = true :=
  PfC11.held_released_or_cancelled hr hm

/-- `DoUntilQuorum` (the wrapper that cancels everything): when results are returned, every
context is cancelled, whatever the schedule. -/
theorem all_contexts_cancelled (hr : run c (init c order pre) evs = some s) {rs} (hm : s.main = .retOk rs)
    (hca : c.cancelAll = true) : ∀ i, s.ctx i = true :=
  PfC11.all_contexts_cancelled hr hm hca

/-- `…WithoutSuccessfulContextCancellation`: as long as neither the caller nor a callback cancels
(`QuietEv`: no `cancel` / `cancelOne` event in the schedule), the contexts of the returned results
are live — only unused contexts are cancelled. -/
theorem returned_contexts_live (hq : ∀ e, e ∈ evs → PfC11.QuietEv e)
    (hr : run c (init c order false) evs = some s) {rs} (hm : s.main = .retOk rs) (hnc : c.cancelAll = false) :
    ∀ i, i ∈ rs → s.ctx i = false :=
  PfC11.returned_contexts_live hq hr hm hnc

/-! ### progress before the return -/

/-- **Partial** — progress of the main loop while it runs. In every reachable state in which the call has
not returned, either an event of the loop / the instance goroutines / the callbacks is enabled
(`PfC11.LoopEv`: the loop receives a posted result, a released goroutine calls `f`, a goroutine whose
release channel was closed or whose context is cancelled gives up, a running callback may return —
never a cancellation or a timer tick), or EVERY instance is parked (`PfC11.Parked`): its result was
already consumed, or it is still held back by request minimisation (in `awaitStart`, not released,
context live).

Missing for the full statement ("no deadlock while callbacks are outstanding; under weak fairness the
call returns"): the all-parked alternative is unreachable while `main = running`. Two facts are needed,
neither is an invariant of `Proofs/C11` yet: (a) while running, a consumed instance is in `resMap` or
`doneErr`, so "all consumed" gives `succeeded ∨ failed` by counting, contradicting
`running_means_undecided_obs`; (b) with minimisation, while `pending ≠ []`:
`released.length = minUnits + nFailRel (+ nTicks)` and `nFailRel` = number of counted failures (failed
zones), so "all released units consumed, some unit held" again gives `succeeded`. (b) needs `order` to be
a permutation of the units — NECESSARY: `progress_needs_order_witness`. Then weak fairness + the measure
`PfC11.mu` (each `LoopEv` decreases it, as in `drain_terminates`) would give termination. -/
theorem progress_before_return_partial (hr : run c (init c order pre) evs = some s) (hm : s.main = .running) :
    (∃ e, PfC11.LoopEv e ∧ (step c s e).isSome = true) ∨ (∀ i, i < c.n → PfC11.Parked s i) :=
  PfC11.progress_before_return_partial hr hm

/-- flat, 2 instances, no tolerance, minimisation. -/
def pgCfg : Cfg :=
  { zones := [0, 0], maxErrors := 0, maxUnavail := 0, zoneAware := false, minimize := true, hedging := false
    hasTerm := false, cancelAll := false }

/-- **Witness**: with an `order` that is not a permutation of the instances (here `[]`; Go passes
`rand.Perm(n)`, which the harness observes but no theorem assumes) the model is parked at once: running,
nothing released, every instance held — so the full progress statement needs that hypothesis. -/
theorem progress_needs_order_witness :
    let s := init pgCfg [] false
    (s.main, (List.range 2).map fun i => (s.phase i, s.rel i, s.ctx i)) =
      (.running, [(.waiting, .held, false), (.waiting, .held, false)]) := by decide +kernel

-- non-vacuity of `progress_before_return_partial`: with the real order the first alternative holds (`begin 1` is enabled) …
example : ((run pgCfg (init pgCfg [1, 0] false) []).map fun s => (s.main, (step pgCfg s (.begin 1)).isSome)) =
    some (.running, true) := by decide +kernel
-- … and one callback outstanding, the other consumed: `finish 0 ok` is enabled
example : ((run pgCfg (init pgCfg [1, 0] false) [.begin 1, .begin 0, .finish 1 .ok, .recv]).map
    fun s => (s.main, s.phase 1, (step pgCfg s (.finish 0 .ok)).isSome)) = some (.running, .consumed, true) := by decide +kernel

/-! ### after the return everything drains -/

/-- Progress: after the return, unless everything is over, some goroutine can move — the drain
goroutine receives, a goroutine blocked in `awaitStart` gives up, or a running callback may return
(the fairness assumption on callbacks). -/
theorem progress_after_return (hr : run c (init c order pre) evs = some s) (hm : s.main ≠ .running)
    (hnf : final c s = false) : ∃ e, PfC11.QuietEv e ∧ (step c s e).isSome = true :=
  PfC11.progress_after_return hr hm hnf

/-- Termination: every continuation after the return (without further cancellations, which change
nothing) has at most `mu c s ≤ 3·n` steps; together with `progress_after_return` the system reaches
`final`, where `cleanup_exactly_once` applies. -/
theorem drain_terminates (hr : run c (init c order pre) evs = some s) (hm : s.main ≠ .running)
    (evs' : List Ev) (hq : ∀ e, e ∈ evs' → PfC11.QuietEv e) {s' : St} (hr' : run c s evs' = some s') :
    evs'.length + PfC11.mu c s' ≤ PfC11.mu c s ∧ PfC11.mu c s ≤ 3 * c.n :=
  ⟨PfC11.drain_terminates evs' (PfC11.invA_reach hr) hm hq hr', PfC11.mu_le c s⟩

/-! ### request minimisation -/

/-- With `MinimizeRequests`, the number of instances (zones, in zone-aware mode) for which `f` has
been called never exceeds the minimum needed for a quorum, plus one per failure that made the
tracker release another one (`nFailRel`, at most the number of counted failures), plus one per
hedging tick handled (`nTicks`). `order` is a permutation of the instances (only its length matters). -/
theorem minimisation_bound (hmin : c.minimize = true) (hinv : c.invalid = false)
    (hord : c.zoneMode = false → order.length = c.n) (hr : run c (init c order pre) evs = some s) :
    (c.zoneMode = false → s.started.length ≤ (c.n - c.maxErrors) + s.nFailRel + s.nTicks) ∧
    (c.zoneMode = true →
      (distinct (s.started.map c.zoneOf)).length ≤ (c.zoneList.length - c.maxUnavail) + s.nFailRel + s.nTicks) ∧
    s.nFailRel ≤ s.doneErr.length :=
  PfC11.minimisation_bound hmin hinv hord hr

/-- The same in terms of what was released: every started instance (its zone, in zone-aware mode:
`PfC11.unitOf`) is one of the released units, and at most the minimum (`PfC11.minUnits`) plus one per
failure-release and per tick were released. -/
theorem minimisation_released (hmin : c.minimize = true) (hinv : c.invalid = false)
    (hord : c.zoneMode = false → order.length = c.n) (hr : run c (init c order pre) evs = some s) :
    (∀ i, i ∈ s.started → PfC11.unitOf c i ∈ s.released) ∧
    s.released.length ≤ PfC11.minUnits c + s.nFailRel + s.nTicks :=
  PfC11.minimisation_released hmin hinv hord hr

/-- **Lower bound, failure half** ("… until a failure … releases more"): when the main loop receives a
non-terminal error (zone-aware: the first one of its zone) while requests are still held back, the
`recv` step releases the next held-back unit `u` — every instance `j` with `unitOf c j = u` may start. -/
theorem failure_releases_next (s : St) (i : Nat) (r : Res) (rest : List (Nat × Res)) (u : Nat) (us : List Nat)
    (hm : s.main = .running) (hch : s.chan = (i, r) :: rest) (hr : r ≠ .ok) (hnt : isTerminal c s i r = false)
    (hp : s.pending = u :: us) (hfirst : c.zoneMode = true → s.fails (c.zoneOf i) = 0) :
    ∃ s', step c s .recv = some s' ∧ (∀ j, PfC11.unitOf c j = u → s'.rel j = .go) ∧
      s'.released = s.released ++ [u] ∧ s'.pending = us :=
  PfC11.failure_releases_next c s i r rest u us hm hch hr hnt hp hfirst

/-- **Lower bound, hedging half** ("… or the hedging delay releases more", untimed): handling a
hedging tick releases the next held-back unit. (That ticks arrive every `HedgingDelay` is the
ticker's; the judge's `hedging-release-overdue` rule checks it on the real code.) -/
theorem tick_releases_next (s : St) (u : Nat) (us : List Nat) (hm : s.main = .running) (hh : c.hedging = true)
    (hp : s.pending = u :: us) :
    ∃ s', step c s .tick = some s' ∧ (∀ j, PfC11.unitOf c j = u → s'.rel j = .go) ∧
      s'.released = s.released ++ [u] ∧ s'.pending = us :=
  PfC11.tick_releases_next c s u us hm hh hp

/-- … and in any mode never more calls than instances. -/
theorem started_le_n (hr : run c (init c order pre) evs = some s) : s.started.length ≤ c.n :=
  PfC11.started_le_n hr

/-! ### the multi-set variant -/

section multi
variable {cs : List Cfg} {orders : List (List Nat)} {mevs : List MEv} {m : MSt}

/-- In every reachable state of the multi-set system (any interleaving of the workers' events, of
callbacks calling their cancel functions, of the caller cancelling, of workers joining), the state
of worker `k` is a reachable state of the single-set system for replication set `k`: every theorem
above holds for every set of a multi-set call. -/
theorem multi_projection (hr : mrun cs (minit cs orders pre) mevs = some m) :
    ∀ k c, cs[k]? = some c → ∃ evs', run c (init c (orders.getD k []) pre) evs' = some (m.sets k) :=
  PfC11.multi_projection hr

/-- If results are returned then every set returned results, and the returned results are exactly the
union of the sets' results (each set's results meeting its own criterion by `multi_projection`).
The converse is `multi_ret_ok_iff`. -/
theorem multi_returns_ok {rs} (hr : mrun cs (minit cs orders pre) mevs = some m) (hret : m.ret = some (.ok rs)) :
    (∀ k, k < cs.length → ∃ rk, (m.sets k).main = .retOk rk ∧ ∀ i, (k, i) ∈ rs ↔ i ∈ rk) ∧
    (∀ k i, (k, i) ∈ rs → k < cs.length) :=
  PfC11.multi_returns_ok hr hret

/-- Once the multi-set call has returned: it returned results **iff** every set returned results. -/
theorem multi_ret_ok_iff (hr : mrun cs (minit cs orders pre) mevs = some m) (hret : m.ret.isSome = true) :
    (∃ rs, m.ret = some (.ok rs)) ↔ ∀ k, k < cs.length → ∃ rk, (m.sets k).main = .retOk rk :=
  PfC11.multi_ret_ok_iff hr hret

/-- Error return: the workers' context, hence the context of every callback — all their results are
unused — is cancelled. -/
theorem multi_err_ctx_cancelled {e} (hr : mrun cs (minit cs orders pre) mevs = some m) (hret : m.ret = some (.error e)) :
    m.workersCanc = true ∧ ∀ k j, (m.sets k).ctx j = true :=
  PfC11.multi_err_ctx_cancelled hr hret

/-- An error is returned only if some set's quorum read returned that error, and it is the
**first** error: every worker that finished before that set's worker had returned results. -/
theorem multi_returns_err {k e} (hr : mrun cs (minit cs orders pre) mevs = some m)
    (hret : m.ret = some (.error (k, e))) :
    k < cs.length ∧ (m.sets k).main = .retErr e ∧
    ∃ before after, m.joined = before ++ k :: after ∧ ∀ k', k' ∈ before → ∃ rs, (m.sets k').main = .retOk rs :=
  PfC11.multi_returns_first_err hr hret

/-- After a successful return, once every tracked callback has called its cancel function
(`inflight = []`), the workers' context and with it every callback context is cancelled. -/
theorem multi_ok_workers_ctx {rs} (hr : mrun cs (minit cs orders pre) mevs = some m) (hret : m.ret = some (.ok rs))
    (hinf : m.inflight = []) : m.workersCanc = true ∧ ∀ k j, (m.sets k).ctx j = true :=
  PfC11.multi_ok_workers_ctx hr hret hinf

/-- **Cleanup exactly once, multi-set variant** — full statement, for the code with the fix
84eb9e2 (`cleanupFunc` is called for the accumulated results before the first error is returned).
Once the multi-set call has returned (results *or* an error) and set `k` is over, every successful
result of set `k` is either among the returned results (`mreturned`), or was handed to the cleanup
callback exactly once — by set `k`'s own quorum read (`(m.sets k).cleaned`) or by the multi-set
function (`m.mcleaned`). -/
theorem multi_cleanup (hr : mrun cs (minit cs orders pre) mevs = some m) (hret : m.ret.isSome = true)
    (k : Nat) (c : Cfg) (hc : cs[k]? = some c) (hfin : final c (m.sets k) = true) :
    ∀ i, i < c.n → (i, Res.ok) ∈ (m.sets k).fin →
      (((k, i) ∈ mreturned m ∧ i ∉ (m.sets k).cleaned ∧ (k, i) ∉ m.mcleaned) ∨
       ((k, i) ∉ mreturned m ∧ (m.sets k).cleaned.count i + m.mcleaned.count (k, i) = 1)) :=
  PfC11.multi_cleanup hr hret k c hc hfin

/-- one instance, no tolerance. -/
def wCfg : Cfg :=
  { zones := [0], maxErrors := 0, maxUnavail := 0, zoneAware := false, minimize := false, hedging := false
    hasTerm := false, cancelAll := false }

/-- set 0's only instance succeeds (set 0 reaches quorum and hands [0] to its worker), then set 1's
only instance fails. -/
def wEvs : List MEv :=
  [.set 0 (.begin 0), .set 1 (.begin 0), .set 0 (.finish 0 .ok), .set 0 .recv, .join 0,
   .finishDone 1 0 .err, .set 1 .recv, .join 1, .ret]

def retErrOf (m : MSt) : Option (Nat × ErrKind) := match m.ret with | some (.error ke) => some ke | _ => none

/- History. Before the fix 84eb9e2 the statement above was FALSE on the error return; the model of
the unfixed code had the witnesses

  theorem multi_error_drops_results_witness :
      (mrun [wCfg, wCfg] (minit [wCfg, wCfg] [[], []] false) wEvs).map (fun m => (retErrOf m, (m.sets 0).main)) =
        some (some (1, .inst 0), .retOk [0])
  theorem multi_error_drops_results_witness_cleanup :
      (mrun [wCfg, wCfg] (minit [wCfg, wCfg] [[], []] false) wEvs).map
        (fun m => ((m.sets 0).fin, (m.sets 0).cleaned, final wCfg (m.sets 0) && final wCfg (m.sets 1), (m.sets 0).ctx 0)) =
        some ([(0, .ok)], [], true, true)

(set 0's successful result neither returned nor cleaned up although everything is over), and only
`multi_cleanup_partial` (guard: the call returns results) was provable. The same schedule on the
model of the fixed code is the non-vacuity example below: the result is now cleaned by the
multi-set function. -/
example : (mrun [wCfg, wCfg] (minit [wCfg, wCfg] [[], []] false) wEvs).map (fun m => (retErrOf m, (m.sets 0).main)) =
    some (some (1, .inst 0), .retOk [0]) := by decide +kernel
example : (mrun [wCfg, wCfg] (minit [wCfg, wCfg] [[], []] false) wEvs).map
    (fun m => ((m.sets 0).cleaned, m.mcleaned, final wCfg (m.sets 0) && final wCfg (m.sets 1))) =
    some ([], [(0, 0)], true) := by decide +kernel

end multi

/-! ### the legacy executor `ReplicationSet.Do` -/

section legacy
variable {d : DCfg} {devs : List DEv} {t : DSt}

theorem do_called_at_most_once (hr : drun d (dinit d pre) devs = some t) :
    t.started.Nodup ∧ ∀ i, i ∈ t.started → i < d.zones.length :=
  PfC11.do_called_at_most_once hr

/-- Not zone-aware: results are returned only when all but `MaxErrors` instances succeeded … -/
theorem do_returns_quorum_flat (hr : drun d (dinit d pre) devs = some t) (hz : d.maxUnavail = 0) {rs}
    (hm : t.main = .retOk rs) : rs.length + d.maxErrors ≥ d.zones.length :=
  PfC11.do_returns_quorum_flat hr hz hm

/-- **Partial** (zone-aware mode): the returned results are distinct successful results, the
tracker's success criterion holds and the shared context is cancelled.

The full statement — results are taken only from fully successful zones — is FALSE for `Do`:
see `do_zone_result_from_incomplete_zone_witness`. -/
theorem do_returns_quorum_partial (hr : drun d (dinit d pre) devs = some t) {rs} (hm : t.main = .retOk rs) :
    rs.Nodup ∧ (∀ i, i ∈ rs → (i, Res.ok) ∈ t.fin) ∧ succeeded d.toCfg t.tr = true ∧ t.ctxCanc = true :=
  PfC11.do_returns_successes hr hm

/-- instances 0,1,2 in zones 0,1,0; one zone may be unavailable. -/
def wDo : DCfg := { zones := [0, 1, 0], maxErrors := 0, maxUnavail := 1, delay := false }

/-- **Witness of the finding**: instance 2 (zone 0) and instance 1 (zone 1) succeed; `Do` returns
[2, 1] although zone 0 is not complete — its instance 0 is outstanding and then fails. -/
theorem do_zone_result_from_incomplete_zone_witness :
    (drun wDo (dinit wDo false) [.finish 2 .ok, .recv, .finish 1 .ok, .recv, .finish 0 .err]).map
      (fun s => (s.main, s.fin)) = some (.retOk [2, 1], [(2, .ok), (1, .ok), (0, .err)]) := by decide +kernel

/-- An error is returned only when the context is done or the failures exceed the tolerance; the
shared context is cancelled on every return. -/
theorem do_error_cause (hr : drun d (dinit d pre) devs = some t) {e} (hm : t.main = .retErr e) :
    ((e = .cancelled ∧ t.ctxCanc = true) ∨ failed d.toCfg t.tr = true) ∧ t.ctxCanc = true :=
  PfC11.do_error_cause hr hm

/-- Delayed extra requests start only on a failure (`forceStart` token, at most one per error
result received) or when their delay expires. -/
theorem do_delayed_extra (hr : drun d (dinit d pre) devs = some t) :
    t.started.length = ((List.range d.zones.length).filter fun i => !d.delayed i).length + t.forced + t.timed ∧
    t.forced ≤ t.nerr :=
  PfC11.do_delayed_extra hr

end legacy

/-! ### link to C02: a successful quorum read was answered by a C02 read quorum -/

/-- Let `R : C02.RSetAll` be a replication set as `GetReplicationSetForOperation` produces it and `c`
the configuration of the quorum-read machine for it (`PfC11.Corresponds`: instance `i` of the machine
is `R.instances[i]`, zone numbers are an injective numbering `zid` of the zone names, tolerances are
`R.maxErrors` / `R.maxUnavailableZones`). If `DoUntilQuorum` /
`DoUntilQuorumWithoutSuccessfulContextCancellation` returns results `rs`, then

* not zone-aware: the set of instances whose results are returned (`PfC11.answered R rs`) satisfies
  C02's `readOkFlat`;
* zone-aware: the set of zones all of whose instances are among the returned results
  (`PfC11.answeredZones c R zid rs`) satisfies C02's `readOkZones`, every instance of such a zone
  answered, and every returned result comes from such a zone.

These are the premises of C02's quorum-intersection theorems (read side). -/
theorem quorum_success_implies_readOk {R : C02.RSetAll} {zid : String → Nat} (hc : PfC11.Corresponds c R zid)
    (hr : run c (init c order pre) evs = some s) {rs : List Nat} (hm : s.main = .retOk rs) :
    (c.zoneMode = false → C02.readOkFlat (PfC11.answered R rs) R) ∧
    (c.zoneMode = true →
      C02.readOkZones (PfC11.answeredZones c R zid rs) R ∧
      (∀ z, z ∈ PfC11.answeredZones c R zid rs → ∀ x, x ∈ R.instances → x.zone = z → x ∈ PfC11.answered R rs) ∧
      (∀ b, b ∈ PfC11.answered R rs → b.zone ∈ PfC11.answeredZones c R zid rs)) :=
  ⟨fun hz => PfC11.link_flat hc hr hz hm, fun hz => PfC11.link_zones hc hr hz hm⟩

/-! ### non-vacuity: concrete schedules meeting the hypotheses -/

/-- 3 instances in zones 0,1,0, one zone may be unavailable; instance 2 and 1 succeed, the call
returns [1] (zone 1 complete), cleans up 2 and cancels the contexts of 0 and 2; 0 fails later. -/
def exCfg : Cfg :=
  { zones := [0, 1, 0], maxErrors := 0, maxUnavail := 1, zoneAware := true, minimize := false, hedging := false
    hasTerm := false, cancelAll := false }

def exEvs : List Ev :=
  [.begin 0, .begin 1, .begin 2, .finish 2 .ok, .recv, .finish 1 .ok, .recv, .finish 0 .err, .drain]

example : (run exCfg (init exCfg [] false) exEvs).map (fun s => (s.main, s.cleaned, s.ctx 0, s.ctx 1, s.ctx 2, final exCfg s)) =
    some (.retOk [1], [2], true, false, true, true) := by decide +kernel

/-- flat, 3 instances, 1 tolerated error, minimisation: two errors exceed the tolerance. -/
def exCfg2 : Cfg :=
  { zones := [0, 0, 0], maxErrors := 1, maxUnavail := 0, zoneAware := false, minimize := true, hedging := false
    hasTerm := false, cancelAll := true }

example : (run exCfg2 (init exCfg2 [2, 0, 1] false) [.begin 0, .begin 1, .finish 0 .ok, .recv, .finish 1 .err, .recv, .begin 2,
      .finish 2 .err, .recv]).map (fun s => (s.main, s.cleaned, s.started, failed exCfg2 s)) =
    some (.retErr (.inst 2), [0], [0, 1, 2], true) := by decide +kernel


/-- the zone-aware example configuration `exCfg` is the machine configuration of this replication set. -/
def exR : C02.RSetAll :=
  { instances := [{ id := "a", zone := "z0" }, { id := "b", zone := "z1" }, { id := "c", zone := "z0" }]
    maxErrors := 0, maxUnavailableZones := 1, zoneAware := true }

def exZid (z : String) : Nat := if z = "z0" then 0 else 1

example : PfC11.Corresponds exCfg exR exZid := ⟨by decide, by decide, by decide, rfl, rfl⟩


/-- flat, 2 instances, 1 tolerated error, minimisation with hedging, terminal-error predicate set. -/
def exCfg3 : Cfg :=
  { zones := [0, 0], maxErrors := 1, maxUnavail := 0, zoneAware := false, minimize := true, hedging := true
    hasTerm := true, cancelAll := true }

-- a terminal error: reason 4 of `error_has_cause`, `terminal_error_returns`
example : (run exCfg3 (init exCfg3 [1, 0] false) [.begin 0, .finish 0 .term, .recv]).map
    (fun s => (s.main, s.fin.map (·.1), failed exCfg3 s)) = some (.retErr (.inst 0), [0], false) := by decide +kernel
-- a hedging tick releases the held-back instance 1 (`tick_releases_next`, `minimisation_bound` with nTicks = 1)
example : (run exCfg3 (init exCfg3 [1, 0] false) [.begin 0, .tick, .begin 1]).map
    (fun s => (s.started, s.released, s.nTicks, s.pending)) = some ([0, 1], [0, 1], 1, []) := by decide +kernel
-- a tolerated failure releases it as well (`failure_releases_next`)
example : (run exCfg3 (init exCfg3 [1, 0] false) [.begin 0, .finish 0 .err, .recv, .begin 1]).map
    (fun s => (s.main, s.started, s.released, s.nFailRel)) = some (.running, [0, 1], [0, 1], 1) := by decide +kernel
example : exCfg3.minimize = true ∧ exCfg3.invalid = false ∧ (exCfg3.zoneMode = false → [1, 0].length = exCfg3.n) := by decide

/-- two sets of one instance each: both succeed, the call returns both results; once both callbacks
have called their cancel functions (`done`) the workers' context is cancelled
(`multi_returns_ok`, `multi_ret_ok_iff`, `multi_ok_workers_ctx` with `inflight = []`). -/
def okEvs : List MEv :=
  [.set 0 (.begin 0), .set 1 (.begin 0), .set 0 (.finish 0 .ok), .set 0 .recv, .join 0,
   .set 1 (.finish 0 .ok), .set 1 .recv, .join 1, .ret, .done 0 0, .done 1 0]

example : (mrun [wCfg, wCfg] (minit [wCfg, wCfg] [[], []] false) okEvs).map
    (fun m => (mreturned m, m.inflight, m.workersCanc, (m.sets 0).ctx 0 && (m.sets 1).ctx 0)) =
    some ([(0, 0), (1, 0)], [], true, true) := by decide +kernel
-- before the second `done` the workers' context is still live
example : (mrun [wCfg, wCfg] (minit [wCfg, wCfg] [[], []] false) (okEvs.take 10)).map
    (fun m => (m.inflight, m.workersCanc, (m.sets 1).ctx 0)) = some ([(1, 0)], false, false) := by decide +kernel
-- error path (`multi_err_ctx_cancelled`): see the example after `multi_cleanup` (`wEvs`)
example : (mrun [wCfg, wCfg] (minit [wCfg, wCfg] [[], []] false) wEvs).map
    (fun m => (m.workersCanc, (m.sets 0).ctx 0 && (m.sets 1).ctx 0)) = some (true, true) := by decide +kernel

end PC11
