import Model.C18
import Proofs.C18
import Proofs.C18.Graph
import Proofs.C18.Init
import Proofs.C18.InitFail
import Proofs.C18.Run
import Proofs.C18.Live
/-!
# C18 — property theorems (statements; proofs live in `Proofs/C18/*.lean`)

Graphs are arbitrary finite graphs (`Graph`: any number of modules, any dependency lists, duplicates
allowed); `Acyclic g` = there is a rank that strictly decreases along every dependency edge (and the
dependency lists mention registered modules only). Go's map iteration order is the parameter `orders`
(one list per pass / per `initModule` call): every theorem holds for EVERY choice that visits all keys.
`fuel` bounds the recursion depth of `listDeps` (Go: the stack); any value above the rank suffices.
-/
namespace PC18
open C18 PfC18

/-! ### `AddDependency` -/

/-- Adding a dependency that would close a cycle is rejected: if `AddDependency` succeeds on an acyclic
graph the graph is still acyclic — for every graph, every module, every list of new dependencies
(self dependencies and back edges through any number of existing edges included). -/
theorem add_dependency_rejects_cycles (g : Graph) (hg : Acyclic g) (fuel : Nat) (name : Mod) (ds : List Mod)
    (g' : Graph) (h : addDependency g fuel name ds = (.ok, g')) : Acyclic g' :=
  addDependency_acyclic g hg fuel name ds g' h

/- HISTORY (defect D3, fixed by a0dd941 "modules.AddDependency accepts a module depending on itself"):
before the fix the check loop had no `newDep == name` test (`C18.addCheckOld`), the theorem above was
only provable with the guard `∀ d ∈ ds, d ≠ name` (then named `add_dependency_rejects_cycles_partial`),
and the following witness showed why. It is a statement about the OLD definition only. -/

/-- the old rule accepted `AddDependency("a", "a")`, after which `listDeps` never returns. -/
theorem self_dependency_was_accepted :
    (addDependencyOld (Graph.empty 1) 3 0 [0]).1 = .ok ∧
    (∀ fuel, listDeps (addDependencyOld (Graph.empty 1) 3 0 [0]).2 fuel 0 = none) ∧
    ¬ Acyclic (addDependencyOld (Graph.empty 1) 3 0 [0]).2 ∧
    (addDependency (Graph.empty 1) 3 0 [0]).1 = .circular := by
  have hd : (addDependencyOld (Graph.empty 1) 3 0 [0]).2.depsOf 0 = [0] := by decide
  refine ⟨by decide, listDeps_self_loop _ 0 (by rw [hd]; simp), ?_, by decide⟩
  intro hac
  exact hac.irrefl 0 (.direct (by rw [hd]; simp))

/-- a concrete acyclic graph (2 depends on 0 and 1, 1 depends on 0), used by the non-vacuity examples. -/
def diamondish : Graph := { n := 3, deps := [[], [0], [0, 1]] }

theorem diamondish_acyclic : Acyclic diamondish := by
  refine ⟨⟨fun x => x, ?_⟩, ?_, rfl⟩
  · intro m d hd
    show d < m
    match m with
    | 0 => simp [diamondish, Graph.depsOf] at hd
    | 1 => simp [diamondish, Graph.depsOf] at hd; subst hd; decide
    | 2 => simp [diamondish, Graph.depsOf] at hd; rcases hd with rfl | rfl <;> decide
    | k + 3 => simp [diamondish, Graph.depsOf] at hd
  · intro m d hd
    match m with
    | 0 => simp [diamondish, Graph.depsOf] at hd
    | 1 => simp [diamondish, Graph.depsOf] at hd; simp [diamondish, hd]
    | 2 => simp [diamondish, Graph.depsOf] at hd; rcases hd with rfl | rfl <;> simp [diamondish]
    | k + 3 => simp [diamondish, Graph.depsOf] at hd

/-- non-vacuity: a legal edge is accepted; a back edge and a self dependency are rejected. -/
example : (addDependency diamondish 5 1 [0]).1 = .ok ∧ (addDependency diamondish 5 0 [2]).1 = .circular ∧
    (addDependency diamondish 5 1 [1]).1 = .circular ∧ (addDependency diamondish 5 2 [0, 2]).1 = .circular := by decide

/-! ### `listDeps` / `orderedDeps` -/

/-- `listDeps` returns on every acyclic graph (recursion depth at most the rank), and what it returns
is exactly the set of transitive dependencies. -/
theorem listDeps_terminates_on_acyclic (g : Graph) (r : Mod → Nat) (hr : Ranked g r) (fuel : Nat) (m : Mod)
    (h : r m < fuel) : ∃ l, listDeps g fuel m = some l ∧ ∀ x, x ∈ l ↔ Reach g m x := by
  obtain ⟨l, hl⟩ := listDeps_some g r hr fuel m h
  exact ⟨l, hl, listDeps_mem g fuel m l hl⟩

/-- … and for a module on a dependency cycle of any length (a self dependency in particular) it never
returns: acyclicity is exactly what the callers of `listDeps` rely on. -/
theorem listDeps_diverges_on_cycle (g : Graph) (m : Mod) (h : Reach g m m) : ∀ fuel, listDeps g fuel m = none :=
  fun fuel => listDeps_cycle g fuel m h

/-- `listDeps` returns for every module **iff** the graph is acyclic (finite graph whose dependency
lists mention registered modules only): "a rank exists" and "no module reaches itself" coincide there. -/
theorem listDeps_terminates_iff_acyclic (g : Graph) (hclosed : ∀ m, ∀ d ∈ g.depsOf m, d < g.n) :
    ((∀ m, ∃ fuel l, listDeps g fuel m = some l) ↔ ∃ r, Ranked g r) ∧
    ((∃ r, Ranked g r) ↔ ∀ m, ¬ Reach g m m) :=
  ⟨listDeps_terminates_iff g hclosed,
   ⟨fun ⟨_, hr⟩ m hm => Nat.lt_irrefl _ (hr.reach hm), ranked_of_no_cycle g hclosed⟩⟩

/-- `orderedDeps(m)` contains exactly the transitive dependencies of `m`, each once — for every
acyclic graph and every map iteration order. -/
theorem orderedDeps_exact (g : Graph) (r : Mod → Nat) (hr : Ranked g r) (fuel : Nat) (m : Mod) (hf : r m < fuel)
    (orders : Nat → List Mod) (hord : ∀ k x, Reach g m x → x ∈ orders k) :
    ∃ res, orderedDeps g fuel orders m = some res ∧ res.Nodup ∧ ∀ x, x ∈ res ↔ Reach g m x := by
  obtain ⟨res, h1, h2, h3, _⟩ := orderedDeps_spec g r hr fuel m hf orders hord
  exact ⟨res, h1, h2, h3⟩

/-- … and lists every module after all the modules it depends on. -/
theorem orderedDeps_topological (g : Graph) (r : Mod → Nat) (hr : Ranked g r) (fuel : Nat) (m : Mod) (hf : r m < fuel)
    (orders : Nat → List Mod) (hord : ∀ k x, Reach g m x → x ∈ orders k) :
    ∃ res, orderedDeps g fuel orders m = some res ∧ topoFrom g [] res := by
  obtain ⟨res, h1, _, _, h4⟩ := orderedDeps_spec g r hr fuel m hf orders hord
  exact ⟨res, h1, h4⟩

/-- non-vacuity: two different iteration orders, two different (both topological) results. -/
example : orderedDeps diamondish 5 (fun _ => [0, 1]) 2 = some [0, 1] ∧
    orderedDeps diamondish 5 (fun _ => [1, 0]) 2 = some [0, 1] ∧
    orderedDeps { n := 3, deps := [[], [], [0, 1]] } 5 (fun _ => [1, 0]) 2 = some [1, 0] := by decide

/-! ### `InitModuleServices` -/

/-- Every needed module is initialised exactly once and after all the modules it depends on: the
`initFn` call order is the sub-sequence (modules with an `initFn`) of a duplicate-free list that lists
every module after its dependencies … -/
theorem init_once_in_order (g : Graph) (cfg : Cfg) (r : Mod → Nat) (hr : Ranked g r) (fuel : Nat)
    (orders : Nat → Nat → List Mod) (targets : List Mod) (st : InitState)
    (hfuel : ∀ t ∈ targets, r t < fuel) (hord : ∀ c k t x, t ∈ targets → Reach g t x → x ∈ orders c k)
    (h : initModules g cfg fuel orders 0 targets {} = .ok st) :
    ∃ inited : List Mod, inited.Nodup ∧ topoFrom g [] inited ∧ st.log = inited.filter (hasInitOf cfg) ∧
      ∀ x, Needed g targets x → x ∈ inited := by
  obtain ⟨l, h1, h2, h3, h4⟩ := init_spec g cfg r hr fuel orders targets st hfuel hord h
  exact ⟨l, h1, h2, h4, fun x hx => (h3 x).mpr hx⟩

/-- … and modules that are not needed (neither a target nor a transitive dependency of one) are not
initialised; nor is anything initialised twice. -/
theorem init_only_needed (g : Graph) (cfg : Cfg) (r : Mod → Nat) (hr : Ranked g r) (fuel : Nat)
    (orders : Nat → Nat → List Mod) (targets : List Mod) (st : InitState)
    (hfuel : ∀ t ∈ targets, r t < fuel) (hord : ∀ c k t x, t ∈ targets → Reach g t x → x ∈ orders c k)
    (h : initModules g cfg fuel orders 0 targets {} = .ok st) :
    st.log.Nodup ∧ ∀ x ∈ st.log, Needed g targets x ∧ hasInitOf cfg x = true := by
  obtain ⟨l, h1, _, h3, h4⟩ := init_spec g cfg r hr fuel orders targets st hfuel hord h
  rw [h4]
  refine ⟨h1.sublist List.filter_sublist, fun x hx => ?_⟩
  rw [List.mem_filter] at hx
  exact ⟨(h3 x).mp hx.1, hx.2⟩

example : (initModules diamondish { hasInit := [true, false, true], initErr := [], hasSvc := [true, true, true] } 5
    (fun _ _ => [1, 0]) 0 [1, 2] {}).map (·.log) = .ok [0, 2] := by decide

/-! ### `InitModuleServices`: the failing exits

`initModulesT` is `initModules` that also returns the state at the moment the error is returned
(`init_exits_agree`): `inited` = initMap, `log` = the `initFn` calls made, `svcs` = keys of servicesMap. -/

theorem init_exits_agree (g : Graph) (cfg : Cfg) (fuel : Nat) (orders : Nat → Nat → List Mod) (ts : List Mod) :
    initModules g cfg fuel orders 0 ts {} = match initModulesT g cfg fuel orders 0 ts {} with
      | (s, none) => .ok s
      | (_, some e) => .error e :=
  initModules_eq g cfg fuel orders 0 ts {}

/-- **An init function returns an error.** The error names the module whose `initFn` failed; that
module is needed, its call is the last one made, it is not marked initialised, and every module it
(transitively) depends on had been initialised before. -/
theorem init_error_names_failing_module (g : Graph) (cfg : Cfg) (r : Mod → Nat) (hr : Ranked g r) (fuel : Nat)
    (orders : Nat → Nat → List Mod) (targets : List Mod) (st : InitState) (n : Mod)
    (hfuel : ∀ t ∈ targets, r t < fuel) (hord : ∀ c k t x, t ∈ targets → Reach g t x → x ∈ orders c k)
    (h : initModulesT g cfg fuel orders 0 targets {} = (st, some (.initFailed n))) :
    hasInitOf cfg n = true ∧ initErrOf cfg n = true ∧ Needed g targets n ∧ n ∉ st.inited ∧
      st.log = st.inited.filter (hasInitOf cfg) ++ [n] ∧ ∀ d, Reach g n d → d ∈ st.inited := by
  have hp := (init_all_exits g cfg r hr fuel orders targets hfuel hord).2
  rw [h] at hp
  obtain ⟨pre, t, post, htg, hnt, h1, h2, h3, h4, h5, _, _, _⟩ := hp
  refine ⟨h2, h3, ?_, h1, h4, h5⟩
  have htm : t ∈ targets := by rw [htg]; simp
  rcases hnt with rfl | hnt
  · exact Or.inl htm
  · exact Or.inr ⟨t, htm, hnt⟩

/-- … and no module that depends on the failed one has been initialised; what has been initialised is
a duplicate-free, dependency-ordered list of needed modules whose own init functions all succeeded, and
only the targets up to the one being processed were touched. -/
theorem init_error_no_dependant_initialised (g : Graph) (cfg : Cfg) (r : Mod → Nat) (hr : Ranked g r) (fuel : Nat)
    (orders : Nat → Nat → List Mod) (targets : List Mod) (st : InitState) (n : Mod)
    (hfuel : ∀ t ∈ targets, r t < fuel) (hord : ∀ c k t x, t ∈ targets → Reach g t x → x ∈ orders c k)
    (h : initModulesT g cfg fuel orders 0 targets {} = (st, some (.initFailed n))) :
    (∀ x ∈ st.inited, ¬ Reach g x n) ∧ st.inited.Nodup ∧ topoFrom g [] st.inited ∧
      (∀ x ∈ st.inited, hasInitOf cfg x = true → initErrOf cfg x = false) ∧
      ∃ pre t post, targets = pre ++ t :: post ∧ (n = t ∨ Reach g t n) ∧
        (∀ x ∈ st.inited, Needed g (pre ++ [t]) x) ∧ (∀ x, Needed g pre x → x ∈ st.inited) := by
  obtain ⟨hi, hp⟩ := init_all_exits g cfg r hr fuel orders targets hfuel hord
  rw [h] at hp hi
  obtain ⟨pre, t, post, htg, hnt, _, _, _, _, _, h6, h7, h8⟩ := hp
  exact ⟨h6, hi.nodup, hi.topo, hi.clean, pre, t, post, htg, hnt, h7, h8⟩

/-- **Unknown target.** The error names the first target that is not registered; the targets before it
have been initialised completely and exactly (as in the success case), nothing else has. -/
theorem init_unknown_target (g : Graph) (cfg : Cfg) (r : Mod → Nat) (hr : Ranked g r) (fuel : Nat)
    (orders : Nat → Nat → List Mod) (targets : List Mod) (st : InitState) (t : Mod)
    (hfuel : ∀ t ∈ targets, r t < fuel) (hord : ∀ c k t x, t ∈ targets → Reach g t x → x ∈ orders c k)
    (h : initModulesT g cfg fuel orders 0 targets {} = (st, some (.unrecognised t))) :
    ∃ pre post, targets = pre ++ t :: post ∧ g.has t = false ∧ (∀ u ∈ pre, g.has u = true) ∧
      st.log = st.inited.filter (hasInitOf cfg) ∧ (∀ x, x ∈ st.inited ↔ Needed g pre x) ∧
      st.inited.Nodup ∧ topoFrom g [] st.inited := by
  obtain ⟨hi, hp⟩ := init_all_exits g cfg r hr fuel orders targets hfuel hord
  rw [h] at hp hi
  obtain ⟨pre, post, h1, h2, h3, h4, h5⟩ := hp
  exact ⟨pre, post, h1, h2, h3, h4, h5, hi.nodup, hi.topo⟩

/-- **Nil service / every exit.** Whatever the exit, `servicesMap` holds exactly the initialised modules
whose `initFn` exists and returned a non-nil service (a module whose `initFn` returns a nil service is
initialised but gets no wrapper); success requires every target to be registered; and the recursion of
`listDeps` always bottoms out (no `crash` exit on an acyclic graph). -/
theorem init_services_map (g : Graph) (cfg : Cfg) (r : Mod → Nat) (hr : Ranked g r) (fuel : Nat)
    (orders : Nat → Nat → List Mod) (targets : List Mod)
    (hfuel : ∀ t ∈ targets, r t < fuel) (hord : ∀ c k t x, t ∈ targets → Reach g t x → x ∈ orders c k) :
    let res := initModulesT g cfg fuel orders 0 targets {}
    res.1.svcs = res.1.inited.filter (fun x => hasInitOf cfg x && hasSvcOf cfg x) ∧
    (res.2 = none → ∀ t ∈ targets, g.has t = true) ∧ res.2 ≠ some .crash := by
  intro res
  obtain ⟨hi, hp⟩ := init_all_exits g cfg r hr fuel orders targets hfuel hord
  refine ⟨hi.svcs, ?_, ?_⟩
  · intro hn
    unfold ModsPost at hp
    rw [show (initModulesT g cfg fuel orders 0 targets {}).2 = none from hn] at hp
    exact hp.1
  · intro hc
    unfold ModsPost at hp
    rw [show (initModulesT g cfg fuel orders 0 targets {}).2 = some .crash from hc] at hp
    exact hp

/-- **Dependency cycles.** Every graph that can be built by registering `n` modules and calling
`AddDependency` any number of times (accepted or rejected) is acyclic, `AddDependency` itself never
recurses without bound on it, and so `InitModuleServices` never does either (`init_services_map`
with the bounded rank below: recursion depth at most `n + 1`). -/
theorem graphs_built_by_AddDependency_are_acyclic (n : Nat) (calls : List (Mod × List Mod)) :
    Acyclic (buildGraph n calls) ∧ (buildGraph n calls).n = n ∧
    (∃ r, Ranked (buildGraph n calls) r ∧ ∀ m, r m < n + 1) ∧
    ∀ name ds, (addDependency (buildGraph n calls) (n + 1) name ds).1 ≠ .crash := by
  obtain ⟨h1, h2⟩ := buildGraph_acyclic n calls
  obtain ⟨r, hr, hb⟩ := ranked_bounded _ h1
  refine ⟨h1, h2, ⟨r, hr, fun m => by have := hb m; omega⟩, fun name ds => ?_⟩
  have := addDependency_no_crash _ h1 name ds
  rwa [h2] at this

/-- **User-invisible modules.** Options only ever hide a module: a user-visible module is targetable,
the last option wins; `InitModuleServices` does not look at either flag (it is not a parameter of
`initModules`), so an invisible or non-targetable module initialises like any other. -/
theorem module_options (opts : List ModOpt) (o : ModOpt) :
    ((applyOpts opts).1 = true → (applyOpts opts).2 = true) ∧ applyOpts [] = (true, true) ∧
    applyOpts (opts ++ [.userInvisible]) = (false, false) ∧
    applyOpts (opts ++ [.userInvisibleTargetable]) = (false, true) :=
  ⟨applyOpts_visible_targetable opts, rfl, applyOpts_last_wins opts .userInvisible,
   applyOpts_last_wins opts .userInvisibleTargetable⟩

/-- non-vacuity: module 1 (needed by 2) fails: 0 was initialised, 2 is not; an unknown target after a good one. -/
example :
    initModulesT diamondish { hasInit := [true, true, true], initErr := [false, true, false], hasSvc := [true, true, true] } 5
      (fun _ _ => [0, 1]) 0 [2] {} = ({ inited := [0], log := [0, 1], svcs := [0] }, some (.initFailed 1)) ∧
    initModulesT diamondish { hasInit := [true, true, true], initErr := [], hasSvc := [true, false, true] } 5
      (fun _ _ => [0, 1]) 0 [1, 7, 2] {} = ({ inited := [0, 1], log := [0, 1], svcs := [0] }, some (.unrecognised 7)) := by
  decide

/-! ### run time: the wrappers -/

/-- A module's own service is started only after the wrappers of all its (transitive) dependencies
have been Running — in every reachable state of the system of wrappers, for every schedule. -/
theorem start_after_deps (mods : List Mod) (sd td : Mod → List Mod) (evs : List REv) :
    let s := (Sys.init mods sd td).run evs
    ∀ m, (s.st m).inner ≠ .new → ∀ d ∈ s.startDeps m, (s.st d).wasRunning = true := by
  intro s m hm
  exact (rinv_run _ (rinv_init mods sd td) evs).deps m (Or.inl hm)

/-- A service that has been running is asked to stop (by its wrapper) only when the wrapper of every
module depending on it is Terminated or Failed. -/
theorem stop_after_dependants (mods : List Mod) (sd td : Mod → List Mod) (evs : List REv) :
    let s := (Sys.init mods sd td).run evs
    ∀ m, (s.st m).iStopReq = true → (s.st m).wasRunning = true → ∀ k ∈ s.stopDeps m, (s.st k).ph.terminal = true := by
  intro s m h1 h2
  have hi := rinv_run _ (rinv_init mods sd td) evs
  rcases hi.req m h1 with h | h
  · exact hi.stopped m h
  · rw [h2] at h; cases h

/-- If a dependency fails to start (its wrapper is Failed and was never Running), the service of a
dependant is never started, and a dependant that was started can only end Failed. -/
theorem dep_failure_propagates (mods : List Mod) (sd td : Mod → List Mod) (evs : List REv) :
    let s := (Sys.init mods sd td).run evs
    ∀ d, (s.st d).ph = .failed → (s.st d).wasRunning = false →
      ∀ m, d ∈ s.startDeps m → (s.st m).inner = .new ∧ ((s.st m).started = true → (s.st m).ph ≠ .term ∧ (s.st m).ph ≠ .run) := by
  intro s d _ hw m hd
  have hi := rinv_run _ (rinv_init mods sd td) evs
  refine ⟨?_, fun hs => ⟨?_, ?_⟩⟩
  · apply Classical.byContradiction
    intro hne
    have := hi.deps m (Or.inl hne) d hd
    rw [hw] at this; cases this
  · intro ht
    have := hi.deps m (Or.inr (Or.inr ⟨ht, hs⟩)) d hd
    rw [hw] at this; cases this
  · intro hr
    have := hi.deps m (Or.inr (Or.inl (by rw [hr]; rfl))) d hd
    rw [hw] at this; cases this

/-- Liveness-style complement: once a dependency `d` has failed to start this is permanent, and as long
as a started dependant `m` has not terminated it is still waiting for its dependencies, the step in which
it looks at `d` is enabled, and that step makes it Failed. (That the goroutine gets to that step is
fairness of the Go scheduler plus the other dependencies' latches closing: not modelled.) -/
theorem dep_failure_propagates_progress (mods : List Mod) (sd td : Mod → List Mod) (evs more : List REv) :
    let s := (Sys.init mods sd td).run evs
    ∀ d m, d ∈ s.startDeps m → (s.st d).ph = .failed → (s.st d).wasRunning = false →
      (((s.run more).st d).ph = .failed ∧ ((s.run more).st d).wasRunning = false) ∧
      ((s.st m).started = true → (s.st m).ph.terminal = false →
        (∃ ok, (s.st m).ph = .waitDeps ok) ∧ ((s.step (.awaitFail m d)).st m).ph = .failed) := by
  intro s d m hd hf hw
  exact ⟨failed_to_start_stable_run s more d hf hw,
    fun hs hnt => fail_step_enabled s (rinv_run _ (rinv_init mods sd td) evs) m d hd hf hw hs hnt⟩

/-- **The system of wrappers can always finish** (liveness without fairness). From every reachable
state, for every dependency graph (the "stops after" relation `td` is ranked: it is the inverse of the
transitive dependencies of a DAG, see `stop_relation_of_a_dag_is_ranked`), the fixed computable schedule
`finishSchedule mods` — ask every wrapper to stop, let every wait return and every inner function return
nil, `|mods|` rounds — leaves every module Terminated or Failed: no reachable state is a deadlock among
the wrapper services. Every state on the way is reachable, so the stop order is respected throughout. -/
theorem system_can_always_finish (mods : List Mod) (sd td : Mod → List Mod) (hr : StopRanked mods td)
    (evs : List REv) :
    let s := (Sys.init mods sd td).run evs
    (∀ m ∈ mods, ((s.run (finishSchedule mods)).st m).ph.terminal = true) ∧
    ∀ k, let sk := s.run ((finishSchedule mods).take k)
      ∀ m, (sk.st m).iStopReq = true → (sk.st m).wasRunning = true → ∀ x ∈ sk.stopDeps m, (sk.st x).ph.terminal = true := by
  intro s
  refine ⟨?_, ?_⟩
  · apply finish_all mods s (sane_run _ evs (sane_init mods sd td))
    rw [run_stopDeps]; exact hr
  · intro k sk m h1 h2
    have hi : RInv sk := rinv_run _ (rinv_run _ (rinv_init mods sd td) evs) _
    rcases hi.req m h1 with h | h
    · exact hi.stopped m h
    · rw [h2] at h; cases h

/-- the relation "x must have stopped before m stops" that `InitModuleServices` hands to the wrappers
(x transitively depends on m) is ranked on every acyclic graph. -/
theorem stop_relation_of_a_dag_is_ranked (g : Graph) (hg : Acyclic g) (mods : List Mod) (td : Mod → List Mod)
    (h : ∀ m ∈ mods, ∀ x ∈ td m, x ∈ mods ∧ Reach g x m) : StopRanked mods td := by
  obtain ⟨r, hr, hb⟩ := ranked_bounded g hg
  refine ⟨fun y => g.n - r y, fun m hm x hx => ⟨(h m hm x hx).1, ?_⟩⟩
  have := hr.reach (h m hm x hx).2
  have := hb x
  show g.n - r x < g.n - r m
  omega

/-- non-vacuity: 1 depends on 0; a state in the middle of start-up (0 running, 1's inner service
starting) is finished by the schedule, the dependant first. -/
example :
    let s := (Sys.init [0, 1] (fun m => if m = 1 then [0] else []) (fun m => if m = 0 then [1] else [])).run
      [.wStart 0, .wStart 1, .depsDone 0, .iStartRet 0 true, .innerUp 0, .awaitOk 1 0, .depsDone 1]
    let s' := s.run (finishSchedule [0, 1])
    (s.st 0).ph = .run ∧ (s.st 1).ph = .innerStart ∧ (s'.st 0).ph = .term ∧ (s'.st 1).ph = .failed := by decide +kernel

/-- non-vacuity: module 1 depends on module 0; 0 starts and runs, then 1's service is started; and a
run in which 0 fails to start, so that 1 (started) fails without its service ever being started. -/
example :
    let s := (Sys.init [0, 1] (fun m => if m = 1 then [0] else []) (fun m => if m = 0 then [1] else [])).run
      [.wStart 0, .wStart 1, .depsDone 0, .iStartRet 0 true, .innerUp 0, .awaitOk 1 0, .depsDone 1]
    (s.st 1).inner = .starting ∧ (s.st 0).wasRunning = true := by decide
example :
    let s := (Sys.init [0, 1] (fun m => if m = 1 then [0] else []) (fun m => if m = 0 then [1] else [])).run
      [.wStart 0, .wStart 1, .depsDone 0, .iStartRet 0 false, .innerStartFailed 0, .cleanupDone 0, .awaitFail 1 0]
    (s.st 0).ph = .failed ∧ (s.st 0).wasRunning = false ∧ (s.st 1).ph = .failed ∧ (s.st 1).inner = .new := by decide

end PC18
