import Model.C18
import Proofs.C18
import Proofs.C18.Graph
import Proofs.C18.Init
import Proofs.C18.Run
/-!
# C18 — property theorems (statements; proofs live in `Proofs/C18/*.lean`)

Graphs are arbitrary finite graphs (`Graph`: any number of modules, any dependency lists, duplicates
allowed); `Acyclic g` = there is a rank that strictly decreases along every dependency edge (and the
dependency lists mention registered modules only). Go's map iteration order is the parameter `orders`
(one list per pass / per `initModule` call): every theorem holds for EVERY choice that visits all keys.
`fuel` bounds the recursion depth of `listDeps` (Go: the stack); any value above the rank suffices.
-/
namespace PC18
open C18 PfC18

/-! ### `AddDependency` -/

/-- Adding a dependency that would close a cycle is rejected: if `AddDependency` succeeds on an acyclic
graph the graph is still acyclic — for every graph, every module, every list of new dependencies
(self dependencies and back edges through any number of existing edges included). -/
theorem add_dependency_rejects_cycles (g : Graph) (hg : Acyclic g) (fuel : Nat) (name : Mod) (ds : List Mod)
    (g' : Graph) (h : addDependency g fuel name ds = (.ok, g')) : Acyclic g' :=
  addDependency_acyclic g hg fuel name ds g' h

/- HISTORY (defect D3, fixed by a0dd941 "modules.AddDependency accepts a module depending on itself"):
before the fix the check loop had no `newDep == name` test (`C18.addCheckOld`), the theorem above was
only provable with the guard `∀ d ∈ ds, d ≠ name` (then named `add_dependency_rejects_cycles_partial`),
and the following witness showed why. It is a statement about the OLD definition only. -/

/-- the old rule accepted `AddDependency("a", "a")`, after which `listDeps` never returns. -/
theorem self_dependency_was_accepted :
    (addDependencyOld (Graph.empty 1) 3 0 [0]).1 = .ok ∧
    (∀ fuel, listDeps (addDependencyOld (Graph.empty 1) 3 0 [0]).2 fuel 0 = none) ∧
    ¬ Acyclic (addDependencyOld (Graph.empty 1) 3 0 [0]).2 ∧
    (addDependency (Graph.empty 1) 3 0 [0]).1 = .circular := by
  have hd : (addDependencyOld (Graph.empty 1) 3 0 [0]).2.depsOf 0 = [0] := by decide
  refine ⟨by decide, listDeps_self_loop _ 0 (by rw [hd]; simp), ?_, by decide⟩
  intro hac
  exact hac.irrefl 0 (.direct (by rw [hd]; simp))

/-- a concrete acyclic graph (2 depends on 0 and 1, 1 depends on 0), used by the non-vacuity examples. -/
def diamondish : Graph := { n := 3, deps := [[], [0], [0, 1]] }

theorem diamondish_acyclic : Acyclic diamondish := by
  refine ⟨⟨fun x => x, ?_⟩, ?_, rfl⟩
  · intro m d hd
    show d < m
    match m with
    | 0 => simp [diamondish, Graph.depsOf] at hd
    | 1 => simp [diamondish, Graph.depsOf] at hd; subst hd; decide
    | 2 => simp [diamondish, Graph.depsOf] at hd; rcases hd with rfl | rfl <;> decide
    | k + 3 => simp [diamondish, Graph.depsOf] at hd
  · intro m d hd
    match m with
    | 0 => simp [diamondish, Graph.depsOf] at hd
    | 1 => simp [diamondish, Graph.depsOf] at hd; simp [diamondish, hd]
    | 2 => simp [diamondish, Graph.depsOf] at hd; rcases hd with rfl | rfl <;> simp [diamondish]
    | k + 3 => simp [diamondish, Graph.depsOf] at hd

/-- non-vacuity: a legal edge is accepted; a back edge and a self dependency are rejected. -/
example : (addDependency diamondish 5 1 [0]).1 = .ok ∧ (addDependency diamondish 5 0 [2]).1 = .circular ∧
    (addDependency diamondish 5 1 [1]).1 = .circular ∧ (addDependency diamondish 5 2 [0, 2]).1 = .circular := by decide

/-! ### `listDeps` / `orderedDeps` -/

/-- `listDeps` returns on every acyclic graph (recursion depth at most the rank), and what it returns
is exactly the set of transitive dependencies. -/
theorem listDeps_terminates_on_acyclic (g : Graph) (r : Mod → Nat) (hr : Ranked g r) (fuel : Nat) (m : Mod)
    (h : r m < fuel) : ∃ l, listDeps g fuel m = some l ∧ ∀ x, x ∈ l ↔ Reach g m x := by
  obtain ⟨l, hl⟩ := listDeps_some g r hr fuel m h
  exact ⟨l, hl, listDeps_mem g fuel m l hl⟩

/-- … and for a module on a dependency cycle of any length (a self dependency in particular) it never
returns: acyclicity is exactly what the callers of `listDeps` rely on. -/
theorem listDeps_diverges_on_cycle (g : Graph) (m : Mod) (h : Reach g m m) : ∀ fuel, listDeps g fuel m = none :=
  fun fuel => listDeps_cycle g fuel m h

/-- `listDeps` returns for every module **iff** the graph is acyclic (finite graph whose dependency
lists mention registered modules only): "a rank exists" and "no module reaches itself" coincide there. -/
theorem listDeps_terminates_iff_acyclic (g : Graph) (hclosed : ∀ m, ∀ d ∈ g.depsOf m, d < g.n) :
    ((∀ m, ∃ fuel l, listDeps g fuel m = some l) ↔ ∃ r, Ranked g r) ∧
    ((∃ r, Ranked g r) ↔ ∀ m, ¬ Reach g m m) :=
  ⟨listDeps_terminates_iff g hclosed,
   ⟨fun ⟨_, hr⟩ m hm => Nat.lt_irrefl _ (hr.reach hm), ranked_of_no_cycle g hclosed⟩⟩

/-- `orderedDeps(m)` contains exactly the transitive dependencies of `m`, each once — for every
acyclic graph and every map iteration order. -/
theorem orderedDeps_exact (g : Graph) (r : Mod → Nat) (hr : Ranked g r) (fuel : Nat) (m : Mod) (hf : r m < fuel)
    (orders : Nat → List Mod) (hord : ∀ k x, Reach g m x → x ∈ orders k) :
    ∃ res, orderedDeps g fuel orders m = some res ∧ res.Nodup ∧ ∀ x, x ∈ res ↔ Reach g m x := by
  obtain ⟨res, h1, h2, h3, _⟩ := orderedDeps_spec g r hr fuel m hf orders hord
  exact ⟨res, h1, h2, h3⟩

/-- … and lists every module after all the modules it depends on. -/
theorem orderedDeps_topological (g : Graph) (r : Mod → Nat) (hr : Ranked g r) (fuel : Nat) (m : Mod) (hf : r m < fuel)
    (orders : Nat → List Mod) (hord : ∀ k x, Reach g m x → x ∈ orders k) :
    ∃ res, orderedDeps g fuel orders m = some res ∧ topoFrom g [] res := by
  obtain ⟨res, h1, _, _, h4⟩ := orderedDeps_spec g r hr fuel m hf orders hord
  exact ⟨res, h1, h4⟩

/-- non-vacuity: two different iteration orders, two different (both topological) results. -/
example : orderedDeps diamondish 5 (fun _ => [0, 1]) 2 = some [0, 1] ∧
    orderedDeps diamondish 5 (fun _ => [1, 0]) 2 = some [0, 1] ∧
    orderedDeps { n := 3, deps := [[], [], [0, 1]] } 5 (fun _ => [1, 0]) 2 = some [1, 0] := by decide

/-! ### `InitModuleServices` -/

/-- Every needed module is initialised exactly once and after all the modules it depends on: the
`initFn` call order is the sub-sequence (modules with an `initFn`) of a duplicate-free list that lists
every module after its dependencies … -/
theorem init_once_in_order (g : Graph) (cfg : Cfg) (r : Mod → Nat) (hr : Ranked g r) (fuel : Nat)
    (orders : Nat → Nat → List Mod) (targets : List Mod) (st : InitState)
    (hfuel : ∀ t ∈ targets, r t < fuel) (hord : ∀ c k t x, t ∈ targets → Reach g t x → x ∈ orders c k)
    (h : initModules g cfg fuel orders 0 targets {} = .ok st) :
    ∃ inited : List Mod, inited.Nodup ∧ topoFrom g [] inited ∧ st.log = inited.filter (hasInitOf cfg) ∧
      ∀ x, Needed g targets x → x ∈ inited := by
  obtain ⟨l, h1, h2, h3, h4⟩ := init_spec g cfg r hr fuel orders targets st hfuel hord h
  exact ⟨l, h1, h2, h4, fun x hx => (h3 x).mpr hx⟩

/-- … and modules that are not needed (neither a target nor a transitive dependency of one) are not
initialised; nor is anything initialised twice. -/
theorem init_only_needed (g : Graph) (cfg : Cfg) (r : Mod → Nat) (hr : Ranked g r) (fuel : Nat)
    (orders : Nat → Nat → List Mod) (targets : List Mod) (st : InitState)
    (hfuel : ∀ t ∈ targets, r t < fuel) (hord : ∀ c k t x, t ∈ targets → Reach g t x → x ∈ orders c k)
    (h : initModules g cfg fuel orders 0 targets {} = .ok st) :
    st.log.Nodup ∧ ∀ x ∈ st.log, Needed g targets x ∧ hasInitOf cfg x = true := by
  obtain ⟨l, h1, _, h3, h4⟩ := init_spec g cfg r hr fuel orders targets st hfuel hord h
  rw [h4]
  refine ⟨h1.sublist List.filter_sublist, fun x hx => ?_⟩
  rw [List.mem_filter] at hx
  exact ⟨(h3 x).mp hx.1, hx.2⟩

example : (initModules diamondish { hasInit := [true, false, true], initErr := [], hasSvc := [true, true, true] } 5
    (fun _ _ => [1, 0]) 0 [1, 2] {}).map (·.log) = .ok [0, 2] := by decide

/-! ### run time: the wrappers -/

/-- A module's own service is started only after the wrappers of all its (transitive) dependencies
have been Running — in every reachable state of the system of wrappers, for every schedule. -/
theorem start_after_deps (mods : List Mod) (sd td : Mod → List Mod) (evs : List REv) :
    let s := (Sys.init mods sd td).run evs
    ∀ m, (s.st m).inner ≠ .new → ∀ d ∈ s.startDeps m, (s.st d).wasRunning = true := by
  intro s m hm
  exact (rinv_run _ (rinv_init mods sd td) evs).deps m (Or.inl hm)

/-- A service that has been running is asked to stop (by its wrapper) only when the wrapper of every
module depending on it is Terminated or Failed. -/
theorem stop_after_dependants (mods : List Mod) (sd td : Mod → List Mod) (evs : List REv) :
    let s := (Sys.init mods sd td).run evs
    ∀ m, (s.st m).iStopReq = true → (s.st m).wasRunning = true → ∀ k ∈ s.stopDeps m, (s.st k).ph.terminal = true := by
  intro s m h1 h2
  have hi := rinv_run _ (rinv_init mods sd td) evs
  rcases hi.req m h1 with h | h
  · exact hi.stopped m h
  · rw [h2] at h; cases h

/-- If a dependency fails to start (its wrapper is Failed and was never Running), the service of a
dependant is never started, and a dependant that was started can only end Failed. -/
theorem dep_failure_propagates (mods : List Mod) (sd td : Mod → List Mod) (evs : List REv) :
    let s := (Sys.init mods sd td).run evs
    ∀ d, (s.st d).ph = .failed → (s.st d).wasRunning = false →
      ∀ m, d ∈ s.startDeps m → (s.st m).inner = .new ∧ ((s.st m).started = true → (s.st m).ph ≠ .term ∧ (s.st m).ph ≠ .run) := by
  intro s d _ hw m hd
  have hi := rinv_run _ (rinv_init mods sd td) evs
  refine ⟨?_, fun hs => ⟨?_, ?_⟩⟩
  · apply Classical.byContradiction
    intro hne
    have := hi.deps m (Or.inl hne) d hd
    rw [hw] at this; cases this
  · intro ht
    have := hi.deps m (Or.inr (Or.inr ⟨ht, hs⟩)) d hd
    rw [hw] at this; cases this
  · intro hr
    have := hi.deps m (Or.inr (Or.inl (by rw [hr]; rfl))) d hd
    rw [hw] at this; cases this

/-- Liveness-style complement: once a dependency `d` has failed to start this is permanent, and as long
as a started dependant `m` has not terminated it is still waiting for its dependencies, the step in which
it looks at `d` is enabled, and that step makes it Failed. (That the goroutine gets to that step is
fairness of the Go scheduler plus the other dependencies' latches closing: not modelled.) -/
theorem dep_failure_propagates_progress (mods : List Mod) (sd td : Mod → List Mod) (evs more : List REv) :
    let s := (Sys.init mods sd td).run evs
    ∀ d m, d ∈ s.startDeps m → (s.st d).ph = .failed → (s.st d).wasRunning = false →
      (((s.run more).st d).ph = .failed ∧ ((s.run more).st d).wasRunning = false) ∧
      ((s.st m).started = true → (s.st m).ph.terminal = false →
        (∃ ok, (s.st m).ph = .waitDeps ok) ∧ ((s.step (.awaitFail m d)).st m).ph = .failed) := by
  intro s d m hd hf hw
  exact ⟨failed_to_start_stable_run s more d hf hw,
    fun hs hnt => fail_step_enabled s (rinv_run _ (rinv_init mods sd td) evs) m d hd hf hw hs hnt⟩

/-- non-vacuity: module 1 depends on module 0; 0 starts and runs, then 1's service is started; and a
run in which 0 fails to start, so that 1 (started) fails without its service ever being started. -/
example :
    let s := (Sys.init [0, 1] (fun m => if m = 1 then [0] else []) (fun m => if m = 0 then [1] else [])).run
      [.wStart 0, .wStart 1, .depsDone 0, .iStartRet 0 true, .innerUp 0, .awaitOk 1 0, .depsDone 1]
    (s.st 1).inner = .starting ∧ (s.st 0).wasRunning = true := by decide
example :
    let s := (Sys.init [0, 1] (fun m => if m = 1 then [0] else []) (fun m => if m = 0 then [1] else [])).run
      [.wStart 0, .wStart 1, .depsDone 0, .iStartRet 0 false, .innerStartFailed 0, .cleanupDone 0, .awaitFail 1 0]
    (s.st 0).ph = .failed ∧ (s.st 0).wasRunning = false ∧ (s.st 1).ph = .failed ∧ (s.st 1).inner = .new := by decide

end PC18
