import Model.C18
import Proofs.C18
import Proofs.C18.Graph
import Proofs.C18.Init
import Proofs.C18.InitFail
import Proofs.C18.Run
import Proofs.C18.Live
import Proofs.C18.Tie
import Proofs.C18.Fair
import Proofs.C18.Mgr
/-!
# C18 — property theorems (statements; proofs live in `Proofs/C18/*.lean`)

Graphs are arbitrary finite graphs (`Graph`: any number of modules, any dependency lists, duplicates
allowed); `Acyclic g` = there is a rank that strictly decreases along every dependency edge (and the
dependency lists mention registered modules only). Go's map iteration order is the parameter `orders`
(one list per pass / per `initModule` call): every theorem holds for EVERY choice that visits all keys.
`fuel` bounds the recursion depth of `listDeps` (Go: the stack); any value above the rank suffices.
-/
namespace PC18
open C18 PfC18

/-! ### `AddDependency` -/

/-- Adding a dependency that would close a cycle is rejected: if `AddDependency` succeeds on an acyclic
graph the graph is still acyclic — for every graph, every module, every list of new dependencies
(self dependencies and back edges through any number of existing edges included). -/
theorem add_dependency_rejects_cycles (g : Graph) (hg : Acyclic g) (fuel : Nat) (name : Mod) (ds : List Mod)
    (g' : Graph) (h : addDependency g fuel name ds = (.ok, g')) : Acyclic g' :=
  addDependency_acyclic g hg fuel name ds g' h

/-- … and nothing else is: `AddDependency` succeeds EXACTLY when module and new dependencies are registered,
none of them is the module itself and none already (transitively) depends on it — i.e. exactly when the
new edges close no cycle. (Soundness alone would hold of a function that rejects everything.) -/
theorem add_dependency_accepts_iff_no_cycle (g : Graph) (hg : Acyclic g) (name : Mod) (ds : List Mod) :
    (addDependency g (g.n + 1) name ds).1 = .ok ↔
      name < g.n ∧ ∀ d ∈ ds, d < g.n ∧ d ≠ name ∧ ¬ Reach g d name :=
  addDependency_ok_iff g hg name ds

/- HISTORY (defect D3, fixed by a0dd941 "modules.AddDependency accepts a module depending on itself"):
before the fix the check loop had no `newDep == name` test (`C18.addCheckOld`), the theorem above was
only provable with the guard `∀ d ∈ ds, d ≠ name` (then named `add_dependency_rejects_cycles_partial`),
and the following witness showed why. It is a statement about the OLD definition only. -/

/-- the old rule accepted `AddDependency("a", "a")`, after which `listDeps` never returns. -/
theorem self_dependency_was_accepted :
    (addDependencyOld (Graph.empty 1) 3 0 [0]).1 = .ok ∧
    (∀ fuel, listDeps (addDependencyOld (Graph.empty 1) 3 0 [0]).2 fuel 0 = none) ∧
    ¬ Acyclic (addDependencyOld (Graph.empty 1) 3 0 [0]).2 ∧
    (addDependency (Graph.empty 1) 3 0 [0]).1 = .circular := by
  have hd : (addDependencyOld (Graph.empty 1) 3 0 [0]).2.depsOf 0 = [0] := by decide
  refine ⟨by decide, listDeps_self_loop _ 0 (by rw [hd]; simp), ?_, by decide⟩
  intro hac
  exact hac.irrefl 0 (.direct (by rw [hd]; simp))

/-- a concrete acyclic graph (2 depends on 0 and 1, 1 depends on 0), used by the non-vacuity examples. -/
def diamondish : Graph := { n := 3, deps := [[], [0], [0, 1]] }

theorem diamondish_acyclic : Acyclic diamondish := by
  refine ⟨⟨fun x => x, ?_⟩, ?_, rfl⟩
  · intro m d hd
    show d < m
    match m with
    | 0 => simp [diamondish, Graph.depsOf] at hd
    | 1 => simp [diamondish, Graph.depsOf] at hd; subst hd; decide
    | 2 => simp [diamondish, Graph.depsOf] at hd; rcases hd with rfl | rfl <;> decide
    | k + 3 => simp [diamondish, Graph.depsOf] at hd
  · intro m d hd
    match m with
    | 0 => simp [diamondish, Graph.depsOf] at hd
    | 1 => simp [diamondish, Graph.depsOf] at hd; simp [diamondish, hd]
    | 2 => simp [diamondish, Graph.depsOf] at hd; rcases hd with rfl | rfl <;> simp [diamondish]
    | k + 3 => simp [diamondish, Graph.depsOf] at hd

/-- non-vacuity: a legal edge is accepted; a back edge and a self dependency are rejected. -/
example : (addDependency diamondish 5 1 [0]).1 = .ok ∧ (addDependency diamondish 5 0 [2]).1 = .circular ∧
    (addDependency diamondish 5 1 [1]).1 = .circular ∧ (addDependency diamondish 5 2 [0, 2]).1 = .circular := by decide

/-! ### `listDeps` / `orderedDeps` -/

/-- `listDeps` returns on every acyclic graph (recursion depth at most the rank), and what it returns
is exactly the set of transitive dependencies. -/
theorem listDeps_terminates_on_acyclic (g : Graph) (r : Mod → Nat) (hr : Ranked g r) (fuel : Nat) (m : Mod)
    (h : r m < fuel) : ∃ l, listDeps g fuel m = some l ∧ ∀ x, x ∈ l ↔ Reach g m x := by
  obtain ⟨l, hl⟩ := listDeps_some g r hr fuel m h
  exact ⟨l, hl, listDeps_mem g fuel m l hl⟩

/-- … and for a module on a dependency cycle of any length (a self dependency in particular) it never
returns: acyclicity is exactly what the callers of `listDeps` rely on. -/
theorem listDeps_diverges_on_cycle (g : Graph) (m : Mod) (h : Reach g m m) : ∀ fuel, listDeps g fuel m = none :=
  fun fuel => listDeps_cycle g fuel m h

/-- `listDeps` returns for every module **iff** the graph is acyclic (finite graph whose dependency
lists mention registered modules only): "a rank exists" and "no module reaches itself" coincide there. -/
theorem listDeps_terminates_iff_acyclic (g : Graph) (hclosed : ∀ m, ∀ d ∈ g.depsOf m, d < g.n) :
    ((∀ m, ∃ fuel l, listDeps g fuel m = some l) ↔ ∃ r, Ranked g r) ∧
    ((∃ r, Ranked g r) ↔ ∀ m, ¬ Reach g m m) :=
  ⟨listDeps_terminates_iff g hclosed,
   ⟨fun ⟨_, hr⟩ m hm => Nat.lt_irrefl _ (hr.reach hm), ranked_of_no_cycle g hclosed⟩⟩

/-- `orderedDeps(m)` contains exactly the transitive dependencies of `m`, each once — for every
acyclic graph and every map iteration order. -/
theorem orderedDeps_exact (g : Graph) (r : Mod → Nat) (hr : Ranked g r) (fuel : Nat) (m : Mod) (hf : r m < fuel)
    (orders : Nat → List Mod) (hord : ∀ k x, Reach g m x → x ∈ orders k) :
    ∃ res, orderedDeps g fuel orders m = some res ∧ res.Nodup ∧ ∀ x, x ∈ res ↔ Reach g m x := by
  obtain ⟨res, h1, h2, h3, _⟩ := orderedDeps_spec g r hr fuel m hf orders hord
  exact ⟨res, h1, h2, h3⟩

/-- … and lists every module after all the modules it depends on. -/
theorem orderedDeps_topological (g : Graph) (r : Mod → Nat) (hr : Ranked g r) (fuel : Nat) (m : Mod) (hf : r m < fuel)
    (orders : Nat → List Mod) (hord : ∀ k x, Reach g m x → x ∈ orders k) :
    ∃ res, orderedDeps g fuel orders m = some res ∧ topoFrom g [] res := by
  obtain ⟨res, h1, _, _, h4⟩ := orderedDeps_spec g r hr fuel m hf orders hord
  exact ⟨res, h1, h4⟩

/-- non-vacuity: two different iteration orders, two different (both topological) results. -/
example : orderedDeps diamondish 5 (fun _ => [0, 1]) 2 = some [0, 1] ∧
    orderedDeps diamondish 5 (fun _ => [1, 0]) 2 = some [0, 1] ∧
    orderedDeps { n := 3, deps := [[], [], [0, 1]] } 5 (fun _ => [1, 0]) 2 = some [1, 0] := by decide

/-! ### `InitModuleServices` -/

/-- Every needed module is initialised exactly once and after all the modules it depends on: the
`initFn` call order is the sub-sequence (modules with an `initFn`) of a duplicate-free list that lists
every module after its dependencies … -/
theorem init_once_in_order (g : Graph) (cfg : Cfg) (r : Mod → Nat) (hr : Ranked g r) (fuel : Nat)
    (orders : Nat → Nat → List Mod) (targets : List Mod) (st : InitState)
    (hfuel : ∀ t ∈ targets, r t < fuel) (hord : ∀ c k t x, t ∈ targets → Reach g t x → x ∈ orders c k)
    (h : initModules g cfg fuel orders 0 targets {} = .ok st) :
    ∃ inited : List Mod, inited.Nodup ∧ topoFrom g [] inited ∧ st.log = inited.filter (hasInitOf cfg) ∧
      ∀ x, Needed g targets x → x ∈ inited := by
  obtain ⟨l, h1, h2, h3, h4⟩ := init_spec g cfg r hr fuel orders targets st hfuel hord h
  exact ⟨l, h1, h2, h4, fun x hx => (h3 x).mpr hx⟩

/-- … and modules that are not needed (neither a target nor a transitive dependency of one) are not
initialised; nor is anything initialised twice. -/
theorem init_only_needed (g : Graph) (cfg : Cfg) (r : Mod → Nat) (hr : Ranked g r) (fuel : Nat)
    (orders : Nat → Nat → List Mod) (targets : List Mod) (st : InitState)
    (hfuel : ∀ t ∈ targets, r t < fuel) (hord : ∀ c k t x, t ∈ targets → Reach g t x → x ∈ orders c k)
    (h : initModules g cfg fuel orders 0 targets {} = .ok st) :
    st.log.Nodup ∧ ∀ x ∈ st.log, Needed g targets x ∧ hasInitOf cfg x = true := by
  obtain ⟨l, h1, _, h3, h4⟩ := init_spec g cfg r hr fuel orders targets st hfuel hord h
  rw [h4]
  refine ⟨h1.sublist List.filter_sublist, fun x hx => ?_⟩
  rw [List.mem_filter] at hx
  exact ⟨(h3 x).mp hx.1, hx.2⟩

example : (initModules diamondish { hasInit := [true, false, true], initErr := [], hasSvc := [true, true, true] } 5
    (fun _ _ => [1, 0]) 0 [1, 2] {}).map (·.log) = .ok [0, 2] := by decide

/-! ### `InitModuleServices`: the failing exits

`initModulesT` is `initModules` that also returns the state at the moment the error is returned
(`init_exits_agree`): `inited` = initMap, `log` = the `initFn` calls made, `svcs` = keys of servicesMap. -/

theorem init_exits_agree (g : Graph) (cfg : Cfg) (fuel : Nat) (orders : Nat → Nat → List Mod) (ts : List Mod) :
    initModules g cfg fuel orders 0 ts {} = match initModulesT g cfg fuel orders 0 ts {} with
      | (s, none) => .ok s
      | (_, some e) => .error e :=
  initModules_eq g cfg fuel orders 0 ts {}

/-- **An init function returns an error.** The error names the module whose `initFn` failed; that
module is needed, its call is the last one made, it is not marked initialised, and every module it
(transitively) depends on had been initialised before. -/
theorem init_error_names_failing_module (g : Graph) (cfg : Cfg) (r : Mod → Nat) (hr : Ranked g r) (fuel : Nat)
    (orders : Nat → Nat → List Mod) (targets : List Mod) (st : InitState) (n : Mod)
    (hfuel : ∀ t ∈ targets, r t < fuel) (hord : ∀ c k t x, t ∈ targets → Reach g t x → x ∈ orders c k)
    (h : initModulesT g cfg fuel orders 0 targets {} = (st, some (.initFailed n))) :
    hasInitOf cfg n = true ∧ initErrOf cfg n = true ∧ Needed g targets n ∧ n ∉ st.inited ∧
      st.log = st.inited.filter (hasInitOf cfg) ++ [n] ∧ ∀ d, Reach g n d → d ∈ st.inited := by
  have hp := (init_all_exits g cfg r hr fuel orders targets hfuel hord).2
  rw [h] at hp
  obtain ⟨pre, t, post, htg, hnt, h1, h2, h3, h4, h5, _, _, _⟩ := hp
  refine ⟨h2, h3, ?_, h1, h4, h5⟩
  have htm : t ∈ targets := by rw [htg]; simp
  rcases hnt with rfl | hnt
  · exact Or.inl htm
  · exact Or.inr ⟨t, htm, hnt⟩

/-- … and no module that depends on the failed one has been initialised; what has been initialised is
a duplicate-free, dependency-ordered list of needed modules whose own init functions all succeeded, and
only the targets up to the one being processed were touched. -/
theorem init_error_no_dependant_initialised (g : Graph) (cfg : Cfg) (r : Mod → Nat) (hr : Ranked g r) (fuel : Nat)
    (orders : Nat → Nat → List Mod) (targets : List Mod) (st : InitState) (n : Mod)
    (hfuel : ∀ t ∈ targets, r t < fuel) (hord : ∀ c k t x, t ∈ targets → Reach g t x → x ∈ orders c k)
    (h : initModulesT g cfg fuel orders 0 targets {} = (st, some (.initFailed n))) :
    (∀ x ∈ st.inited, ¬ Reach g x n) ∧ st.inited.Nodup ∧ topoFrom g [] st.inited ∧
      (∀ x ∈ st.inited, hasInitOf cfg x = true → initErrOf cfg x = false) ∧
      ∃ pre t post, targets = pre ++ t :: post ∧ (n = t ∨ Reach g t n) ∧
        (∀ x ∈ st.inited, Needed g (pre ++ [t]) x) ∧ (∀ x, Needed g pre x → x ∈ st.inited) := by
  obtain ⟨hi, hp⟩ := init_all_exits g cfg r hr fuel orders targets hfuel hord
  rw [h] at hp hi
  obtain ⟨pre, t, post, htg, hnt, _, _, _, _, _, h6, h7, h8⟩ := hp
  exact ⟨h6, hi.nodup, hi.topo, hi.clean, pre, t, post, htg, hnt, h7, h8⟩

/-- **Unknown target.** The error names the first target that is not registered; the targets before it
have been initialised completely and exactly (as in the success case), nothing else has. -/
theorem init_unknown_target (g : Graph) (cfg : Cfg) (r : Mod → Nat) (hr : Ranked g r) (fuel : Nat)
    (orders : Nat → Nat → List Mod) (targets : List Mod) (st : InitState) (t : Mod)
    (hfuel : ∀ t ∈ targets, r t < fuel) (hord : ∀ c k t x, t ∈ targets → Reach g t x → x ∈ orders c k)
    (h : initModulesT g cfg fuel orders 0 targets {} = (st, some (.unrecognised t))) :
    ∃ pre post, targets = pre ++ t :: post ∧ g.has t = false ∧ (∀ u ∈ pre, g.has u = true) ∧
      st.log = st.inited.filter (hasInitOf cfg) ∧ (∀ x, x ∈ st.inited ↔ Needed g pre x) ∧
      st.inited.Nodup ∧ topoFrom g [] st.inited := by
  obtain ⟨hi, hp⟩ := init_all_exits g cfg r hr fuel orders targets hfuel hord
  rw [h] at hp hi
  obtain ⟨pre, post, h1, h2, h3, h4, h5⟩ := hp
  exact ⟨pre, post, h1, h2, h3, h4, h5, hi.nodup, hi.topo⟩

/-- **Nil service / every exit.** Whatever the exit, `servicesMap` holds exactly the initialised modules
whose `initFn` exists and returned a non-nil service (a module whose `initFn` returns a nil service is
initialised but gets no wrapper); success requires every target to be registered; and the recursion of
`listDeps` always bottoms out (no `crash` exit on an acyclic graph). -/
theorem init_services_map (g : Graph) (cfg : Cfg) (r : Mod → Nat) (hr : Ranked g r) (fuel : Nat)
    (orders : Nat → Nat → List Mod) (targets : List Mod)
    (hfuel : ∀ t ∈ targets, r t < fuel) (hord : ∀ c k t x, t ∈ targets → Reach g t x → x ∈ orders c k) :
    let res := initModulesT g cfg fuel orders 0 targets {}
    res.1.svcs = res.1.inited.filter (fun x => hasInitOf cfg x && hasSvcOf cfg x) ∧
    (res.2 = none → ∀ t ∈ targets, g.has t = true) ∧ res.2 ≠ some .crash := by
  intro res
  obtain ⟨hi, hp⟩ := init_all_exits g cfg r hr fuel orders targets hfuel hord
  refine ⟨hi.svcs, ?_, ?_⟩
  · intro hn
    unfold ModsPost at hp
    rw [show (initModulesT g cfg fuel orders 0 targets {}).2 = none from hn] at hp
    exact hp.1
  · intro hc
    unfold ModsPost at hp
    rw [show (initModulesT g cfg fuel orders 0 targets {}).2 = some .crash from hc] at hp
    exact hp

/-- **Dependency cycles.** Every graph that can be built by registering `n` modules and calling
`AddDependency` any number of times (accepted or rejected) is acyclic, `AddDependency` itself never
recurses without bound on it, and so `InitModuleServices` never does either (`init_services_map`
with the bounded rank below: recursion depth at most `n + 1`). -/
theorem graphs_built_by_AddDependency_are_acyclic (n : Nat) (calls : List (Mod × List Mod)) :
    Acyclic (buildGraph n calls) ∧ (buildGraph n calls).n = n ∧
    (∃ r, Ranked (buildGraph n calls) r ∧ ∀ m, r m < n + 1) ∧
    ∀ name ds, (addDependency (buildGraph n calls) (n + 1) name ds).1 ≠ .crash := by
  obtain ⟨h1, h2⟩ := buildGraph_acyclic n calls
  obtain ⟨r, hr, hb⟩ := ranked_bounded _ h1
  refine ⟨h1, h2, ⟨r, hr, fun m => by have := hb m; omega⟩, fun name ds => ?_⟩
  have := addDependency_no_crash _ h1 name ds
  rwa [h2] at this

/-- **User-invisible modules.** Options only ever hide a module: a user-visible module is targetable,
the last option wins; `InitModuleServices` does not look at either flag (it is not a parameter of
`initModules`), so an invisible or non-targetable module initialises like any other. -/
theorem module_options (opts : List ModOpt) (o : ModOpt) :
    ((applyOpts opts).1 = true → (applyOpts opts).2 = true) ∧ applyOpts [] = (true, true) ∧
    applyOpts (opts ++ [.userInvisible]) = (false, false) ∧
    applyOpts (opts ++ [.userInvisibleTargetable]) = (false, true) :=
  ⟨applyOpts_visible_targetable opts, rfl, applyOpts_last_wins opts .userInvisible,
   applyOpts_last_wins opts .userInvisibleTargetable⟩

/-- non-vacuity: module 1 (needed by 2) fails: 0 was initialised, 2 is not; an unknown target after a good one. -/
example :
    initModulesT diamondish { hasInit := [true, true, true], initErr := [false, true, false], hasSvc := [true, true, true] } 5
      (fun _ _ => [0, 1]) 0 [2] {} = ({ inited := [0], log := [0, 1], svcs := [0] }, some (.initFailed 1)) ∧
    initModulesT diamondish { hasInit := [true, true, true], initErr := [], hasSvc := [true, false, true] } 5
      (fun _ _ => [0, 1]) 0 [1, 7, 2] {} = ({ inited := [0, 1], log := [0, 1], svcs := [0] }, some (.unrecognised 7)) := by
  decide

/-! ### run time: the wrappers

`wrun g svcs evs` = the state of the system `InitModuleServices` builds for graph `g` when `svcs` are the
modules with a service (`wrapperSys`: wrapper `m` gets `DependenciesForModule(m)` and
`inverseDependenciesForModule(m)`, filtered by "has a service"), after the events `evs` — any schedule of
wrapper starts/stops, waits returning, and inner-service functions returning nil or an error. -/

/-- `DependenciesForModule` / `inverseDependenciesForModule` are what their names say, on every acyclic graph. -/
theorem dependency_queries_spec (g : Graph) (hg : Acyclic g) (m : Mod) :
    (∃ l, dependenciesFor g (g.n + 1) m = some l ∧ ∀ x, x ∈ l ↔ Reach g m x) ∧
    (∃ l, inverseDeps g (g.n + 1) m = some l ∧ ∀ x, x ∈ l ↔ x < g.n ∧ Reach g x m) := by
  obtain ⟨r, hr, hb⟩ := ranked_bounded g hg
  have hf : ∀ m, r m < g.n + 1 := fun m => by have := hb m; omega
  obtain ⟨l, hl⟩ := dependenciesFor_some g r hr _ hf m
  exact ⟨⟨l, hl, dependenciesFor_mem g _ m l hl⟩, inverseDeps_spec g r hr _ hf m⟩

/-- **The wrappers wait for the graph's dependencies**: wrapper `m` awaits at start exactly the service
modules `m` transitively depends on (also through modules without a service), and at stop exactly the
service modules that transitively depend on `m` — in every reachable state. -/
theorem wrapper_dependency_sets (g : Graph) (hg : Acyclic g) (svcs : List Mod) (evs : List REv) (m x : Mod) :
    (x ∈ (wrun g svcs evs).startDeps m ↔ x ∈ svcs ∧ Reach g m x) ∧
    (x ∈ (wrun g svcs evs).stopDeps m ↔ x ∈ svcs ∧ x < g.n ∧ Reach g x m) :=
  wrun_deps g hg svcs evs m x

/-- A module's own service is started only after the wrapper of EVERY service module it transitively
depends on has been Running ("has been", not "is still": the wrapper awaits its dependencies one after
another, so an early one may already be stopping again — this is the reading of the code). -/
theorem start_after_deps (g : Graph) (hg : Acyclic g) (svcs : List Mod) (evs : List REv) (m d : Mod)
    (hd : d ∈ svcs) (hr : Reach g m d) (hi : ((wrun g svcs evs).st m).inner ≠ .new) :
    ((wrun g svcs evs).st d).wasRunning = true :=
  g_start_after_deps g hg svcs evs m d hd hr hi

/-- A wrapper's `stop` asks the inner service to stop only when the wrapper of every service module that
depends on it is Terminated or Failed (`stoppedByWrapper`); the only other stop request is the clean-up after
a failed or cancelled start, which happens only while the wrapper has never been Running — and then no
dependant's service has been started at all. -/
theorem stop_after_dependants (g : Graph) (hg : Acyclic g) (svcs : List Mod) (evs : List REv) (m : Mod) :
    (((wrun g svcs evs).st m).stoppedByWrapper = true →
      ∀ x ∈ svcs, x < g.n → Reach g x m → ((wrun g svcs evs).st x).ph.terminal = true) ∧
    (((wrun g svcs evs).st m).iStopReq = true → ((wrun g svcs evs).st m).stoppedByWrapper = false →
      ((wrun g svcs evs).st m).wasRunning = false ∧
      ∀ x ∈ svcs, Reach g x m → m ∈ svcs → ((wrun g svcs evs).st x).inner = .new) :=
  g_stop_after_dependants g hg svcs evs m

/-- If a dependency fails to start (its wrapper is Failed and was never Running) this is permanent, the
service of every module depending on it is never started, and such a module, once started, can never be
Running nor end Terminated: it can only end Failed. (That it does end: `dep_failure_propagates_progress`.) -/
theorem dep_failure_propagates (g : Graph) (hg : Acyclic g) (svcs : List Mod) (evs more : List REv) (d : Mod)
    (hd : d ∈ svcs) (hf : ((wrun g svcs evs).st d).ph = .failed) (hw : ((wrun g svcs evs).st d).wasRunning = false)
    (m : Mod) (hr : Reach g m d) :
    let s' := wrun g svcs (evs ++ more)
    (s'.st d).ph = .failed ∧ (s'.st m).inner = .new ∧
      ((s'.st m).started = true → (s'.st m).ph ≠ .term ∧ (s'.st m).ph ≠ .run) :=
  g_dep_failure g hg svcs evs more d hd hf hw m hr

/-- … and as long as such a started dependant has not terminated it is still waiting for its dependencies,
the step in which it looks at the failed dependency is enabled, and that step makes it Failed.
(`_partial`: kept as the one-step statement; the liveness statement itself — on every weakly fair schedule
every started dependant ends Failed — is `dep_failure_propagates_eventually(_all)` below, with
`dep_failure_needs_fairness_witness` showing that fairness of the wrapper goroutines is needed.) -/
theorem dep_failure_propagates_progress_partial (g : Graph) (hg : Acyclic g) (svcs : List Mod) (evs : List REv)
    (d m : Mod) (hd : d ∈ svcs) (hr : Reach g m d)
    (hf : ((wrun g svcs evs).st d).ph = .failed) (hw : ((wrun g svcs evs).st d).wasRunning = false)
    (hs : ((wrun g svcs evs).st m).started = true) (hnt : ((wrun g svcs evs).st m).ph.terminal = false) :
    (∃ ok, ((wrun g svcs evs).st m).ph = .waitDeps ok) ∧
      (((wrun g svcs evs).step (.awaitFail m d)).st m).ph = .failed :=
  fail_step_enabled _ (wrapperSys_rinv g _ svcs evs) m d ((wrun_deps g hg svcs evs m d).1.mpr ⟨hd, hr⟩) hf hw hs hnt

/-- **The system of wrappers can always finish** (liveness without fairness), for every acyclic graph and
every set of service modules: from every reachable state the fixed computable schedule
`finishSchedule svcs` leaves every module Terminated or Failed — no reachable state is a deadlock among
the wrapper services. Every state on the way is reachable, so `stop_after_dependants` holds throughout. -/
theorem system_can_always_finish (g : Graph) (hg : Acyclic g) (svcs : List Mod) (evs : List REv) :
    ∀ m ∈ svcs, (((wrun g svcs evs).run (finishSchedule svcs)).st m).ph.terminal = true :=
  g_can_finish g hg svcs evs

/-- the hypothesis `Acyclic` is necessary for finishing: two wrappers each listed as the other's dependant
(impossible for a graph built with `AddDependency`) wait for each other forever under the schedule. -/
theorem system_can_always_finish_needs_acyclic_witness :
    let s : Sys := { mods := [0, 1], startDeps := fun _ => [], stopDeps := fun m => if m = 0 then [1] else [0],
                     st := fun _ => { ph := .stopWait, inner := .running } }
    ((s.run (finishSchedule [0, 1])).st 0).ph = .stopWait := by
  decide +kernel

/-- non-vacuity on a graph: 2 depends on 1 depends on 0, module 1 has no service. 2's wrapper waits for 0
(through 1); 0 runs, then 2's service is started; stopping: 0's service is asked to stop only after 2 is done. -/
example :
    let g : Graph := { n := 3, deps := [[], [0], [1]] }
    let s := wrun g [0, 2] [.wStart 0, .wStart 2, .depsDone 0, .iStartRet 0 true, .innerUp 0, .awaitOk 2 0, .depsDone 2]
    let s' := s.run (finishSchedule [0, 2])
    s.startDeps 2 = [0] ∧ s.stopDeps 0 = [2] ∧ (s.st 2).inner = .starting ∧ (s.st 0).wasRunning = true ∧
    (s'.st 0).ph = .term ∧ (s'.st 2).ph = .failed ∧ (s'.st 0).stoppedByWrapper = true := by
  decide +kernel

/-- non-vacuity: 0 fails to start, so 2 (started) fails without its service ever being started. -/
example :
    let g : Graph := { n := 3, deps := [[], [0], [1]] }
    let s := wrun g [0, 2] [.wStart 0, .wStart 2, .depsDone 0, .iStartRet 0 false, .innerStartFailed 0, .cleanupDone 0, .awaitFail 2 0]
    (s.st 0).ph = .failed ∧ (s.st 0).wasRunning = false ∧ (s.st 2).ph = .failed ∧ (s.st 2).inner = .new := by
  decide +kernel

/-! ### run time: liveness under weak fairness

Infinite schedules `σ : Nat → REv`; `runN s σ k` = state after the first `k` events. `WeaklyFair s σ`: every
step of a wrapper goroutine of a module of the system (`internalEvents`: a wait on a dependency returning,
the wrapper moving on inside `start` / `run` / `stop`) that stays enabled is eventually taken. For the Go
code: a wrapper goroutine blocked in `AwaitRunning(dep)` whose dependency's latch is closed, or runnable
inside `start`/`stop`, is eventually scheduled. NOTHING is assumed about the environment's events (starting
or stopping wrappers, the inner services' functions returning): they may never happen. -/

/-- **If a dependency fails to start, its dependants fail as well — eventually, on every fair schedule.**
`d` failed to start (Failed, never Running) after any history `evs`; `σ` any weakly fair continuation; `m`
any service module that (transitively) depends on `d`. Whenever `m` is started (at any position `n`, before
or after the failure), there is a later position from which on `m`'s wrapper is Failed for ever; and `m`'s
own service is never started. -/
theorem dep_failure_propagates_eventually (g : Graph) (hg : Acyclic g) (svcs : List Mod) (evs : List REv) (d : Mod)
    (hd : d ∈ svcs) (hf : ((wrun g svcs evs).st d).ph = .failed) (hw : ((wrun g svcs evs).st d).wasRunning = false)
    (σ : Nat → REv) (hfair : WeaklyFair (wrun g svcs evs) σ) (m : Mod) (hm : m ∈ svcs) (hr : Reach g m d)
    (n : Nat) (hs : ((runN (wrun g svcs evs) σ n).st m).started = true) :
    (∃ k, n ≤ k ∧ ∀ j, k ≤ j → ((runN (wrun g svcs evs) σ j).st m).ph = .failed) ∧
    ∀ j, ((runN (wrun g svcs evs) σ j).st m).inner = .new :=
  g_fair_dep_failure g hg svcs evs d hd hf hw σ hfair m hm hr n hs

/-- … with one bound for all the dependants started by position `n`: every fair schedule from a state with a
dependency that failed to start reaches a position after which ALL started dependants are Failed. -/
theorem dep_failure_propagates_eventually_all (g : Graph) (hg : Acyclic g) (svcs : List Mod) (evs : List REv) (d : Mod)
    (hd : d ∈ svcs) (hf : ((wrun g svcs evs).st d).ph = .failed) (hw : ((wrun g svcs evs).st d).wasRunning = false)
    (σ : Nat → REv) (hfair : WeaklyFair (wrun g svcs evs) σ) (n : Nat) :
    ∃ K, n ≤ K ∧ ∀ m ∈ svcs, Reach g m d → ((runN (wrun g svcs evs) σ n).st m).started = true →
      ∀ j, K ≤ j → ((runN (wrun g svcs evs) σ j).st m).ph = .failed :=
  g_fair_dep_failure_all g hg svcs evs d hd hf hw σ hfair n

/-- the fairness hypothesis is satisfiable from every state: round robin over the goroutine steps. -/
theorem fair_schedules_exist (s : Sys) (dflt : REv) : WeaklyFair s (roundRobin (internalEvents s.mods) dflt) :=
  roundRobin_weaklyFair s dflt

/-- the system of the example below: 2 depends on 1 depends on 0, module 1 without service; 0 failed to start, 2 is started. -/
def failedDepSys : Sys :=
  wrun { n := 3, deps := [[], [0], [1]] } [0, 2]
    [.wStart 0, .wStart 2, .depsDone 0, .iStartRet 0 false, .innerStartFailed 0, .cleanupDone 0]

/-- … and it is needed: on the schedule that for ever offers only a disabled event (the scheduler never
runs 2's goroutine) the started dependant 2 waits for ever; that schedule is not weakly fair. -/
theorem dep_failure_needs_fairness_witness :
    (∀ k, ((runN failedDepSys (fun _ => .wStop 0) k).st 2).ph = .waitDeps []) ∧
    ¬ WeaklyFair failedDepSys (fun _ => .wStop 0) := by
  have h0 : failedDepSys.local (.wStop 0) = none := by decide +kernel
  have hconst : ∀ k, runN failedDepSys (fun _ => .wStop 0) k = failedDepSys := runN_const_disabled _ _ h0
  have hph : (failedDepSys.st 2).ph = .waitDeps [] := by decide +kernel
  refine ⟨fun k => by rw [hconst k]; exact hph, fun hfair => ?_⟩
  obtain ⟨k, _, hk⟩ := hfair (.awaitFail 2 0) (by decide +kernel) 0
  rw [hconst k] at hk
  rcases hk with hk | hk
  · exact hk (by decide +kernel)
  · cases hk

/-- non-vacuity: the hypotheses of `dep_failure_propagates_eventually` on `failedDepSys` with the round-robin
schedule (weakly fair by `fair_schedules_exist`); 2 is Failed after its 26 events' first round. -/
example :
    (failedDepSys.st 0).ph = .failed ∧ (failedDepSys.st 0).wasRunning = false ∧ (failedDepSys.st 2).started = true ∧
    failedDepSys.mods = [0, 2] ∧ (internalEvents [0, 2]).length = 26 ∧
    ((runN failedDepSys (roundRobin (internalEvents [0, 2]) (.wStop 0)) 26).st 2).ph = .failed ∧
    ((runN failedDepSys (roundRobin (internalEvents [0, 2]) (.wStop 0)) 26).st 2).inner = .new := by
  decide +kernel

/-! ### managers built by ANY sequence of `RegisterModule` / `AddDependency` calls

`buildMgr calls` = the manager after the calls (`MCall.register m hasInit opts` / `MCall.addDep name deps`, results
ignored), starting from `NewManager`. Module numbers are handed out in order of first registration; a
`register` with a number already in use is `RegisterModule` on an existing name: the code stores a fresh
`*module`, so the module's OWN dependencies are dropped while edges pointing to it stay. -/

/-- **Every manager any call sequence can build is acyclic** (re-registration included: it only removes
edges), its rank is bounded by the number of modules, `AddDependency` and `DependenciesForModule` never recurse
without bound on it, and a user-visible module is always targetable. -/
theorem managers_built_by_any_calls_are_acyclic (calls : List MCall) :
    let M := buildMgr calls
    Acyclic M.g ∧ (∃ r, Ranked M.g r ∧ ∀ m, r m < M.g.n + 1) ∧
    M.hasInit.length = M.g.n ∧ M.flags.length = M.g.n ∧
    (∀ name ds, (addDependency M.g (M.g.n + 1) name ds).1 ≠ .crash) ∧
    (∀ m, M.dependenciesForModule (M.g.n + 1) m ≠ .crash) ∧
    (∀ m, M.isUserVisibleModule m = true → M.isTargetableModule m = true) := by
  intro M
  have hM : MInv M := minv_build calls
  obtain ⟨r, hr, hb⟩ := ranked_bounded _ hM.acyclic
  refine ⟨hM.acyclic, ⟨r, hr, fun m => by have := hb m; omega⟩, hM.lenInit, hM.lenFlags,
    fun name ds => addDependency_no_crash _ hM.acyclic name ds, fun m hc => ?_, fun m hv => ?_⟩
  · obtain ⟨h1, h2⟩ := dependenciesForModule_spec M hM m
    cases hh : M.g.has m with
    | false => rw [h1 hh] at hc; cases hc
    | true => obtain ⟨l, hl, _⟩ := h2 hh; rw [hl] at hc; cases hc
  · simp only [Mgr.isUserVisibleModule, Mgr.isTargetableModule, Bool.and_eq_true] at hv ⊢
    exact ⟨hv.1, hM.visTarget m hv.2⟩

/-- **`RegisterModule` on an existing name** (any manager built by calls, any registered `m`): afterwards `m`
has no dependencies, every other module's dependency list is untouched, no new path appears, and every
module that depended on `m` still does — its dependants are NOT detached. -/
theorem register_existing_drops_only_own_edges (calls : List MCall) (m : Mod) (hi : Bool) (opts : List ModOpt)
    (hm : m < (buildMgr calls).g.n) :
    let g := (buildMgr calls).g
    let g' := (buildMgr (calls ++ [.register m hi opts])).g
    g'.n = g.n ∧ g'.depsOf m = [] ∧ (∀ k, k ≠ m → g'.depsOf k = g.depsOf k) ∧
    (∀ a b, Reach g' a b → Reach g a b) ∧ (∀ x, Reach g x m → Reach g' x m) ∧ ∀ x, ¬ Reach g' m x := by
  intro g g'
  have hM : MInv (buildMgr calls) := minv_build calls
  have hg' : g' = resetGraph g m := by
    show (buildMgr (calls ++ [.register m hi opts])).g = _
    rw [buildMgr_snoc]; simp only [Mgr.call]; rw [registerModule_g, if_pos hm]
  have hd := depsOf_reset g hM.acyclic m hm
  rw [hg']
  refine ⟨rfl, by rw [hd, if_pos rfl], fun k hk => by rw [hd, if_neg hk],
    fun a b h => reset_reach_sub g hM.acyclic m hm h, fun x h => reset_keeps_dependants g hM.acyclic m hm h, fun x h => ?_⟩
  have : ∀ a b, Reach (resetGraph g m) a b → a ≠ m := by
    intro a b hab
    cases hab with
    | direct hk => rintro rfl; rw [hd, if_pos rfl] at hk; cases hk
    | step hk _ => rintro rfl; rw [hd, if_pos rfl] at hk; cases hk
  exact this m x h rfl

/-- **`RegisterModule` of a new name**: it gets the next number, has no dependencies, nothing depends on it,
and the rest of the graph is as before. -/
theorem register_new_module (calls : List MCall) (m : Mod) (hi : Bool) (opts : List ModOpt)
    (hm : ¬ m < (buildMgr calls).g.n) :
    let g := (buildMgr calls).g
    let g' := (buildMgr (calls ++ [.register m hi opts])).g
    g'.n = g.n + 1 ∧ g'.depsOf g.n = [] ∧ (∀ k, g'.depsOf k = g.depsOf k) ∧ (∀ a b, Reach g' a b ↔ Reach g a b) ∧
    ∀ x, ¬ Reach g' x g.n := by
  intro g g'
  have hM : MInv (buildMgr calls) := minv_build calls
  have hg' : g' = snocGraph g := by
    show (buildMgr (calls ++ [.register m hi opts])).g = _
    rw [buildMgr_snoc]; simp only [Mgr.call]; rw [registerModule_g, if_neg hm]
  rw [hg']
  have hnone : g.depsOf g.n = [] := depsOf_ge g g.n (by rw [hM.acyclic.len]; exact Nat.le_refl _)
  refine ⟨rfl, by rw [snocGraph, depsOf_snoc]; exact hnone, fun k => depsOf_snoc g k, fun a b => snoc_reach g a b, fun x h => ?_⟩
  have h' := (snoc_reach g x g.n).mp h
  have hlt : ∀ a b, Reach g a b → b < g.n := by
    intro a b hab
    induction hab with
    | direct hk => exact hM.acyclic.closed _ _ hk
    | step _ _ ih => exact ih
  exact Nat.lt_irrefl _ (hlt x g.n h')

/-- **The query functions** on every manager built by calls: `IsModuleRegistered` / `IsUserVisibleModule` /
`IsTargetableModule` of the module a `RegisterModule` call registered are exactly what its options say (the
LAST registration wins, earlier options and init function are forgotten), no other module's answers change;
`UserVisibleModuleNames` is sorted, duplicate free and lists exactly the user-visible registered modules;
`DependenciesForModule` of a registered module is exactly its set of transitive dependencies, and on a
name that is not registered it dereferences a nil `*module` (a panic — confirmed on the code by the
`C18.mgr` cases). -/
theorem module_queries_spec (calls : List MCall) (m : Mod) (hi : Bool) (opts : List ModOpt) :
    let M := buildMgr calls
    let M' := buildMgr (calls ++ [.register m hi opts])
    (M'.isModuleRegistered (regNumber M m) = true ∧ M'.isUserVisibleModule (regNumber M m) = (applyOpts opts).1 ∧
      M'.isTargetableModule (regNumber M m) = (applyOpts opts).2 ∧ M'.hasInit.getD (regNumber M m) false = hi ∧
      ∀ k, k ≠ regNumber M m → M'.isModuleRegistered k = M.isModuleRegistered k ∧
        M'.isUserVisibleModule k = M.isUserVisibleModule k ∧ M'.isTargetableModule k = M.isTargetableModule k) ∧
    (M.userVisibleModuleNames.Pairwise (· < ·) ∧ ∀ x, x ∈ M.userVisibleModuleNames ↔ M.isUserVisibleModule x = true) ∧
    (∀ x, M.isModuleRegistered x = false → M.dependenciesForModule (M.g.n + 1) x = .nilDeref) ∧
    (∀ x, M.isModuleRegistered x = true → ∃ l, M.dependenciesForModule (M.g.n + 1) x = .val l ∧ ∀ y, y ∈ l ↔ Reach M.g x y) := by
  intro M M'
  have hM : MInv M := minv_build calls
  have hM' : M' = registerModule M m hi opts := by
    show buildMgr (calls ++ [.register m hi opts]) = _
    rw [buildMgr_snoc]; rfl
  rw [hM']
  exact ⟨register_flags M hM m hi opts, userVisibleNames_spec M,
    fun x hx => (dependenciesForModule_spec M hM x).1 hx, fun x hx => (dependenciesForModule_spec M hM x).2 hx⟩

/-- **Initialisation order on every manager built by calls** (`init_once_in_order` / `init_only_needed` need no
acyclicity hypothesis any more): whatever the sequence of `RegisterModule` (new or repeated) and `AddDependency`
calls, a successful `InitModuleServices` calls the init functions of exactly the needed modules that have one,
once each, every module after all the modules it depends on IN THE FINAL GRAPH (dependencies dropped by a
re-registration do not count, dependants kept do). -/
theorem init_in_order_on_built_managers (calls : List MCall) (orders : Nat → Nat → List Mod) (targets : List Mod)
    (st : InitState)
    (hord : ∀ c k t x, t ∈ targets → Reach (buildMgr calls).g t x → x ∈ orders c k)
    (h : initModules (buildMgr calls).g (buildMgr calls).cfg ((buildMgr calls).g.n + 1) orders 0 targets {} = .ok st) :
    ∃ inited : List Mod, inited.Nodup ∧ topoFrom (buildMgr calls).g [] inited ∧
      st.log = inited.filter (hasInitOf (buildMgr calls).cfg) ∧ st.log.Nodup ∧
      (∀ x, Needed (buildMgr calls).g targets x → x ∈ inited) ∧
      ∀ x ∈ st.log, Needed (buildMgr calls).g targets x := by
  have hM : MInv (buildMgr calls) := minv_build calls
  obtain ⟨r, hr, hb⟩ := ranked_bounded _ hM.acyclic
  have hf : ∀ t ∈ targets, r t < (buildMgr calls).g.n + 1 := fun t _ => by have := hb t; omega
  obtain ⟨l, h1, h2, h3, h4⟩ := init_spec _ _ r hr _ orders targets st hf hord h
  refine ⟨l, h1, h2, h4, by rw [h4]; exact h1.sublist List.filter_sublist, fun x hx => (h3 x).mpr hx, fun x hx => ?_⟩
  rw [h4, List.mem_filter] at hx
  exact (h3 x).mp hx.1

/-- non-vacuity and the quirk in numbers: 0, 1, 2 registered, 2 → 1 → 0; then module 1 is registered AGAIN
(user-invisible now): 1 no longer depends on 0, 2 still depends on 1 but no longer (transitively) on 0;
`AddDependency(0, 2)` — a cycle before the re-registration — is now accepted, `AddDependency(1, 2)` is not. -/
example :
    let calls : List MCall := [.register 0 true [], .register 1 true [], .register 2 true [], .addDep 1 [0], .addDep 2 [1]]
    let M := buildMgr calls
    let M' := buildMgr (calls ++ [.register 1 false [.userInvisible]])
    M.dependenciesForModule 4 2 = .val [1, 0] ∧ (M.call (.addDep 0 [2])).1 = .circular ∧
    M'.dependenciesForModule 4 2 = .val [1] ∧ M'.dependenciesForModule 4 1 = .val [] ∧
    (M'.call (.addDep 0 [2])).1 = .ok ∧ (M'.call (.addDep 1 [2])).1 = .circular ∧
    M'.dependenciesForModule 4 7 = .nilDeref ∧ M.userVisibleModuleNames = [0, 1, 2] ∧ M'.userVisibleModuleNames = [0, 2] ∧
    M'.isTargetableModule 1 = false ∧ M'.hasInit = [true, false, true] ∧
    (initModules M'.g M'.cfg 4 (fun _ _ => [0, 1, 2]) 0 [2] {}).map (·.log) = .ok [2] := by
  decide +kernel

end PC18
